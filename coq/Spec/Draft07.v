(* Spec/Draft07.v — draft-ietf-oauth-selective-disclosure-jwt-07 §8.1 steps 3–4
   ("Process the Disclosures and embedded digests") as a function; None = the
   Verifier MUST reject.  Written from the MUST list quoted in property C08 and
   from the draft's two-phase wording (the draft text is not available offline;
   this restatement is part of the trusted base of C08):

     3.2  embedded digests are (a) the strings of an array-of-strings `_sd`
          member of an object, (b) array elements that are objects with exactly
          one member, named `...`, whose value is a string;
     3.3  for each embedded digest: no matching Disclosure -> ignore it;
          found in `_sd`: the Disclosure MUST be a three-element array
          [salt, name, value] with a string name (else reject); name `_sd` or
          `...` -> reject; name already present at that level -> reject; insert
          the claim, then process the value recursively;
          found in an array element: the Disclosure MUST be a two-element array
          (else reject); replace the element by the value, processed recursively;
     3.4  remove array elements whose digest matched no Disclosure;
     3.5  remove every `_sd` member;   3.6 remove top-level `_sd_alg`;
     4    a digest found more than once (anywhere) -> reject.
   `_sd_alg` other than "sha-256" (the only hash this library supports) -> reject.
   Disclosures that no digest references are ignored (C03 allows that). *)
From SDJWT Require Import Base.Json Params.

Definition dtab := list (str * json).      (* digest -> decoded Disclosure *)

Fixpoint dtab_get (d : str) (t : dtab) : option json :=
  match t with
  | [] => None
  | (d', v) :: t' => if str_eqb d d' then Some v else dtab_get d t'
  end.

Definition strings_of (l : list json) : option (list str) :=
  fold_right (fun v acc => match v, acc with JStr s, Some r => Some (s :: r) | _, _ => None end) (Some []) l.

Fixpoint spec_value (dm : dtab) (fuel : nat) {struct fuel} : json -> list str -> option (json * list str) :=
  let enter (value : json) (seen : list str) : option (json * list str) :=
    match fuel with
    | O => None
    | S f => spec_value dm f value seen
    end in
  fix go (v : json) (seen : list str) {struct v} : option (json * list str) :=
    match v with
    | JArr l =>
        match (fix elems (l : list json) (seen : list str) {struct l} : option (list json * list str) :=
           match l with
           | [] => Some ([], seen)
           | x :: l' =>
               let keep :=
                 match go x seen with
                 | Some (r, s2) => match elems l' s2 with Some (rs, s3) => Some (r :: rs, s3) | None => None end
                 | None => None
                 end in
               match x with
               | JObj [(k, JStr d)] =>
                   if str_eqb k SD_LIST_PREFIX then
                     if mem_str d seen then None                          (* step 4 *)
                     else
                       match dtab_get d dm with
                       | None => elems l' (d :: seen)                      (* 3.4: removed *)
                       | Some (JArr [_; value]) =>
                           match enter value (d :: seen) with
                           | Some (r, s2) =>
                               match elems l' s2 with Some (rs, s3) => Some (r :: rs, s3) | None => None end
                           | None => None
                           end
                       | Some _ => None                                    (* not a two-element array *)
                       end
                   else keep
               | _ => keep
               end
           end) l seen with
        | Some (rs, s) => Some (JArr rs, s)
        | None => None
        end
    | JObj m =>
        (* members other than _sd, processed recursively, in order *)
        match (fix mems (m : members) (seen : list str) {struct m} : option (members * list str) :=
                 match m with
                 | [] => Some ([], seen)
                 | (k, x) :: m' =>
                     if str_eqb k SD_DIGESTS_KEY then mems m' seen
                     else match go x seen with
                          | Some (r, s2) =>
                              match mems m' s2 with Some (rs, s3) => Some ((k, r) :: rs, s3) | None => None end
                          | None => None
                          end
                 end) m seen with
        | None => None
        | Some (kept, seen1) =>
            let digests :=
              match obj_get SD_DIGESTS_KEY m with
              | Some (JArr ds) => match strings_of ds with Some l => l | None => [] end
              | _ => []
              end in
            (fix ins (ds : list str) (out : members) (seen : list str) {struct ds} : option (json * list str) :=
               match ds with
               | [] => Some (JObj out, seen)
               | d :: ds' =>
                   if mem_str d seen then None                             (* step 4 *)
                   else
                     match dtab_get d dm with
                     | None => ins ds' out (d :: seen)
                     | Some (JArr [_; JStr name; value]) =>
                         if str_eqb name SD_DIGESTS_KEY || str_eqb name SD_LIST_PREFIX then None
                         else if obj_has name out || obj_has name m then None   (* already present at that level *)
                         else match enter value (d :: seen) with
                              | Some (r, s2) => ins ds' (out ++ [(name, r)]) s2
                              | None => None
                              end
                     | Some _ => None                                       (* not [salt, string name, value] *)
                     end
               end) digests kept seen1
        end
    | _ => Some (v, seen)
    end.

Definition spec_process (payload : members) (dm : dtab) : option json :=
  let alg_ok :=
    match obj_get DIGEST_ALG_KEY payload with
    | Some (JStr a) => str_eqb a DEFAULT_DIGEST_ALG
    | Some _ => false
    | None => true
    end in
  if alg_ok then
    match spec_value dm (S (List.length dm)) (JObj payload) [] with
    | Some (JObj m, _) => Some (JObj (obj_remove DIGEST_ALG_KEY m))
    | Some (v, _) => Some v
    | None => None
    end
  else None.

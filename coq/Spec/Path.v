(* Spec/Path.v — which positions of a claim set a strategy designates, written
   on positions and path *spellings* only; independent of the issuer's
   next_level / sd_for_key (DESIGN.md §6 C05).

   A position is the list of steps from the root.  A Custom path designates a
   position iff it is "$." followed by one of the position's spellings:
     - a member name contributes itself, preceded by '.' unless it is first;
     - an index i contributes "[i]" or ".[i]"; directly after an empty member
       name only the dotted form is a spelling (otherwise "a.[0]" would be
       ambiguous between a[0] and a.""[0]).
   Top-level iss / iat / exp, with everything beneath them, are never hidden. *)
From SDJWT Require Import Base.Json Params Model.Issuer.

Inductive step := Key (k : str) | Idx (i : N).
Definition pos := list step.

Definition step_eqb (a b : step) : bool :=
  match a, b with
  | Key x, Key y => str_eqb x y
  | Idx x, Idx y => N.eqb x y
  | _, _ => false
  end.

Fixpoint pos_eqb (a b : pos) : bool :=
  match a, b with
  | [], [] => true
  | x :: a', y :: b' => step_eqb x y && pos_eqb a' b'
  | _, _ => false
  end.

Definition mem_pos (p : pos) (l : list pos) : bool := existsb (pos_eqb p) l.

Definition bracket (i : N) : str := [91] ++ N_to_dec i ++ [93].

Definition is_nil {A} (l : list A) : bool := match l with [] => true | _ => false end.

(* spellings of the steps after the first token *)
Fixpoint spell_from (p : pos) (prev_empty_key : bool) : list str :=
  match p with
  | [] => [[]]
  | Key k :: p' => map (fun r => 46 :: k ++ r) (spell_from p' (is_nil k))
  | Idx i :: p' =>
      let rs := spell_from p' false in
      (if prev_empty_key then [] else map (fun r => bracket i ++ r) rs)
        ++ map (fun r => 46 :: bracket i ++ r) rs
  end.

Definition spellings (p : pos) : list str :=
  match p with
  | Key k :: p' => map (fun r => k ++ r) (spell_from p' (is_nil k))
  | _ => []
  end.

Definition under_always_revealed (p : pos) : bool :=
  match p with
  | Key k :: _ => mem_str k ALWAYS_REVEALED
  | _ => false
  end.

(* a strategy is acceptable iff every Custom path starts with "$." *)
Definition strategy_ok (s : strategy) : bool :=
  match s with
  | Custom ps => forallb (fun p => match strip_prefix [36; 46] p with Some _ => true | None => false end) ps
  | _ => true
  end.

Definition spec_hidden (s : strategy) (p : pos) : bool :=
  if under_always_revealed p then false
  else match s with
       | NoSDClaims => false
       | TopLevel => match p with [_] => true | _ => false end
       | AllLevels => match p with [] => false | _ => true end
       | Custom ps => existsb (fun sp => mem_str ([36; 46] ++ sp) ps) (spellings p)
       end.

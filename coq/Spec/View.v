(* Spec/View.v — the specification side of C01 / C03 / C05 / C06 / C15: claim
   trees with a hidden flag on every member and element, what a selection
   designates, and the view of the claims under a set of disclosed positions.
   Nothing here mentions digests, salts, _sd or placeholders. *)
From SDJWT Require Import Base.Json Params Model.Issuer Spec.Path.

Inductive atree :=
| ALeaf (v : json)                              (* null / bool / number / string *)
| AArr (es : list (bool * atree))
| AObj (ms : list (str * (bool * atree))).

(* annotate a claim tree with the hidden flags a predicate on positions gives *)
Fixpoint annot (hid : pos -> bool) (here : pos) (v : json) {struct v} : atree :=
  match v with
  | JArr l =>
      AArr ((fix go (l : list json) (i : N) {struct l} : list (bool * atree) :=
               match l with
               | [] => []
               | x :: l' => (hid (here ++ [Idx i]), annot hid (here ++ [Idx i]) x) :: go l' (i + 1)
               end) l 0)
  | JObj m =>
      AObj ((fix go (m : members) {struct m} : list (str * (bool * atree)) :=
               match m with
               | [] => []
               | (k, x) :: m' => (k, (hid (here ++ [Key k]), annot hid (here ++ [Key k]) x)) :: go m'
               end) m)
  | _ => ALeaf v
  end.

Definition annotate_spec (s : strategy) (claims : json) : atree := annot (spec_hidden s) [] claims.

(* the claim tree back from an annotated tree *)
Fixpoint erase (t : atree) : json :=
  match t with
  | ALeaf v => v
  | AArr es => JArr (map (fun e => erase (snd e)) es)
  | AObj ms => JObj (map (fun kv => (fst kv, erase (snd (snd kv)))) ms)
  end.

(* all hidden positions of a tree *)
Fixpoint hidden_positions (t : atree) (here : pos) {struct t} : list pos :=
  match t with
  | ALeaf _ => []
  | AArr es =>
      (fix go (es : list (bool * atree)) (i : N) {struct es} : list pos :=
         match es with
         | [] => []
         | (h, t') :: es' =>
             (if h then [here ++ [Idx i]] else []) ++ hidden_positions t' (here ++ [Idx i]) ++ go es' (i + 1)
         end) es 0
  | AObj ms =>
      (fix go (ms : list (str * (bool * atree))) {struct ms} : list pos :=
         match ms with
         | [] => []
         | (k, (h, t')) :: ms' =>
             (if h then [here ++ [Key k]] else []) ++ hidden_positions t' (here ++ [Key k]) ++ go ms'
         end) ms
  end.

(* ------------------------------------------------------------------ *)
(* The view: a hidden member / element is shown iff its position is in S;
   nothing beneath an unshown node is reached, so a position counts only when
   all its hidden ancestors count (the closure of C03). *)
Fixpoint view (t : atree) (S : pos -> bool) (here : pos) {struct t} : json :=
  match t with
  | ALeaf v => v
  | AArr es =>
      JArr ((fix go (es : list (bool * atree)) (i : N) {struct es} : list json :=
               match es with
               | [] => []
               | (h, t') :: es' =>
                   let p := here ++ [Idx i] in
                   if negb h || S p then view t' S p :: go es' (i + 1) else go es' (i + 1)
               end) es 0)
  | AObj ms =>
      JObj ((fix go (ms : list (str * (bool * atree))) {struct ms} : members :=
               match ms with
               | [] => []
               | (k, (h, t')) :: ms' =>
                   let p := here ++ [Key k] in
                   if negb h || S p then (k, view t' S p) :: go ms' else go ms'
               end) ms)
  end.

Definition visible_part (t : atree) : json := view t (fun _ => false) [].
Definition view_of (t : atree) (S : list pos) : json := view t (fun p => mem_pos p S) [].

(* ------------------------------------------------------------------ *)
(* What a (type-consistent) selection designates.                      *)

Fixpoint amem_get (k : str) (ms : list (str * (bool * atree))) : option (bool * atree) :=
  match ms with
  | [] => None
  | (k', x) :: ms' => if str_eqb k k' then Some x else amem_get k ms'
  end.

Definition own (h : bool) (p : pos) : list pos := if h then [p] else [].

(* selection object [sel] against an object node with members [ms] at [here];
   selection array [sl] against an array node, positionally *)
Fixpoint designated (sel : json) (t : atree) (here : pos) {struct sel} : list pos :=
  match sel, t with
  | JObj sm, AObj ms =>
      (fix go (sm : members) {struct sm} : list pos :=
         match sm with
         | [] => []
         | (k, s) :: sm' =>
             match amem_get k ms with
             | None => go sm'
             | Some (h, t') =>
                 let p := here ++ [Key k] in
                 match s with
                 | JBool false | JNull => go sm'
                 | JObj (_ :: _) | JArr _ => designated s t' p ++ own h p ++ go sm'
                 | _ => own h p ++ go sm'
                 end
             end
         end) sm
  | JArr sl, AArr es =>
      (fix go (sl : list json) (es : list (bool * atree)) (i : N) {struct sl} : list pos :=
         match sl, es with
         | s :: sl', (h, t') :: es' =>
             let p := here ++ [Idx i] in
             match s with
             | JBool true => own h p ++ go sl' es' (i + 1)
             | JObj _ =>
                 match t' with
                 | AObj _ => own h p ++ designated s t' p ++ go sl' es' (i + 1)
                 | _ => go sl' es' (i + 1)
                 end
             | JArr _ =>
                 match t' with
                 | AArr _ => own h p ++ designated s t' p ++ go sl' es' (i + 1)
                 | _ => go sl' es' (i + 1)
                 end
             | _ => go sl' es' (i + 1)
             end
         | _, _ => []
         end) sl es 0
  | _, _ => []
  end.

(* type-consistency of a selection with the node it addresses *)
Fixpoint consistent (sel : json) (t : atree) {struct sel} : bool :=
  match sel, t with
  | JObj sm, AObj ms =>
      keys_nodup sm &&
      (fix go (sm : members) {struct sm} : bool :=
         match sm with
         | [] => true
         | (k, s) :: sm' =>
             match s with
             | JBool false | JNull => go sm'
             | JBool true => match amem_get k ms with Some _ => go sm' | None => false end
             | JObj _ | JArr _ =>
                 match amem_get k ms with
                 | Some (_, t') => consistent s t' && go sm'
                 | None => false
                 end
             | _ => false
             end
         end) sm
  | JArr sl, AArr es =>
      (fix go (sl : list json) (es : list (bool * atree)) {struct sl} : bool :=
         match sl, es with
         | [], _ => true
         | _ :: _, [] => forallb (fun s => match s with JBool _ | JNull | JObj _ | JArr _ => true | _ => false end) sl
         | s :: sl', (_, t') :: es' =>
             match s with
             | JBool _ | JNull => go sl' es'
             | JObj _ | JArr _ => consistent s t' && go sl' es'
             | _ => false
             end
         end) sl es
  | _, _ => false
  end.

(* ------------------------------------------------------------------ *)
(* Selection refinement (C15): s2 deselects nodes of s1.               *)
Fixpoint sel_le (s2 s1 : json) {struct s2} : bool :=
  match s2 with
  | JBool false | JNull => true
  | JBool true => match s1 with JBool true | JObj _ | JArr _ => true | _ => false end
  | JObj m2 =>
      match s1 with
      | JObj m1 =>
          (fix go (m2 : members) {struct m2} : bool :=
             match m2 with
             | [] => true
             | (k, x2) :: m2' =>
                 match x2 with
                 | JBool false | JNull => go m2'
                 | _ => match obj_get k m1 with Some x1 => sel_le x2 x1 && go m2' | None => false end
                 end
             end) m2
      | JBool true => is_nil m2
      | _ => false
      end
  | JArr l2 =>
      match s1 with
      | JArr l1 =>
          (fix go (l2 : list json) (l1 : list json) {struct l2} : bool :=
             match l2, l1 with
             | [], _ => true
             | x2 :: l2', x1 :: l1' => sel_le x2 x1 && go l2' l1'
             | x2 :: l2', [] =>
                 match x2 with JBool false | JNull => go l2' [] | _ => false end
             end) l2 l1
      | _ => false
      end
  | _ => false
  end.

(* Codec/JsonLax.v — the purely syntactic skipping that serde_json applies to the value of
   an UNKNOWN struct member (IgnoredAny -> Deserializer::ignore_value, serde_json 1.0.151
   src/de.rs fn ignore_value / ignore_integer / ignore_decimal / ignore_exponent and
   src/read.rs fn ignore_str / ignore_escape for SliceRead/StrRead).

   ignore_value is ITERATIVE: it keeps a stack of open frames ('[' or '{') in `scratch`
   plus `enclosing`, so there is NO nesting limit.  Numbers are checked for shape only
   (no range check), strings reject raw control characters (< 0x20), accept the escapes
   \" \\ \/ \b \f \n \r \t and \uXXXX with four hex digits WITHOUT any surrogate check,
   reject every other escape and need the closing quote.  Keys inside skipped objects are
   skipped with ignore_str as well and must start with '"' (KeyMustBeAString otherwise).

   [lax_step] transliterates one turn of the Rust loop as a two-mode stack machine:
     mode after=false : a value is expected (top of the outer `loop`);
     mode after=true  : a value has just been completed (`accept_comma = true`, inner loop).
   The frame stack [stk] is `enclosing` followed by `scratch` (true = '{', false = '[').
   Every turn that calls [rec] has consumed at least one character, so fuel
   [S (length s)] is never exhausted: see [lax_run_fuel] (the out-of-fuel answer, the outer
   [None], is unreachable) and [lax_run_irrel] (the answer does not depend on the fuel),
   whence the fuel-free unfolding equation [lax_go_eq]. *)
From Coq Require Import Lia.
From SDJWT Require Import Base.Json Codec.JsonParse.

(* ---- strings: read.rs ignore_str, after the opening quote ---- *)
Definition is_simple_escape (e : N) : bool :=
  N.eqb e 34 || N.eqb e 92 || N.eqb e 47 || N.eqb e 98 || N.eqb e 102 || N.eqb e 110
  || N.eqb e 114 || N.eqb e 116.

Definition is_hex (c : N) : bool := match hex_val c with Some _ => true | None => false end.

Fixpoint lax_str_body (s : str) : option str :=
  match s with
  | [] => None                                        (* EofWhileParsingString *)
  | c :: r =>
      if N.eqb c 34 then Some r
      else if N.eqb c 92 then
        match r with
        | [] => None
        | e :: r2 =>
            if is_simple_escape e then lax_str_body r2
            else if N.eqb e 117 then
              match r2 with
              | a :: b :: c' :: d :: r3 =>
                  if is_hex a && is_hex b && is_hex c' && is_hex d then lax_str_body r3 else None
              | _ => None
              end
            else None                                 (* InvalidEscape *)
        end
      else if N.ltb c 32 then None                    (* ControlCharacterWhileParsingString *)
      else lax_str_body r
  end.

(* ---- numbers: de.rs ignore_integer / ignore_decimal / ignore_exponent ---- *)
Definition strip_sign (s : str) : str :=
  match s with
  | c :: r => if N.eqb c 43 || N.eqb c 45 then r else s
  | [] => s
  end.

(* after the 'e' / 'E' *)
Definition lax_exponent (s : str) : option str :=
  let (ds, r) := take_digits (strip_sign s) in
  match ds with [] => None | _ :: _ => Some r end.

(* optional exponent *)
Definition lax_exp_opt (s : str) : option str :=
  match s with
  | e :: r => if N.eqb e 101 || N.eqb e 69 then lax_exponent r else Some s
  | [] => Some s
  end.

(* after the integer part *)
Definition lax_frac_exp (s : str) : option str :=
  match s with
  | c :: r =>
      if N.eqb c 46 then
        let (ds, r2) := take_digits r in
        match ds with
        | [] => None
        | _ :: _ => lax_exp_opt r2
        end
      else lax_exp_opt s
  | [] => Some s
  end.

(* after the optional '-' *)
Definition lax_integer (s : str) : option str :=
  match s with
  | [] => None
  | c :: r =>
      if N.eqb c 48 then
        match r with
        | d :: _ => if is_digit d then None else lax_frac_exp r
        | [] => lax_frac_exp r
        end
      else if is_digit c then lax_frac_exp (snd (take_digits r))
      else None
  end.

(* ---- a key of a skipped object and its colon ---- *)
Definition lax_key (s : str) : option str :=
  match skip_ws s with
  | c :: r =>
      if N.eqb c 34 then
        match lax_str_body r with
        | Some r1 => match skip_ws r1 with
                     | c1 :: r2 => if N.eqb c1 58 then Some r2 else None   (* ExpectedColon *)
                     | [] => None
                     end
        | None => None
        end
      else None                                       (* KeyMustBeAString *)
  | [] => None                                        (* EofWhileParsingObject *)
  end.

(* ---- one turn of the loop; outer None = out of fuel (only [lax_run 0]), Some None = error ---- *)
Definition lax_step (rec : bool -> list bool -> str -> option (option str))
    (after : bool) (stk : list bool) (s : str) : option (option str) :=
  let cont := fun (o : option str) =>
    match o with Some r' => rec true stk r' | None => Some None end in
  if after then
    match stk with
    | [] => Some (Some s)                             (* scratch empty: Ok(()) *)
    | fr :: stk' =>
        match skip_ws s with
        | [] => Some None                             (* EofWhileParsingList/Object *)
        | c :: r =>
            if N.eqb c 44 then
              (if fr then match lax_key r with
                          | Some r' => rec false stk r'
                          | None => Some None
                          end
               else rec false stk r)
            else if (if fr then N.eqb c 125 else N.eqb c 93) then rec true stk' r
            else Some None                            (* ExpectedListCommaOrEnd / Object *)
        end
    end
  else
    match skip_ws s with
    | [] => Some None                                 (* EofWhileParsingValue *)
    | c :: r =>
        if N.eqb c 110 then cont (strip_prefix [117; 108; 108] r)
        else if N.eqb c 116 then cont (strip_prefix [114; 117; 101] r)
        else if N.eqb c 102 then cont (strip_prefix [97; 108; 115; 101] r)
        else if N.eqb c 45 then cont (lax_integer r)
        else if is_digit c then cont (lax_integer (c :: r))
        else if N.eqb c 34 then cont (lax_str_body r)
        else if N.eqb c 91 then
          match skip_ws r with
          | [] => Some None                           (* EofWhileParsingList *)
          | c1 :: r' => if N.eqb c1 93 then rec true stk r'
                        else rec false (false :: stk) (c1 :: r')
          end
        else if N.eqb c 123 then
          match skip_ws r with
          | [] => Some None                           (* EofWhileParsingObject *)
          | c1 :: r' => if N.eqb c1 125 then rec true stk r'
                        else match lax_key (c1 :: r') with
                             | Some r2 => rec false (true :: stk) r2
                             | None => Some None
                             end
          end
        else Some None                                (* ExpectedSomeValue *)
    end.

Fixpoint lax_run (fuel : nat) : bool -> list bool -> str -> option (option str) :=
  match fuel with
  | O => fun _ _ _ => None
  | S f => lax_step (lax_run f)
  end.

Definition lax_go (after : bool) (stk : list bool) (s : str) : option (option str) :=
  lax_run (S (List.length s)) after stk s.

(* Skips one value (leading whitespace allowed) and returns the rest of the text.
   The [None => None] branch for the outer option is unreachable ([lax_go_total]). *)
Definition lax_skip_value (s : str) : option str :=
  match lax_go false [] s with
  | Some r => r
  | None => None
  end.

(* ---- walking the members of the top-level object ---- *)
Definition text_between (s rest : str) : str := firstn (List.length s - List.length rest) s.

Definition NULL_TEXT : str := [110; 117; 108; 108].

(* [s] stands at the start of a member (after '{' or ',').  Each member consumes at least
   one character; fuel [S (length s)] is never exhausted ([lax_blank_members_fuel]). *)
Fixpoint lax_blank_members (fuel : nat) (known : list str) (s : str) : option str :=
  match fuel with
  | O => None
  | S f =>
      let s0 := skip_ws s in
      match parse_string_lit s0 with
      | None => None
      | Some (k, r) =>
          match skip_ws r with
          | [] => None
          | c0 :: r1 =>
              if negb (N.eqb c0 58) then None else
              match lax_skip_value r1 with
              | None => None
              | Some r2 =>
                  let name_text := text_between s0 r in
                  let val_text := if mem_str k known then text_between r1 r2 else NULL_TEXT in
                  match skip_ws r2 with
                  | [] => None
                  | c1 :: r3 =>
                      if N.eqb c1 44 then
                        match lax_blank_members f known r3 with
                        | Some t => Some (name_text ++ [58] ++ val_text ++ [44] ++ t)
                        | None => None
                        end
                      else if N.eqb c1 125 then
                        match skip_ws r3 with
                        | [] => Some (name_text ++ [58] ++ val_text ++ [125])
                        | _ :: _ => None
                        end
                      else None
                  end
              end
          end
      end
  end.

Definition lax_blank_unknown (known : list str) (s : str) : option str :=
  match skip_ws s with
  | c :: r =>
      if N.eqb c 123 then
        match skip_ws r with
        | [] => None
        | c1 :: r' =>
            if N.eqb c1 125 then match skip_ws r' with [] => Some [123; 125] | _ :: _ => None end
            else match lax_blank_members (S (S (List.length r'))) known (c1 :: r') with
                 | Some t => Some (123 :: t)
                 | None => None
                 end
        end
      else Some s
  | [] => Some s
  end.

(* ================= length facts and the fuel argument ================= *)
Local Open Scope nat_scope.

Lemma skip_ws_len : forall s, List.length (skip_ws s) <= List.length s.
Proof. induction s as [|c s IH]; cbn [skip_ws List.length]; [lia|]. destruct (is_ws c); cbn [List.length]; lia. Qed.

Lemma skip_ws_cons_len : forall s c r, skip_ws s = c :: r -> List.length r < List.length s.
Proof. intros s c r E. pose proof (skip_ws_len s) as L. rewrite E in L. cbn [List.length] in L. lia. Qed.

Lemma take_digits_len : forall s, List.length (snd (take_digits s)) <= List.length s.
Proof.
  induction s as [|c s IH]; cbn [take_digits snd List.length]; [lia|].
  destruct (is_digit c); [|cbn [snd List.length]; lia].
  destruct (take_digits s) as [d r'] eqn:E. cbn [snd] in *. lia.
Qed.

Lemma take_digits_len2 : forall s ds r, take_digits s = (ds, r) -> List.length r <= List.length s.
Proof. intros s ds r E. pose proof (take_digits_len s) as L. rewrite E in L. exact L. Qed.

Lemma strip_prefix_len : forall p s r, strip_prefix p s = Some r -> List.length r <= List.length s.
Proof.
  induction p as [|a p IH]; intros s r E; cbn [strip_prefix] in E.
  - inversion E; subst. lia.
  - destruct s as [|b s]; [discriminate|]. destruct (N.eqb a b); [|discriminate].
    apply IH in E. cbn [List.length]. lia.
Qed.

Lemma lax_str_body_len_aux : forall n s r, List.length s <= n -> lax_str_body s = Some r ->
  List.length r < List.length s.
Proof.
  induction n as [|n IH]; intros s r L E.
  - destruct s; [discriminate | cbn [List.length] in L; lia].
  - destruct s as [|c s1]; [discriminate|]. cbn [lax_str_body] in E. cbn [List.length] in *.
    destruct (N.eqb c 34). { inversion E; subst. lia. }
    destruct (N.eqb c 92).
    + destruct s1 as [|e s2]; [discriminate|]. cbn [List.length] in *.
      destruct (is_simple_escape e). { apply IH in E; lia. }
      destruct (N.eqb e 117); [|discriminate].
      destruct s2 as [|a [|b [|c' [|d s3]]]]; try discriminate. cbn [List.length] in *.
      destruct (is_hex a && is_hex b && is_hex c' && is_hex d); [|discriminate].
      apply IH in E; lia.
    + destruct (N.ltb c 32); [discriminate|]. apply IH in E; lia.
Qed.

Lemma lax_str_body_len : forall s r, lax_str_body s = Some r -> List.length r < List.length s.
Proof. intros s r. apply (lax_str_body_len_aux (List.length s)). lia. Qed.

Lemma strip_sign_len : forall s, List.length (strip_sign s) <= List.length s.
Proof. destruct s as [|c r]; cbn [strip_sign]; [lia|]. destruct (N.eqb c 43 || N.eqb c 45); cbn [List.length]; lia. Qed.

Lemma lax_exponent_len : forall s r, lax_exponent s = Some r -> List.length r <= List.length s.
Proof.
  intros s r E. unfold lax_exponent in E. destruct (take_digits (strip_sign s)) as [ds r'] eqn:T.
  destruct ds; [discriminate|]. inversion E; subst. apply take_digits_len2 in T.
  pose proof (strip_sign_len s). lia.
Qed.

Lemma lax_exp_opt_len : forall s r, lax_exp_opt s = Some r -> List.length r <= List.length s.
Proof.
  intros s r E. destruct s as [|e s']; cbn [lax_exp_opt] in E.
  - inversion E; subst. lia.
  - destruct (N.eqb e 101 || N.eqb e 69).
    + apply lax_exponent_len in E. cbn [List.length]. lia.
    + inversion E; subst. lia.
Qed.

Lemma lax_frac_exp_len : forall s r, lax_frac_exp s = Some r -> List.length r <= List.length s.
Proof.
  intros s r E. destruct s as [|c s']; cbn [lax_frac_exp] in E.
  - inversion E; subst. lia.
  - destruct (N.eqb c 46).
    + destruct (take_digits s') as [ds r2] eqn:T. destruct ds; [discriminate|].
      apply lax_exp_opt_len in E. apply take_digits_len2 in T. cbn [List.length]. lia.
    + apply lax_exp_opt_len in E. exact E.
Qed.

Lemma lax_integer_len : forall s r, lax_integer s = Some r -> List.length r < List.length s.
Proof.
  intros s r E. destruct s as [|c s']; [discriminate|]. cbn [lax_integer] in E. cbn [List.length].
  destruct (N.eqb c 48).
  - destruct s' as [|d s2]; [|destruct (is_digit d); [discriminate|]]; apply lax_frac_exp_len in E; lia.
  - destruct (is_digit c); [|discriminate]. apply lax_frac_exp_len in E.
    pose proof (take_digits_len s'). lia.
Qed.

Lemma lax_key_len : forall s r, lax_key s = Some r -> List.length r < List.length s.
Proof.
  intros s r E. unfold lax_key in E. destruct (skip_ws s) as [|c s1] eqn:W; [discriminate|].
  destruct (N.eqb c 34); [|discriminate]. destruct (lax_str_body s1) as [r1|] eqn:B; [|discriminate].
  destruct (skip_ws r1) as [|c1 r2] eqn:W2; [discriminate|]. destruct (N.eqb c1 58); [|discriminate].
  inversion E; subst. apply skip_ws_cons_len in W. apply skip_ws_cons_len in W2. apply lax_str_body_len in B. lia.
Qed.

(* Every call of [rec] made by [lax_step] on [s] is on a strictly shorter text.  Stated
   once for an arbitrary relation between two instances, so that it gives fuel irrelevance
   (P := eq) and absence of the out-of-fuel answer (P a _ := a <> None). *)
Lemma lax_step_rel : forall (P : option (option str) -> option (option str) -> Prop) rec1 rec2 after stk s,
  (forall x, x = None \/ x = Some s -> P (Some x) (Some x)) ->
  (forall m stk' s', List.length s' < List.length s -> P (rec1 m stk' s') (rec2 m stk' s')) ->
  P (lax_step rec1 after stk s) (lax_step rec2 after stk s).
Proof.
  intros P rec1 rec2 after stk s Hs Hr. unfold lax_step.
  assert (Hc : forall o, (forall r', o = Some r' -> List.length r' < List.length s) ->
            P match o with Some r' => rec1 true stk r' | None => Some None end
              match o with Some r' => rec2 true stk r' | None => Some None end).
  { intros [r'|] H; [apply Hr, H; reflexivity | apply Hs; auto]. }
  destruct after.
  - destruct stk as [|fr stk']; [apply Hs; auto|].
    destruct (skip_ws s) as [|c r] eqn:W; [apply Hs; auto|]. apply skip_ws_cons_len in W.
    destruct (N.eqb c 44).
    + destruct fr; [|apply Hr; lia].
      destruct (lax_key r) as [r'|] eqn:K; [|apply Hs; auto]. apply lax_key_len in K. apply Hr; lia.
    + destruct (if fr then N.eqb c 125 else N.eqb c 93); [apply Hr; lia | apply Hs; auto].
  - destruct (skip_ws s) as [|c r] eqn:W; [apply Hs; auto|]. apply skip_ws_cons_len in W.
    destruct (N.eqb c 110). { apply Hc. intros r' E. apply strip_prefix_len in E. lia. }
    destruct (N.eqb c 116). { apply Hc. intros r' E. apply strip_prefix_len in E. lia. }
    destruct (N.eqb c 102). { apply Hc. intros r' E. apply strip_prefix_len in E. lia. }
    destruct (N.eqb c 45). { apply Hc. intros r' E. apply lax_integer_len in E. lia. }
    destruct (is_digit c). { apply Hc. intros r' E. apply lax_integer_len in E. cbn [List.length] in E. lia. }
    destruct (N.eqb c 34). { apply Hc. intros r' E. apply lax_str_body_len in E. lia. }
    destruct (N.eqb c 91).
    { destruct (skip_ws r) as [|c1 r'] eqn:W1; [apply Hs; auto|]. apply skip_ws_cons_len in W1.
      destruct (N.eqb c1 93); apply Hr; cbn [List.length]; lia. }
    destruct (N.eqb c 123); [|apply Hs; auto].
    destruct (skip_ws r) as [|c1 r'] eqn:W1; [apply Hs; auto|]. apply skip_ws_cons_len in W1.
    destruct (N.eqb c1 125); [apply Hr; lia|].
    destruct (lax_key (c1 :: r')) as [r2|] eqn:K; [|apply Hs; auto]. apply lax_key_len in K. cbn [List.length] in K.
    apply Hr; lia.
Qed.

(* the answer does not depend on the fuel, once there is more fuel than text *)
Lemma lax_run_irrel : forall f1 f2 after stk s, List.length s < f1 -> List.length s < f2 ->
  lax_run f1 after stk s = lax_run f2 after stk s.
Proof.
  induction f1 as [|f1 IH]; intros f2 after stk s L1 L2; [lia|]. destruct f2 as [|f2]; [lia|].
  cbn [lax_run]. apply (lax_step_rel eq); [reflexivity|]. intros m stk' s' L. apply IH; lia.
Qed.

(* the out-of-fuel answer is unreachable *)
Lemma lax_run_fuel : forall fuel after stk s, List.length s < fuel -> lax_run fuel after stk s <> None.
Proof.
  induction fuel as [|f IH]; intros after stk s L; [lia|]. cbn [lax_run].
  apply (lax_step_rel (fun a _ => a <> None) (lax_run f) (lax_run f)); [discriminate|].
  intros m stk' s' L'. apply IH; lia.
Qed.

Lemma lax_go_total : forall after stk s, lax_go after stk s <> None.
Proof. intros. apply lax_run_fuel. lia. Qed.

(* fuel-free unfolding: [lax_go] is the (unique) fixed point of [lax_step] *)
Lemma lax_go_eq : forall after stk s, lax_go after stk s = lax_step lax_go after stk s.
Proof.
  intros after stk s. unfold lax_go at 1. cbn [lax_run].
  apply (lax_step_rel eq); [reflexivity|]. intros m stk' s' L. apply lax_run_irrel; lia.
Qed.

Lemma lax_go_len : forall n after stk s r, List.length s <= n -> lax_go after stk s = Some (Some r) ->
  List.length r <= List.length s.
Proof.
  induction n as [|n IH]; intros after stk s r L E; rewrite lax_go_eq in E; revert E;
    apply (lax_step_rel (fun a _ => a = Some (Some r) -> List.length r <= List.length s) lax_go lax_go).
  - intros x [->| ->] E; [discriminate | inversion E; lia].
  - intros m stk' s' L' E. lia.
  - intros x [->| ->] E; [discriminate | inversion E; lia].
  - intros m stk' s' L' E. apply IH in E; lia.
Qed.

Lemma lax_skip_value_len : forall s r, lax_skip_value s = Some r -> List.length r <= List.length s.
Proof.
  intros s r E. unfold lax_skip_value in E. destruct (lax_go false [] s) as [[r'|]|] eqn:G; try discriminate.
  inversion E; subst. apply (lax_go_len (List.length s) false [] s r); [lia | exact G].
Qed.

Lemma parse_str_body_len : forall f s acc x r, parse_str_body f s acc = Some (x, r) ->
  List.length r < List.length s.
Proof.
  induction f as [|f IH]; intros s acc x r E; [discriminate|]. cbn [parse_str_body] in E.
  destruct s as [|c s1]; [discriminate|]. cbn [List.length].
  destruct (N.eqb c 34). { inversion E; subst. lia. }
  destruct (N.eqb c 92).
  - destruct s1 as [|e s2]; [discriminate|]. cbn [List.length].
    repeat match type of E with
           | (if N.eqb e ?k then _ else _) = _ => destruct (N.eqb e k); [apply IH in E; lia|]
           end.
    destruct (N.eqb e 117); [|discriminate].
    destruct (hex4 s2) as [[n r3]|] eqn:H; [|discriminate].
    assert (L3 : List.length r3 < List.length s2).
    { unfold hex4 in H. destruct s2 as [|a [|b [|c' [|d s3]]]]; try discriminate.
      destruct (hex_val a), (hex_val b), (hex_val c'), (hex_val d); try discriminate.
      inversion H; subst. cbn [List.length]. lia. }
    destruct (N.leb 55296 n && N.leb n 56319).
    + destruct r3 as [|u1 r3]; [discriminate|].
      destruct (N.eq_dec u1 92) as [->|N1].
      2:{ exfalso. destruct u1 as [|p]; [discriminate|].
          do 7 (try destruct p as [p|p|]); try discriminate; congruence. }
      destruct r3 as [|u2 r4]; [discriminate|].
      destruct (N.eq_dec u2 117) as [->|N2].
      2:{ exfalso. destruct u2 as [|p]; [discriminate|].
          do 7 (try destruct p as [p|p|]); try discriminate; congruence. }
      destruct (hex4 r4) as [[n2 r5]|] eqn:H2; [|discriminate].
      assert (L5 : List.length r5 < List.length r4).
      { unfold hex4 in H2. destruct r4 as [|a [|b [|c' [|d s3]]]]; try discriminate.
        destruct (hex_val a), (hex_val b), (hex_val c'), (hex_val d); try discriminate.
        inversion H2; subst. cbn [List.length]. lia. }
      destruct (N.leb 56320 n2 && N.leb n2 57343); [|discriminate].
      apply IH in E. cbn [List.length] in *. lia.
    + destruct (N.leb 56320 n && N.leb n 57343); [discriminate|]. apply IH in E. lia.
  - destruct (N.ltb c 32); [discriminate|]. apply IH in E. lia.
Qed.

Lemma parse_string_lit_len : forall s k r, parse_string_lit s = Some (k, r) -> List.length r < List.length s.
Proof.
  intros s k r E. unfold parse_string_lit in E. destruct s as [|c s1]; [discriminate|].
  destruct (N.eq_dec c 34) as [->|N1].
  - apply parse_str_body_len in E. cbn [List.length]. lia.
  - exfalso. destruct c as [|p]; [discriminate|].
    do 7 (try destruct p as [p|p|]); try discriminate; congruence.
Qed.

(* the walk over the members never runs out of fuel: any two sufficient fuels agree *)
Lemma lax_blank_members_fuel : forall f1 f2 known s, List.length s < f1 -> List.length s < f2 ->
  lax_blank_members f1 known s = lax_blank_members f2 known s.
Proof.
  induction f1 as [|f1 IH]; intros f2 known s L1 L2; [lia|]. destruct f2 as [|f2]; [lia|].
  cbn [lax_blank_members]. pose proof (skip_ws_len s) as W0.
  destruct (parse_string_lit (skip_ws s)) as [[k r]|] eqn:K; [|reflexivity]. apply parse_string_lit_len in K.
  destruct (skip_ws r) as [|c0 r1] eqn:W1; [reflexivity|]. apply skip_ws_cons_len in W1.
  destruct (negb (N.eqb c0 58)); [reflexivity|].
  destruct (lax_skip_value r1) as [r2|] eqn:V; [|reflexivity]. apply lax_skip_value_len in V.
  destruct (skip_ws r2) as [|c1 r3] eqn:W2; [reflexivity|]. apply skip_ws_cons_len in W2.
  destruct (N.eqb c1 44); [|reflexivity]. rewrite (IH f2 known r3); [reflexivity | lia | lia].
Qed.

(* ================= examples ================= *)
Local Open Scope N_scope.

Definition deep_array (n : nat) : str := repeat 91 n ++ repeat 93 n.
Definition KN : list str := [lit "protected"; lit "payload"].

(* the three texts of the task: accepted, unknown member blanked, known members copied *)
Example lax_big_exponent :
  lax_blank_unknown KN (lit "{""x"":1e999,""protected"":""a"", ""payload"" : [1, 2] }")
  = Some (lit "{""x"":null,""protected"":""a"",""payload"": [1, 2]}").
Proof. vm_compute. reflexivity. Qed.

(* the strict parser keeps number lexemes (no range check), but refuses the other two *)
Example lax_strict_rejects :
  parse_json_raw (lit "{""x"":1e999,""protected"":""a""}") <> None /\
  parse_json_raw (lit "{""x"":" ++ deep_array 200 ++ lit ",""protected"":""a""}") = None /\
  parse_json_raw (lit "{""x"":""\ud800"",""protected"":""a""}") = None.
Proof. vm_compute. repeat split; try reflexivity. discriminate. Qed.

Example lax_deep_200 :
  lax_blank_unknown KN (lit "{""x"":" ++ deep_array 200 ++ lit ",""protected"":""a""}")
  = Some (lit "{""x"":null,""protected"":""a""}").
Proof. vm_compute. reflexivity. Qed.

Example lax_deep_300 :
  lax_blank_unknown KN (lit "{""protected"":""a"",""x"":{""k"":" ++ deep_array 300 ++ lit "}}")
  = Some (lit "{""protected"":""a"",""x"":null}").
Proof. vm_compute. reflexivity. Qed.

Example lax_lone_surrogate :
  lax_blank_unknown KN (lit "{""x"":""\ud800 \/ é"",""protected"":""a""}")
  = Some (lit "{""x"":null,""protected"":""a""}").
Proof. vm_compute. reflexivity. Qed.

(* the name is compared after decoding; its text is kept as written *)
Example lax_escaped_name :
  lax_blank_unknown KN (lit "{""protected"":[1e999]}") = Some (lit "{""protected"":[1e999]}").
Proof. vm_compute. reflexivity. Qed.

Example lax_not_object : lax_blank_unknown KN (lit " [1,2]") = Some (lit " [1,2]").
Proof. vm_compute. reflexivity. Qed.

Example lax_skip_rest : lax_skip_value (lit " {""a"":[1,{""b"":null}],""c"":-0.5E+7} tail") = Some (lit " tail").
Proof. vm_compute. reflexivity. Qed.

(* rejected values of an unknown member *)
Definition rej (v : str) : bool :=
  match lax_blank_unknown KN (lit "{""x"":" ++ v ++ lit "}") with None => true | Some _ => false end.

Example lax_rejects :
  forallb rej
    [ [34; 7; 34]                      (* raw control character in a skipped string *)
    ; lit """\x"""; lit """\u12g4"""; lit """\u123"
    ; lit "01"; lit "1."; lit "1e"; lit "1e+"; lit "-"; lit "-a"; lit ".5"; lit "+1"
    ; lit "[1"; lit "[1,2"; lit "{""a"":1"; lit """abc"
    ; lit "[1 2]"; lit "{""a"":1 ""b"":2}"
    ; lit "[1,]"; lit "{""a"":1,}"; lit "[,1]"
    ; lit "{""a"" 1}"; lit "{a:1}"; lit "{1:1}"; lit "[}"; lit "{]"
    ; lit "nul"; lit "tru"; lit "fals"; lit "nulL"; lit "" ] = true.
Proof. vm_compute. reflexivity. Qed.

Example lax_accepts :
  forallb (fun v => negb (rej v))
    [ lit "0"; lit "-0"; lit "0.0e-0"; lit "123456789012345678901234567890"; lit "1E400"
    ; lit """\ud800"""; lit """\udc00\ud800"""; lit """\""\\\/\b\f\n\r\t"""
    ; lit "[]"; lit "{}"; lit " [ ] "; lit "{ ""a"" : { } , ""a"" : [ [ ] ] }"; lit "null"; lit "true"; lit "false" ] = true.
Proof. vm_compute. reflexivity. Qed.

(* top-level object syntax *)
Example lax_top_rejects :
  map (lax_blank_unknown KN)
    [ lit "{""a"":1 ""b"":2}"; lit "{""a"":1,}"; lit "{""a"" 1}"; lit "{""a"":1} x"; lit "{""a"":1"
    ; lit "{""a"":1}}"; lit "{,""a"":1}"; lit "{a:1}"; lit "{""\ud800"":1}"; lit "{"; lit "{} x" ]
  = [None; None; None; None; None; None; None; None; None; None; None].
Proof. vm_compute. reflexivity. Qed.

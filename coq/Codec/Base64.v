(* ------------------------------------------------------------------ *)
(*  Codec/Base64.v                                                    *)
(*                                                                    *)
(*  Model of Rust's base64::engine::general_purpose::URL_SAFE_NO_PAD  *)
(*  (base64 0.21): URL-safe alphabet  A-Z a-z 0-9 - _ , no padding    *)
(*  emitted on encode; decode rejects '=' padding, characters outside *)
(*  the alphabet, inputs with length mod 4 = 1, and non-canonical     *)
(*  trailing bits.                                                    *)
(*                                                                    *)
(*  Bytes and characters (ASCII code points) are both [N].            *)
(*  Self-contained: standard library only.                            *)
(* ------------------------------------------------------------------ *)

Require Import List NArith Lia Bool.
Require Import ZArith ZifyBool ZifyN ZifyNat.
Import ListNotations.
Open Scope N_scope.

Local Ltac Zify.zify_post_hook ::= Z.div_mod_to_equations.

(* ================================================================== *)
(*  Alphabet                                                          *)
(* ================================================================== *)

(* sextet (0..63) -> ASCII code point *)
Definition b64_char (sextet : N) : N :=
  if sextet <? 26 then sextet + 65            (* 'A'..'Z' *)
  else if sextet <? 52 then sextet + 71       (* 'a'..'z' *)
  else if sextet <? 62 then sextet - 4        (* '0'..'9' *)
  else if sextet =? 62 then 45                (* '-' *)
  else 95.                                    (* '_' *)

(* ASCII code point -> sextet; None outside the alphabet (incl. '=') *)
Definition b64_val (c : N) : option N :=
  if (65 <=? c) && (c <=? 90) then Some (c - 65)
  else if (97 <=? c) && (c <=? 122) then Some (c - 71)
  else if (48 <=? c) && (c <=? 57) then Some (c + 4)
  else if c =? 45 then Some 62
  else if c =? 95 then Some 63
  else None.

(* ================================================================== *)
(*  Byte <-> sextet regrouping (one 24-bit group)                     *)
(* ================================================================== *)

Definition sx1 (a : N) : N := a / 4.
Definition sx2 (a b : N) : N := (a mod 4) * 16 + b / 16.
Definition sx3 (b c : N) : N := (b mod 16) * 4 + c / 64.
Definition sx4 (c : N) : N := c mod 64.

Definition by1 (s1 s2 : N) : N := s1 * 4 + s2 / 16.
Definition by2 (s2 s3 : N) : N := (s2 mod 16) * 16 + s3 / 4.
Definition by3 (s3 s4 : N) : N := (s3 mod 4) * 64 + s4.

(* ================================================================== *)
(*  Encode / decode                                                   *)
(* ================================================================== *)

Fixpoint b64_encode (bs : list N) : list N :=
  match bs with
  | [] => []
  | [a] => [b64_char (sx1 a); b64_char (sx2 a 0)]
  | [a; b] => [b64_char (sx1 a); b64_char (sx2 a b); b64_char (sx3 b 0)]
  | a :: b :: c :: r =>
      b64_char (sx1 a) :: b64_char (sx2 a b) ::
      b64_char (sx3 b c) :: b64_char (sx4 c) :: b64_encode r
  end.

Fixpoint b64_decode_aux (cs : list N) : option (list N) :=
  match cs with
  | [] => Some []
  | [_] => None                                   (* length mod 4 = 1 *)
  | [c1; c2] =>
      match b64_val c1, b64_val c2 with
      | Some s1, Some s2 =>
          if s2 mod 16 =? 0                       (* canonical trailing bits *)
          then Some [by1 s1 s2] else None
      | _, _ => None
      end
  | [c1; c2; c3] =>
      match b64_val c1, b64_val c2, b64_val c3 with
      | Some s1, Some s2, Some s3 =>
          if s3 mod 4 =? 0                        (* canonical trailing bits *)
          then Some [by1 s1 s2; by2 s2 s3] else None
      | _, _, _ => None
      end
  | c1 :: c2 :: c3 :: c4 :: r =>
      match b64_val c1, b64_val c2, b64_val c3, b64_val c4 with
      | Some s1, Some s2, Some s3, Some s4 =>
          match b64_decode_aux r with
          | Some bs => Some (by1 s1 s2 :: by2 s2 s3 :: by3 s3 s4 :: bs)
          | None => None
          end
      | _, _, _, _ => None
      end
  end.

Definition b64_decode (cs : list N) : option (list N) := b64_decode_aux cs.

Definition bytes_ok (bs : list N) : Prop := Forall (fun b => b < 256) bs.

(* ================================================================== *)
(*  Examples (RFC 4648 section 10 vectors, unpadded; URL-safe chars)  *)
(* ================================================================== *)

(* "f" = 102, "o" = 111, "b" = 98, "a" = 97, "r" = 114 *)
Example ex_enc_f      : b64_encode [102] = [90;103].                                  (* "Zg" *)
Proof. vm_compute. reflexivity. Qed.
Example ex_enc_fo     : b64_encode [102;111] = [90;109;56].                           (* "Zm8" *)
Proof. vm_compute. reflexivity. Qed.
Example ex_enc_foo    : b64_encode [102;111;111] = [90;109;57;118].                   (* "Zm9v" *)
Proof. vm_compute. reflexivity. Qed.
Example ex_enc_foob   : b64_encode [102;111;111;98] = [90;109;57;118;89;103].         (* "Zm9vYg" *)
Proof. vm_compute. reflexivity. Qed.
Example ex_enc_fooba  : b64_encode [102;111;111;98;97] = [90;109;57;118;89;109;69].   (* "Zm9vYmE" *)
Proof. vm_compute. reflexivity. Qed.
Example ex_enc_foobar : b64_encode [102;111;111;98;97;114]
                        = [90;109;57;118;89;109;70;121].                              (* "Zm9vYmFy" *)
Proof. vm_compute. reflexivity. Qed.
Example ex_enc_urlsafe : b64_encode [251;255] = [45;95;56].                           (* "-_8" *)
Proof. vm_compute. reflexivity. Qed.

Example ex_dec_foobar : b64_decode [90;109;57;118;89;109;70;121]
                        = Some [102;111;111;98;97;114].
Proof. vm_compute. reflexivity. Qed.
Example ex_dec_urlsafe : b64_decode [45;95;56] = Some [251;255].
Proof. vm_compute. reflexivity. Qed.
(* "Zh": non-canonical trailing bits *)
Example ex_dec_noncanon : b64_decode [90;104] = None.
Proof. vm_compute. reflexivity. Qed.
(* "Zg==": padding is rejected *)
Example ex_dec_padded : b64_decode [90;103;61;61] = None.
Proof. vm_compute. reflexivity. Qed.
(* "Z": length mod 4 = 1 *)
Example ex_dec_len1 : b64_decode [90] = None.
Proof. vm_compute. reflexivity. Qed.
(* '=' , '+' , '/' are not in the alphabet *)
Example ex_val_pad : b64_val 61 = None /\ b64_val 43 = None /\ b64_val 47 = None.
Proof. vm_compute. auto. Qed.

(* ================================================================== *)
(*  Induction principles                                              *)
(* ================================================================== *)

Lemma list_ind3 : forall (A : Type) (P : list A -> Prop),
  P [] -> (forall a, P [a]) -> (forall a b, P [a; b]) ->
  (forall a b c r, P r -> P (a :: b :: c :: r)) ->
  forall l, P l.
Proof.
  intros A P H0 H1 H2 H3.
  fix IH 1.
  intros [|a [|b [|c r]]];
    [apply H0 | apply H1 | apply H2 | apply H3; apply IH].
Qed.

Lemma list_ind4 : forall (A : Type) (P : list A -> Prop),
  P [] -> (forall a, P [a]) -> (forall a b, P [a; b]) ->
  (forall a b c, P [a; b; c]) ->
  (forall a b c d r, P r -> P (a :: b :: c :: d :: r)) ->
  forall l, P l.
Proof.
  intros A P H0 H1 H2 H3 H4.
  fix IH 1.
  intros [|a [|b [|c [|d r]]]];
    [apply H0 | apply H1 | apply H2 | apply H3 | apply H4; apply IH].
Qed.

(* ================================================================== *)
(*  Alphabet facts                                                    *)
(* ================================================================== *)

Lemma b64_val_char : forall s, s < 64 -> b64_val (b64_char s) = Some s.
Proof.
  assert (H : forallb (fun s => match b64_val (b64_char s) with
                                | Some s' => s' =? s
                                | None => false
                                end)
                      (map N.of_nat (seq 0 64)) = true)
    by (vm_compute; reflexivity).
  rewrite forallb_forall in H.
  intros s Hs.
  specialize (H s).
  assert (Hin : In s (map N.of_nat (seq 0 64))).
  { rewrite <- (N2Nat.id s). apply in_map. apply in_seq. lia. }
  specialize (H Hin).
  destruct (b64_val (b64_char s)) as [s'|]; [|discriminate].
  apply N.eqb_eq in H. congruence.
Qed.

Lemma b64_char_val : forall c s, b64_val c = Some s -> s < 64 /\ b64_char s = c.
Proof.
  intros c s. unfold b64_val.
  destruct ((65 <=? c) && (c <=? 90)) eqn:E1.
  { intros H; injection H as <-. unfold b64_char.
    destruct (c - 65 <? 26) eqn:F1; lia. }
  destruct ((97 <=? c) && (c <=? 122)) eqn:E2.
  { intros H; injection H as <-. unfold b64_char.
    destruct (c - 71 <? 26) eqn:F1; [lia|].
    destruct (c - 71 <? 52) eqn:F2; lia. }
  destruct ((48 <=? c) && (c <=? 57)) eqn:E3.
  { intros H; injection H as <-. unfold b64_char.
    destruct (c + 4 <? 26) eqn:F1; [lia|].
    destruct (c + 4 <? 52) eqn:F2; [lia|].
    destruct (c + 4 <? 62) eqn:F3; lia. }
  destruct (c =? 45) eqn:E4.
  { intros H; injection H as <-. apply N.eqb_eq in E4. subst c.
    vm_compute. auto. }
  destruct (c =? 95) eqn:E5.
  { intros H; injection H as <-. apply N.eqb_eq in E5. subst c.
    vm_compute. auto. }
  discriminate.
Qed.

Lemma b64_val_lt : forall c s, b64_val c = Some s -> s < 64.
Proof. intros c s H. apply (b64_char_val c s H). Qed.

(* every character produced from a sextet is a separator-free ASCII char *)
Lemma b64_val_some_ascii : forall c,
  b64_val c <> None ->
  c <> 126 /\ c <> 46 /\ c <> 34 /\ c <> 92 /\ c < 128.
Proof.
  intros c. unfold b64_val.
  destruct ((65 <=? c) && (c <=? 90)) eqn:E1; [intros _; lia|].
  destruct ((97 <=? c) && (c <=? 122)) eqn:E2; [intros _; lia|].
  destruct ((48 <=? c) && (c <=? 57)) eqn:E3; [intros _; lia|].
  destruct (c =? 45) eqn:E4; [intros _; lia|].
  destruct (c =? 95) eqn:E5; [intros _; lia|].
  intros H; contradiction H; reflexivity.
Qed.

(* ================================================================== *)
(*  Regrouping arithmetic                                             *)
(* ================================================================== *)

Lemma sx1_lt : forall a, a < 256 -> sx1 a < 64.
Proof. unfold sx1; intros; lia. Qed.
Lemma sx2_lt : forall a b, b < 256 -> sx2 a b < 64.
Proof. unfold sx2; intros; lia. Qed.
Lemma sx3_lt : forall b c, c < 256 -> sx3 b c < 64.
Proof. unfold sx3; intros; lia. Qed.
Lemma sx4_lt : forall c, sx4 c < 64.
Proof. unfold sx4; intros; lia. Qed.

Lemma by1_lt : forall s1 s2, s1 < 64 -> s2 < 64 -> by1 s1 s2 < 256.
Proof. unfold by1; intros; lia. Qed.
Lemma by2_lt : forall s2 s3, s3 < 64 -> by2 s2 s3 < 256.
Proof. unfold by2; intros; lia. Qed.
Lemma by3_lt : forall s3 s4, s4 < 64 -> by3 s3 s4 < 256.
Proof. unfold by3; intros; lia. Qed.

Lemma by1_sx : forall a b, a < 256 -> b < 256 -> by1 (sx1 a) (sx2 a b) = a.
Proof. unfold by1, sx1, sx2; intros; lia. Qed.
Lemma by2_sx : forall a b c, b < 256 -> c < 256 -> by2 (sx2 a b) (sx3 b c) = b.
Proof. unfold by2, sx2, sx3; intros; lia. Qed.
Lemma by3_sx : forall b c, c < 256 -> by3 (sx3 b c) (sx4 c) = c.
Proof. unfold by3, sx3, sx4; intros; lia. Qed.

Lemma sx2_tail0 : forall a, sx2 a 0 mod 16 = 0.
Proof. unfold sx2; intros; lia. Qed.
Lemma sx3_tail0 : forall b, sx3 b 0 mod 4 = 0.
Proof. unfold sx3; intros; lia. Qed.

Lemma sx1_by : forall s1 s2, s2 < 64 -> sx1 (by1 s1 s2) = s1.
Proof. unfold by1, sx1; intros; lia. Qed.
Lemma sx2_by : forall s1 s2 s3, s2 < 64 -> s3 < 64 ->
  sx2 (by1 s1 s2) (by2 s2 s3) = s2.
Proof. unfold by1, by2, sx2; intros; lia. Qed.
Lemma sx3_by : forall s2 s3 s4, s3 < 64 -> s4 < 64 ->
  sx3 (by2 s2 s3) (by3 s3 s4) = s3.
Proof. unfold by2, by3, sx3; intros; lia. Qed.
Lemma sx4_by : forall s3 s4, s4 < 64 -> sx4 (by3 s3 s4) = s4.
Proof. unfold by3, sx4; intros; lia. Qed.
Lemma sx2_by_tail : forall s1 s2, s2 < 64 -> s2 mod 16 = 0 ->
  sx2 (by1 s1 s2) 0 = s2.
Proof. unfold by1, sx2; intros; lia. Qed.
Lemma sx3_by_tail : forall s2 s3, s3 < 64 -> s3 mod 4 = 0 ->
  sx3 (by2 s2 s3) 0 = s3.
Proof. unfold by2, sx3; intros; lia. Qed.

(* ================================================================== *)
(*  Unfolding equations (avoid [simpl] on N arithmetic)               *)
(* ================================================================== *)

Lemma b64_encode_1 : forall a,
  b64_encode [a] = [b64_char (sx1 a); b64_char (sx2 a 0)].
Proof. reflexivity. Qed.
Lemma b64_encode_2 : forall a b,
  b64_encode [a; b] = [b64_char (sx1 a); b64_char (sx2 a b); b64_char (sx3 b 0)].
Proof. reflexivity. Qed.
Lemma b64_encode_3 : forall a b c r,
  b64_encode (a :: b :: c :: r) =
  b64_char (sx1 a) :: b64_char (sx2 a b) ::
  b64_char (sx3 b c) :: b64_char (sx4 c) :: b64_encode r.
Proof. reflexivity. Qed.

Lemma b64_decode_aux_2 : forall c1 c2,
  b64_decode_aux [c1; c2] =
  match b64_val c1, b64_val c2 with
  | Some s1, Some s2 => if s2 mod 16 =? 0 then Some [by1 s1 s2] else None
  | _, _ => None
  end.
Proof. reflexivity. Qed.
Lemma b64_decode_aux_3 : forall c1 c2 c3,
  b64_decode_aux [c1; c2; c3] =
  match b64_val c1, b64_val c2, b64_val c3 with
  | Some s1, Some s2, Some s3 =>
      if s3 mod 4 =? 0 then Some [by1 s1 s2; by2 s2 s3] else None
  | _, _, _ => None
  end.
Proof. reflexivity. Qed.
Lemma b64_decode_aux_4 : forall c1 c2 c3 c4 r,
  b64_decode_aux (c1 :: c2 :: c3 :: c4 :: r) =
  match b64_val c1, b64_val c2, b64_val c3, b64_val c4 with
  | Some s1, Some s2, Some s3, Some s4 =>
      match b64_decode_aux r with
      | Some bs => Some (by1 s1 s2 :: by2 s2 s3 :: by3 s3 s4 :: bs)
      | None => None
      end
  | _, _, _, _ => None
  end.
Proof. reflexivity. Qed.

(* ================================================================== *)
(*  Theorem 1: decode after encode                                    *)
(* ================================================================== *)

Theorem b64_decode_encode : forall bs,
  bytes_ok bs -> b64_decode (b64_encode bs) = Some bs.
Proof.
  unfold b64_decode, bytes_ok.
  induction bs as [| a | a b | a b c r IH] using list_ind3; intros Hok.
  - reflexivity.
  - inversion Hok as [|? ? Ha _]; subst.
    rewrite b64_encode_1, b64_decode_aux_2.
    rewrite (b64_val_char (sx1 a)) by (apply sx1_lt; assumption).
    rewrite (b64_val_char (sx2 a 0)) by (apply sx2_lt; lia).
    rewrite sx2_tail0. change (0 =? 0) with true. cbv iota.
    assert (E : by1 (sx1 a) (sx2 a 0) = a) by (apply by1_sx; lia).
    rewrite E. reflexivity.
  - inversion Hok as [|? ? Ha Hok1]; subst.
    inversion Hok1 as [|? ? Hb _]; subst.
    rewrite b64_encode_2, b64_decode_aux_3.
    rewrite (b64_val_char (sx1 a)) by (apply sx1_lt; assumption).
    rewrite (b64_val_char (sx2 a b)) by (apply sx2_lt; assumption).
    rewrite (b64_val_char (sx3 b 0)) by (apply sx3_lt; lia).
    rewrite sx3_tail0. change (0 =? 0) with true. cbv iota.
    rewrite (by1_sx a b) by assumption.
    rewrite (by2_sx a b 0) by lia.
    reflexivity.
  - inversion Hok as [|? ? Ha Hok1]; subst.
    inversion Hok1 as [|? ? Hb Hok2]; subst.
    inversion Hok2 as [|? ? Hc Hok3]; subst.
    rewrite b64_encode_3, b64_decode_aux_4.
    rewrite (b64_val_char (sx1 a)) by (apply sx1_lt; assumption).
    rewrite (b64_val_char (sx2 a b)) by (apply sx2_lt; assumption).
    rewrite (b64_val_char (sx3 b c)) by (apply sx3_lt; assumption).
    rewrite (b64_val_char (sx4 c)) by (apply sx4_lt).
    rewrite (IH Hok3).
    rewrite (by1_sx a b), (by2_sx a b c), (by3_sx b c) by assumption.
    reflexivity.
Qed.

(* ================================================================== *)
(*  Theorem 2: encode is injective                                    *)
(* ================================================================== *)

Theorem b64_encode_inj : forall a b,
  bytes_ok a -> bytes_ok b -> b64_encode a = b64_encode b -> a = b.
Proof.
  intros a b Ha Hb E.
  apply b64_decode_encode in Ha. apply b64_decode_encode in Hb.
  rewrite E in Ha. rewrite Ha in Hb. injection Hb as ->. reflexivity.
Qed.

(* ================================================================== *)
(*  Theorem 3: output stays in the alphabet                           *)
(* ================================================================== *)

Lemma b64_char_in_alphabet : forall s, s < 64 -> b64_val (b64_char s) <> None.
Proof. intros s Hs. rewrite (b64_val_char s Hs). discriminate. Qed.

Theorem b64_encode_alphabet : forall bs c,
  bytes_ok bs -> In c (b64_encode bs) -> b64_val c <> None.
Proof.
  unfold bytes_ok.
  induction bs as [| a | a b | a b c0 r IH] using list_ind3; intros c Hok Hin.
  - destruct Hin.
  - inversion Hok as [|? ? Ha _]; subst.
    rewrite b64_encode_1 in Hin.
    destruct Hin as [<- | [<- | []]]; apply b64_char_in_alphabet.
    + apply sx1_lt; assumption.
    + apply sx2_lt; lia.
  - inversion Hok as [|? ? Ha Hok1]; subst.
    inversion Hok1 as [|? ? Hb _]; subst.
    rewrite b64_encode_2 in Hin.
    destruct Hin as [<- | [<- | [<- | []]]]; apply b64_char_in_alphabet.
    + apply sx1_lt; assumption.
    + apply sx2_lt; assumption.
    + apply sx3_lt; lia.
  - inversion Hok as [|? ? Ha Hok1]; subst.
    inversion Hok1 as [|? ? Hb Hok2]; subst.
    inversion Hok2 as [|? ? Hc Hok3]; subst.
    rewrite b64_encode_3 in Hin.
    destruct Hin as [<- | [<- | [<- | [<- | Hin]]]];
      try apply b64_char_in_alphabet.
    + apply sx1_lt; assumption.
    + apply sx2_lt; assumption.
    + apply sx3_lt; assumption.
    + apply sx4_lt.
    + apply (IH c Hok3 Hin).
Qed.

(* no tilde (126), dot (46), double quote (34), backslash (92); 7-bit ASCII *)
Corollary b64_encode_no_sep : forall bs c,
  bytes_ok bs -> In c (b64_encode bs) ->
  c <> 126 /\ c <> 46 /\ c <> 34 /\ c <> 92 /\ c < 128.
Proof.
  intros bs c Hok Hin. apply b64_val_some_ascii.
  apply (b64_encode_alphabet bs c Hok Hin).
Qed.

(* ================================================================== *)
(*  Theorem 4: output length                                          *)
(* ================================================================== *)

Theorem b64_encode_length : forall bs,
  length (b64_encode bs) =
  (4 * (length bs / 3) +
   match (length bs mod 3)%nat with 0 => 0 | 1 => 2 | _ => 3 end)%nat.
Proof.
  induction bs as [| a | a b | a b c r IH] using list_ind3.
  - reflexivity.
  - reflexivity.
  - reflexivity.
  - rewrite b64_encode_3.
    change (length (b64_char (sx1 a) :: b64_char (sx2 a b) ::
                    b64_char (sx3 b c) :: b64_char (sx4 c) :: b64_encode r))
      with (4 + length (b64_encode r))%nat.
    change (length (a :: b :: c :: r)) with (3 + length r)%nat.
    rewrite IH.
    set (n := length r).
    assert (Hd : ((3 + n) / 3 = 1 + n / 3)%nat).
    { replace (3 + n)%nat with (1 * 3 + n)%nat by reflexivity.
      apply Nat.div_add_l. discriminate. }
    assert (Hm : ((3 + n) mod 3 = n mod 3)%nat).
    { replace (3 + n)%nat with (n + 1 * 3)%nat by apply Nat.add_comm.
      apply Nat.mod_add. discriminate. }
    rewrite Hd, Hm. lia.
Qed.

(* ================================================================== *)
(*  Theorem 5: decode yields bytes                                    *)
(* ================================================================== *)

Theorem b64_decode_bytes_ok : forall cs bs,
  b64_decode cs = Some bs -> bytes_ok bs.
Proof.
  unfold b64_decode, bytes_ok.
  induction cs as [| c1 | c1 c2 | c1 c2 c3 | c1 c2 c3 c4 r IH] using list_ind4;
    intros bs H.
  - injection H as <-. constructor.
  - discriminate.
  - rewrite b64_decode_aux_2 in H.
    destruct (b64_val c1) as [s1|] eqn:E1; [|discriminate].
    destruct (b64_val c2) as [s2|] eqn:E2; [|discriminate].
    destruct (s2 mod 16 =? 0); [|discriminate].
    injection H as <-.
    apply b64_val_lt in E1. apply b64_val_lt in E2.
    repeat constructor. apply by1_lt; assumption.
  - rewrite b64_decode_aux_3 in H.
    destruct (b64_val c1) as [s1|] eqn:E1; [|discriminate].
    destruct (b64_val c2) as [s2|] eqn:E2; [|discriminate].
    destruct (b64_val c3) as [s3|] eqn:E3; [|discriminate].
    destruct (s3 mod 4 =? 0); [|discriminate].
    injection H as <-.
    apply b64_val_lt in E1. apply b64_val_lt in E2. apply b64_val_lt in E3.
    repeat constructor; [apply by1_lt | apply by2_lt]; assumption.
  - rewrite b64_decode_aux_4 in H.
    destruct (b64_val c1) as [s1|] eqn:E1; [|discriminate].
    destruct (b64_val c2) as [s2|] eqn:E2; [|discriminate].
    destruct (b64_val c3) as [s3|] eqn:E3; [|discriminate].
    destruct (b64_val c4) as [s4|] eqn:E4; [|discriminate].
    destruct (b64_decode_aux r) as [bs'|] eqn:Er; [|discriminate].
    injection H as <-.
    apply b64_val_lt in E1. apply b64_val_lt in E2.
    apply b64_val_lt in E3. apply b64_val_lt in E4.
    constructor; [apply by1_lt; assumption|].
    constructor; [apply by2_lt; assumption|].
    constructor; [apply by3_lt; assumption|].
    apply IH. reflexivity.
Qed.

(* ================================================================== *)
(*  Theorem 6: encode after decode (canonicity)                       *)
(* ================================================================== *)

Theorem b64_encode_decode : forall cs bs,
  b64_decode cs = Some bs -> b64_encode bs = cs.
Proof.
  unfold b64_decode.
  induction cs as [| c1 | c1 c2 | c1 c2 c3 | c1 c2 c3 c4 r IH] using list_ind4;
    intros bs H.
  - injection H as <-. reflexivity.
  - discriminate.
  - rewrite b64_decode_aux_2 in H.
    destruct (b64_val c1) as [s1|] eqn:E1; [|discriminate].
    destruct (b64_val c2) as [s2|] eqn:E2; [|discriminate].
    destruct (s2 mod 16 =? 0) eqn:T; [|discriminate].
    injection H as <-. apply N.eqb_eq in T.
    apply b64_char_val in E1. apply b64_char_val in E2.
    destruct E1 as [L1 <-]. destruct E2 as [L2 <-].
    rewrite b64_encode_1.
    rewrite sx1_by by assumption.
    rewrite sx2_by_tail by assumption.
    reflexivity.
  - rewrite b64_decode_aux_3 in H.
    destruct (b64_val c1) as [s1|] eqn:E1; [|discriminate].
    destruct (b64_val c2) as [s2|] eqn:E2; [|discriminate].
    destruct (b64_val c3) as [s3|] eqn:E3; [|discriminate].
    destruct (s3 mod 4 =? 0) eqn:T; [|discriminate].
    injection H as <-. apply N.eqb_eq in T.
    apply b64_char_val in E1. apply b64_char_val in E2. apply b64_char_val in E3.
    destruct E1 as [L1 <-]. destruct E2 as [L2 <-]. destruct E3 as [L3 <-].
    rewrite b64_encode_2.
    rewrite sx1_by by assumption.
    rewrite sx2_by by assumption.
    rewrite sx3_by_tail by assumption.
    reflexivity.
  - rewrite b64_decode_aux_4 in H.
    destruct (b64_val c1) as [s1|] eqn:E1; [|discriminate].
    destruct (b64_val c2) as [s2|] eqn:E2; [|discriminate].
    destruct (b64_val c3) as [s3|] eqn:E3; [|discriminate].
    destruct (b64_val c4) as [s4|] eqn:E4; [|discriminate].
    destruct (b64_decode_aux r) as [bs'|] eqn:Er; [|discriminate].
    injection H as <-.
    apply b64_char_val in E1. apply b64_char_val in E2.
    apply b64_char_val in E3. apply b64_char_val in E4.
    destruct E1 as [L1 <-]. destruct E2 as [L2 <-].
    destruct E3 as [L3 <-]. destruct E4 as [L4 <-].
    rewrite b64_encode_3.
    rewrite sx1_by by assumption.
    rewrite sx2_by by assumption.
    rewrite sx3_by by assumption.
    rewrite sx4_by by assumption.
    rewrite (IH bs' eq_refl).
    reflexivity.
Qed.

(* decode is injective on its domain *)
Corollary b64_decode_inj : forall c1 c2 bs,
  b64_decode c1 = Some bs -> b64_decode c2 = Some bs -> c1 = c2.
Proof.
  intros c1 c2 bs H1 H2.
  apply b64_encode_decode in H1. apply b64_encode_decode in H2. congruence.
Qed.

Print Assumptions b64_decode_encode.
Print Assumptions b64_encode_inj.
Print Assumptions b64_encode_alphabet.
Print Assumptions b64_encode_no_sep.
Print Assumptions b64_encode_length.
Print Assumptions b64_decode_bytes_ok.
Print Assumptions b64_encode_decode.
Print Assumptions b64_decode_inj.

(* Codec/JsonParse.v — RFC 8259 recursive-descent parser with the acceptance
   behaviour of serde_json::from_str::<Value> (preserve_order, no
   arbitrary_precision): whitespace = SP HT LF CR, raw control characters in
   strings rejected, \uXXXX with surrogate pairs, lone surrogates rejected,
   a repeated member name keeps its first position and takes the last value
   (parse_json; parse_json_raw keeps repeats),
   nesting limited to 127 containers, trailing non-whitespace rejected.
   Numbers are kept as lexemes.  Recursion is on explicit fuel; every call
   consumes at least one character, [parse_json] supplies 2*|s|+2. *)
From SDJWT Require Import Base.Json.

Definition is_ws (c : N) : bool :=
  N.eqb c 32 || N.eqb c 9 || N.eqb c 10 || N.eqb c 13.

Fixpoint skip_ws (s : str) : str :=
  match s with
  | c :: s' => if is_ws c then skip_ws s' else s
  | [] => []
  end.

Definition is_digit (c : N) : bool := N.leb 48 c && N.leb c 57.

Definition hex_val (c : N) : option N :=
  if is_digit c then Some (c - 48)
  else if N.leb 97 c && N.leb c 102 then Some (c - 87)
  else if N.leb 65 c && N.leb c 70 then Some (c - 55)
  else None.

Definition hex4 (s : str) : option (N * str) :=
  match s with
  | a :: b :: c :: d :: r =>
      match hex_val a, hex_val b, hex_val c, hex_val d with
      | Some a', Some b', Some c', Some d' => Some (((a' * 16 + b') * 16 + c') * 16 + d', r)
      | _, _, _, _ => None
      end
  | _ => None
  end.

(* after the opening quote; returns (decoded string, rest after the closing quote) *)
Fixpoint parse_str_body (fuel : nat) (s : str) (acc : str) : option (str * str) :=
  match fuel with
  | O => None
  | S f =>
      match s with
      | [] => None
      | c :: r =>
          if N.eqb c 34 then Some (rev acc, r)
          else if N.eqb c 92 then
            match r with
            | [] => None
            | e :: r2 =>
                if N.eqb e 34 then parse_str_body f r2 (34 :: acc)
                else if N.eqb e 92 then parse_str_body f r2 (92 :: acc)
                else if N.eqb e 47 then parse_str_body f r2 (47 :: acc)
                else if N.eqb e 98 then parse_str_body f r2 (8 :: acc)
                else if N.eqb e 102 then parse_str_body f r2 (12 :: acc)
                else if N.eqb e 110 then parse_str_body f r2 (10 :: acc)
                else if N.eqb e 114 then parse_str_body f r2 (13 :: acc)
                else if N.eqb e 116 then parse_str_body f r2 (9 :: acc)
                else if N.eqb e 117 then
                  match hex4 r2 with
                  | None => None
                  | Some (n, r3) =>
                      if N.leb 55296 n && N.leb n 56319 then          (* D800..DBFF: lead surrogate *)
                        match r3 with
                        | 92 :: 117 :: r4 =>
                            match hex4 r4 with
                            | Some (n2, r5) =>
                                if N.leb 56320 n2 && N.leb n2 57343 then   (* DC00..DFFF *)
                                  parse_str_body f r5
                                    (65536 + (n - 55296) * 1024 + (n2 - 56320) :: acc)
                                else None
                            | None => None
                            end
                        | _ => None
                        end
                      else if N.leb 56320 n && N.leb n 57343 then None     (* lone trail surrogate *)
                      else parse_str_body f r3 (n :: acc)
                  end
                else None
            end
          else if N.ltb c 32 then None
          else parse_str_body f r (c :: acc)
      end
  end.

Definition parse_string_lit (s : str) : option (str * str) :=
  match s with
  | 34 :: r => parse_str_body (S (List.length r)) r []
  | _ => None
  end.

(* digits: returns (digits in order, rest) *)
Fixpoint take_digits (s : str) : str * str :=
  match s with
  | c :: r => if is_digit c then let (d, r') := take_digits r in (c :: d, r') else ([], s)
  | [] => ([], [])
  end.

(* returns (lexeme, rest) *)
Definition parse_number (s : str) : option (str * str) :=
  let '(sign, s1) := match s with 45 :: r => ([45], r) | _ => ([], s) end in
  match s1 with
  | [] => None
  | c :: r =>
      let int_part :=
        if N.eqb c 48 then
          match r with
          | d :: _ => if is_digit d then None else Some ([48], r)
          | [] => Some ([48], r)
          end
        else if is_digit c then let (ds, r') := take_digits r in Some (c :: ds, r')
        else None in
      match int_part with
      | None => None
      | Some (ip, s2) =>
          let frac :=
            match s2 with
            | 46 :: r2 =>
                let (ds, r3) := take_digits r2 in
                match ds with [] => None | _ => Some (46 :: ds, r3) end
            | _ => Some ([], s2)
            end in
          match frac with
          | None => None
          | Some (fp, s3) =>
              let ex :=
                match s3 with
                | e :: r4 =>
                    if N.eqb e 101 || N.eqb e 69 then
                      let '(sg, r5) := match r4 with
                                       | 43 :: r' => ([43], r')
                                       | 45 :: r' => ([45], r')
                                       | _ => ([], r4)
                                       end in
                      let (ds, r6) := take_digits r5 in
                      match ds with [] => None | _ => Some (e :: sg ++ ds, r6) end
                    else Some ([], s3)
                | [] => Some ([], s3)
                end in
              match ex with
              | None => None
              | Some (ep, s4) => Some (sign ++ ip ++ fp ++ ep, s4)
              end
          end
      end
  end.

Definition expect_lit (l : str) (v : json) (s : str) : option (json * str) :=
  match strip_prefix l s with
  | Some r => Some (v, r)
  | None => None
  end.

Definition MAX_DEPTH : nat := 128.

Fixpoint parse_val (fuel depth : nat) (s : str) {struct fuel} : option (json * str) :=
  match fuel with
  | O => None
  | S f =>
      match skip_ws s with
      | [] => None
      | c :: r =>
          if N.eqb c 110 then expect_lit [110; 117; 108; 108] JNull (c :: r)
          else if N.eqb c 116 then expect_lit [116; 114; 117; 101] (JBool true) (c :: r)
          else if N.eqb c 102 then expect_lit [102; 97; 108; 115; 101] (JBool false) (c :: r)
          else if N.eqb c 34 then
            match parse_string_lit (c :: r) with
            | Some (st, r') => Some (JStr st, r')
            | None => None
            end
          else if N.eqb c 91 then
            match depth with
            | O | S O => None
            | S d =>
                match skip_ws r with
                | 93 :: r' => Some (JArr [], r')
                | r1 => parse_elems f d r1 []
                end
            end
          else if N.eqb c 123 then
            match depth with
            | O | S O => None
            | S d =>
                match skip_ws r with
                | 125 :: r' => Some (JObj [], r')
                | r1 => parse_members f d r1 []
                end
            end
          else if N.eqb c 45 || is_digit c then
            match parse_number (c :: r) with
            | Some (lx, r') => Some (JNum lx, r')
            | None => None
            end
          else None
      end
  end

with parse_elems (fuel depth : nat) (s : str) (acc : list json) {struct fuel} : option (json * str) :=
  match fuel with
  | O => None
  | S f =>
      match parse_val f depth s with
      | None => None
      | Some (v, r) =>
          match skip_ws r with
          | 44 :: r' => parse_elems f depth r' (v :: acc)
          | 93 :: r' => Some (JArr (rev (v :: acc)), r')
          | _ => None
          end
      end
  end

with parse_members (fuel depth : nat) (s : str) (acc : members) {struct fuel} : option (json * str) :=
  match fuel with
  | O => None
  | S f =>
      match parse_string_lit (skip_ws s) with
      | None => None
      | Some (k, r) =>
          match skip_ws r with
          | 58 :: r1 =>
              match parse_val f depth r1 with
              | None => None
              | Some (v, r2) =>
                  match skip_ws r2 with
                  | 44 :: r' => parse_members f depth r' ((k, v) :: acc)
                  | 125 :: r' => Some (JObj (rev ((k, v) :: acc)), r')
                  | _ => None
                  end
              end
          | _ => None
          end
      end
  end.

(* The raw parse keeps every member of every object, in order, repeats included
   (derived serde structs reject a repeated known field; see Model/Jwt.v). *)
Definition parse_json_raw (s : str) : option json :=
  match parse_val (2 * List.length s + 2) MAX_DEPTH s with
  | Some (v, r) => match skip_ws r with [] => Some v | _ :: _ => None end
  | None => None
  end.

(* serde_json::Value / Map semantics: a repeated member name keeps its first
   position and takes the last value. *)
Fixpoint dedup (v : json) : json :=
  match v with
  | JArr l => JArr (map dedup l)
  | JObj m => JObj (obj_of_list (map (fun kv => (fst kv, dedup (snd kv))) m))
  | _ => v
  end.

Definition parse_json (s : str) : option json := option_map dedup (parse_json_raw s).

(* number of members named k in a raw object *)
Fixpoint count_key (k : str) (m : members) : nat :=
  match m with
  | [] => O
  | (k', _) :: m' => (if str_eqb k k' then 1 else 0) + count_key k m'
  end.

(* ------------------------------------------------------------------------ *)
(*  Codec/Sha256.v -- executable FIPS 180-4 SHA-256 over byte lists.         *)
(*                                                                          *)
(*  Self-contained (Coq stdlib only).  Bytes and 32-bit words are both      *)
(*  represented as [N]; 32-bit wrap-around is [N.land _ 0xFFFFFFFF].        *)
(*  All recursion is structural on lists (no fuel, no large [nat]s), and    *)
(*  every constant is an [N] literal, so the function runs quickly under    *)
(*  [vm_compute] and extracts to plain OCaml with ExtrOcamlBasic.           *)
(* ------------------------------------------------------------------------ *)

From Coq Require Import List NArith Lia.
Import ListNotations.
Open Scope N_scope.

(* ---------- 32-bit word primitives (FIPS 180-4, sections 2.2.2, 3.2) ----- *)

Definition mask32 : N := 0xFFFFFFFF.

(* Reduction modulo 2^32. *)
Definition trunc32 (x : N) : N := N.land x mask32.

(* For x < 2^32 and 0 < n < 32. *)
Definition shr32 (x n : N) : N := N.shiftr x n.
Definition rotr32 (x n : N) : N :=
  N.lor (N.shiftr x n) (trunc32 (N.shiftl x (32 - n))).

(* Bitwise complement on 32 bits, for x < 2^32. *)
Definition not32 (x : N) : N := N.lxor x mask32.

(* Section 4.1.2, functions (4.2)-(4.7). *)
Definition sha_Ch (x y z : N) : N :=
  N.lxor (N.land x y) (N.land (not32 x) z).
Definition sha_Maj (x y z : N) : N :=
  N.lxor (N.lxor (N.land x y) (N.land x z)) (N.land y z).
Definition sha_bsig0 (x : N) : N :=
  N.lxor (N.lxor (rotr32 x 2) (rotr32 x 13)) (rotr32 x 22).
Definition sha_bsig1 (x : N) : N :=
  N.lxor (N.lxor (rotr32 x 6) (rotr32 x 11)) (rotr32 x 25).
Definition sha_ssig0 (x : N) : N :=
  N.lxor (N.lxor (rotr32 x 7) (rotr32 x 18)) (shr32 x 3).
Definition sha_ssig1 (x : N) : N :=
  N.lxor (N.lxor (rotr32 x 17) (rotr32 x 19)) (shr32 x 10).

(* ---------- Constants (sections 4.2.2 and 5.3.3) ------------------------- *)

Definition K256 : list N :=
  [ 0x428a2f98; 0x71374491; 0xb5c0fbcf; 0xe9b5dba5;
    0x3956c25b; 0x59f111f1; 0x923f82a4; 0xab1c5ed5;
    0xd807aa98; 0x12835b01; 0x243185be; 0x550c7dc3;
    0x72be5d74; 0x80deb1fe; 0x9bdc06a7; 0xc19bf174;
    0xe49b69c1; 0xefbe4786; 0x0fc19dc6; 0x240ca1cc;
    0x2de92c6f; 0x4a7484aa; 0x5cb0a9dc; 0x76f988da;
    0x983e5152; 0xa831c66d; 0xb00327c8; 0xbf597fc7;
    0xc6e00bf3; 0xd5a79147; 0x06ca6351; 0x14292967;
    0x27b70a85; 0x2e1b2138; 0x4d2c6dfc; 0x53380d13;
    0x650a7354; 0x766a0abb; 0x81c2c92e; 0x92722c85;
    0xa2bfe8a1; 0xa81a664b; 0xc24b8b70; 0xc76c51a3;
    0xd192e819; 0xd6990624; 0xf40e3585; 0x106aa070;
    0x19a4c116; 0x1e376c08; 0x2748774c; 0x34b0bcb5;
    0x391c0cb3; 0x4ed8aa4a; 0x5b9cca4f; 0x682e6ff3;
    0x748f82ee; 0x78a5636f; 0x84c87814; 0x8cc70208;
    0x90befffa; 0xa4506ceb; 0xbef9a3f7; 0xc67178f2 ].

(* Working variables a..h / hash value H0..H7. *)
Record sha_state : Set := ShaState {
  sha_a : N; sha_b : N; sha_c : N; sha_d : N;
  sha_e : N; sha_f : N; sha_g : N; sha_h : N }.

Definition H256_init : sha_state :=
  ShaState 0x6a09e667 0xbb67ae85 0x3c6ef372 0xa54ff53a
        0x510e527f 0x9b05688c 0x1f83d9ab 0x5be0cd19.

(* ---------- Compression function (section 6.2.2) ------------------------- *)

(* One round, given the round constant [k] and schedule word [w]. *)
Definition sha_round (k w : N) (s : sha_state) : sha_state :=
  let (a, b, c, d, e, f, g, h) := s in
  let t1 := trunc32 (h + sha_bsig1 e + sha_Ch e f g + k + w) in
  let t2 := trunc32 (sha_bsig0 a + sha_Maj a b c) in
  ShaState (trunc32 (t1 + t2)) a b c (trunc32 (d + t1)) e f g.

(* The message schedule is produced on the fly from a sliding window of the
   last 16 schedule words: at round t the window is [W_t; ...; W_(t+15)], its
   head is consumed by the sha_round, and
     W_(t+16) = sha_ssig1 W_(t+14) + W_(t+9) + sha_ssig0 W_(t+1) + W_t
   is appended.  Recursion is structural on the list of round constants. *)
Fixpoint sha_rounds (ks win : list N) (s : sha_state) : sha_state :=
  match ks with
  | [] => s
  | k :: ks' =>
      let w0 := nth 0 win 0 in
      let wn := trunc32 (sha_ssig1 (nth 14 win 0) + nth 9 win 0
                         + sha_ssig0 (nth 1 win 0) + w0) in
      sha_rounds ks' (tl win ++ [wn]) (sha_round k w0 s)
  end.

(* Process one 16-word block [blk] starting from hash value [hv]. *)
Definition sha_compress (hv : sha_state) (blk : list N) : sha_state :=
  let (a, b, c, d, e, f, g, h) := sha_rounds K256 blk hv in
  ShaState (trunc32 (sha_a hv + a)) (trunc32 (sha_b hv + b))
        (trunc32 (sha_c hv + c)) (trunc32 (sha_d hv + d))
        (trunc32 (sha_e hv + e)) (trunc32 (sha_f hv + f))
        (trunc32 (sha_g hv + g)) (trunc32 (sha_h hv + h)).

(* Fold [sha_compress] over a word list, 16 words at a time.  The padded
   message always has a multiple of 16 words; a trailing partial block is
   ignored.  Structural recursion on [ws]. *)
Fixpoint sha_process (ws : list N) (hv : sha_state) : sha_state :=
  match ws with
  | w0 :: w1 :: w2 :: w3 :: w4 :: w5 :: w6 :: w7 ::
    w8 :: w9 :: w10 :: w11 :: w12 :: w13 :: w14 :: w15 :: rest =>
      sha_process rest
        (sha_compress hv [w0; w1; w2; w3; w4; w5; w6; w7;
                          w8; w9; w10; w11; w12; w13; w14; w15])
  | _ => hv
  end.

(* ---------- Padding and (de)serialisation (sections 5.1.1, 5.2.1) -------- *)

Definition low8 (x : N) : N := N.land x 0xFF.

(* Big-endian bytes -> 32-bit words.  Input elements are reduced mod 256, so
   the function is well defined on arbitrary [N] lists. *)
Fixpoint be_words_of_bytes (bs : list N) : list N :=
  match bs with
  | b0 :: b1 :: b2 :: b3 :: rest =>
      N.lor (N.lor (N.shiftl (low8 b0) 24) (N.shiftl (low8 b1) 16))
            (N.lor (N.shiftl (low8 b2) 8) (low8 b3))
      :: be_words_of_bytes rest
  | _ => []
  end.

Definition be_bytes_of_word (w : N) : list N :=
  [ low8 (N.shiftr w 24); low8 (N.shiftr w 16); low8 (N.shiftr w 8); low8 w ].

(* List length computed directly in binary. *)
Fixpoint Nlength {A : Type} (l : list A) (acc : N) : N :=
  match l with
  | [] => acc
  | _ :: l' => Nlength l' (N.succ acc)
  end.

(* The 64-bit big-endian bit length (taken mod 2^64). *)
Definition sha_length_bytes (nbytes : N) : list N :=
  let bits := nbytes * 8 in
  [ low8 (N.shiftr bits 56); low8 (N.shiftr bits 48);
    low8 (N.shiftr bits 40); low8 (N.shiftr bits 32);
    low8 (N.shiftr bits 24); low8 (N.shiftr bits 16);
    low8 (N.shiftr bits 8);  low8 bits ].

(* msg ++ 0x80 ++ 0x00^k ++ len64, with k < 64 minimal such that the total
   length is a multiple of 64, i.e. k = (119 - len mod 64) mod 64. *)
Definition sha_pad (msg : list N) : list N :=
  let len := Nlength msg 0 in
  let k := (119 - len mod 64) mod 64 in
  msg ++ 0x80 :: repeat 0 (N.to_nat k) ++ sha_length_bytes len.

(* The digest: 8 words x 4 bytes, big-endian. *)
Definition sha_digest_bytes (s : sha_state) : list N :=
  let (a, b, c, d, e, f, g, h) := s in
  be_bytes_of_word a ++ be_bytes_of_word b ++
  be_bytes_of_word c ++ be_bytes_of_word d ++
  be_bytes_of_word e ++ be_bytes_of_word f ++
  be_bytes_of_word g ++ be_bytes_of_word h.

Definition sha256 (msg : list N) : list N :=
  sha_digest_bytes (sha_process (be_words_of_bytes (sha_pad msg)) H256_init).

(* ---------- Basic facts -------------------------------------------------- *)

Lemma sha_digest_bytes_length : forall s, length (sha_digest_bytes s) = 32%nat.
Proof. intros []. reflexivity. Qed.

Lemma sha256_length : forall msg, length (sha256 msg) = 32%nat.
Proof. intros msg. unfold sha256. apply sha_digest_bytes_length. Qed.

Lemma low8_lt : forall x, low8 x < 256.
Proof.
  intros x. unfold low8.
  change 0xFF with (N.ones 8). rewrite N.land_ones.
  apply N.mod_lt. discriminate.
Qed.

Lemma be_bytes_of_word_lt :
  forall w, Forall (fun b => b < 256) (be_bytes_of_word w).
Proof.
  intros w. unfold be_bytes_of_word. repeat constructor; apply low8_lt.
Qed.

Lemma sha_digest_bytes_lt :
  forall s, Forall (fun b => b < 256) (sha_digest_bytes s).
Proof.
  intros []. unfold sha_digest_bytes.
  repeat (apply Forall_app; split); apply be_bytes_of_word_lt.
Qed.

(* Every output element is a byte. *)
Lemma sha256_bytes_lt : forall msg, Forall (fun b => b < 256) (sha256 msg).
Proof. intros msg. unfold sha256. apply sha_digest_bytes_lt. Qed.

(* ---------- Test vectors ------------------------------------------------- *)

(* Deterministic n-byte test message: byte i is (7*i + 3) mod 256.  Expected
   digests below were computed with Python's hashlib. *)
Definition sha_test_msg (n : nat) : list N :=
  map (fun i => (N.of_nat i * 7 + 3) mod 256) (seq 0 n).

(* e3b0c442 98fc1c14 9afbf4c8 996fb924 27ae41e4 649b934c a495991b 7852b855 *)
Example sha256_empty :
  sha256
    [] =
    [0xe3; 0xb0; 0xc4; 0x42; 0x98; 0xfc; 0x1c; 0x14; 0x9a; 0xfb; 0xf4;
    0xc8; 0x99; 0x6f; 0xb9; 0x24; 0x27; 0xae; 0x41; 0xe4; 0x64; 0x9b; 0x93;
    0x4c; 0xa4; 0x95; 0x99; 0x1b; 0x78; 0x52; 0xb8; 0x55].
Proof. vm_compute. reflexivity. Qed.

(* ba7816bf 8f01cfea 414140de 5dae2223 b00361a3 96177a9c b410ff61 f20015ad *)
Example sha256_abc :
  sha256
    [0x61; 0x62; 0x63] =
    [0xba; 0x78; 0x16; 0xbf; 0x8f; 0x01; 0xcf; 0xea; 0x41; 0x41; 0x40;
    0xde; 0x5d; 0xae; 0x22; 0x23; 0xb0; 0x03; 0x61; 0xa3; 0x96; 0x17; 0x7a;
    0x9c; 0xb4; 0x10; 0xff; 0x61; 0xf2; 0x00; 0x15; 0xad].
Proof. vm_compute. reflexivity. Qed.

(* 248d6a61 d20638b8 e5c02693 0c3e6039 a33ce459 64ff2167 f6ecedd4 19db06c1 *)
Example sha256_fips_56 :
  sha256
    [0x61; 0x62; 0x63; 0x64; 0x62; 0x63; 0x64; 0x65; 0x63; 0x64; 0x65;
    0x66; 0x64; 0x65; 0x66; 0x67; 0x65; 0x66; 0x67; 0x68; 0x66; 0x67; 0x68;
    0x69; 0x67; 0x68; 0x69; 0x6a; 0x68; 0x69; 0x6a; 0x6b; 0x69; 0x6a; 0x6b;
    0x6c; 0x6a; 0x6b; 0x6c; 0x6d; 0x6b; 0x6c; 0x6d; 0x6e; 0x6c; 0x6d; 0x6e;
    0x6f; 0x6d; 0x6e; 0x6f; 0x70; 0x6e; 0x6f; 0x70; 0x71] =
    [0x24; 0x8d; 0x6a; 0x61; 0xd2; 0x06; 0x38; 0xb8; 0xe5; 0xc0; 0x26;
    0x93; 0x0c; 0x3e; 0x60; 0x39; 0xa3; 0x3c; 0xe4; 0x59; 0x64; 0xff; 0x21;
    0x67; 0xf6; 0xec; 0xed; 0xd4; 0x19; 0xdb; 0x06; 0xc1].
Proof. vm_compute. reflexivity. Qed.

(* e7313d33 3c272e63 9f790978 283f9eb3 92e843d0 f29b7016 828bb1da a4aac70b *)
Example sha256_len_55 :
  sha256
    (sha_test_msg 55) =
    [0xe7; 0x31; 0x3d; 0x33; 0x3c; 0x27; 0x2e; 0x63; 0x9f; 0x79; 0x09;
    0x78; 0x28; 0x3f; 0x9e; 0xb3; 0x92; 0xe8; 0x43; 0xd0; 0xf2; 0x9b; 0x70;
    0x16; 0x82; 0x8b; 0xb1; 0xda; 0xa4; 0xaa; 0xc7; 0x0b].
Proof. vm_compute. reflexivity. Qed.

(* 4324d65f 3c103567 f5589c71 0bc08f85 23f929a9 272e3af3 6fc968e5 2abc6c27 *)
Example sha256_len_56 :
  sha256
    (sha_test_msg 56) =
    [0x43; 0x24; 0xd6; 0x5f; 0x3c; 0x10; 0x35; 0x67; 0xf5; 0x58; 0x9c;
    0x71; 0x0b; 0xc0; 0x8f; 0x85; 0x23; 0xf9; 0x29; 0xa9; 0x27; 0x2e; 0x3a;
    0xf3; 0x6f; 0xc9; 0x68; 0xe5; 0x2a; 0xbc; 0x6c; 0x27].
Proof. vm_compute. reflexivity. Qed.

(* 81c80242 132f230c 3bd41b3e 63bbcff1 61073395 49214a99 614ff266 64625055 *)
Example sha256_len_63 :
  sha256
    (sha_test_msg 63) =
    [0x81; 0xc8; 0x02; 0x42; 0x13; 0x2f; 0x23; 0x0c; 0x3b; 0xd4; 0x1b;
    0x3e; 0x63; 0xbb; 0xcf; 0xf1; 0x61; 0x07; 0x33; 0x95; 0x49; 0x21; 0x4a;
    0x99; 0x61; 0x4f; 0xf2; 0x66; 0x64; 0x62; 0x50; 0x55].
Proof. vm_compute. reflexivity. Qed.

(* 39e3d7b6 b5d075d3 7d053ad8 9b24b41b ef4f3c29 760c8444 7cab3f3b e1882241 *)
Example sha256_len_64 :
  sha256
    (sha_test_msg 64) =
    [0x39; 0xe3; 0xd7; 0xb6; 0xb5; 0xd0; 0x75; 0xd3; 0x7d; 0x05; 0x3a;
    0xd8; 0x9b; 0x24; 0xb4; 0x1b; 0xef; 0x4f; 0x3c; 0x29; 0x76; 0x0c; 0x84;
    0x44; 0x7c; 0xab; 0x3f; 0x3b; 0xe1; 0x88; 0x22; 0x41].
Proof. vm_compute. reflexivity. Qed.

(* aacca6ff 74fdbb29 6d165a45 cecfa04e 5127bc00 8770fbbd d48006f2 d2fae95e *)
Example sha256_len_65 :
  sha256
    (sha_test_msg 65) =
    [0xaa; 0xcc; 0xa6; 0xff; 0x74; 0xfd; 0xbb; 0x29; 0x6d; 0x16; 0x5a;
    0x45; 0xce; 0xcf; 0xa0; 0x4e; 0x51; 0x27; 0xbc; 0x00; 0x87; 0x70; 0xfb;
    0xbd; 0xd4; 0x80; 0x06; 0xf2; 0xd2; 0xfa; 0xe9; 0x5e].
Proof. vm_compute. reflexivity. Qed.

(* 9ce7368e 4daf3234 1631b492 e80359dc 9f594b48 453cd0dd 5bf0b192 79cc177e *)
Example sha256_len_119 :
  sha256
    (sha_test_msg 119) =
    [0x9c; 0xe7; 0x36; 0x8e; 0x4d; 0xaf; 0x32; 0x34; 0x16; 0x31; 0xb4;
    0x92; 0xe8; 0x03; 0x59; 0xdc; 0x9f; 0x59; 0x4b; 0x48; 0x45; 0x3c; 0xd0;
    0xdd; 0x5b; 0xf0; 0xb1; 0x92; 0x79; 0xcc; 0x17; 0x7e].
Proof. vm_compute. reflexivity. Qed.

(* 7836b787 757e95e5 8b3ca5ae c90b1b00 4e8deba1 e50e9675 af9cabf1 a13a04b5 *)
Example sha256_len_120 :
  sha256
    (sha_test_msg 120) =
    [0x78; 0x36; 0xb7; 0x87; 0x75; 0x7e; 0x95; 0xe5; 0x8b; 0x3c; 0xa5;
    0xae; 0xc9; 0x0b; 0x1b; 0x00; 0x4e; 0x8d; 0xeb; 0xa1; 0xe5; 0x0e; 0x96;
    0x75; 0xaf; 0x9c; 0xab; 0xf1; 0xa1; 0x3a; 0x04; 0xb5].
Proof. vm_compute. reflexivity. Qed.

(* 2c7e18c9 42ef065b 526a2d4e 55462837 49cd3ddf b51d8fc7 1f427173 63685f46 *)
Example sha256_len_200 :
  sha256
    (sha_test_msg 200) =
    [0x2c; 0x7e; 0x18; 0xc9; 0x42; 0xef; 0x06; 0x5b; 0x52; 0x6a; 0x2d;
    0x4e; 0x55; 0x46; 0x28; 0x37; 0x49; 0xcd; 0x3d; 0xdf; 0xb5; 0x1d; 0x8f;
    0xc7; 0x1f; 0x42; 0x71; 0x73; 0x63; 0x68; 0x5f; 0x46].
Proof. vm_compute. reflexivity. Qed.


(* ------------------------------------------------------------------ *)
(*  Codec/Utf8.v — UTF-8 encoding / strict decoding of Unicode scalar  *)
(*  value sequences, modelled on Rust's [String::from_utf8] /          *)
(*  [std::str::from_utf8] acceptance (core::str::validations).         *)
(*                                                                     *)
(*  A string is a [list N] of code points; bytes are [N] < 256.        *)
(*  Stand-alone: depends on the Coq standard library only.             *)
(* ------------------------------------------------------------------ *)

Require Import List NArith Lia Bool ZArith.
Import ListNotations.
Open Scope N_scope.

(* [lia] extended with constant-divisor [/] and [mod].  In Coq 8.16 zify
   maps [N.div]/[N.modulo] to [Z.quot]/[Z.rem], hence
   [Z.to_euclidean_division_equations] rather than
   [Z.div_mod_to_equations].  Kept as a local tactic: no global
   redefinition of [Zify.zify_post_hook] leaks to importers. *)
Local Ltac dlia := zify; Z.to_euclidean_division_equations; lia.

(* ================================================================== *)
(*  Scalar values                                                      *)
(* ================================================================== *)

(* A Rust [char]: any code point except the surrogates D800..DFFF,
   up to 10FFFF. *)
Definition scalar (c : N) : bool :=
  (c <? 0xD800) || ((0xE000 <=? c) && (c <=? 0x10FFFF)).

Definition scalars (s : list N) : Prop := Forall (fun c => scalar c = true) s.

Lemma scalar_spec : forall c,
  scalar c = true <-> (c < 0xD800 \/ (0xE000 <= c /\ c <= 0x10FFFF)).
Proof.
  intro c. unfold scalar.
  rewrite orb_true_iff, andb_true_iff, N.ltb_lt, !N.leb_le. tauto.
Qed.

(* ================================================================== *)
(*  Encoder                                                            *)
(* ================================================================== *)

Definition utf8_encode_char (c : N) : list N :=
  if c <? 0x80 then [c]
  else if c <? 0x800 then
    [0xC0 + c / 0x40; 0x80 + c mod 0x40]
  else if c <? 0x10000 then
    [0xE0 + c / 0x1000; 0x80 + (c / 0x40) mod 0x40; 0x80 + c mod 0x40]
  else
    [0xF0 + c / 0x40000; 0x80 + (c / 0x1000) mod 0x40;
     0x80 + (c / 0x40) mod 0x40; 0x80 + c mod 0x40].

Definition utf8_encode (s : list N) : list N := flat_map utf8_encode_char s.

Lemma utf8_encode_nil : utf8_encode [] = [].
Proof. reflexivity. Qed.

Lemma utf8_encode_cons : forall c s,
  utf8_encode (c :: s) = utf8_encode_char c ++ utf8_encode s.
Proof. reflexivity. Qed.

Lemma utf8_encode_app : forall a b,
  utf8_encode (a ++ b) = utf8_encode a ++ utf8_encode b.
Proof. intros a b. unfold utf8_encode. apply flat_map_app. Qed.

(* The four size classes, as rewriting lemmas. *)
Lemma enc1 : forall c, c < 0x80 -> utf8_encode_char c = [c].
Proof.
  intros c H. unfold utf8_encode_char.
  destruct (N.ltb_spec c 0x80); [reflexivity | lia].
Qed.

Lemma enc2 : forall c, 0x80 <= c -> c < 0x800 ->
  utf8_encode_char c = [0xC0 + c / 0x40; 0x80 + c mod 0x40].
Proof.
  intros c H1 H2. unfold utf8_encode_char.
  destruct (N.ltb_spec c 0x80); [lia |].
  destruct (N.ltb_spec c 0x800); [reflexivity | lia].
Qed.

Lemma enc3 : forall c, 0x800 <= c -> c < 0x10000 ->
  utf8_encode_char c =
  [0xE0 + c / 0x1000; 0x80 + (c / 0x40) mod 0x40; 0x80 + c mod 0x40].
Proof.
  intros c H1 H2. unfold utf8_encode_char.
  destruct (N.ltb_spec c 0x80); [lia |].
  destruct (N.ltb_spec c 0x800); [lia |].
  destruct (N.ltb_spec c 0x10000); [reflexivity | lia].
Qed.

Lemma enc4 : forall c, 0x10000 <= c ->
  utf8_encode_char c =
  [0xF0 + c / 0x40000; 0x80 + (c / 0x1000) mod 0x40;
   0x80 + (c / 0x40) mod 0x40; 0x80 + c mod 0x40].
Proof.
  intros c H1. unfold utf8_encode_char.
  destruct (N.ltb_spec c 0x80); [lia |].
  destruct (N.ltb_spec c 0x800); [lia |].
  destruct (N.ltb_spec c 0x10000); [lia | reflexivity].
Qed.

(* ================================================================== *)
(*  Strict decoder (mirrors core::str::validations::run_utf8_validation)*)
(* ================================================================== *)

Definition in_range (lo hi b : N) : bool := (lo <=? b) && (b <=? hi).

(* continuation byte 80..BF *)
Definition cont (b : N) : bool := in_range 0x80 0xBF b.

(* Rust, width 3:
     (0xE0, 0xA0..=0xBF) | (0xE1..=0xEC, 0x80..=0xBF)
   | (0xED, 0x80..=0x9F) | (0xEE..=0xEF, 0x80..=0xBF)                  *)
Definition second3_ok (b0 b1 : N) : bool :=
  if b0 =? 0xE0 then in_range 0xA0 0xBF b1
  else if b0 =? 0xED then in_range 0x80 0x9F b1
  else in_range 0x80 0xBF b1.

(* Rust, width 4:
     (0xF0, 0x90..=0xBF) | (0xF1..=0xF3, 0x80..=0xBF) | (0xF4, 0x80..=0x8F) *)
Definition second4_ok (b0 b1 : N) : bool :=
  if b0 =? 0xF0 then in_range 0x90 0xBF b1
  else if b0 =? 0xF4 then in_range 0x80 0x8F b1
  else in_range 0x80 0xBF b1.

(* lead byte in C2..DF *)
Definition dec2 (b0 b1 : N) : option N :=
  if cont b1 then Some ((b0 - 0xC0) * 0x40 + (b1 - 0x80)) else None.

(* lead byte in E0..EF *)
Definition dec3 (b0 b1 b2 : N) : option N :=
  if second3_ok b0 b1 && cont b2 then
    Some ((b0 - 0xE0) * 0x1000 + (b1 - 0x80) * 0x40 + (b2 - 0x80))
  else None.

(* lead byte in F0..F4 *)
Definition dec4 (b0 b1 b2 b3 : N) : option N :=
  if second4_ok b0 b1 && cont b2 && cont b3 then
    Some ((b0 - 0xF0) * 0x40000 + (b1 - 0x80) * 0x1000
          + (b2 - 0x80) * 0x40 + (b3 - 0x80))
  else None.

Definition push (o : option N) (k : option (list N)) : option (list N) :=
  match o with
  | Some c => option_map (cons c) k
  | None => None
  end.

(* Lead-byte classes (UTF8_CHAR_WIDTH):
     00..7F -> 1,  80..C1 -> invalid (stray continuation / overlong C0,C1),
     C2..DF -> 2,  E0..EF -> 3,  F0..F4 -> 4,  F5.. -> invalid
   (anything >= 256 is not a byte and lands in the last class). *)
Fixpoint utf8_decode (bs : list N) : option (list N) :=
  match bs with
  | [] => Some []
  | b0 :: r0 =>
    if b0 <? 0x80 then option_map (cons b0) (utf8_decode r0)
    else if b0 <? 0xC2 then None
    else if b0 <? 0xE0 then
      match r0 with
      | b1 :: r1 => push (dec2 b0 b1) (utf8_decode r1)
      | _ => None
      end
    else if b0 <? 0xF0 then
      match r0 with
      | b1 :: b2 :: r2 => push (dec3 b0 b1 b2) (utf8_decode r2)
      | _ => None
      end
    else if b0 <? 0xF5 then
      match r0 with
      | b1 :: b2 :: b3 :: r3 => push (dec4 b0 b1 b2 b3) (utf8_decode r3)
      | _ => None
      end
    else None
  end.

(* ------------------------------------------------------------------ *)
(*  Boolean tests as propositions                                      *)
(* ------------------------------------------------------------------ *)

Lemma in_range_spec : forall lo hi b,
  in_range lo hi b = true <-> (lo <= b /\ b <= hi).
Proof.
  intros. unfold in_range. rewrite andb_true_iff, !N.leb_le. tauto.
Qed.

Lemma cont_spec : forall b, cont b = true <-> (0x80 <= b /\ b <= 0xBF).
Proof. intro b. apply in_range_spec. Qed.

Lemma second3_ok_spec : forall b0 b1,
  second3_ok b0 b1 = true <->
  (0x80 <= b1 /\ b1 <= 0xBF /\
   (b0 = 0xE0 -> 0xA0 <= b1) /\ (b0 = 0xED -> b1 <= 0x9F)).
Proof.
  intros b0 b1. unfold second3_ok.
  destruct (N.eqb_spec b0 0xE0) as [E|E].
  - rewrite in_range_spec. lia.
  - destruct (N.eqb_spec b0 0xED) as [E'|E']; rewrite in_range_spec; lia.
Qed.

Lemma second4_ok_spec : forall b0 b1,
  second4_ok b0 b1 = true <->
  (0x80 <= b1 /\ b1 <= 0xBF /\
   (b0 = 0xF0 -> 0x90 <= b1) /\ (b0 = 0xF4 -> b1 <= 0x8F)).
Proof.
  intros b0 b1. unfold second4_ok.
  destruct (N.eqb_spec b0 0xF0) as [E|E].
  - rewrite in_range_spec. lia.
  - destruct (N.eqb_spec b0 0xF4) as [E'|E']; rewrite in_range_spec; lia.
Qed.

(* ------------------------------------------------------------------ *)
(*  Inversion of dec2 / dec3 / dec4                                    *)
(* ------------------------------------------------------------------ *)

Lemma dec2_inv : forall b0 b1 c,
  dec2 b0 b1 = Some c ->
  0x80 <= b1 /\ b1 <= 0xBF /\ c = (b0 - 0xC0) * 0x40 + (b1 - 0x80).
Proof.
  intros b0 b1 c H. unfold dec2 in H.
  destruct (cont b1) eqn:C1; [| discriminate].
  apply cont_spec in C1. injection H as H. lia.
Qed.

Lemma dec3_inv : forall b0 b1 b2 c,
  dec3 b0 b1 b2 = Some c ->
  0x80 <= b1 /\ b1 <= 0xBF /\
  (b0 = 0xE0 -> 0xA0 <= b1) /\ (b0 = 0xED -> b1 <= 0x9F) /\
  0x80 <= b2 /\ b2 <= 0xBF /\
  c = (b0 - 0xE0) * 0x1000 + (b1 - 0x80) * 0x40 + (b2 - 0x80).
Proof.
  intros b0 b1 b2 c H. unfold dec3 in H.
  destruct (second3_ok b0 b1) eqn:C1; [| discriminate].
  destruct (cont b2) eqn:C2; [| discriminate].
  apply second3_ok_spec in C1. apply cont_spec in C2.
  cbn [andb] in H. injection H as H. lia.
Qed.

Lemma dec4_inv : forall b0 b1 b2 b3 c,
  dec4 b0 b1 b2 b3 = Some c ->
  0x80 <= b1 /\ b1 <= 0xBF /\
  (b0 = 0xF0 -> 0x90 <= b1) /\ (b0 = 0xF4 -> b1 <= 0x8F) /\
  0x80 <= b2 /\ b2 <= 0xBF /\ 0x80 <= b3 /\ b3 <= 0xBF /\
  c = (b0 - 0xF0) * 0x40000 + (b1 - 0x80) * 0x1000
      + (b2 - 0x80) * 0x40 + (b3 - 0x80).
Proof.
  intros b0 b1 b2 b3 c H. unfold dec4 in H.
  destruct (second4_ok b0 b1) eqn:C1; [| discriminate].
  destruct (cont b2) eqn:C2; [| discriminate].
  destruct (cont b3) eqn:C3; [| discriminate].
  apply second4_ok_spec in C1. apply cont_spec in C2. apply cont_spec in C3.
  cbn [andb] in H. injection H as H. lia.
Qed.

(* ------------------------------------------------------------------ *)
(*  dec_n on the encoder's output                                      *)
(* ------------------------------------------------------------------ *)

Lemma dec2_enc : forall c, 0x80 <= c -> c < 0x800 ->
  dec2 (0xC0 + c / 0x40) (0x80 + c mod 0x40) = Some c.
Proof.
  intros c H1 H2. unfold dec2.
  replace (cont (0x80 + c mod 0x40)) with true
    by (symmetry; apply cont_spec; dlia).
  f_equal. dlia.
Qed.

Lemma dec3_enc : forall c, 0x800 <= c -> c < 0x10000 -> scalar c = true ->
  dec3 (0xE0 + c / 0x1000) (0x80 + (c / 0x40) mod 0x40) (0x80 + c mod 0x40)
  = Some c.
Proof.
  intros c H1 H2 Hs. apply scalar_spec in Hs. unfold dec3.
  replace (second3_ok (0xE0 + c / 0x1000) (0x80 + (c / 0x40) mod 0x40))
    with true by (symmetry; apply second3_ok_spec; dlia).
  replace (cont (0x80 + c mod 0x40)) with true
    by (symmetry; apply cont_spec; dlia).
  cbn [andb]. f_equal. dlia.
Qed.

Lemma dec4_enc : forall c, 0x10000 <= c -> c <= 0x10FFFF ->
  dec4 (0xF0 + c / 0x40000) (0x80 + (c / 0x1000) mod 0x40)
       (0x80 + (c / 0x40) mod 0x40) (0x80 + c mod 0x40)
  = Some c.
Proof.
  intros c H1 H2. unfold dec4.
  replace (second4_ok (0xF0 + c / 0x40000) (0x80 + (c / 0x1000) mod 0x40))
    with true by (symmetry; apply second4_ok_spec; dlia).
  replace (cont (0x80 + (c / 0x40) mod 0x40)) with true
    by (symmetry; apply cont_spec; dlia).
  replace (cont (0x80 + c mod 0x40)) with true
    by (symmetry; apply cont_spec; dlia).
  cbn [andb]. f_equal. dlia.
Qed.

(* ------------------------------------------------------------------ *)
(*  Unfolding lemmas for the decoder, one per lead-byte class          *)
(* ------------------------------------------------------------------ *)

Lemma utf8_decode_nil : utf8_decode [] = Some [].
Proof. reflexivity. Qed.

Lemma utf8_decode_cons : forall b0 r0,
  utf8_decode (b0 :: r0) =
    if b0 <? 0x80 then option_map (cons b0) (utf8_decode r0)
    else if b0 <? 0xC2 then None
    else if b0 <? 0xE0 then
      match r0 with
      | b1 :: r1 => push (dec2 b0 b1) (utf8_decode r1)
      | _ => None
      end
    else if b0 <? 0xF0 then
      match r0 with
      | b1 :: b2 :: r2 => push (dec3 b0 b1 b2) (utf8_decode r2)
      | _ => None
      end
    else if b0 <? 0xF5 then
      match r0 with
      | b1 :: b2 :: b3 :: r3 => push (dec4 b0 b1 b2 b3) (utf8_decode r3)
      | _ => None
      end
    else None.
Proof. reflexivity. Qed.

Lemma ltb_true : forall a b, a < b -> (a <? b) = true.
Proof. intros. apply N.ltb_lt. assumption. Qed.

Lemma ltb_false : forall a b, b <= a -> (a <? b) = false.
Proof. intros. apply N.ltb_ge. assumption. Qed.

Lemma utf8_decode_w1 : forall b0 r0, b0 < 0x80 ->
  utf8_decode (b0 :: r0) = option_map (cons b0) (utf8_decode r0).
Proof.
  intros b0 r0 H. rewrite utf8_decode_cons.
  rewrite (ltb_true b0 0x80) by lia. reflexivity.
Qed.

Lemma utf8_decode_bad_lo : forall b0 r0, 0x80 <= b0 -> b0 < 0xC2 ->
  utf8_decode (b0 :: r0) = None.
Proof.
  intros b0 r0 H1 H2. rewrite utf8_decode_cons.
  rewrite (ltb_false b0 0x80) by lia.
  rewrite (ltb_true b0 0xC2) by lia. reflexivity.
Qed.

Lemma utf8_decode_w2 : forall b0 r0, 0xC2 <= b0 -> b0 < 0xE0 ->
  utf8_decode (b0 :: r0) =
    match r0 with
    | b1 :: r1 => push (dec2 b0 b1) (utf8_decode r1)
    | _ => None
    end.
Proof.
  intros b0 r0 H1 H2. rewrite utf8_decode_cons.
  rewrite (ltb_false b0 0x80) by lia.
  rewrite (ltb_false b0 0xC2) by lia.
  rewrite (ltb_true b0 0xE0) by lia. reflexivity.
Qed.

Lemma utf8_decode_w3 : forall b0 r0, 0xE0 <= b0 -> b0 < 0xF0 ->
  utf8_decode (b0 :: r0) =
    match r0 with
    | b1 :: b2 :: r2 => push (dec3 b0 b1 b2) (utf8_decode r2)
    | _ => None
    end.
Proof.
  intros b0 r0 H1 H2. rewrite utf8_decode_cons.
  rewrite (ltb_false b0 0x80) by lia.
  rewrite (ltb_false b0 0xC2) by lia.
  rewrite (ltb_false b0 0xE0) by lia.
  rewrite (ltb_true b0 0xF0) by lia. reflexivity.
Qed.

Lemma utf8_decode_w4 : forall b0 r0, 0xF0 <= b0 -> b0 < 0xF5 ->
  utf8_decode (b0 :: r0) =
    match r0 with
    | b1 :: b2 :: b3 :: r3 => push (dec4 b0 b1 b2 b3) (utf8_decode r3)
    | _ => None
    end.
Proof.
  intros b0 r0 H1 H2. rewrite utf8_decode_cons.
  rewrite (ltb_false b0 0x80) by lia.
  rewrite (ltb_false b0 0xC2) by lia.
  rewrite (ltb_false b0 0xE0) by lia.
  rewrite (ltb_false b0 0xF0) by lia.
  rewrite (ltb_true b0 0xF5) by lia. reflexivity.
Qed.

Lemma utf8_decode_bad_hi : forall b0 r0, 0xF5 <= b0 ->
  utf8_decode (b0 :: r0) = None.
Proof.
  intros b0 r0 H1. rewrite utf8_decode_cons.
  rewrite (ltb_false b0 0x80) by lia.
  rewrite (ltb_false b0 0xC2) by lia.
  rewrite (ltb_false b0 0xE0) by lia.
  rewrite (ltb_false b0 0xF0) by lia.
  rewrite (ltb_false b0 0xF5) by lia. reflexivity.
Qed.

(* ================================================================== *)
(*  1. decode . encode = Some                                          *)
(* ================================================================== *)

Lemma utf8_decode_encode_char : forall c rest, scalar c = true ->
  utf8_decode (utf8_encode_char c ++ rest)
  = option_map (cons c) (utf8_decode rest).
Proof.
  intros c rest Hs. pose proof Hs as Hs'. apply scalar_spec in Hs'.
  destruct (N.lt_ge_cases c 0x80) as [L1|G1].
  { rewrite enc1 by assumption. cbn [app].
    apply utf8_decode_w1. assumption. }
  destruct (N.lt_ge_cases c 0x800) as [L2|G2].
  { rewrite enc2 by assumption. cbn [app].
    rewrite utf8_decode_w2 by dlia.
    rewrite dec2_enc by assumption. reflexivity. }
  destruct (N.lt_ge_cases c 0x10000) as [L3|G3].
  { rewrite enc3 by assumption. cbn [app].
    rewrite utf8_decode_w3 by dlia.
    rewrite dec3_enc by assumption. reflexivity. }
  rewrite enc4 by assumption. cbn [app].
  rewrite utf8_decode_w4 by dlia.
  rewrite dec4_enc by lia. reflexivity.
Qed.

Theorem utf8_decode_encode : forall s,
  scalars s -> utf8_decode (utf8_encode s) = Some s.
Proof.
  intros s H. induction H as [| c s Hc Hs IH].
  - reflexivity.
  - rewrite utf8_encode_cons, utf8_decode_encode_char by assumption.
    rewrite IH. reflexivity.
Qed.

(* ================================================================== *)
(*  2. the encoder is injective on scalar strings                      *)
(* ================================================================== *)

Theorem utf8_encode_inj : forall a b,
  scalars a -> scalars b -> utf8_encode a = utf8_encode b -> a = b.
Proof.
  intros a b Ha Hb E.
  apply utf8_decode_encode in Ha. apply utf8_decode_encode in Hb.
  rewrite E in Ha. rewrite Ha in Hb. injection Hb as Hb. exact Hb.
Qed.

(* ================================================================== *)
(*  3. the encoder emits bytes                                         *)
(* ================================================================== *)

Lemma utf8_encode_char_bytes : forall c, scalar c = true ->
  Forall (fun b => b < 256) (utf8_encode_char c).
Proof.
  intros c Hs. apply scalar_spec in Hs.
  destruct (N.lt_ge_cases c 0x80) as [L1|G1].
  { rewrite enc1 by assumption. repeat constructor. lia. }
  destruct (N.lt_ge_cases c 0x800) as [L2|G2].
  { rewrite enc2 by assumption. repeat constructor; dlia. }
  destruct (N.lt_ge_cases c 0x10000) as [L3|G3].
  { rewrite enc3 by assumption. repeat constructor; dlia. }
  rewrite enc4 by assumption. repeat constructor; dlia.
Qed.

Theorem utf8_encode_bytes : forall s,
  scalars s -> Forall (fun b => b < 256) (utf8_encode s).
Proof.
  intros s H. induction H as [| c s Hc Hs IH].
  - constructor.
  - rewrite utf8_encode_cons. apply Forall_app. split.
    + apply utf8_encode_char_bytes. assumption.
    + assumption.
Qed.

(* ================================================================== *)
(*  4 & 5. whatever the decoder accepts is the canonical encoding of   *)
(*  a scalar string                                                    *)
(* ================================================================== *)

Lemma option_map_cons_inv : forall (c : N) o s,
  option_map (cons c) o = Some s -> exists t, o = Some t /\ s = c :: t.
Proof.
  intros c [t|] s H; cbn [option_map] in H; [| discriminate].
  injection H as H. exists t. split; [reflexivity | symmetry; assumption].
Qed.

Lemma push_inv : forall o k s,
  push o k = Some s -> exists c t, o = Some c /\ k = Some t /\ s = c :: t.
Proof.
  intros [c|] k s H; cbn [push] in H; [| discriminate].
  apply option_map_cons_inv in H. destruct H as [t [H1 H2]].
  exists c, t. auto.
Qed.

(* per-width soundness of the byte-level checks *)
Lemma dec2_sound : forall b0 b1 c, 0xC2 <= b0 -> b0 < 0xE0 ->
  dec2 b0 b1 = Some c ->
  scalar c = true /\ utf8_encode_char c = [b0; b1].
Proof.
  intros b0 b1 c H1 H2 H. apply dec2_inv in H.
  split.
  - apply scalar_spec. lia.
  - rewrite enc2 by lia. f_equal; [| f_equal]; dlia.
Qed.

Lemma dec3_sound : forall b0 b1 b2 c, 0xE0 <= b0 -> b0 < 0xF0 ->
  dec3 b0 b1 b2 = Some c ->
  scalar c = true /\ utf8_encode_char c = [b0; b1; b2].
Proof.
  intros b0 b1 b2 c H1 H2 H. apply dec3_inv in H.
  split.
  - apply scalar_spec. lia.
  - rewrite enc3 by lia. f_equal; [| f_equal; [| f_equal]]; dlia.
Qed.

Lemma dec4_sound : forall b0 b1 b2 b3 c, 0xF0 <= b0 -> b0 < 0xF5 ->
  dec4 b0 b1 b2 b3 = Some c ->
  scalar c = true /\ utf8_encode_char c = [b0; b1; b2; b3].
Proof.
  intros b0 b1 b2 b3 c H1 H2 H. apply dec4_inv in H.
  split.
  - apply scalar_spec. lia.
  - rewrite enc4 by lia.
    f_equal; [| f_equal; [| f_equal; [| f_equal]]]; dlia.
Qed.

Lemma utf8_decode_sound_aux : forall (n : nat) bs s,
  (length bs <= n)%nat ->
  utf8_decode bs = Some s -> scalars s /\ utf8_encode s = bs.
Proof.
  induction n as [| n IH]; intros bs s Hlen H.
  - destruct bs as [| b0 r0]; [| cbn [length] in Hlen; lia].
    rewrite utf8_decode_nil in H. injection H as <-.
    split; [constructor | reflexivity].
  - destruct bs as [| b0 r0].
    { rewrite utf8_decode_nil in H. injection H as <-.
      split; [constructor | reflexivity]. }
    cbn [length] in Hlen.
    destruct (N.lt_ge_cases b0 0x80) as [L1|G1].
    { rewrite utf8_decode_w1 in H by assumption.
      apply option_map_cons_inv in H. destruct H as [t [Ht ->]].
      apply IH in Ht; [| lia]. destruct Ht as [St Et].
      split.
      - constructor; [apply scalar_spec; lia | assumption].
      - rewrite utf8_encode_cons, enc1, Et by assumption. reflexivity. }
    destruct (N.lt_ge_cases b0 0xC2) as [L2|G2].
    { rewrite utf8_decode_bad_lo in H by assumption. discriminate. }
    destruct (N.lt_ge_cases b0 0xE0) as [L3|G3].
    { rewrite utf8_decode_w2 in H by assumption.
      destruct r0 as [| b1 r1]; [discriminate |].
      apply push_inv in H. destruct H as [c [t [Hc [Ht ->]]]].
      apply dec2_sound in Hc; [| assumption | assumption].
      destruct Hc as [Sc Ec].
      apply IH in Ht; [| cbn [length] in Hlen; lia]. destruct Ht as [St Et].
      split.
      - constructor; assumption.
      - rewrite utf8_encode_cons, Ec, Et. reflexivity. }
    destruct (N.lt_ge_cases b0 0xF0) as [L4|G4].
    { rewrite utf8_decode_w3 in H by assumption.
      destruct r0 as [| b1 [| b2 r2]]; [discriminate | discriminate |].
      apply push_inv in H. destruct H as [c [t [Hc [Ht ->]]]].
      apply dec3_sound in Hc; [| assumption | assumption].
      destruct Hc as [Sc Ec].
      apply IH in Ht; [| cbn [length] in Hlen; lia]. destruct Ht as [St Et].
      split.
      - constructor; assumption.
      - rewrite utf8_encode_cons, Ec, Et. reflexivity. }
    destruct (N.lt_ge_cases b0 0xF5) as [L5|G5].
    { rewrite utf8_decode_w4 in H by assumption.
      destruct r0 as [| b1 [| b2 [| b3 r3]]];
        [discriminate | discriminate | discriminate |].
      apply push_inv in H. destruct H as [c [t [Hc [Ht ->]]]].
      apply dec4_sound in Hc; [| assumption | assumption].
      destruct Hc as [Sc Ec].
      apply IH in Ht; [| cbn [length] in Hlen; lia]. destruct Ht as [St Et].
      split.
      - constructor; assumption.
      - rewrite utf8_encode_cons, Ec, Et. reflexivity. }
    rewrite utf8_decode_bad_hi in H by assumption. discriminate.
Qed.

Theorem utf8_decode_scalars : forall bs s,
  utf8_decode bs = Some s -> scalars s.
Proof.
  intros bs s H.
  exact (proj1 (utf8_decode_sound_aux (length bs) bs s (le_n _) H)).
Qed.

Theorem utf8_encode_decode : forall bs s,
  utf8_decode bs = Some s -> utf8_encode s = bs.
Proof.
  intros bs s H.
  exact (proj2 (utf8_decode_sound_aux (length bs) bs s (le_n _) H)).
Qed.

(* Full characterisation: the decoder is exactly the partial inverse of
   the encoder on scalar strings. *)
Corollary utf8_decode_iff : forall bs s,
  utf8_decode bs = Some s <-> (scalars s /\ utf8_encode s = bs).
Proof.
  intros bs s. split.
  - intro H. split; [eapply utf8_decode_scalars | apply utf8_encode_decode];
      eassumption.
  - intros [Hs <-]. apply utf8_decode_encode. assumption.
Qed.

(* Accepted input consists of bytes. *)
Corollary utf8_decode_bytes : forall bs s,
  utf8_decode bs = Some s -> Forall (fun b => b < 256) bs.
Proof.
  intros bs s H. apply utf8_decode_iff in H. destruct H as [Hs <-].
  apply utf8_encode_bytes. assumption.
Qed.

(* ================================================================== *)
(*  6. ASCII is encoded as itself                                      *)
(* ================================================================== *)

Lemma utf8_encode_ascii : forall s,
  Forall (fun c => c < 128) s -> utf8_encode s = s.
Proof.
  intros s H. induction H as [| c s Hc Hs IH].
  - reflexivity.
  - rewrite utf8_encode_cons, enc1, IH by assumption. reflexivity.
Qed.

Lemma utf8_decode_ascii : forall s,
  Forall (fun c => c < 128) s -> utf8_decode s = Some s.
Proof.
  intros s H. rewrite <- (utf8_encode_ascii s H) at 1.
  apply utf8_decode_encode.
  eapply Forall_impl; [| exact H].
  cbv beta. intros c Hc. apply scalar_spec. lia.
Qed.

(* ================================================================== *)
(*  Byte-level rejection facts (Rust's from_utf8 error cases)          *)
(* ================================================================== *)

(* stray continuation byte, or overlong lead C0 / C1 *)
Lemma utf8_decode_reject_80_C1 : forall b r,
  0x80 <= b -> b <= 0xC1 -> utf8_decode (b :: r) = None.
Proof. intros. apply utf8_decode_bad_lo; lia. Qed.

(* lead bytes F5..FF, and anything that is not a byte *)
Lemma utf8_decode_reject_F5_up : forall b r,
  0xF5 <= b -> utf8_decode (b :: r) = None.
Proof. exact utf8_decode_bad_hi. Qed.

(* overlong 3-byte form: E0 followed by < A0 *)
Lemma utf8_decode_reject_E0_overlong : forall b1 r,
  b1 < 0xA0 -> utf8_decode (0xE0 :: b1 :: r) = None.
Proof.
  intros b1 r H. rewrite utf8_decode_w3 by lia.
  destruct r as [| b2 r2]; [reflexivity |].
  destruct (dec3 0xE0 b1 b2) as [c|] eqn:E; [| reflexivity].
  apply dec3_inv in E. lia.
Qed.

(* surrogates: ED followed by >= A0 *)
Lemma utf8_decode_reject_ED_surrogate : forall b1 r,
  0xA0 <= b1 -> utf8_decode (0xED :: b1 :: r) = None.
Proof.
  intros b1 r H. rewrite utf8_decode_w3 by lia.
  destruct r as [| b2 r2]; [reflexivity |].
  destruct (dec3 0xED b1 b2) as [c|] eqn:E; [| reflexivity].
  apply dec3_inv in E. lia.
Qed.

(* overlong 4-byte form: F0 followed by < 90 *)
Lemma utf8_decode_reject_F0_overlong : forall b1 r,
  b1 < 0x90 -> utf8_decode (0xF0 :: b1 :: r) = None.
Proof.
  intros b1 r H. rewrite utf8_decode_w4 by lia.
  destruct r as [| b2 [| b3 r3]]; [reflexivity | reflexivity |].
  destruct (dec4 0xF0 b1 b2 b3) as [c|] eqn:E; [| reflexivity].
  apply dec4_inv in E. lia.
Qed.

(* above U+10FFFF: F4 followed by >= 90 *)
Lemma utf8_decode_reject_F4_too_big : forall b1 r,
  0x90 <= b1 -> utf8_decode (0xF4 :: b1 :: r) = None.
Proof.
  intros b1 r H. rewrite utf8_decode_w4 by lia.
  destruct r as [| b2 [| b3 r3]]; [reflexivity | reflexivity |].
  destruct (dec4 0xF4 b1 b2 b3) as [c|] eqn:E; [| reflexivity].
  apply dec4_inv in E. lia.
Qed.

(* ================================================================== *)
(*  Examples                                                           *)
(* ================================================================== *)

Example ex_enc_e9 : utf8_encode [0xE9] = [0xC3; 0xA9].
Proof. vm_compute. reflexivity. Qed.

Example ex_enc_euro : utf8_encode [0x20AC] = [0xE2; 0x82; 0xAC].
Proof. vm_compute. reflexivity. Qed.

Example ex_enc_grin : utf8_encode [0x1F600] = [0xF0; 0x9F; 0x98; 0x80].
Proof. vm_compute. reflexivity. Qed.

Example ex_enc_mixed :
  utf8_encode [0x41; 0xE9; 0x20AC; 0x1F600; 0x7A]
  = [0x41; 0xC3; 0xA9; 0xE2; 0x82; 0xAC; 0xF0; 0x9F; 0x98; 0x80; 0x7A].
Proof. vm_compute. reflexivity. Qed.

Example ex_dec_mixed :
  utf8_decode [0x41; 0xC3; 0xA9; 0xE2; 0x82; 0xAC; 0xF0; 0x9F; 0x98; 0x80; 0x7A]
  = Some [0x41; 0xE9; 0x20AC; 0x1F600; 0x7A].
Proof. vm_compute. reflexivity. Qed.

Example ex_enc_ffff : utf8_encode [0xFFFF] = [0xEF; 0xBF; 0xBF].
Proof. vm_compute. reflexivity. Qed.

Example ex_enc_10000 : utf8_encode [0x10000] = [0xF0; 0x90; 0x80; 0x80].
Proof. vm_compute. reflexivity. Qed.

Example ex_enc_10ffff : utf8_encode [0x10FFFF] = [0xF4; 0x8F; 0xBF; 0xBF].
Proof. vm_compute. reflexivity. Qed.

Example ex_rt_ffff : utf8_decode (utf8_encode [0xFFFF]) = Some [0xFFFF].
Proof. vm_compute. reflexivity. Qed.

Example ex_rt_10000 : utf8_decode (utf8_encode [0x10000]) = Some [0x10000].
Proof. vm_compute. reflexivity. Qed.

Example ex_rt_10ffff : utf8_decode (utf8_encode [0x10FFFF]) = Some [0x10FFFF].
Proof. vm_compute. reflexivity. Qed.

Example ex_rt_boundaries :
  utf8_decode (utf8_encode [0x0; 0x7F; 0x80; 0x7FF; 0x800; 0xD7FF; 0xE000])
  = Some [0x0; 0x7F; 0x80; 0x7FF; 0x800; 0xD7FF; 0xE000].
Proof. vm_compute. reflexivity. Qed.

(* overlong NUL *)
Example ex_rej_c0_80 : utf8_decode [0xC0; 0x80] = None.
Proof. vm_compute. reflexivity. Qed.

(* surrogate U+D800 *)
Example ex_rej_surrogate : utf8_decode [0xED; 0xA0; 0x80] = None.
Proof. vm_compute. reflexivity. Qed.

(* U+110000 *)
Example ex_rej_110000 : utf8_decode [0xF4; 0x90; 0x80; 0x80] = None.
Proof. vm_compute. reflexivity. Qed.

(* truncated *)
Example ex_rej_truncated : utf8_decode [0xE2; 0x82] = None.
Proof. vm_compute. reflexivity. Qed.

(* stray continuation byte *)
Example ex_rej_stray : utf8_decode [0x80] = None.
Proof. vm_compute. reflexivity. Qed.

(* further negative cases *)
Example ex_rej_e0_overlong : utf8_decode [0xE0; 0x9F; 0xBF] = None.
Proof. vm_compute. reflexivity. Qed.

Example ex_rej_f0_overlong : utf8_decode [0xF0; 0x8F; 0xBF; 0xBF] = None.
Proof. vm_compute. reflexivity. Qed.

Example ex_rej_f5 : utf8_decode [0xF5; 0x80; 0x80; 0x80] = None.
Proof. vm_compute. reflexivity. Qed.

Example ex_rej_not_byte : utf8_decode [0x100] = None.
Proof. vm_compute. reflexivity. Qed.

Example ex_rej_bad_cont : utf8_decode [0xC3; 0x41] = None.
Proof. vm_compute. reflexivity. Qed.

Example ex_rej_cont_not_byte : utf8_decode [0xC3; 0x1A9] = None.
Proof. vm_compute. reflexivity. Qed.

Print Assumptions utf8_decode_encode.
Print Assumptions utf8_encode_inj.
Print Assumptions utf8_encode_bytes.
Print Assumptions utf8_decode_scalars.
Print Assumptions utf8_encode_decode.
Print Assumptions utf8_decode_iff.
Print Assumptions utf8_decode_bytes.
Print Assumptions utf8_encode_ascii.
Print Assumptions utf8_decode_ascii.

(* Codec/JsonPrint.v — serde_json's compact printer (`to_string`) as a function
   on code-point lists, in continuation style: [print_k v k = text(v) ++ k].
   [sp = true] gives the Python json.dumps separators (", " and ": ") that the
   deterministic-salt build produces. *)
From SDJWT Require Import Base.Json.

Definition hex_digit (n : N) : N := if N.ltb n 10 then 48 + n else 87 + n.   (* lowercase *)

(* \u00XX for control characters, as serde_json writes them *)
Definition esc_u00 (c : N) (k : str) : str :=
  92 :: 117 :: 48 :: 48 :: hex_digit (N.div c 16) :: hex_digit (N.modulo c 16) :: k.

Definition esc_char (c : N) (k : str) : str :=
  if N.eqb c 34 then 92 :: 34 :: k             (* backslash quote *)
  else if N.eqb c 92 then 92 :: 92 :: k        (* backslash backslash *)
  else if N.ltb c 32 then
    if N.eqb c 8 then 92 :: 98 :: k            (* \b *)
    else if N.eqb c 12 then 92 :: 102 :: k     (* \f *)
    else if N.eqb c 10 then 92 :: 110 :: k     (* \n *)
    else if N.eqb c 13 then 92 :: 114 :: k     (* \r *)
    else if N.eqb c 9 then 92 :: 116 :: k      (* \t *)
    else esc_u00 c k
  else c :: k.

Fixpoint print_chars (s : str) (k : str) : str :=
  match s with
  | [] => k
  | c :: s' => esc_char c (print_chars s' k)
  end.

Definition print_string (s : str) (k : str) : str := 34 :: print_chars s (34 :: k).

Definition item_sep (sp : bool) (k : str) : str := if sp then 44 :: 32 :: k else 44 :: k.
Definition key_sep (sp : bool) (k : str) : str := if sp then 58 :: 32 :: k else 58 :: k.

Fixpoint print_k (sp : bool) (v : json) (k : str) {struct v} : str :=
  match v with
  | JNull => 110 :: 117 :: 108 :: 108 :: k
  | JBool true => 116 :: 114 :: 117 :: 101 :: k
  | JBool false => 102 :: 97 :: 108 :: 115 :: 101 :: k
  | JNum lx => lx ++ k
  | JStr s => print_string s k
  | JArr l =>
      91 :: (fix elems (l : list json) (k : str) {struct l} : str :=
               match l with
               | [] => k
               | x :: l' =>
                   print_k sp x (match l' with [] => k | _ :: _ => item_sep sp (elems l' k) end)
               end) l (93 :: k)
  | JObj m =>
      123 :: (fix mems (m : members) (k : str) {struct m} : str :=
                match m with
                | [] => k
                | (name, x) :: m' =>
                    print_string name
                      (key_sep sp (print_k sp x (match m' with [] => k | _ :: _ => item_sep sp (mems m' k) end)))
                end) m (125 :: k)
  end.

Definition print (v : json) : str := print_k false v [].
Definition print_spaced (v : json) : str := print_k true v [].

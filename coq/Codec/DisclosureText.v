(* Codec/DisclosureText.v — src/disclosure.rs: the text of a disclosure
   ["salt", name?, value] with ", " separators, the value being serde_json's
   compact text with every non-ASCII character written as \uXXXX (UTF-16
   units, lowercase hex); in the deterministic-salt build the compact text
   first goes through the Python-style spacing scanner. *)
From SDJWT Require Import Base.Json Codec.JsonPrint.

Definition hex4_of (u : N) (k : str) : str :=
  92 :: 117 :: hex_digit (N.div u 4096) :: hex_digit (N.modulo (N.div u 256) 16)
     :: hex_digit (N.modulo (N.div u 16) 16) :: hex_digit (N.modulo u 16) :: k.

(* escape_unicode_chars, one character *)
Definition escape_unicode_char (c : N) (k : str) : str :=
  if N.ltb c 128 then c :: k
  else if N.ltb c 65536 then hex4_of c k
  else let c' := c - 65536 in
       hex4_of (55296 + N.div c' 1024) (hex4_of (56320 + N.modulo c' 1024) k).

Fixpoint escape_unicode_chars (s : str) : str :=
  match s with
  | [] => []
  | c :: s' => escape_unicode_char c (escape_unicode_chars s')
  end.

Definition is_ascii_str (s : str) : bool := forallb (fun c => N.ltb c 128) s.

(* python_style_spacing (mock_salts build): a space after every ',' and ':'
   that is outside a string literal.  State: in_string, escaped. *)
Fixpoint spacing (s : str) (in_string escaped : bool) : str :=
  match s with
  | [] => []
  | c :: s' =>
      if in_string then
        if escaped then c :: spacing s' true false
        else if N.eqb c 92 then c :: spacing s' true true
        else if N.eqb c 34 then c :: spacing s' false false
        else c :: spacing s' true false
      else if N.eqb c 34 then c :: spacing s' true false
      else if N.eqb c 44 || N.eqb c 58 then c :: 32 :: spacing s' false false
      else c :: spacing s' false false
  end.

Definition value_text (mock : bool) (v : json) : str :=
  let t := print v in
  let t := if mock then spacing t false false else t in
  if is_ascii_str t then t else escape_unicode_chars t.

(* escape_json(key) = Value::String(key).to_string(): NOT \u-escaped *)
Definition name_text (n : str) : str := print_string n [].

Definition disclosure_text (mock : bool) (salt : str) (name : option str) (v : json) : str :=
  match name with
  | Some n => lit "[""" ++ salt ++ lit """, " ++ name_text n ++ lit ", " ++ value_text mock v ++ lit "]"
  | None => lit "[""" ++ salt ++ lit """, " ++ value_text mock v ++ lit "]"
  end.

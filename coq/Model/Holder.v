(* Model/Holder.v — src/holder.rs.  Faithful, executable.  HashMap indexing that
   the Rust code performs unconditionally is an explicit [Panic] outcome. *)
From SDJWT Require Import Base.Json Params Codec.JsonPrint Model.Common Model.Issuer.

(* serde_json's Index<usize> for Value: Null when out of range or not an array *)
Definition val_idx (v : json) (i : nat) : json :=
  match v with JArr l => nth i l JNull | _ => JNull end.

(* sd_map: claim name -> (value, digest); collected into a HashMap, so for a
   repeated name the last entry wins *)
Definition sdmap := list (str * (json * str)).

Fixpoint sdmap_put (k : str) (x : json * str) (m : sdmap) : sdmap :=
  match m with
  | [] => [(k, x)]
  | (k', x') :: m' => if str_eqb k k' then (k', x) :: m' else (k', x') :: sdmap_put k x m'
  end.

Fixpoint sdmap_get (k : str) (m : sdmap) : option (json * str) :=
  match m with
  | [] => None
  | (k', x) :: m' => if str_eqb k k' then Some x else sdmap_get k m'
  end.

Definition build_sd_map (dm : dmap) (payload : members) : sdmap :=
  match obj_get SD_DIGESTS_KEY payload with
  | Some (JArr ds) =>
      fold_left
        (fun acc d =>
           match d with
           | JStr dg =>
               match dmap_get dg dm with
               | Some (disc, _) =>
                   match val_idx disc 1 with
                   | JStr name => sdmap_put name (val_idx disc 2, dg) acc
                   | _ => acc
                   end
               | None => acc
               end
           | _ => acc
           end) ds []
  | _ => []
  end.

(* select_disclosures (selection object against an object of the payload or of a
   disclosed value) and select_disclosures_from_disclosed_list (selection array
   against an array, positionally).  Structural on the selection. *)
Fixpoint walk (dm : dmap) (sel target : json) {struct sel} : outcome (list str) :=
  match sel, target with
  | JObj sm, JObj payload =>
      let sd_map := build_sd_map dm payload in
      (fix go (sm : members) (acc : list str) {struct sm} : outcome (list str) :=
         match sm with
         | [] => Ok acc
         | (k, s) :: sm' =>
             let finish (acc : list str) : outcome (list str) :=
               if obj_has k payload then go sm' acc
               else match sdmap_get k sd_map with
                    | Some (_, dg) =>
                        match dmap_get dg dm with
                        | Some (_, raw) => go sm' (acc ++ [raw])
                        | None => Panic "holder.rs: hash_to_disclosure[digest]"
                        end
                    | None => Err "Requested claim doesn't exist"
                    end in
             match s with
             | JBool true | JNum _ | JStr _ => finish acc
             | JArr _ =>
                 let arr :=
                   match obj_get k payload with
                   | Some (JArr a) => Some a
                   | _ => match sdmap_get k sd_map with Some (JArr a, _) => Some a | _ => None end
                   end in
                 match arr with
                 | Some a => do r <- walk dm s (JArr a); finish (acc ++ r)
                 | None => finish acc
                 end
             | JObj [] => finish acc
             | JObj (_ :: _) =>
                 let next :=
                   match obj_get k payload with
                   | Some (JObj n) => Ok n
                   | _ => match sdmap_get k sd_map with
                          | None => Err "Requested claim doesn't exist"
                          | Some (JObj n, _) => Ok n
                          | Some _ => Err "json object"
                          end
                   end in
                 do n <- next;
                 do r <- walk dm s (JObj n);
                 finish (acc ++ r)
             | JBool false | JNull => go sm' acc
             end
         end) sm []
  | JArr sl, JArr a =>
      (fix go (sl : list json) (a : list json) (acc : list str) {struct sl} : outcome (list str) :=
         match sl, a with
         | s :: sl', e :: a' =>
             match e with
             | JObj em =>
                 match s with
                 | JBool true =>
                     match obj_get SD_LIST_PREFIX em with
                     | Some (JStr dg) =>
                         match dmap_get dg dm with
                         | Some (_, raw) => go sl' a' (acc ++ [raw])
                         | None => go sl' a' acc
                         end
                     | _ => go sl' a' acc
                     end
                 | _ =>
                     match obj_get SD_LIST_PREFIX em with
                     | Some (JStr dg) =>
                         match dmap_get dg dm with
                         | None => go sl' a' acc
                         | Some (JArr dl, raw) =>
                             match s, nth_error dl 1 with
                             | JArr _, Some (JArr a2) =>
                                 do r <- walk dm s (JArr a2); go sl' a' (acc ++ raw :: r)
                             | JObj _, Some (JObj e2) =>
                                 do r <- walk dm s (JObj e2); go sl' a' (acc ++ raw :: r)
                             | _, _ => go sl' a' acc
                             end
                         | Some (_, _) => Err "json array"
                         end
                     | _ =>
                         match s with
                         | JObj _ => do r <- walk dm s (JObj em); go sl' a' (acc ++ r)
                         | _ => go sl' a' acc
                         end
                     end
                 end
             | JArr a2 =>
                 match s with
                 | JArr _ => do r <- walk dm s (JArr a2); go sl' a' (acc ++ r)
                 | _ => go sl' a' acc
                 end
             | _ => go sl' a' acc
             end
         | _, _ => Ok acc
         end) sl a []
  | _, _ => Ok []
  end.

(* ------------------------------------------------------------------ *)
(* The holder as a state machine (for C11)                             *)

Record holder := {
  (* set by SDJWTHolder::new, never written afterwards *)
  h_fmt : format;
  h_jwt : str;                              (* serialized_sd_jwt *)
  h_payload : members;                      (* sd_jwt_payload *)
  h_dmap : dmap;
  h_json : option (str * str * str);        (* sd_jwt_json: protected, payload, signature *)
  h_in_disclosures : list str;              (* sd_jwt_json.disclosures as received *)
  h_in_kb : option str;                     (* sd_jwt_json.kb_jwt as received *)
  (* rewritten by every create_presentation *)
  h_hs : list str;                          (* hs_disclosures *)
  h_kb_header : members;
  h_kb_payload : members;
  h_kb : str                                (* serialized_key_binding_jwt *)
}.

Definition holder_new (o : oracles) (input : str) (fmt : format) : outcome holder :=
  do p <- parse_sd_jwt fmt input;
  do dm <- create_hash_mappings o (p_disclosures p) [];
  Ok {| h_fmt := fmt; h_jwt := p_jwt p; h_payload := p_payload p; h_dmap := dm;
        h_json := p_json p; h_in_disclosures := p_disclosures p; h_in_kb := p_kb p;
        h_hs := []; h_kb_header := []; h_kb_payload := []; h_kb := [] |}.

Definition sd_hash_of (o : oracles) (jwt : str) (ds : list str) : str :=
  H o (join_with [126] (jwt :: ds) ++ [126]).

Record kb_args := {
  kb_nonce : option str;
  kb_aud : option str;
  kb_key : option key;
  kb_alg : option str
}.
Definition no_kb : kb_args := {| kb_nonce := None; kb_aud := None; kb_key := None; kb_alg := None |}.

Definition set_fields (h : holder) (hs : list str) (kbh kbp : members) (kb : str) : holder :=
  {| h_fmt := h_fmt h; h_jwt := h_jwt h; h_payload := h_payload h; h_dmap := h_dmap h;
     h_json := h_json h; h_in_disclosures := h_in_disclosures h; h_in_kb := h_in_kb h;
     h_hs := hs; h_kb_header := kbh; h_kb_payload := kbp; h_kb := kb |}.

(* create_presentation: returns the new state and the result.  [now] is the
   clock read by create_key_binding_jwt. *)
Definition present (o : oracles) (h : holder) (sel : members) (a : kb_args) (now : N)
  : holder * outcome str :=
  (* the three KB fields are reset first *)
  let h0 := set_fields h (h_hs h) [] [] [] in
  match walk (h_dmap h) (JObj sel) (JObj (h_payload h)) with
  | Ok hs =>
      let h1 := set_fields h0 hs [] [] [] in
      let kbres : holder * outcome str :=
        match kb_nonce a, kb_aud a, kb_key a with
        | Some nonce, Some aud, Some hk =>
            let alg := match kb_alg a with Some x => x | None => DEFAULT_SIGNING_ALG end in
            let kbh := [(lit "alg", JStr alg); (lit "typ", JStr KB_JWT_TYP_HEADER)] in
            let kbp := [(lit "nonce", JStr nonce); (lit "aud", JStr aud); (lit "iat", JNum (N_to_dec now));
                        (KB_DIGEST_KEY, JStr (sd_hash_of o (h_jwt h) hs))] in
            let h2 := set_fields h1 hs kbh kbp [] in
            match jwt_encode o (Some KB_JWT_TYP_HEADER) alg hk (JObj kbp) with
            | Ok (_, kb) => (set_fields h2 hs kbh kbp kb, Ok kb)
            | Err e => (h2, Err e)
            | Panic s => (h2, Panic s)
            | OutOfFuel => (h2, OutOfFuel)
            | Unmodelled w => (h2, Unmodelled w)
            end
        | None, None, None => (h1, Ok [])
        | _, _, _ => (h1, Err "Inconsistency in parameters to determine JWT KB by holder")
        end in
      let (h3, kbo) := kbres in
      match kbo with
      | Ok kb =>
          match h_fmt h with
          | Compact => (h3, Ok (join_with [126] (h_jwt h :: hs ++ [kb])))
          | JSONFmt =>
              match h_json h with
              | None => (h3, Err "Cannot take SDJWTJson")
              | Some (pr, pl, sg) =>
                  let kbj := match kb with
                             | [] => match h_in_kb h with Some k => JStr k | None => JNull end
                             | _ :: _ => JStr kb
                             end in
                  (h3, Ok (print (JObj [(lit "protected", JStr pr); (lit "payload", JStr pl);
                                        (lit "signature", JStr sg); (lit "disclosures", JArr (json_strs hs));
                                        (lit "kb_jwt", kbj)])))
              end
          end
      | Err e => (h3, Err e)
      | Panic s => (h3, Panic s)
      | OutOfFuel => (h3, OutOfFuel)
      | Unmodelled w => (h3, Unmodelled w)
      end
  | Err e => (h0, Err e)
  | Panic s => (h0, Panic s)
  | OutOfFuel => (h0, OutOfFuel)
  | Unmodelled w => (h0, Unmodelled w)
  end.

(* Model/Jwt.v — the control logic of jsonwebtoken 9.3.1 that the verifier
   relies on: decode_header, decode (key family, rsplitn splitting, header
   deserialisation, algorithm membership, signature oracle, payload decode)
   and validate with the Validation settings the crate configures.
   Modelled, not verified (third-party code); exercised differentially. *)
From SDJWT Require Import Base.Json Params Codec.JsonParse Model.Common Model.Issuer.

(* token.rsplitn(2, '.') : (after the last dot, before it); None when there is no dot *)
Fixpoint rsplit_dot_aux (s : str) (best : option (str * str)) (pre : str) : option (str * str) :=
  (* pre = the prefix consumed so far, reversed; remember the split at the last dot seen *)
  match s with
  | [] => best
  | c :: s' =>
      if N.eqb c 46 then rsplit_dot_aux s' (Some (s', rev pre)) (c :: pre)
      else rsplit_dot_aux s' best (c :: pre)
  end.
Definition rsplit_dot (s : str) : option (str * str) := rsplit_dot_aux s None [].

Record header := { hd_alg : str; hd_typ : option str; hd_json : json }.

Definition opt_string_field (k : str) (m : members) : option (option str) :=
  match obj_get k m with
  | None | Some JNull => Some None
  | Some (JStr s) => Some (Some s)
  | Some _ => None
  end.

(* Header::from_encoded: base64url -> serde derive(Deserialize) for Header *)
Definition header_from_encoded (h : str) : outcome header :=
  match base64url_decode_text h with
  | None => Err "header: base64/utf8"
  | Some text =>
      match parse_json_raw text with
      | None => Err "header: JSON"
      | Some (JArr _) => Unmodelled "header given as a JSON array"
      | Some (JObj raw) =>
          let known := [lit "typ"; lit "alg"; lit "cty"; lit "jku"; lit "jwk"; lit "kid";
                        lit "x5u"; lit "x5c"; lit "x5t"; lit "x5t#S256"] in
          if existsb (fun k => Nat.ltb 1 (count_key k raw)) known then Err "header: duplicate field"
          else
            let m := match dedup (JObj raw) with JObj m => m | _ => [] end in
            match obj_get (lit "jwk") m with
            | Some JNull | None =>
                let strs := map (fun k => opt_string_field k m)
                                [lit "cty"; lit "jku"; lit "kid"; lit "x5u"; lit "x5t"; lit "x5t#S256"] in
                let x5c_ok := match obj_get (lit "x5c") m with
                              | None | Some JNull => true
                              | Some (JArr l) => match all_strings l with Some _ => true | None => false end
                              | Some _ => false
                              end in
                if negb (forallb (fun x => match x with Some _ => true | None => false end) strs) || negb x5c_ok
                then Err "header: ill-typed field"
                else
                  match opt_string_field (lit "typ") m, obj_get (lit "alg") m with
                  | Some typ, Some (JStr a) =>
                      if mem_str a alg_names then Ok {| hd_alg := a; hd_typ := typ; hd_json := JObj m |}
                      else Err "header: unknown alg"
                  | _, _ => Err "header: typ / alg"
                  end
            | Some _ => Unmodelled "header with an embedded jwk"
            end
      | Some _ => Err "header: not an object"
      end
  end.

(* jsonwebtoken::decode_header *)
Definition decode_header (token : str) : outcome header :=
  match rsplit_dot token with
  | None => Err "InvalidToken"
  | Some (_, message) =>
      match rsplit_dot message with
      | None => Err "InvalidToken"
      | Some (_, h) => header_from_encoded h
      end
  end.

(* ---- ClaimsForValidation ---- *)
Inductive tryparse (A : Type) := Parsed (a : A) | FailedToParse | NotPresent.
Arguments Parsed {A} a.
Arguments FailedToParse {A}.
Arguments NotPresent {A}.

Definition is_uint_lexeme (lx : str) : bool :=
  match lx with [] => false | _ => forallb is_digit lx end.

Definition U64_MAX : N := 18446744073709551615.

(* exp / nbf through numeric_type *)
Definition numeric_claim (k : str) (m : members) : outcome (tryparse N) :=
  match obj_get k m with
  | None => Ok NotPresent
  | Some (JNum lx) =>
      if is_uint_lexeme lx then
        match dec_to_N lx with
        | Some n => if N.leb n U64_MAX then Ok (Parsed n) else Unmodelled "integer beyond u64 in exp/nbf"
        | None => Ok FailedToParse
        end
      else match lx with
           | 45 :: rest => if is_uint_lexeme rest then
                             (if forallb (N.eqb 48) rest then Unmodelled "-0 in exp/nbf" else Ok FailedToParse)
                           else Unmodelled "float in exp/nbf"
           | _ => Unmodelled "float in exp/nbf"
           end
  | Some (JArr _) | Some (JObj _) => Unmodelled "container in exp/nbf"
  | Some _ => Ok FailedToParse
  end.

(* aud (and iss, which never influences the outcome here): untagged Single | Multiple *)
Inductive audience := AudSingle (s : str) | AudMultiple (l : list str).

Definition aud_claim (m : members) : tryparse audience :=
  match obj_get (lit "aud") m with
  | None | Some JNull => NotPresent
  | Some (JStr s) => Parsed (AudSingle s)
  | Some (JArr l) => match all_strings l with Some ss => Parsed (AudMultiple ss) | None => FailedToParse end
  | Some _ => FailedToParse
  end.

Record validation := {
  v_alg : str;
  v_required_exp : bool;
  v_required_aud : bool;
  v_validate_nbf : bool;
  v_aud : option (list str)
}.

Definition LEEWAY : N := 60.

(* validation::validate, given the payload object; [raw] is the payload with repeats kept *)
Definition validate (v : validation) (raw : members) (m : members) (now : N) : outcome unit :=
  let spec := [lit "exp"; lit "nbf"; lit "sub"; lit "iss"; lit "aud"] in
  if existsb (fun k => Nat.ltb 1 (count_key k raw)) spec then Err "claims: duplicate field" else
  match obj_get (lit "sub") m with
  | Some (JStr _) | Some JNull | None =>
      do exp <- numeric_claim (lit "exp") m;
      do nbf <- numeric_claim (lit "nbf") m;
      let aud := aud_claim m in
      if v_required_exp v && negb (match exp with Parsed _ => true | _ => false end) then Err "MissingRequiredClaim exp"
      else if v_required_aud v && negb (match aud with Parsed _ => true | _ => false end) then Err "MissingRequiredClaim aud"
      else if match exp with Parsed e => N.ltb e (now - LEEWAY) | _ => false end then Err "ExpiredSignature"
      else if v_validate_nbf v && match nbf with Parsed n => N.ltb (now + LEEWAY) n | _ => false end then Err "ImmatureSignature"
      else
        match aud, v_aud v with
        | Parsed _, None => Err "InvalidAudience"
        | Parsed (AudSingle a), Some ok => if mem_str a ok then Ok tt else Err "InvalidAudience"
        | Parsed (AudMultiple l), Some ok => if existsb (fun a => mem_str a ok) l then Ok tt else Err "InvalidAudience"
        | _, _ => Ok tt
        end
  | Some _ => Unmodelled "non-string sub"
  end.

(* jsonwebtoken::decode::<Map<String, Value>> *)
Definition jwt_decode (o : oracles) (token : str) (k : key) (v : validation) (now : N)
  : outcome (header * members) :=
  match alg_family (v_alg v) with
  | None => Err "unknown algorithm name"
  | Some f =>
      if negb (family_eqb (kfam k) f) then Err "InvalidAlgorithm: key family" else
      match rsplit_dot token with
      | None => Err "InvalidToken"
      | Some (signature, message) =>
          match rsplit_dot message with
          | None => Err "InvalidToken"
          | Some (payload, h) =>
              do hd <- header_from_encoded h;
              if negb (str_eqb (hd_alg hd) (v_alg v)) then Err "InvalidAlgorithm" else
              if negb (sig_ok o (hd_alg hd) k message signature) then Err "InvalidSignature" else
              match base64url_decode_text payload with
              | None => Err "claims: base64/utf8"
              | Some text =>
                  match parse_json_raw text with
                  | Some (JObj raw) =>
                      match dedup (JObj raw) with
                      | JObj m => do _ <- validate v raw m now; Ok (hd, m)
                      | _ => Err "claims: not an object"
                      end
                  | _ => Err "claims: not a JSON object"
                  end
              end
          end
      end
  end.

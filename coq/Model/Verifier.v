(* Model/Verifier.v — src/verifier.rs.  Faithful, executable.
   [unpack] follows unpack_disclosed_claims*: structural on the JSON value,
   with fuel spent only when a digest is followed into a disclosure. *)
From SDJWT Require Import Base.Json Params Codec.JsonParse Model.Common Model.Issuer Model.Holder Model.Jwt.

Definition is_reserved_name (n : str) : bool := str_eqb n SD_DIGESTS_KEY || str_eqb n SD_LIST_PREFIX.

Fixpoint unpack (dm : dmap) (fuel : nat) {struct fuel} : json -> list str -> outcome (json * list str) :=
  let jump (value : json) (seen : list str) : outcome (json * list str) :=
    match fuel with
    | O => OutOfFuel
    | S f => unpack dm f value seen
    end in
  fix go (v : json) (seen : list str) {struct v} : outcome (json * list str) :=
    match v with
    | JArr l =>
        (fix elems (l : list json) (acc : list json) (seen : list str) {struct l} : outcome (json * list str) :=
           match l with
           | [] => Ok (JArr (rev acc), seen)
           | x :: l' =>
               let plain := do (r, s2) <- go x seen; elems l' (r :: acc) s2 in
               match x with
               | JObj em =>
                   match obj_get SD_LIST_PREFIX em with
                   | None => plain
                   | Some dgv =>
                       if Nat.ltb 1 (List.length em) then Err "placeholder object must contain only one key"
                       else
                         (* unpack_from_digest *)
                         match dgv with
                         | JStr dg =>
                             if mem_str dg seen then Err "DuplicateDigestError"
                             else
                               let seen' := seen ++ [dg] in
                               match dmap_get dg dm with
                               | None => elems l' acc seen'
                               | Some (JArr [_; value], _) =>
                                   do (r, s2) <- jump value seen'; elems l' (r :: acc) s2
                               | Some (JArr _, _) => Err "array element disclosure must have two elements"
                               | Some (_, _) => Err "InvalidArrayDisclosureObject"
                               end
                         | _ => Err "digest is not a string"
                         end
                   end
               | _ => plain
               end
           end) l [] seen
    | JObj m =>
        do (pre, seen1) <-
           (fix mems (m : members) (acc : members) (seen : list str) {struct m} : outcome (members * list str) :=
              match m with
              | [] => Ok (acc, seen)
              | (k, x) :: m' =>
                  if str_eqb k SD_DIGESTS_KEY then mems m' acc seen
                  else do (r, s2) <- go x seen; mems m' (obj_insert k r acc) s2
              end) m [] seen;
        match obj_get SD_DIGESTS_KEY m with
        | Some (JArr ds) =>
            (* unpack_from_digests *)
            (fix digs (ds : list json) (pre : members) (seen : list str) {struct ds} : outcome (json * list str) :=
               match ds with
               | [] => Ok (JObj pre, seen)
               | d :: ds' =>
                   match d with
                   | JStr dg =>
                       if mem_str dg seen then Err "DuplicateDigestError"
                       else
                         let seen' := seen ++ [dg] in
                         match dmap_get dg dm with
                         | None => digs ds' pre seen'
                         | Some (JArr [_; JStr name; value], _) =>
                             if is_reserved_name name then Err "disclosed claim name is reserved"
                             else if obj_has name pre then Err "DuplicateKeyError"
                             else do (r, s2) <- jump value seen'; digs ds' (obj_insert name r pre) s2
                         | Some (JArr [_; _; _], _) => Err "disclosed claim name is not a string"
                         | Some (JArr _, _) => Err "object property disclosure must have three elements"
                         | Some (_, _) => Err "InvalidArrayDisclosureObject"
                         end
                   | _ => Err "digest is not a string"
                   end
               end) ds pre seen1
        | _ => Ok (JObj pre, seen1)
        end
    | _ => Ok (v, seen)
    end.

(* extract_sd_claims *)
Definition extract_sd_claims (dm : dmap) (payload : members) : outcome json :=
  do _ <- match obj_get DIGEST_ALG_KEY payload with
          | Some (JStr a) => if str_eqb a DEFAULT_DIGEST_ALG then Ok tt else Err "Invalid hash algorithm"
          | Some _ => Err "Invalid hash algorithm"
          | None => Ok tt
          end;
  do (claims, _) <- unpack dm (S (List.length dm)) (JObj payload) [];
  match claims with
  | JObj m => Ok (JObj (obj_remove DIGEST_ALG_KEY m))
  | _ => Ok claims
  end.

Definition issuer_validation (alg : str) : validation :=
  {| v_alg := alg; v_required_exp := true; v_required_aud := false; v_validate_nbf := true; v_aud := None |}.

Definition kb_validation (alg : str) (aud : str) : validation :=
  {| v_alg := alg; v_required_exp := false; v_required_aud := true; v_validate_nbf := false; v_aud := Some [aud] |}.

(* verify_key_binding_jwt *)
Definition verify_key_binding (o : oracles) (p : parsed) (payload : members)
           (expected_aud expected_nonce : str) (now : N) : outcome unit :=
  let sign_alg := match match p_kb p with Some kb => header_sign_alg kb | None => None end with
                  | Some a => a
                  | None => DEFAULT_SIGNING_ALG
                  end in
  match obj_get CNF_KEY payload with
  | Some (JObj cnf) =>
      match obj_get JWK_KEY cnf with
      | None => Err "holder_public_key_payload does not contain jwk"
      | Some jwk =>
          match jwk_key o jwk with
          | None => Err "Cannot parse JWK / DecodingKey"
          | Some hk =>
              match p_kb p with
              | None => Err "Cannot take Key Binding JWT"
              | Some kb =>
                  if negb (mem_str sign_alg alg_names) then Err "unknown algorithm name" else
                  do (hd, claims) <- jwt_decode o kb hk (kb_validation sign_alg expected_aud) now;
                  match hd_typ hd with
                  | Some t =>
                      if negb (str_eqb t KB_JWT_TYP_HEADER) then Err "Invalid header type" else
                      match obj_get (lit "nonce") claims with
                      | Some (JStr n) =>
                          if negb (str_eqb n expected_nonce) then Err "Invalid nonce" else
                          match obj_get KB_DIGEST_KEY claims with
                          | Some (JStr h) =>
                              if str_eqb h (sd_hash_of o (p_jwt p) (p_disclosures p)) then Ok tt
                              else Err "Invalid digest in KB-JWT"
                          | _ => Err "Invalid digest in KB-JWT"
                          end
                      | _ => Err "Invalid nonce"
                      end
                  | None => Err "Invalid header type"
                  end
              end
          end
      end
  | _ => Err "No holder public key in SD-JWT"
  end.

(* SDJWTVerifier::new *)
Definition verify (o : oracles) (input : str) (resolver : str -> json -> key)
           (expected_aud expected_nonce : option str) (fmt : format) (now : N) : outcome json :=
  do p <- parse_sd_jwt fmt input;
  do dm <- create_hash_mappings o (p_disclosures p) [];
  (* verify_sd_jwt *)
  do hd <- decode_header (p_jwt p);
  do iss <- match obj_get (lit "iss") (p_payload p) with Some (JStr s) => Ok s | _ => Err "iss" end;
  let k := resolver iss (hd_json hd) in
  do alg <- match p_sign_alg p with
            | Some a => if mem_str a alg_names then Ok a else Err "unknown algorithm name"
            | None => Ok DEFAULT_SIGNING_ALG
            end;
  do (_, payload) <- jwt_decode o (p_jwt p) k (issuer_validation alg) now;
  do claims <- extract_sd_claims dm payload;
  match expected_aud, expected_nonce with
  | Some a, Some n => do _ <- verify_key_binding o p payload a n now; Ok claims
  | None, None => Ok claims
  | _, _ => Err "Either both expected_aud and expected_nonce must be provided or both must be None"
  end.

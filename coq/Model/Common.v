(* Model/Common.v — src/lib.rs (SDJWTCommon) and src/utils.rs: oracles, keys,
   serialization formats, compact / JSON parsing, hash mappings, the reserved
   name check, header algorithm extraction.  Faithful, executable. *)
From SDJWT Require Import Base.Json Params Codec.Base64 Codec.Utf8 Codec.JsonPrint Codec.JsonParse Codec.JsonLax.

(* ------------------------------------------------------------------ *)
(* Keys and oracles                                                    *)

Inductive family := FHmac | FRsa | FEc | FEd.
Definition family_eqb (a b : family) : bool :=
  match a, b with
  | FHmac, FHmac | FRsa, FRsa | FEc, FEc | FEd, FEd => true
  | _, _ => false
  end.

(* A key is an opaque identity plus the family jsonwebtoken records for it. *)
Record key := { kid : N; kfam : family }.

(* What is not this crate's logic (DESIGN.md §3.5).  In theorems [o] is
   universally quantified, with laws as explicit premises; in the runs it is
   instantiated with SHA-256 and with tables recorded from the real crates. *)
Record oracles := {
  H : str -> str;                              (* utils::base64_hash of the UTF-8 bytes of a string *)
  sig_ok : str -> key -> str -> str -> bool;   (* jsonwebtoken::crypto::verify alg key message signature (Err = false) *)
  sign : str -> key -> str -> str;             (* jsonwebtoken::crypto::sign alg key message *)
  jwk_key : json -> option key                 (* serde_json::from_value::<Jwk> + DecodingKey::from_jwk *)
}.

Inductive format := Compact | JSONFmt.
Definition format_eqb (a b : format) : bool :=
  match a, b with Compact, Compact | JSONFmt, JSONFmt => true | _, _ => false end.

(* ------------------------------------------------------------------ *)
(* utils.rs                                                            *)

Definition base64url_encode_str (text : str) : str := b64_encode (utf8_encode text).

(* base64url_decode followed by String::from_utf8 / serde_json::from_slice's UTF-8 check *)
Definition base64url_decode_text (b64 : str) : option str :=
  match b64_decode b64 with
  | Some bytes => utf8_decode bytes
  | None => None
  end.

(* jwt_payload_decode: base64url -> UTF-8 -> JSON object *)
Definition jwt_payload_decode (b64 : str) : outcome members :=
  match base64url_decode_text b64 with
  | None => Err "payload: base64/utf8"
  | Some text =>
      match parse_json text with
      | Some (JObj m) => Ok m
      | _ => Err "payload: not a JSON object"
      end
  end.

(* ------------------------------------------------------------------ *)
(* SDJWTCommon                                                         *)

Record parsed := {
  p_fmt : format;
  p_jwt : str;                       (* unverified_sd_jwt: header.payload.signature *)
  p_payload : members;               (* unverified_input_sd_jwt_payload *)
  p_disclosures : list str;          (* input_disclosures *)
  p_kb : option str;                 (* unverified_input_key_binding_jwt *)
  p_sign_alg : option str;           (* sign_alg *)
  p_json : option (str * str * str)  (* unverified_sd_jwt_json: protected, payload, signature *)
}.

(* decode_header_and_get_sign_algorithm *)
Definition header_sign_alg (jwt : str) : option str :=
  match split_on 46 jwt with
  | h :: _ :: _ =>
      match base64url_decode_text h with
      | Some text =>
          match parse_json text with
          | Some (JObj m) => match obj_get (lit "alg") m with Some (JStr a) => Some a | _ => None end
          | _ => None
          end
      | None => None
      end
  | _ => None
  end.

Fixpoint split_last {A} (l : list A) : option (list A * A) :=
  match l with
  | [] => None
  | [x] => Some ([], x)
  | x :: l' => match split_last l' with Some (i, z) => Some (x :: i, z) | None => None end
  end.

(* parse_compact_sd_jwt *)
Definition parse_compact (input : str) : outcome parsed :=
  match split_on 126 input with
  | jwt :: rest =>
      match split_last rest with
      | None => Err "Invalid SD-JWT length"              (* fewer than two parts *)
      | Some (ds, kb) =>
          match split_on 46 jwt with
          | _ :: body :: _ =>
              do pl <- jwt_payload_decode body;
              Ok {| p_fmt := Compact; p_jwt := jwt; p_payload := pl; p_disclosures := ds;
                    p_kb := Some kb; p_sign_alg := header_sign_alg jwt; p_json := None |}
          | _ => Err "Invalid JWT: cannot extract JWT payload"
          end
      end
  | [] => Err "Invalid SD-JWT length"
  end.

Fixpoint all_strings (l : list json) : option (list str) :=
  match l with
  | [] => Some []
  | JStr s :: l' => match all_strings l' with Some r => Some (s :: r) | None => None end
  | _ :: _ => None
  end.

(* parse_json_sd_jwt: serde derive(Deserialize) of SDJWTJson from an object.
   A repeated known field is an error; unknown fields are ignored; kb_jwt may be
   absent or null.  (The positional array form serde also accepts is outside the model.)
   [parse_json_form_strict] reads the WHOLE text with the strict serde_json::Value grammar
   (Codec/JsonParse.v).  serde streams over the object instead: member names and the values of
   the five known members are parsed strictly, but the value of every UNKNOWN member is only
   skipped syntactically by Deserializer::ignore_value (no nesting limit, numbers checked for
   shape only, \uXXXX escapes without surrogate check; Codec/JsonLax.v).  [parse_json_form]
   therefore takes the strict reading when the whole text is strict JSON, and otherwise
   replaces the value of every unknown top-level member by null ([lax_blank_unknown], which
   fails exactly where ignore_value or the member syntax fails) and reads that text strictly.
   Strict acceptance implies lax acceptance with the same extent
   (Proofs/JsonLaxFacts.v), so trying the strict reading first loses nothing. *)
Definition known_fields : list str :=
  [lit "protected"; lit "payload"; lit "signature"; lit "disclosures"; lit "kb_jwt"].

Definition parse_json_form_strict (input : str) : outcome parsed :=
  match parse_json_raw input with
  | None => Err "JSON serialization: syntax"
  | Some (JArr _) => Unmodelled "SDJWTJson given as a JSON array"
  | Some (JObj raw) =>
      let known := [lit "protected"; lit "payload"; lit "signature"; lit "disclosures"; lit "kb_jwt"] in
      if existsb (fun k => Nat.ltb 1 (count_key k raw)) known then Err "JSON serialization: duplicate field"
      else
        match obj_get (lit "protected") raw, obj_get (lit "payload") raw,
              obj_get (lit "signature") raw, obj_get (lit "disclosures") raw with
        | Some (JStr pr), Some (JStr pl), Some (JStr sg), Some (JArr ds) =>
            match all_strings ds with
            | None => Err "JSON serialization: disclosures"
            | Some dl =>
                let kbo := match obj_get (lit "kb_jwt") raw with
                           | None | Some JNull => Some None
                           | Some (JStr s) => Some (Some s)
                           | Some _ => None
                           end in
                match kbo with
                | None => Err "JSON serialization: kb_jwt"
                | Some kb =>
                    do body <- jwt_payload_decode pl;
                    let jwt := pr ++ [46] ++ pl ++ [46] ++ sg in
                    Ok {| p_fmt := JSONFmt; p_jwt := jwt; p_payload := body; p_disclosures := dl;
                          p_kb := kb; p_sign_alg := header_sign_alg jwt; p_json := Some (pr, pl, sg) |}
                end
            end
        | _, _, _, _ => Err "JSON serialization: missing or ill-typed field"
        end
  | Some _ => Err "JSON serialization: not an object"
  end.

Definition parse_json_form (input : str) : outcome parsed :=
  match parse_json_raw input with
  | Some _ => parse_json_form_strict input
  | None => match lax_blank_unknown known_fields input with
            | Some t => parse_json_form_strict t
            | None => Err "JSON serialization: syntax"
            end
  end.

Definition parse_sd_jwt (fmt : format) (input : str) : outcome parsed :=
  match fmt with Compact => parse_compact input | JSONFmt => parse_json_form input end.

(* create_hash_mappings: digest -> (decoded JSON, text as received); a repeated
   digest is an error.  One association list stands for both HashMaps (they
   always have the same key set). *)
Definition dmap := list (str * (json * str)).

Fixpoint dmap_get (d : str) (m : dmap) : option (json * str) :=
  match m with
  | [] => None
  | (d', x) :: m' => if str_eqb d d' then Some x else dmap_get d m'
  end.

Fixpoint create_hash_mappings (o : oracles) (ds : list str) (acc : dmap) : outcome dmap :=
  match ds with
  | [] => Ok acc
  | d :: ds' =>
      match base64url_decode_text d with
      | None => Err "disclosure: base64/utf8"
      | Some text =>
          match parse_json text with
          | None => Err "disclosure: JSON"
          | Some v =>
              let h := H o d in
              match dmap_get h acc with
              | Some _ => Err "DuplicateDigestError"
              | None => create_hash_mappings o ds' (acc ++ [(h, (v, d))])
              end
          end
      end
  end.

(* check_for_sd_claim (with the reserved placeholder name) *)
Fixpoint has_reserved (v : json) : bool :=
  match v with
  | JArr l => existsb has_reserved l
  | JObj m => existsb (fun kv => str_eqb (fst kv) SD_DIGESTS_KEY || str_eqb (fst kv) SD_LIST_PREFIX
                                 || has_reserved (snd kv)) m
  | _ => false
  end.

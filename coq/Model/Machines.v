(* Model/Machines.v — SDJWTIssuer as a state machine with every field of the
   Rust struct (src/issuer.rs), for C11.  [issuer_step] follows issue_sd_jwt
   statement by statement: finalize_input and check_for_sd_claim run BEFORE
   reset() (a call failing there leaves the instance untouched); then reset(),
   the parameter fields are overwritten, and the three stages run on the
   fields.  The stateless function [issue] of Model/Issuer.v is what a fresh
   instance computes; Proofs/MachineFacts.v shows every instance computes it.
   (The holder machine is [present] in Model/Holder.v.) *)
From SDJWT Require Import Base.Json Params Codec.JsonPrint Model.Common Model.Issuer.

Record issuer_state := {
  (* set by SDJWTIssuer::new *)
  s_sign_alg : str;
  s_issuer_key : key;
  (* parameters, overwritten by every issue_sd_jwt *)
  s_add_decoy : bool;
  s_holder_key : option json;
  s_fmt : format;                         (* inner.serialization_format *)
  (* internal fields *)
  s_all_disclosures : list (str * str);
  s_payload : members;
  s_signed : str;
  s_serialized : str
}.

Definition issuer_new (alg : option str) (k : key) : issuer_state :=
  {| s_sign_alg := match alg with Some a => a | None => DEFAULT_SIGNING_ALG end; s_issuer_key := k;
     s_add_decoy := false; s_holder_key := None; s_fmt := Compact;
     s_all_disclosures := []; s_payload := []; s_signed := []; s_serialized := [] |}.

(* reset(): the internal fields only *)
Definition issuer_reset (s : issuer_state) : issuer_state :=
  {| s_sign_alg := s_sign_alg s; s_issuer_key := s_issuer_key s;
     s_add_decoy := s_add_decoy s; s_holder_key := s_holder_key s; s_fmt := s_fmt s;
     s_all_disclosures := []; s_payload := []; s_signed := []; s_serialized := [] |}.

Record issue_args := {
  a_claims : json;
  a_strategy : strategy;
  a_holder : option json;
  a_decoy : bool;
  a_fmt : format
}.

Definition with_params (s : issuer_state) (a : issue_args) : issuer_state :=
  {| s_sign_alg := s_sign_alg s; s_issuer_key := s_issuer_key s;
     s_add_decoy := a_decoy a; s_holder_key := a_holder a; s_fmt := a_fmt a;
     s_all_disclosures := s_all_disclosures s; s_payload := s_payload s;
     s_signed := s_signed s; s_serialized := s_serialized s |}.

Definition set_internal (s : issuer_state) (ds : list (str * str)) (p : members) (sg ser : str) : issuer_state :=
  {| s_sign_alg := s_sign_alg s; s_issuer_key := s_issuer_key s;
     s_add_decoy := s_add_decoy s; s_holder_key := s_holder_key s; s_fmt := s_fmt s;
     s_all_disclosures := ds; s_payload := p; s_signed := sg; s_serialized := ser |}.

(* issue_sd_jwt on an instance: new state, result (serialized SD-JWT) and the rest of the randomness *)
Definition issuer_step (o : oracles) (s : issuer_state) (a : issue_args) (r : rng)
  : issuer_state * outcome (str * rng) :=
  match finalize_input (a_strategy a) with
  | Ok s' =>
      if has_reserved (a_claims a) then (s, Err "Claim object cannot have a reserved field") else
      let s1 := with_params (issuer_reset s) a in
      (* assemble_sd_jwt_payload *)
      match a_claims a with
      | JObj m =>
          let (always, rest) := pull_always ALWAYS_REVEALED m [] in
          match create_sd_claims o (s_add_decoy s1) (JObj rest) s'
                                 {| i_rng := r; i_disclosures := s_all_disclosures s1 |} with
          | Ok (JObj b, st) =>
              let p1 := obj_insert DIGEST_ALG_KEY (JStr DEFAULT_DIGEST_ALG) b in
              let p2 := obj_append p1 always in
              let p3 := match s_holder_key s1 with
                        | Some jwk => if obj_has CNF_KEY p2 then p2 else p2 ++ [(CNF_KEY, JObj [(JWK_KEY, jwk)])]
                        | None => p2
                        end in
              let s2 := set_internal s1 (i_disclosures st) p3 [] [] in
              (* create_signed_jws *)
              match jwt_encode o None (s_sign_alg s2) (s_issuer_key s2) (JObj (s_payload s2)) with
              | Ok (_, jwt) =>
                  let s3 := set_internal s2 (s_all_disclosures s2) (s_payload s2) jwt [] in
                  (* create_combined *)
                  match serialize_issued (s_fmt s3) (s_signed s3) (map fst (s_all_disclosures s3)) with
                  | Ok ser => (set_internal s3 (s_all_disclosures s3) (s_payload s3) (s_signed s3) ser, Ok (ser, i_rng st))
                  | Err e => (s3, Err e)
                  | Panic x => (s3, Panic x)
                  | OutOfFuel => (s3, OutOfFuel)
                  | Unmodelled w => (s3, Unmodelled w)
                  end
              | Err e => (s2, Err e)
              | Panic x => (s2, Panic x)
              | OutOfFuel => (s2, OutOfFuel)
              | Unmodelled w => (s2, Unmodelled w)
              end
          | Ok (_, st) => (set_internal s1 (i_disclosures st) [] [] [], Err "json object")
          | Err e => (s1, Err e)
          | Panic x => (s1, Panic x)
          | OutOfFuel => (s1, OutOfFuel)
          | Unmodelled w => (s1, Unmodelled w)
          end
      | _ => (s1, Err "json object")
      end
  | Err e => (s, Err e)
  | Panic x => (s, Panic x)
  | OutOfFuel => (s, OutOfFuel)
  | Unmodelled w => (s, Unmodelled w)
  end.

(* a sequence of calls on one instance; the i-th call draws from the i-th randomness record *)
Fixpoint issuer_run (o : oracles) (s : issuer_state) (calls : list (issue_args * rng)) : list (outcome (str * rng)) :=
  match calls with
  | [] => []
  | (a, r) :: calls' => let (s', res) := issuer_step o s a r in res :: issuer_run o s' calls'
  end.

(* Model/Issuer.v — src/issuer.rs and the salt / decoy draws of src/utils.rs.
   Faithful, executable.  Randomness is an explicit stream (DESIGN.md §3.5):
   [r_salts] is what successive generate_salt() calls return (disclosure salts
   and decoy pre-images, in call order), [r_counts] the successive decoy
   counts, [r_queue] the SALTS queue of the deterministic-salt build (then
   disclosure salts come from the queue and only decoys use [r_salts]). *)
From SDJWT Require Import Base.Json Params Codec.JsonPrint Codec.DisclosureText Model.Common.

Inductive strategy :=
| NoSDClaims
| TopLevel
| AllLevels
| Custom (paths : list str).

(* finalize_input: every path must start with "$." which is stripped *)
Fixpoint strip_all (ps : list str) : option (list str) :=
  match ps with
  | [] => Some []
  | p :: ps' =>
      match strip_prefix [36; 46] p with
      | Some p' => match strip_all ps' with Some r => Some (p' :: r) | None => None end
      | None => None
      end
  end.

Definition finalize_input (s : strategy) : outcome strategy :=
  match s with
  | Custom ps => match strip_all ps with Some ps' => Ok (Custom ps') | None => Err "Invalid JSONPath" end
  | _ => Ok s
  end.

Definition next_path (k p : str) : option str :=
  match strip_prefix k p with
  | Some (46 :: rest) => Some rest                                  (* next token *)
  | Some (91 :: rest) => match k with [] => None | _ :: _ => Some (91 :: rest) end   (* array index *)
  | _ => None
  end.

Fixpoint filter_map {A B} (f : A -> option B) (l : list A) : list B :=
  match l with
  | [] => []
  | x :: l' => match f x with Some y => y :: filter_map f l' | None => filter_map f l' end
  end.

Definition next_level (s : strategy) (k : str) : strategy :=
  match s with
  | NoSDClaims => NoSDClaims
  | TopLevel => NoSDClaims
  | AllLevels => AllLevels
  | Custom ps => Custom (filter_map (next_path k) ps)
  end.

Definition sd_for_key (s : strategy) (k : str) : bool :=
  match s with
  | NoSDClaims => false
  | TopLevel => true
  | AllLevels => true
  | Custom ps => mem_str k ps
  end.

Definition index_key (i : N) : str := [91] ++ N_to_dec i ++ [93].     (* format!("[{idx}]") *)

(* ------------------------------------------------------------------ *)
(* Randomness and issuer-internal state                                 *)

Record rng := {
  r_queue : option (list str);
  r_salts : list str;
  r_counts : list nat
}.

Record ist := {
  i_rng : rng;
  i_disclosures : list (str * str)        (* all_disclosures: (raw_b64, hash), in creation order *)
}.

Definition draw_salt (st : ist) : outcome (str * ist) :=
  let r := i_rng st in
  match r_salts r with
  | s :: rest => Ok (s, {| i_rng := {| r_queue := r_queue r; r_salts := rest; r_counts := r_counts r |};
                           i_disclosures := i_disclosures st |})
  | [] => Unmodelled "randomness stream exhausted"
  end.

(* the salt of a disclosure: generate_salt(), or generate_salt_mock() = pop_front().expect(..) *)
Definition draw_disclosure_salt (st : ist) : outcome (str * ist) :=
  let r := i_rng st in
  match r_queue r with
  | None => draw_salt st
  | Some (s :: q) => Ok (s, {| i_rng := {| r_queue := Some q; r_salts := r_salts r; r_counts := r_counts r |};
                               i_disclosures := i_disclosures st |})
  | Some [] => Panic "utils.rs: SALTS is empty"
  end.

Definition draw_count (st : ist) : outcome (nat * ist) :=
  let r := i_rng st in
  match r_counts r with
  | c :: rest => Ok (c, {| i_rng := {| r_queue := r_queue r; r_salts := r_salts r; r_counts := rest |};
                           i_disclosures := i_disclosures st |})
  | [] => Unmodelled "randomness stream exhausted"
  end.

Definition is_mock (st : ist) : bool := match r_queue (i_rng st) with Some _ => true | None => false end.

(* SDJWTDisclosure::new + all_disclosures.push; returns the digest *)
Definition new_disclosure (o : oracles) (name : option str) (v : json) (st : ist) : outcome (str * ist) :=
  do (salt, st1) <- draw_disclosure_salt st;
  let text := disclosure_text (is_mock st) salt name v in
  let raw := base64url_encode_str text in
  let h := H o raw in
  Ok (h, {| i_rng := i_rng st1; i_disclosures := i_disclosures st1 ++ [(raw, h)] |}).

(* create_decoy_claim_entry, n times *)
Fixpoint decoys (o : oracles) (n : nat) (st : ist) : outcome (list str * ist) :=
  match n with
  | O => Ok ([], st)
  | S n' =>
      do (salt, st1) <- draw_salt st;
      do (ds, st2) <- decoys o n' st1;
      Ok (H o salt :: ds, st2)
  end.

(* Vec<String>::sort *)
Fixpoint insert_sorted (x : str) (l : list str) : list str :=
  match l with
  | [] => [x]
  | y :: l' => if str_leb x y then x :: l else y :: insert_sorted x l'
  end.
Definition sort_strs (l : list str) : list str := fold_right insert_sorted [] l.

(* create_sd_claims / _list / _object *)
Fixpoint create_sd_claims (o : oracles) (decoy : bool) (v : json) (s : strategy) (st : ist) {struct v}
  : outcome (json * ist) :=
  match v with
  | JArr l =>
      (fix go (l : list json) (idx : N) (acc : list json) (st : ist) {struct l} : outcome (json * ist) :=
         match l with
         | [] => Ok (JArr (rev acc), st)
         | x :: l' =>
             let k := index_key idx in
             do (sub, st1) <- create_sd_claims o decoy x (next_level s k) st;
             if sd_for_key s k then
               do (h, st2) <- new_disclosure o None sub st1;
               go l' (idx + 1) (JObj [(SD_LIST_PREFIX, JStr h)] :: acc) st2
             else go l' (idx + 1) (sub :: acc) st1
         end) l 0 [] st
  | JObj m =>
      (fix go (m : members) (claims : members) (sd : list str) (st : ist) {struct m} : outcome (json * ist) :=
         match m with
         | [] =>
             do (sd2, st2) <- (if decoy then
                                  do (n, st1) <- draw_count st;
                                  do (ds, st2) <- decoys o n st1;
                                  Ok (sd ++ ds, st2)
                                else Ok (sd, st));
             match sd2 with
             | [] => Ok (JObj (obj_remove SD_DIGESTS_KEY claims), st2)
             | _ :: _ => Ok (JObj (obj_insert SD_DIGESTS_KEY (JArr (map JStr (sort_strs sd2))) claims), st2)
             end
         | (k, x) :: m' =>
             do (sub, st1) <- create_sd_claims o decoy x (next_level s k) st;
             if sd_for_key s k then
               do (h, st2) <- new_disclosure o (Some k) sub st1;
               go m' claims (sd ++ [h]) st2
             else go m' (obj_insert k sub claims) sd st1
         end) m [(SD_DIGESTS_KEY, JNull)] [] st
  | _ => Ok (v, st)
  end.

(* shift_remove_entry for each always-revealed key, in order, collected into a Map *)
Fixpoint pull_always (ks : list str) (claims : members) (acc : members) : members * members :=
  match ks with
  | [] => (acc, claims)
  | k :: ks' =>
      match obj_get k claims with
      | Some v => pull_always ks' (obj_remove k claims) (obj_insert k v acc)
      | None => pull_always ks' claims acc
      end
  end.

Record issued := {
  is_header : json;
  is_payload : json;
  is_disclosures : list str;      (* raw_b64 texts, in creation order *)
  is_jwt : str;                   (* header.payload.signature *)
  is_serialized : str
}.

Definition alg_names : list str :=
  [lit "HS256"; lit "HS384"; lit "HS512"; lit "ES256"; lit "ES384"; lit "RS256";
   lit "RS384"; lit "RS512"; lit "PS256"; lit "PS384"; lit "PS512"; lit "EdDSA"].

Definition alg_family (a : str) : option family :=
  if mem_str a [lit "HS256"; lit "HS384"; lit "HS512"] then Some FHmac
  else if mem_str a [lit "ES256"; lit "ES384"] then Some FEc
  else if mem_str a [lit "RS256"; lit "RS384"; lit "RS512"; lit "PS256"; lit "PS384"; lit "PS512"] then Some FRsa
  else if str_eqb a (lit "EdDSA") then Some FEd
  else None.

(* jsonwebtoken::encode with a header that has only alg (and typ when given) *)
Definition jwt_encode (o : oracles) (typ : option str) (alg : str) (k : key) (payload : json) : outcome (json * str) :=
  match alg_family alg with
  | None => Err "unknown algorithm name"
  | Some f =>
      if negb (family_eqb (kfam k) f) then Err "InvalidAlgorithm: key family"
      else
        let header := JObj ((match typ with Some t => [(lit "typ", JStr t)] | None => [] end)
                              ++ [(lit "alg", JStr alg)]) in
        let msg := base64url_encode_str (print header) ++ [46] ++ base64url_encode_str (print payload) in
        Ok (header, msg ++ [46] ++ sign o alg k msg)
  end.

Definition json_strs (l : list str) : list json := map JStr l.

(* create_combined *)
Definition serialize_issued (fmt : format) (jwt : str) (ds : list str) : outcome str :=
  match fmt with
  | Compact => Ok (join_with [126] (jwt :: ds) ++ [126])
  | JSONFmt =>
      match split_on 46 jwt with
      | [a; b; c] =>
          Ok (print (JObj [(lit "protected", JStr a); (lit "payload", JStr b); (lit "signature", JStr c);
                           (lit "disclosures", JArr (json_strs ds)); (lit "kb_jwt", JNull)]))
      | _ => Err "Invalid JWT, JWT must contain three parts"
      end
  end.

(* issue_sd_jwt.  [holder_jwk] is the holder key as the JSON its Jwk serializes to. *)
Definition issue (o : oracles) (alg : str) (ikey : key) (claims : json) (s : strategy)
           (holder_jwk : option json) (decoy : bool) (fmt : format) (r : rng)
  : outcome (issued * rng) :=
  do s' <- finalize_input s;
  if has_reserved claims then Err "Claim object cannot have a reserved field" else
  match claims with
  | JObj m =>
      let (always, rest) := pull_always ALWAYS_REVEALED m [] in
      do (body, st) <- create_sd_claims o decoy (JObj rest) s' {| i_rng := r; i_disclosures := [] |};
      match body with
      | JObj b =>
          let p1 := obj_insert DIGEST_ALG_KEY (JStr DEFAULT_DIGEST_ALG) b in
          let p2 := obj_append p1 always in
          let p3 := match holder_jwk with
                    | Some jwk => if obj_has CNF_KEY p2 then p2 else p2 ++ [(CNF_KEY, JObj [(JWK_KEY, jwk)])]
                    | None => p2
                    end in
          do (header, jwt) <- jwt_encode o None alg ikey (JObj p3);
          let ds := map fst (i_disclosures st) in
          do ser <- serialize_issued fmt jwt ds;
          Ok ({| is_header := header; is_payload := JObj p3; is_disclosures := ds;
                 is_jwt := jwt; is_serialized := ser |}, i_rng st)
      | _ => Err "json object"
      end
  | _ => Err "json object"
  end.

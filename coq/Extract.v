(* Extract.v — extraction of the executable model for the correspondence driver.
   ExtrOcamlBasic only (bool, option, list, prod, unit, sumbool -> OCaml natives);
   numbers stay the inductive N / positive / nat; no Extract Constant. *)
From Coq Require Extraction ExtrOcamlBasic.
From SDJWT Require Import Driver.
Extraction Language OCaml.
Extraction "model.ml" Driver.handle.

(* Base/JsonFacts.v — basic lemmas about strings, association-list objects and
   the outcome monad, shared by every proof file. *)
From SDJWT Require Import Base.Json.
From Coq Require Import Lia.

(* ------------------------------------------------------------------ *)
(* strings                                                             *)

Lemma str_eqb_refl : forall s, str_eqb s s = true.
Proof. induction s as [|c s IH]; cbn; [reflexivity|]. rewrite N.eqb_refl, IH. reflexivity. Qed.

Lemma str_eqb_eq : forall a b, str_eqb a b = true <-> a = b.
Proof.
  induction a as [|x a IH]; destruct b as [|y b]; cbn; split; intros E; try reflexivity; try discriminate.
  - apply andb_true_iff in E as [E1 E2]. apply N.eqb_eq in E1. apply IH in E2. subst. reflexivity.
  - inversion E; subst. rewrite N.eqb_refl. cbn. apply IH. reflexivity.
Qed.

Lemma str_eqb_neq : forall a b, str_eqb a b = false <-> a <> b.
Proof.
  intros a b. split.
  - intros E C. apply str_eqb_eq in C. congruence.
  - intros C. destruct (str_eqb a b) eqn:E; [|reflexivity]. apply str_eqb_eq in E. contradiction.
Qed.

Lemma str_eqb_sym : forall a b, str_eqb a b = str_eqb b a.
Proof.
  intros a b. destruct (str_eqb a b) eqn:E.
  - apply str_eqb_eq in E. subst. symmetry. apply str_eqb_refl.
  - destruct (str_eqb b a) eqn:E2; [|reflexivity]. apply str_eqb_eq in E2. subst. rewrite str_eqb_refl in E. discriminate.
Qed.

Lemma str_eq_dec : forall a b : str, {a = b} + {a <> b}.
Proof. intros a b. destruct (str_eqb a b) eqn:E; [left; apply str_eqb_eq; exact E | right; apply str_eqb_neq; exact E]. Qed.

Lemma str_eqb_spec : forall a b, reflect (a = b) (str_eqb a b).
Proof. intros a b. destruct (str_eqb a b) eqn:E; constructor; [apply str_eqb_eq | apply str_eqb_neq]; exact E. Qed.

Lemma mem_str_In : forall x l, mem_str x l = true <-> In x l.
Proof.
  induction l as [|y l IH]; cbn; split; intros E; try discriminate; try contradiction.
  - apply orb_true_iff in E as [E|E]; [left; symmetry; apply str_eqb_eq; exact E | right; apply IH; exact E].
  - apply orb_true_iff. destruct E as [E|E]; [left; subst; apply str_eqb_refl | right; apply IH; exact E].
Qed.

Lemma mem_str_not_In : forall x l, mem_str x l = false <-> ~ In x l.
Proof.
  intros x l. split.
  - intros E C. apply mem_str_In in C. congruence.
  - intros C. destruct (mem_str x l) eqn:E; [|reflexivity]. apply mem_str_In in E. contradiction.
Qed.

Lemma mem_str_app : forall x a b, mem_str x (a ++ b) = mem_str x a || mem_str x b.
Proof. induction a as [|y a IH]; cbn; intros b; [reflexivity|]. rewrite IH, orb_assoc. reflexivity. Qed.

(* ------------------------------------------------------------------ *)
(* objects as association lists                                        *)

Definition keys (m : members) : list str := map fst m.

Lemma obj_get_In_keys : forall k m v, obj_get k m = Some v -> In k (keys m).
Proof.
  induction m as [|[k' v'] m IH]; cbn; intros v E; [discriminate|].
  destruct (str_eqb_spec k k'); [left; congruence | right; eapply IH; exact E].
Qed.

Lemma obj_get_None_keys : forall k m, obj_get k m = None <-> ~ In k (keys m).
Proof.
  induction m as [|[k' v'] m IH]; cbn; [tauto|].
  destruct (str_eqb_spec k k') as [->|N]; split; intros E; try discriminate.
  - exfalso. apply E. left. reflexivity.
  - intros [C|C]; [congruence | apply IH in E; contradiction].
  - apply IH. intros C. apply E. right. exact C.
Qed.

Lemma obj_has_true : forall k m, obj_has k m = true <-> In k (keys m).
Proof.
  intros k m. unfold obj_has. destruct (obj_get k m) eqn:E; split; intros X; try reflexivity; try discriminate.
  - eapply obj_get_In_keys; exact E.
  - apply obj_get_None_keys in E. contradiction.
Qed.

Lemma obj_has_false : forall k m, obj_has k m = false <-> ~ In k (keys m).
Proof.
  intros k m. split.
  - intros E C. apply obj_has_true in C. congruence.
  - intros C. destruct (obj_has k m) eqn:E; [|reflexivity]. apply obj_has_true in E. contradiction.
Qed.

Lemma obj_get_In : forall k m v, obj_get k m = Some v -> In (k, v) m.
Proof.
  induction m as [|[k' v'] m IH]; cbn; intros v E; [discriminate|].
  destruct (str_eqb_spec k k'); [left; congruence | right; apply IH; exact E].
Qed.

Lemma obj_get_insert_same : forall k v m, obj_get k (obj_insert k v m) = Some v.
Proof.
  induction m as [|[k' v'] m IH]; cbn; [rewrite str_eqb_refl; reflexivity|].
  destruct (str_eqb_spec k k') as [->|N]; cbn; [rewrite str_eqb_refl; reflexivity|].
  destruct (str_eqb_spec k k'); [contradiction | exact IH].
Qed.

Lemma obj_get_insert_other : forall k k2 v m, k2 <> k -> obj_get k2 (obj_insert k v m) = obj_get k2 m.
Proof.
  induction m as [|[k' v'] m IH]; cbn; intros N.
  - destruct (str_eqb_spec k2 k); [contradiction | reflexivity].
  - destruct (str_eqb_spec k k') as [->|N2]; cbn.
    + destruct (str_eqb_spec k2 k'); [contradiction | reflexivity].
    + destruct (str_eqb_spec k2 k'); [reflexivity | apply IH; exact N].
Qed.

Lemma keys_insert_present : forall k v m, In k (keys m) -> keys (obj_insert k v m) = keys m.
Proof.
  induction m as [|[k' v'] m IH]; cbn; intros I; [contradiction|].
  destruct (str_eqb_spec k k') as [->|N]; cbn; [reflexivity|].
  f_equal. apply IH. destruct I as [I|I]; [congruence | exact I].
Qed.

Lemma keys_insert_absent : forall k v m, ~ In k (keys m) -> obj_insert k v m = m ++ [(k, v)].
Proof.
  induction m as [|[k' v'] m IH]; cbn; intros I; [reflexivity|].
  destruct (str_eqb_spec k k') as [->|N]; [exfalso; apply I; left; reflexivity|].
  f_equal. apply IH. intros C. apply I. right. exact C.
Qed.

Lemma keys_app : forall a b, keys (a ++ b) = keys a ++ keys b.
Proof. intros. unfold keys. apply map_app. Qed.

Lemma In_keys_insert : forall k2 k v m, In k2 (keys (obj_insert k v m)) <-> k2 = k \/ In k2 (keys m).
Proof.
  intros k2 k v m. destruct (in_dec str_eq_dec k (keys m)) as [I|I].
  - rewrite keys_insert_present by exact I. split; [tauto|]. intros [->|X]; assumption.
  - rewrite keys_insert_absent by exact I. rewrite keys_app. cbn. rewrite in_app_iff. cbn. split; intros X.
    + destruct X as [X|[X|[]]]; [right; exact X | left; congruence].
    + destruct X as [X|X]; [right; left; congruence | left; exact X].
Qed.

Lemma obj_get_remove_other : forall k k2 m, k2 <> k -> obj_get k2 (obj_remove k m) = obj_get k2 m.
Proof.
  induction m as [|[k' v'] m IH]; cbn; intros N; [reflexivity|].
  destruct (str_eqb_spec k k') as [->|N2]; cbn.
  - destruct (str_eqb_spec k2 k'); [contradiction | reflexivity].
  - destruct (str_eqb_spec k2 k'); [reflexivity | apply IH; exact N].
Qed.

Lemma obj_remove_absent : forall k m, ~ In k (keys m) -> obj_remove k m = m.
Proof.
  induction m as [|[k' v'] m IH]; cbn; intros I; [reflexivity|].
  destruct (str_eqb_spec k k') as [->|N]; [exfalso; apply I; left; reflexivity|].
  f_equal. apply IH. intros C. apply I. right. exact C.
Qed.

Lemma keys_nodup_NoDup : forall m, keys_nodup m = true <-> NoDup (keys m).
Proof.
  induction m as [|[k v] m IH]; cbn; split; intros E; try reflexivity; try constructor.
  - apply andb_true_iff in E as [E1 E2]. apply negb_true_iff in E1. apply obj_has_false in E1. exact E1.
  - apply andb_true_iff in E as [E1 E2]. apply IH. exact E2.
  - inversion E as [|? ? N D]; subst. apply andb_true_iff. split.
    + apply negb_true_iff. apply obj_has_false. exact N.
    + apply IH. exact D.
Qed.

Lemma obj_remove_keys_subset : forall k k2 m, In k2 (keys (obj_remove k m)) -> In k2 (keys m).
Proof.
  induction m as [|[k' v'] m IH]; cbn; intros I; [contradiction|].
  destruct (str_eqb_spec k k'); cbn in *; [right; exact I|].
  destruct I as [I|I]; [left; exact I | right; apply IH; exact I].
Qed.

(* ------------------------------------------------------------------ *)
(* the outcome monad                                                   *)

Lemma bind_Ok : forall {A B} (x : outcome A) (f : A -> outcome B) b,
  bind x f = Ok b -> exists a, x = Ok a /\ f a = Ok b.
Proof. intros A B x f b E. destruct x; cbn in E; try discriminate. eexists; split; [reflexivity | exact E]. Qed.

Lemma bind_Panic : forall {A B} (x : outcome A) (f : A -> outcome B) s,
  bind x f = Panic s -> x = Panic s \/ exists a, x = Ok a /\ f a = Panic s.
Proof. intros A B x f s E. destruct x; cbn in E; try discriminate; [right; eexists; split; [reflexivity | exact E] | left; congruence]. Qed.

Lemma bind_OutOfFuel : forall {A B} (x : outcome A) (f : A -> outcome B),
  bind x f = OutOfFuel -> x = OutOfFuel \/ exists a, x = Ok a /\ f a = OutOfFuel.
Proof. intros A B x f E. destruct x; cbn in E; try discriminate; [right; eexists; split; [reflexivity | exact E] | left; reflexivity]. Qed.

Definition is_panic {A} (o : outcome A) : bool := match o with Panic _ => true | _ => false end.
Definition is_fuel {A} (o : outcome A) : bool := match o with OutOfFuel => true | _ => false end.
Definition is_unmodelled {A} (o : outcome A) : bool := match o with Unmodelled _ => true | _ => false end.

(* a result value was returned: Ok or Err — what C07 demands of every entry point *)
Definition returns {A} (o : outcome A) : Prop := (exists a, o = Ok a) \/ (exists e, o = Err e).

(* same class and, when Ok, the same value: error texts are not observable *)
Definition outcome_sim {A} (R : A -> A -> Prop) (x y : outcome A) : Prop :=
  match x, y with
  | Ok a, Ok b => R a b
  | Err _, Err _ => True
  | Panic _, Panic _ => True
  | OutOfFuel, OutOfFuel => True
  | Unmodelled _, Unmodelled _ => True
  | _, _ => False
  end.

(* inversion of [do x <- e; f] = Ok _ in a hypothesis *)
Ltac inv_bind H :=
  let a := fresh "a" in let Ha := fresh "Ha" in
  apply bind_Ok in H as [a [Ha H]].

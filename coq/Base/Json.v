(* Base/Json.v — strings as lists of Unicode scalar values, JSON values with
   insertion-ordered objects (serde_json + preserve_order), the IndexMap
   operations the crate uses, and the outcome type of every model entry point.
   Definitions only (plus the induction principle); lemmas live in Base/JsonFacts.v. *)
From Coq Require Export List NArith Bool String Ascii.
Export ListNotations.
Open Scope N_scope.
Open Scope list_scope.

(* ------------------------------------------------------------------ *)
(* Strings                                                             *)

Definition str := list N.          (* Unicode scalar values, like Rust's char *)

Definition lit (s : string) : str :=
  map (fun a => N_of_ascii a) (list_ascii_of_string s).

Fixpoint str_eqb (a b : str) : bool :=
  match a, b with
  | [], [] => true
  | x :: a', y :: b' => N.eqb x y && str_eqb a' b'
  | _, _ => false
  end.

(* lexicographic order on code points (= byte order of the UTF-8 encodings) *)
Fixpoint str_leb (a b : str) : bool :=
  match a, b with
  | [], _ => true
  | _ :: _, [] => false
  | x :: a', y :: b' => if N.ltb x y then true else if N.ltb y x then false else str_leb a' b'
  end.

Fixpoint strip_prefix (p s : str) : option str :=
  match p, s with
  | [], _ => Some s
  | _ :: _, [] => None
  | x :: p', y :: s' => if N.eqb x y then strip_prefix p' s' else None
  end.

Fixpoint mem_str (x : str) (l : list str) : bool :=
  match l with
  | [] => false
  | y :: l' => str_eqb x y || mem_str x l'
  end.

(* split on a separator character: Rust's str::split(char) — always at least one piece *)
Fixpoint split_on_aux (sep : N) (s : str) (cur : str) : list str :=
  match s with
  | [] => [rev cur]
  | c :: s' => if N.eqb c sep then rev cur :: split_on_aux sep s' [] else split_on_aux sep s' (c :: cur)
  end.
Definition split_on (sep : N) (s : str) : list str := split_on_aux sep s [].

Fixpoint join_with (sep : str) (l : list str) : str :=
  match l with
  | [] => []
  | [x] => x
  | x :: l' => x ++ sep ++ join_with sep l'
  end.

(* decimal printing of a natural number (format!("{idx}")) *)
Fixpoint dec_digits (fuel : nat) (n : N) (acc : str) : str :=
  match fuel with
  | O => acc
  | S f => let d := 48 + N.modulo n 10 in
           let q := N.div n 10 in
           if N.eqb q 0 then d :: acc else dec_digits f q (d :: acc)
  end.
Definition N_to_dec (n : N) : str := dec_digits (S (N.size_nat n)) n [].

(* parse an unsigned decimal numeral (digits only, non-empty) *)
Fixpoint dec_value (s : str) (acc : N) : option N :=
  match s with
  | [] => Some acc
  | c :: s' => if (N.leb 48 c && N.leb c 57)%bool then dec_value s' (acc * 10 + (c - 48)) else None
  end.
Definition dec_to_N (s : str) : option N :=
  match s with [] => None | _ => dec_value s 0 end.

(* ------------------------------------------------------------------ *)
(* JSON                                                                *)

(* A number is kept as its lexeme (the crate never computes with numbers;
   the JWT layer compares exp / nbf, see Model/Jwt.v). *)
Inductive json :=
| JNull
| JBool (b : bool)
| JNum (lexeme : str)
| JStr (s : str)
| JArr (l : list json)
| JObj (m : list (str * json)).

Definition members := list (str * json).

Section JsonInd.
  Variable P : json -> Prop.
  Hypothesis Hnull : P JNull.
  Hypothesis Hbool : forall b, P (JBool b).
  Hypothesis Hnum : forall n, P (JNum n).
  Hypothesis Hstr : forall s, P (JStr s).
  Hypothesis Harr : forall l, Forall P l -> P (JArr l).
  Hypothesis Hobj : forall m, Forall (fun kv => P (snd kv)) m -> P (JObj m).

  Fixpoint json_ind' (v : json) : P v :=
    match v with
    | JNull => Hnull
    | JBool b => Hbool b
    | JNum n => Hnum n
    | JStr s => Hstr s
    | JArr l =>
        Harr l ((fix go (l : list json) : Forall P l :=
                   match l with
                   | [] => Forall_nil _
                   | x :: l' => Forall_cons _ (json_ind' x) (go l')
                   end) l)
    | JObj m =>
        Hobj m ((fix go (m : members) : Forall (fun kv => P (snd kv)) m :=
                   match m with
                   | [] => Forall_nil _
                   | kv :: m' => Forall_cons kv (json_ind' (snd kv)) (go m')
                   end) m)
    end.
End JsonInd.

(* ---- IndexMap operations (serde_json::Map with preserve_order) ---- *)

Fixpoint obj_get (k : str) (m : members) : option json :=
  match m with
  | [] => None
  | (k', v) :: m' => if str_eqb k k' then Some v else obj_get k m'
  end.

Definition obj_has (k : str) (m : members) : bool :=
  match obj_get k m with Some _ => true | None => false end.

(* Map::insert: replace the value in place when the key exists, else append *)
Fixpoint obj_insert (k : str) (v : json) (m : members) : members :=
  match m with
  | [] => [(k, v)]
  | (k', v') :: m' => if str_eqb k k' then (k', v) :: m' else (k', v') :: obj_insert k v m'
  end.

(* Map::shift_remove: remove, keeping the order of the rest *)
Fixpoint obj_remove (k : str) (m : members) : members :=
  match m with
  | [] => []
  | (k', v') :: m' => if str_eqb k k' then m' else (k', v') :: obj_remove k m'
  end.

(* Map::append(&mut other): insert every entry of other in order *)
Definition obj_append (m other : members) : members :=
  fold_left (fun acc kv => obj_insert (fst kv) (snd kv) acc) other m.

(* building a map from a sequence of pairs (collect / deserialisation):
   a repeated key keeps its first position and takes the last value *)
Definition obj_of_list (l : members) : members := obj_append [] l.

Fixpoint keys_nodup (m : members) : bool :=
  match m with
  | [] => true
  | (k, _) :: m' => negb (obj_has k m') && keys_nodup m'
  end.

(* well-formed: every object has pairwise distinct member names *)
Fixpoint wf_json (v : json) : bool :=
  match v with
  | JArr l => forallb wf_json l
  | JObj m => keys_nodup m && forallb (fun kv => wf_json (snd kv)) m
  | _ => true
  end.

(* exact (order-sensitive) equality *)
Fixpoint json_eqb (a b : json) {struct a} : bool :=
  match a, b with
  | JNull, JNull => true
  | JBool x, JBool y => Bool.eqb x y
  | JNum x, JNum y => str_eqb x y
  | JStr x, JStr y => str_eqb x y
  | JArr x, JArr y =>
      (fix go (x y : list json) {struct x} : bool :=
         match x, y with
         | [], [] => true
         | a' :: x', b' :: y' => json_eqb a' b' && go x' y'
         | _, _ => false
         end) x y
  | JObj x, JObj y =>
      (fix go (x y : members) {struct x} : bool :=
         match x, y with
         | [], [] => true
         | (k, a') :: x', (k2, b') :: y' => str_eqb k k2 && json_eqb a' b' && go x' y'
         | _, _ => false
         end) x y
  | _, _ => false
  end.

(* serde_json::Value equality with preserve_order: objects compare as maps
   (member order ignored), arrays positionally. *)
Fixpoint json_equivb (a b : json) {struct a} : bool :=
  match a, b with
  | JNull, JNull => true
  | JBool x, JBool y => Bool.eqb x y
  | JNum x, JNum y => str_eqb x y
  | JStr x, JStr y => str_eqb x y
  | JArr x, JArr y =>
      (fix go (x y : list json) {struct x} : bool :=
         match x, y with
         | [], [] => true
         | a' :: x', b' :: y' => json_equivb a' b' && go x' y'
         | _, _ => false
         end) x y
  | JObj x, JObj y =>
      Nat.eqb (List.length x) (List.length y) &&
      (fix go (x : members) {struct x} : bool :=
         match x with
         | [] => true
         | (k, a') :: x' =>
             match obj_get k y with
             | Some b' => json_equivb a' b' && go x'
             | None => false
             end
         end) x
  | _, _ => false
  end.

Definition as_str (v : json) : option str := match v with JStr s => Some s | _ => None end.
Definition as_arr (v : json) : option (list json) := match v with JArr l => Some l | _ => None end.
Definition as_obj (v : json) : option members := match v with JObj m => Some m | _ => None end.

(* ------------------------------------------------------------------ *)
(* Outcome of a model entry point                                       *)

Inductive outcome (A : Type) :=
| Ok (a : A)
| Err (why : string)          (* an error::Error value is returned *)
| Panic (site : string)       (* the Rust code would panic here *)
| OutOfFuel                   (* model artefact; shown unreachable *)
| Unmodelled (why : string).  (* a dialect corner outside the model (float exp, header jwk, ...) *)
Arguments Ok {A} a.
Arguments Err {A} why.
Arguments Panic {A} site.
Arguments OutOfFuel {A}.
Arguments Unmodelled {A} why.

Definition bind {A B} (x : outcome A) (f : A -> outcome B) : outcome B :=
  match x with
  | Ok a => f a
  | Err e => Err e
  | Panic s => Panic s
  | OutOfFuel => OutOfFuel
  | Unmodelled w => Unmodelled w
  end.

Declare Scope outcome_scope.
Delimit Scope outcome_scope with outcome.
Notation "'do' x <- e ; f" := (bind e (fun x => f))
  (at level 200, x pattern, e at level 100, f at level 200, right associativity) : outcome_scope.
Open Scope outcome_scope.

Definition ok_or {A} (o : option A) (e : string) : outcome A :=
  match o with Some a => Ok a | None => Err e end.

Definition is_ok {A} (o : outcome A) : bool := match o with Ok _ => true | _ => false end.
Definition is_err {A} (o : outcome A) : bool := match o with Err _ => true | _ => false end.

(* Driver.v — the request/response glue of the correspondence check, written in
   Gallina so that the very same function runs extracted (driver/) and inside
   the kernel (vm_compute).  A request is one JSON object on one line; the
   response is one JSON object.  See harness/src/model.rs for the other end. *)
From SDJWT Require Import Base.Json Params Codec.Sha256 Codec.Base64 Codec.Utf8 Codec.JsonPrint
  Codec.JsonParse Codec.DisclosureText Model.Common Model.Issuer Model.Holder Model.Jwt Model.Verifier
  Spec.Path Spec.View Spec.Draft07.

Definition sha256_b64 (s : str) : str := b64_encode (sha256 (utf8_encode s)).

(* ---- request accessors ---- *)
Definition g_str (k : string) (m : members) : option str :=
  match obj_get (lit k) m with Some (JStr s) => Some s | _ => None end.
Definition g_bool (k : string) (m : members) : bool :=
  match obj_get (lit k) m with Some (JBool b) => b | _ => false end.
Definition g_N (k : string) (m : members) : N :=
  match obj_get (lit k) m with
  | Some (JNum lx) => match dec_to_N lx with Some n => n | None => 0 end
  | _ => 0
  end.
Definition g_list (k : string) (m : members) : list json :=
  match obj_get (lit k) m with Some (JArr l) => l | _ => [] end.
Definition g_obj (k : string) (m : members) : members :=
  match obj_get (lit k) m with Some (JObj o) => o | _ => [] end.
Definition g_val (k : string) (m : members) : json :=
  match obj_get (lit k) m with Some v => v | None => JNull end.
Definition g_opt_val (k : string) (m : members) : option json :=
  match obj_get (lit k) m with Some JNull | None => None | Some v => Some v end.

Definition strs_of (l : list json) : list str :=
  filter_map (fun v => match v with JStr s => Some s | _ => None end) l.

Definition fam_of (s : str) : family :=
  if str_eqb s (lit "hmac") then FHmac else if str_eqb s (lit "rsa") then FRsa
  else if str_eqb s (lit "ed") then FEd else FEc.

Definition key_of (v : json) : key :=
  match v with
  | JObj m => {| kid := g_N "id" m; kfam := match g_str "fam" m with Some f => fam_of f | None => FEc end |}
  | _ => {| kid := 0; kfam := FEc |}
  end.
Definition opt_key_of (v : option json) : option key := option_map key_of v.

Definition fmt_of (m : members) : format :=
  match g_str "fmt" m with
  | Some f => if str_eqb f (lit "compact") then Compact else JSONFmt
  | None => JSONFmt
  end.

Definition strategy_of (v : json) : strategy :=
  match v with
  | JStr s => if str_eqb s (lit "none") then NoSDClaims else if str_eqb s (lit "top") then TopLevel else AllLevels
  | JObj m => Custom (strs_of (g_list "custom" m))
  | _ => NoSDClaims
  end.

(* ---- oracles from the request ---- *)
Definition key_eqb (a b : key) : bool := N.eqb (kid a) (kid b).

(* "sigs": [{"alg","kid","msg","sig","ok"}]; a query not in the table answers [dflt] *)
Definition sig_table (l : list json) (dflt : bool) (alg : str) (k : key) (msg sg : str) : bool :=
  (fix go (l : list json) : bool :=
     match l with
     | [] => dflt
     | JObj e :: l' =>
         if match g_str "alg" e, g_str "msg" e, g_str "sig" e with
            | Some a, Some m, Some s => str_eqb a alg && N.eqb (g_N "kid" e) (kid k) && str_eqb m msg && str_eqb s sg
            | _, _, _ => false
            end
         then g_bool "ok" e else go l'
     | _ :: l' => go l'
     end) l.

(* "signs": [{"msg","sig"}] *)
Definition sign_table (l : list json) (alg : str) (k : key) (msg : str) : str :=
  (fix go (l : list json) : str :=
     match l with
     | [] => lit "MODEL-HAS-NO-SIGNATURE-FOR-THIS-MESSAGE"
     | JObj e :: l' =>
         match g_str "msg" e, g_str "sig" e with
         | Some m, Some s => if str_eqb m msg then s else go l'
         | _, _ => go l'
         end
     | _ :: l' => go l'
     end) l.

(* "jwks": [{"jwk": <json>, "key": <key> | null}] ; a query not in the table answers [dflt] *)
Definition jwk_table (l : list json) (dflt : option key) (jwk : json) : option key :=
  (fix go (l : list json) : option key :=
     match l with
     | [] => dflt
     | JObj e :: l' =>
         if json_equivb (g_val "jwk" e) jwk then opt_key_of (g_opt_val "key" e) else go l'
     | _ :: l' => go l'
     end) l.

Definition oracles_of (m : members) (dflt : bool) : oracles :=
  {| H := sha256_b64;
     sig_ok := sig_table (g_list "sigs" m) dflt;
     sign := sign_table (g_list "signs" m);
     jwk_key := jwk_table (g_list "jwks" m) (if dflt then Some {| kid := 999; kfam := FEc |} else None) |}.

(* "resolver": {"default": key, "by_iss": [{"iss": str, "key": key}], "by_kid": [{"kid": str, "key": key}]}:
   the key registered for the header's kid when there is one, else the key registered for iss, else the default *)
Definition resolver_of (m : members) (iss : str) (hd : json) : key :=
  let r := g_obj "resolver" m in
  let by_iss :=
    (fix go (l : list json) : key :=
       match l with
       | [] => key_of (g_val "default" r)
       | JObj e :: l' => match g_str "iss" e with
                         | Some i => if str_eqb i iss then key_of (g_val "key" e) else go l'
                         | None => go l'
                         end
       | _ :: l' => go l'
       end) (g_list "by_iss" r) in
  match hd with
  | JObj h =>
      match obj_get (lit "kid") h with
      | Some (JStr k) =>
          (fix go (l : list json) : key :=
             match l with
             | [] => by_iss
             | JObj e :: l' => match g_str "kid" e with
                               | Some i => if str_eqb i k then key_of (g_val "key" e) else go l'
                               | None => go l'
                               end
             | _ :: l' => go l'
             end) (g_list "by_kid" r)
      | _ => by_iss
      end
  | _ => by_iss
  end.

(* ---- responses ---- *)
Definition jstr (s : string) : json := JStr (lit s).

Definition outcome_json {A} (x : outcome A) (f : A -> members) : json :=
  match x with
  | Ok a => JObj ((lit "r", jstr "ok") :: f a)
  | Err e => JObj [(lit "r", jstr "err"); (lit "why", jstr e)]
  | Panic s => JObj [(lit "r", jstr "panic"); (lit "why", jstr s)]
  | OutOfFuel => JObj [(lit "r", jstr "fuel")]
  | Unmodelled w => JObj [(lit "r", jstr "unmodelled"); (lit "why", jstr w)]
  end.

Definition pos_json (p : pos) : json :=
  JArr (map (fun st => match st with Key k => JStr k | Idx i => JNum (N_to_dec i) end) p).
Definition pos_of_json (v : json) : pos :=
  match v with
  | JArr l => filter_map (fun x => match x with
                                   | JStr k => Some (Key k)
                                   | JNum lx => option_map Idx (dec_to_N lx)
                                   | _ => None
                                   end) l
  | _ => []
  end.

(* ---- operations ---- *)
Definition rng_of (m : members) : rng :=
  {| r_queue := match obj_get (lit "queue") m with Some (JArr q) => Some (strs_of q) | _ => None end;
     r_salts := strs_of (g_list "salts" m);
     r_counts := map (fun v => match v with JNum lx => match dec_to_N lx with Some n => N.to_nat n | None => O end | _ => O end)
                     (g_list "counts" m) |}.

Definition op_issue (m : members) : json :=
  let o := oracles_of m false in
  let alg := match g_str "alg" m with Some a => a | None => DEFAULT_SIGNING_ALG end in
  outcome_json
    (issue o alg (key_of (g_val "key" m)) (g_val "claims" m) (strategy_of (g_val "strategy" m))
           (g_opt_val "holder_jwk" m) (g_bool "decoy" m) (fmt_of m) (rng_of (g_obj "rng" m)))
    (fun '(i, r) =>
       [(lit "header", is_header i); (lit "payload", is_payload i);
        (lit "disclosures", JArr (json_strs (is_disclosures i)));
        (lit "jwt", JStr (is_jwt i)); (lit "serialized", JStr (is_serialized i));
        (lit "salts_left", JNum (N_to_dec (N.of_nat (List.length (r_salts r)))));
        (lit "counts_left", JNum (N_to_dec (N.of_nat (List.length (r_counts r)))));
        (lit "queue_left", match r_queue r with Some q => JArr (json_strs q) | None => JNull end)]).

Definition kb_args_of (c : members) : kb_args :=
  {| kb_nonce := g_str "nonce" c; kb_aud := g_str "aud" c;
     kb_key := opt_key_of (g_opt_val "key" c); kb_alg := g_str "alg" c |}.

(* new + a sequence of create_presentation calls on one instance *)
Definition op_holder (m : members) : json :=
  let o := oracles_of m false in
  match holder_new o (match g_str "input" m with Some s => s | None => [] end) (fmt_of m) with
  | Ok h =>
      let results :=
        (fix go (calls : list json) (h : holder) : list json :=
           match calls with
           | [] => []
           | JObj c :: calls' =>
               let (h', r) := present o h (g_obj "sel" c) (kb_args_of c) (g_N "now" c) in
               outcome_json r (fun s => [(lit "presentation", JStr s);
                                         (lit "disclosures", JArr (json_strs (h_hs h')))]) :: go calls' h'
           | _ :: calls' => go calls' h
           end) (g_list "calls" m) h in
      JObj [(lit "r", jstr "ok"); (lit "calls", JArr results)]
  | x => outcome_json x (fun _ => [])
  end.

Definition op_verify (m : members) : json :=
  let run (dflt : bool) :=
    verify (oracles_of m dflt) (match g_str "input" m with Some s => s | None => [] end)
           (resolver_of m) (g_str "aud" m) (g_str "nonce" m) (fmt_of m) (g_N "now" m) in
  let r1 := outcome_json (run false) (fun c => [(lit "claims", c)]) in
  let r2 := outcome_json (run true) (fun c => [(lit "claims", c)]) in
  if json_eqb r1 r2 then r1 else JObj [(lit "r", jstr "oracle_miss")].

Definition op_hash (m : members) : json :=
  JObj [(lit "h", JStr (sha256_b64 (match g_str "s" m with Some s => s | None => [] end)))].

Definition op_spec_annotate (m : members) : json :=
  let s := strategy_of (g_val "strategy" m) in
  let claims := g_val "claims" m in
  let t := annotate_spec s claims in
  JObj [(lit "strategy_ok", JBool (strategy_ok s));
        (lit "hidden", JArr (map pos_json (hidden_positions t [])));
        (lit "visible_part", visible_part t)].

Definition op_spec_select (m : members) : json :=
  let s := strategy_of (g_val "strategy" m) in
  let t := annotate_spec s (g_val "claims" m) in
  let sel := g_val "selection" m in
  let d := designated sel t [] in
  JObj [(lit "consistent", JBool (consistent sel t));
        (lit "designated", JArr (map pos_json d));
        (lit "view", view_of t d)].

Definition op_spec_view (m : members) : json :=
  let s := strategy_of (g_val "strategy" m) in
  let t := annotate_spec s (g_val "claims" m) in
  JObj [(lit "view", view_of t (map pos_of_json (g_list "shown" m)))].

Definition op_spec_sel_le (m : members) : json :=
  JObj [(lit "le", JBool (sel_le (g_val "s2" m) (g_val "s1" m)))].

Definition op_spec_process (m : members) : json :=
  let ds := strs_of (g_list "disclosures" m) in
  let tab := filter_map (fun d => match base64url_decode_text d with
                                  | Some text => match parse_json text with
                                                 | Some v => Some (sha256_b64 d, v)
                                                 | None => None
                                                 end
                                  | None => None
                                  end) ds in
  match spec_process (g_obj "payload" m) tab with
  | Some v => JObj [(lit "r", jstr "some"); (lit "claims", v)]
  | None => JObj [(lit "r", jstr "none")]
  end.

Definition op_codec (m : members) : json :=
  let text := disclosure_text (g_bool "mock" m) (match g_str "salt" m with Some s => s | None => [] end)
                              (g_str "name" m) (g_val "value" m) in
  JObj [(lit "text", JStr text);
        (lit "back", match parse_json text with Some v => v | None => jstr "PARSE-FAILED" end)].

Definition op_parse (m : members) : json :=
  match parse_json (match g_str "text" m with Some s => s | None => [] end) with
  | Some v => JObj [(lit "r", jstr "ok"); (lit "value", v)]
  | None => JObj [(lit "r", jstr "err")]
  end.

Definition handle_json (req : json) : json :=
  match req with
  | JObj m =>
      let id := g_val "id" m in
      let res :=
        match g_str "op" m with
        | Some op =>
            if str_eqb op (lit "issue") then op_issue m
            else if str_eqb op (lit "holder") then op_holder m
            else if str_eqb op (lit "verify") then op_verify m
            else if str_eqb op (lit "hash") then op_hash m
            else if str_eqb op (lit "spec_annotate") then op_spec_annotate m
            else if str_eqb op (lit "spec_select") then op_spec_select m
            else if str_eqb op (lit "spec_view") then op_spec_view m
            else if str_eqb op (lit "spec_sel_le") then op_spec_sel_le m
            else if str_eqb op (lit "spec_process") then op_spec_process m
            else if str_eqb op (lit "codec") then op_codec m
            else if str_eqb op (lit "parse") then op_parse m
            else JObj [(lit "r", jstr "bad-op")]
        | None => JObj [(lit "r", jstr "bad-op")]
        end in
      match res with
      | JObj r => JObj ((lit "id", id) :: r)
      | _ => res
      end
  | _ => JObj [(lit "r", jstr "bad-request")]
  end.

(* bytes in, bytes out *)
Definition handle (line : list N) : list N :=
  match utf8_decode line with
  | None => utf8_encode (print (JObj [(lit "r", jstr "bad-utf8")]))
  | Some text =>
      match parse_json text with
      | None => utf8_encode (print (JObj [(lit "r", jstr "bad-json")]))
      | Some req => utf8_encode (print (handle_json req))
      end
  end.

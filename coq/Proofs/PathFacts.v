(* Proofs/PathFacts.v — the "marking" half of C05: the issuer's own tree walk
   (next_level / sd_for_key / next_path / index_key, captured by [marks] of
   Proofs/Build.v) designates exactly the positions the path grammar of
   Spec/Path.v designates ([spec_hidden] / [spellings], tree form [annot] /
   [annotate_spec] of Spec/View.v).

   Main results
     finalize_input_ok_iff        a strategy is accepted iff every Custom path starts with "$."
     C05_marking_fixed            NoSDClaims / TopLevel / AllLevels, every JSON value, no premise
     C05_marking_strong           all strategies; premises: the root is not an array and no member
                                  name STARTS with '['  (weaker than names_ok)
     C05_marking                  the same under names_ok (no '.' and no '[' in any member name)
     C05_marking_top(_fixed)      with pull_always: the hidden positions of the walk over the
                                  claims without iss/iat/exp are exactly the positions the
                                  specification hides in the whole claim set (equal lists)
     C05_unmatched_path_no_effect a Custom path spelling no position of the claims has no effect

   Two genuine disagreements between walk and grammar are recorded as
   counterexamples (and excluded by named premises):
     - a ROOT ARRAY (premise root_not_array; `issue` refuses non-object claims anyway),
     - a member name starting with '[' (premise names_nobracket / names_ok). *)
From SDJWT Require Import Base.Json Base.JsonFacts Params Model.Issuer Spec.Path Spec.View Proofs.Build.
From Coq Require Import Lia.

(* ------------------------------------------------------------------ *)
(* Definitions                                                          *)

(* spec_hidden without the always-revealed clause *)
Definition spec_hidden_raw (s : strategy) (p : pos) : bool :=
  match s with
  | NoSDClaims => false
  | TopLevel => match p with [_] => true | _ => false end
  | AllLevels => match p with [] => false | _ => true end
  | Custom ps => existsb (fun sp => mem_str ([36; 46] ++ sp) ps) (spellings p)
  end.

Lemma spec_hidden_unfold : forall s p,
  spec_hidden s p = if under_always_revealed p then false else spec_hidden_raw s p.
Proof. intros s p. unfold spec_hidden, spec_hidden_raw. destruct s; reflexivity. Qed.

(* a predicate on all member names of a value, at every depth *)
Fixpoint names_all (ok : str -> bool) (v : json) : bool :=
  match v with
  | JArr l => forallb (names_all ok) l
  | JObj m => forallb (fun kv => ok (fst kv) && names_all ok (snd kv)) m
  | _ => true
  end.

(* the name contains neither '.' nor '[' *)
Definition key_ok (k : str) : bool := forallb (fun c => negb (N.eqb c 46) && negb (N.eqb c 91)) k.
(* the name does not start with '[' *)
Definition key_nobracket (k : str) : bool := match k with c :: _ => negb (N.eqb c 91) | [] => true end.

Definition names_ok (v : json) : bool := names_all key_ok v.
Definition names_nobracket (v : json) : bool := names_all key_nobracket v.

Definition root_not_array (v : json) : bool := match v with JArr _ => false | _ => true end.

(* every position of a claim tree: the hidden positions when everything is hidden *)
Definition all_positions (v : json) (here : pos) : list pos :=
  hidden_positions (annot (fun _ => true) here v) here.

Lemma key_ok_nobracket : forall k, key_ok k = true -> key_nobracket k = true.
Proof.
  intros [|c k] E; [reflexivity|]. cbn in E. cbn [key_nobracket].
  apply andb_true_iff in E as [E _]. apply andb_true_iff in E as [_ E]. exact E.
Qed.

Lemma names_all_mono : forall (f g : str -> bool), (forall k, f k = true -> g k = true) ->
  forall v, names_all f v = true -> names_all g v = true.
Proof.
  intros f g FG. induction v as [| | | |l IH|m IH] using json_ind'; intros E; try reflexivity.
  - cbn [names_all] in *. induction l as [|x l IHl]; [reflexivity|].
    cbn [forallb] in *. apply andb_true_iff in E as [E1 E2]. inversion IH as [|? ? P1 P2]; subst.
    apply andb_true_iff. split; [apply P1; exact E1 | apply IHl; assumption].
  - cbn [names_all] in *. induction m as [|[k x] m IHm]; [reflexivity|].
    cbn [forallb fst snd] in *. apply andb_true_iff in E as [E1 E2]. apply andb_true_iff in E1 as [E0 E1].
    inversion IH as [|? ? P1 P2]; subst. cbn [snd] in P1.
    rewrite (FG _ E0), (P1 E1). cbn [andb]. apply IHm; assumption.
Qed.

Lemma names_ok_nobracket : forall v, names_ok v = true -> names_nobracket v = true.
Proof. apply names_all_mono. exact key_ok_nobracket. Qed.

(* ------------------------------------------------------------------ *)
(* Unfolding equations for the nested fixes                             *)

Fixpoint marks_list (s : strategy) (l : list json) (i : N) : list (bool * atree) :=
  match l with
  | [] => []
  | x :: l' => (sd_for_key s (index_key i), marks (next_level s (index_key i)) x) :: marks_list s l' (i + 1)
  end.

Fixpoint marks_mems (s : strategy) (m : members) : list (str * (bool * atree)) :=
  match m with
  | [] => []
  | (k, x) :: m' => (k, (sd_for_key s k, marks (next_level s k) x)) :: marks_mems s m'
  end.

Lemma marks_arr : forall s l, marks s (JArr l) = AArr (marks_list s l 0).
Proof.
  intros s l. cbn [marks]. f_equal. generalize 0 as i.
  induction l as [|x l IH]; intros i; [reflexivity|].
  cbn [marks_list]. rewrite <- IH. reflexivity.
Qed.

Lemma marks_obj : forall s m, marks s (JObj m) = AObj (marks_mems s m).
Proof.
  intros s m. cbn [marks]. f_equal.
  induction m as [|[k x] m IH]; [reflexivity|].
  cbn [marks_mems]. rewrite <- IH. reflexivity.
Qed.

Fixpoint annot_list (hid : pos -> bool) (here : pos) (l : list json) (i : N) : list (bool * atree) :=
  match l with
  | [] => []
  | x :: l' => (hid (here ++ [Idx i]), annot hid (here ++ [Idx i]) x) :: annot_list hid here l' (i + 1)
  end.

Fixpoint annot_mems (hid : pos -> bool) (here : pos) (m : members) : list (str * (bool * atree)) :=
  match m with
  | [] => []
  | (k, x) :: m' => (k, (hid (here ++ [Key k]), annot hid (here ++ [Key k]) x)) :: annot_mems hid here m'
  end.

Lemma annot_arr : forall hid here l, annot hid here (JArr l) = AArr (annot_list hid here l 0).
Proof.
  intros hid here l. cbn [annot]. f_equal. generalize 0 as i.
  induction l as [|x l IH]; intros i; [reflexivity|].
  cbn [annot_list]. rewrite <- IH. reflexivity.
Qed.

Lemma annot_obj : forall hid here m, annot hid here (JObj m) = AObj (annot_mems hid here m).
Proof.
  intros hid here m. cbn [annot]. f_equal.
  induction m as [|[k x] m IH]; [reflexivity|].
  cbn [annot_mems]. rewrite <- IH. reflexivity.
Qed.

Fixpoint hp_list (es : list (bool * atree)) (here : pos) (i : N) : list pos :=
  match es with
  | [] => []
  | (h, t') :: es' =>
      (if h then [here ++ [Idx i]] else []) ++ hidden_positions t' (here ++ [Idx i]) ++ hp_list es' here (i + 1)
  end.

Fixpoint hp_mems (ms : list (str * (bool * atree))) (here : pos) : list pos :=
  match ms with
  | [] => []
  | (k, (h, t')) :: ms' =>
      (if h then [here ++ [Key k]] else []) ++ hidden_positions t' (here ++ [Key k]) ++ hp_mems ms' here
  end.

Lemma hp_arr : forall es here, hidden_positions (AArr es) here = hp_list es here 0.
Proof.
  intros es here. cbn [hidden_positions]. generalize 0 as i.
  induction es as [|[h t'] es IH]; intros i; [reflexivity|].
  cbn [hp_list]. rewrite <- IH. reflexivity.
Qed.

Lemma hp_obj : forall ms here, hidden_positions (AObj ms) here = hp_mems ms here.
Proof.
  intros ms here. cbn [hidden_positions].
  induction ms as [|[k [h t']] ms IH]; [reflexivity|].
  cbn [hp_mems]. rewrite <- IH. reflexivity.
Qed.

(* ------------------------------------------------------------------ *)
(* finalize_input                                                       *)

Lemma strip_prefix_spec : forall k p r, strip_prefix k p = Some r <-> p = k ++ r.
Proof.
  induction k as [|c k IH]; intros p r; cbn.
  - split; intros E; [inversion E; reflexivity | subst; reflexivity].
  - destruct p as [|d p]; [split; intros E; discriminate|].
    destruct (N.eqb_spec c d) as [->|N].
    + rewrite IH. split; intros E; [subst; reflexivity | inversion E; reflexivity].
    + split; intros E; [discriminate | inversion E; congruence].
Qed.

Lemma strip_all_spec : forall ps ps', strip_all ps = Some ps' <-> ps = map (fun q => [36; 46] ++ q) ps'.
Proof.
  induction ps as [|p ps IH]; intros ps'.
  - cbn [strip_all]. split; intros E.
    + inversion E; reflexivity.
    + destruct ps'; [reflexivity | discriminate].
  - cbn [strip_all]. destruct (strip_prefix [36; 46] p) as [p'|] eqn:E1.
    + apply strip_prefix_spec in E1. destruct (strip_all ps) as [r|] eqn:E2.
      * pose proof (proj1 (IH r) eq_refl) as Hr. split; intros E.
        -- inversion E; subst. reflexivity.
        -- destruct ps' as [|q ps']; [discriminate|]. cbn [map] in E. inversion E as [[Ea Eb]].
           rewrite E1 in Ea. cbn [app] in Ea. inversion Ea; subst q.
           assert (Some r = Some ps') as X by (apply IH; exact Eb). inversion X; reflexivity.
      * split; intros E; [discriminate|]. destruct ps' as [|q ps']; [discriminate|].
        cbn [map] in E. inversion E as [[Ea Eb]]. apply IH in Eb. discriminate.
    + split; intros E; [discriminate|]. destruct ps' as [|q ps']; [discriminate|].
      cbn [map] in E. inversion E as [[Ea Eb]].
      assert (strip_prefix [36; 46] p = Some q) as X by (apply strip_prefix_spec; exact Ea). congruence.
Qed.

Lemma strip_all_some_iff : forall ps,
  (exists ps', strip_all ps = Some ps') <->
  forallb (fun p => match strip_prefix [36; 46] p with Some _ => true | None => false end) ps = true.
Proof.
  induction ps as [|p ps IH]; cbn [strip_all forallb].
  - split; [reflexivity | intros _; eexists; reflexivity].
  - destruct (strip_prefix [36; 46] p) as [p'|]; cbn [andb].
    + rewrite <- IH. destruct (strip_all ps) as [r|].
      * split; intros _; eexists; reflexivity.
      * split; intros [x E]; discriminate.
    + split; [intros [x E]; discriminate | discriminate].
Qed.

(* a strategy is accepted iff every Custom path starts with "$."; otherwise Err *)
Theorem finalize_input_ok_iff : forall s, (exists s', finalize_input s = Ok s') <-> strategy_ok s = true.
Proof.
  intros [| | |ps]; cbn [finalize_input strategy_ok]; try (split; [reflexivity | intros _; eexists; reflexivity]).
  rewrite <- strip_all_some_iff. destruct (strip_all ps) as [r|].
  - split; intros _; eexists; reflexivity.
  - split; intros [x E]; discriminate.
Qed.

Theorem finalize_input_refused : forall s, strategy_ok s = false -> exists e, finalize_input s = Err e.
Proof.
  intros [| | |ps]; cbn [finalize_input strategy_ok]; try discriminate. intros E.
  destruct (strip_all ps) as [r|] eqn:E2; [|eexists; reflexivity].
  assert (exists ps', strip_all ps = Some ps') as X by (eexists; exact E2).
  apply strip_all_some_iff in X. congruence.
Qed.

Lemma finalize_input_custom : forall ps s', finalize_input (Custom ps) = Ok s' ->
  exists ps', s' = Custom ps' /\ ps = map (fun q => [36; 46] ++ q) ps'.
Proof.
  intros ps s' E. cbn [finalize_input] in E. destruct (strip_all ps) as [r|] eqn:E2; [|discriminate].
  inversion E; subst. exists r. split; [reflexivity | apply strip_all_spec; exact E2].
Qed.

(* ------------------------------------------------------------------ *)
(* Extensionality of annot; trees without hidden nodes                  *)

Lemma annot_ext : forall v hid1 hid2 here,
  (forall p, hid1 (here ++ p) = hid2 (here ++ p)) -> annot hid1 here v = annot hid2 here v.
Proof.
  induction v as [| | | |l IH|m IH] using json_ind'; intros hid1 hid2 here Hx; try reflexivity.
  - rewrite !annot_arr. f_equal. generalize 0 as i.
    induction l as [|x l IHl]; intros i; [reflexivity|].
    inversion IH as [|? ? P1 P2]; subst. cbn [annot_list]. f_equal; [f_equal|].
    + apply Hx.
    + apply P1. intros p. rewrite <- !app_assoc. apply Hx.
    + apply IHl. exact P2.
  - rewrite !annot_obj. f_equal.
    induction m as [|[k x] m IHm]; [reflexivity|].
    inversion IH as [|? ? P1 P2]; subst. cbn [snd] in P1. cbn [annot_mems]. f_equal; [do 2 f_equal|].
    + apply Hx.
    + apply P1. intros p. rewrite <- !app_assoc. apply Hx.
    + apply IHm. exact P2.
Qed.

Lemma hp_none : forall v hid here here',
  (forall p, hid (here ++ p) = false) -> hidden_positions (annot hid here v) here' = [].
Proof.
  induction v as [| | | |l IH|m IH] using json_ind'; intros hid here here' Hx; try reflexivity.
  - rewrite annot_arr, hp_arr. generalize 0 as i.
    induction l as [|x l IHl]; intros i; [reflexivity|].
    inversion IH as [|? ? P1 P2]; subst. cbn [annot_list hp_list]. rewrite Hx.
    rewrite P1 by (intros p; rewrite <- app_assoc; apply Hx). specialize (IHl P2). rewrite IHl. reflexivity.
  - rewrite annot_obj, hp_obj.
    induction m as [|[k x] m IHm]; [reflexivity|].
    inversion IH as [|? ? P1 P2]; subst. cbn [snd] in P1. cbn [annot_mems hp_mems]. rewrite Hx.
    rewrite P1 by (intros p; rewrite <- app_assoc; apply Hx). specialize (IHm P2). rewrite IHm. reflexivity.
Qed.

(* two predicates that agree on the positions of the tree give the same annotation *)
Lemma annot_ext_pos : forall v hid1 hid2 here,
  (forall p, In p (all_positions v here) -> hid1 p = hid2 p) -> annot hid1 here v = annot hid2 here v.
Proof.
  unfold all_positions.
  induction v as [| | | |l IH|m IH] using json_ind'; intros hid1 hid2 here Hx; try reflexivity.
  - rewrite !annot_arr. f_equal. rewrite annot_arr, hp_arr in Hx. revert Hx. generalize 0 as i.
    induction l as [|x l IHl]; intros i Hx; [reflexivity|].
    inversion IH as [|? ? P1 P2]; subst. cbn [annot_list hp_list app] in *. f_equal; [f_equal|].
    + apply Hx. left. reflexivity.
    + apply P1. intros p Hp. apply Hx. apply in_cons. apply in_or_app. left. exact Hp.
    + apply IHl; [exact P2|]. intros p Hp. apply Hx. apply in_cons. apply in_or_app. right. exact Hp.
  - rewrite !annot_obj. f_equal. rewrite annot_obj, hp_obj in Hx. revert Hx.
    induction m as [|[k x] m IHm]; intros Hx; [reflexivity|].
    inversion IH as [|? ? P1 P2]; subst. cbn [snd] in P1. cbn [annot_mems hp_mems app] in *. f_equal; [do 2 f_equal|].
    + apply Hx. left. reflexivity.
    + apply P1. intros p Hp. apply Hx. apply in_cons. apply in_or_app. left. exact Hp.
    + apply IHm; [exact P2|]. intros p Hp. apply Hx. apply in_cons. apply in_or_app. right. exact Hp.
Qed.

(* ------------------------------------------------------------------ *)
(* The fixed strategies                                                 *)

Lemma marks_nosd_gen : forall v hid here,
  (forall st p, hid (here ++ st :: p) = false) -> marks NoSDClaims v = annot hid here v.
Proof.
  induction v as [| | | |l IH|m IH] using json_ind'; intros hid here Hx; try reflexivity.
  - rewrite marks_arr, annot_arr. f_equal. generalize 0 as i.
    induction l as [|x l IHl]; intros i; [reflexivity|].
    inversion IH as [|? ? P1 P2]; subst. cbn [marks_list annot_list sd_for_key next_level]. f_equal; [f_equal|].
    + symmetry. apply Hx.
    + apply P1. intros st p. rewrite <- app_assoc. apply Hx.
    + apply IHl. exact P2.
  - rewrite marks_obj, annot_obj. f_equal.
    induction m as [|[k x] m IHm]; [reflexivity|].
    inversion IH as [|? ? P1 P2]; subst. cbn [snd] in P1.
    cbn [marks_mems annot_mems sd_for_key next_level]. f_equal; [do 2 f_equal|].
    + symmetry. apply Hx.
    + apply P1. intros st p. rewrite <- app_assoc. apply Hx.
    + apply IHm. exact P2.
Qed.

Lemma marks_all_gen : forall v hid here,
  (forall st p, hid (here ++ st :: p) = true) -> marks AllLevels v = annot hid here v.
Proof.
  induction v as [| | | |l IH|m IH] using json_ind'; intros hid here Hx; try reflexivity.
  - rewrite marks_arr, annot_arr. f_equal. generalize 0 as i.
    induction l as [|x l IHl]; intros i; [reflexivity|].
    inversion IH as [|? ? P1 P2]; subst. cbn [marks_list annot_list sd_for_key next_level]. f_equal; [f_equal|].
    + symmetry. apply Hx.
    + apply P1. intros st p. rewrite <- app_assoc. apply Hx.
    + apply IHl. exact P2.
  - rewrite marks_obj, annot_obj. f_equal.
    induction m as [|[k x] m IHm]; [reflexivity|].
    inversion IH as [|? ? P1 P2]; subst. cbn [snd] in P1.
    cbn [marks_mems annot_mems sd_for_key next_level]. f_equal; [do 2 f_equal|].
    + symmetry. apply Hx.
    + apply P1. intros st p. rewrite <- app_assoc. apply Hx.
    + apply IHm. exact P2.
Qed.

Lemma marks_toplevel : forall v, marks TopLevel v = annot (spec_hidden_raw TopLevel) [] v.
Proof.
  intros [| | | |l|m]; try reflexivity.
  - rewrite marks_arr, annot_arr. f_equal. generalize 0 as i.
    induction l as [|x l IHl]; intros i; [reflexivity|].
    cbn [marks_list annot_list sd_for_key next_level]. f_equal; [f_equal|].
    + apply marks_nosd_gen. intros st p. reflexivity.
    + apply IHl.
  - rewrite marks_obj, annot_obj. f_equal.
    induction m as [|[k x] m IHm]; [reflexivity|].
    cbn [marks_mems annot_mems sd_for_key next_level]. f_equal; [do 2 f_equal|].
    + apply marks_nosd_gen. intros st p. reflexivity.
    + apply IHm.
Qed.

(* C05, marking, fixed strategies: every JSON value, no premise on names *)
Theorem C05_marking_fixed : forall s v,
  match s with Custom _ => False | _ => True end ->
  finalize_input s = Ok s /\ marks s v = annot (fun p => spec_hidden_raw s p) [] v.
Proof.
  intros [| | |ps] v Hs; try contradiction; (split; [reflexivity|]).
  - apply marks_nosd_gen. intros st p. reflexivity.
  - apply marks_toplevel.
  - apply marks_all_gen. intros st p. reflexivity.
Qed.

(* ------------------------------------------------------------------ *)
(* Custom paths: what next_path / filter_map do to the remaining suffixes *)

(* next_path with the character tests written as equalities *)
Lemma next_path_eq : forall k p,
  next_path k p =
  match strip_prefix k p with
  | Some (c :: rest) =>
      if N.eqb c 46 then Some rest
      else if N.eqb c 91 then (match k with [] => None | _ :: _ => Some (91 :: rest) end)
      else None
  | _ => None
  end.
Proof.
  intros k p. unfold next_path. destruct (strip_prefix k p) as [[|c rest]|]; try reflexivity.
  destruct c as [|q]; [reflexivity|].
  do 8 (try (destruct q as [q|q|]; try reflexivity)).
Qed.

Lemma next_path_spec : forall t q q',
  next_path t q = Some q' <->
  q = t ++ 46 :: q' \/ (t <> [] /\ (exists r, q' = 91 :: r) /\ q = t ++ q').
Proof.
  intros t q q'. rewrite next_path_eq.
  destruct (strip_prefix t q) as [[|c rest]|] eqn:E.
  - apply strip_prefix_spec in E. split; [discriminate|]. intros [X|[_ [[r X1] X2]]].
    + rewrite X in E. apply app_inv_head in E. discriminate.
    + rewrite X2 in E. apply app_inv_head in E. congruence.
  - apply strip_prefix_spec in E. destruct (N.eqb_spec c 46) as [->|N46].
    + split.
      * intros X. inversion X; subst. left. reflexivity.
      * intros [X|[_ [[r X1] X2]]].
        -- rewrite X in E. apply app_inv_head in E. inversion E; reflexivity.
        -- rewrite X2, X1 in E. apply app_inv_head in E. discriminate.
    + destruct (N.eqb_spec c 91) as [->|N91].
      * split.
        -- intros X. destruct t as [|c0 t0]; [discriminate|]. inversion X; subst. right.
           split; [discriminate|]. split; [eexists; reflexivity | reflexivity].
        -- intros [X|[Ht [[r X1] X2]]].
           ++ rewrite X in E. apply app_inv_head in E. inversion E.
           ++ rewrite X2 in E. apply app_inv_head in E. destruct t as [|c0 t0]; [contradiction|]. rewrite E. reflexivity.
      * split; [discriminate|]. intros [X|[Ht [[r X1] X2]]].
        -- rewrite X in E. apply app_inv_head in E. inversion E; congruence.
        -- rewrite X2, X1 in E. apply app_inv_head in E. inversion E; congruence.
  - split; [discriminate|].
    assert (forall r, q <> t ++ r) as NE.
    { intros r X. apply strip_prefix_spec in X. congruence. }
    intros [X|[_ [_ X]]]; exfalso; eapply NE; exact X.
Qed.

Lemma filter_map_In : forall {A B} (f : A -> option B) l y,
  In y (filter_map f l) <-> exists x, In x l /\ f x = Some y.
Proof.
  intros A B f. induction l as [|a l IH]; intros y; cbn [filter_map].
  - split; [contradiction | intros [x [[] _]]].
  - destruct (f a) as [b|] eqn:E.
    + cbn [In]. rewrite IH. split.
      * intros [X|[x [X1 X2]]]; [exists a; subst; split; [left; reflexivity | exact E]
                                | exists x; split; [right; exact X1 | exact X2]].
      * intros [x [[X1|X1] X2]]; [left; subst; congruence | right; exists x; split; assumption].
    + rewrite IH. split.
      * intros [x [X1 X2]]. exists x. split; [right; exact X1 | exact X2].
      * intros [x [[X1|X1] X2]]; [subst; congruence | exists x; split; assumption].
Qed.

(* ------------------------------------------------------------------ *)
(* Relative spellings: what the suffix list at a node must contain for
   the descendant at relative position p to be hidden                   *)

Definition tok (st : step) : str := match st with Key k => k | Idx i => index_key i end.

Definition rel (p : pos) : list str :=
  match p with
  | [] => []
  | st :: p' => map (fun r => tok st ++ r) (spell_from p' (is_nil (tok st)))
  end.

Definition hid_rel (qs : list str) (p : pos) : bool := existsb (fun sp => mem_str sp qs) (rel p).

Definition is_idx (p : pos) : bool := match p with Idx _ :: _ => true | _ => false end.

Definition step_nb (st : step) : bool := match st with Key k => key_nobracket k | Idx _ => true end.
Definition pos_nb (p : pos) : bool := forallb step_nb p.
Definition head_nb (p : pos) : bool := match p with st :: _ => step_nb st | [] => true end.

(* at the root the relative spellings of a position starting with a member are its spellings *)
Lemma rel_key_spellings : forall k p, rel (Key k :: p) = spellings (Key k :: p).
Proof. reflexivity. Qed.

Lemma hid_rel_single : forall qs st, hid_rel qs [st] = mem_str (tok st) qs.
Proof.
  intros qs st. unfold hid_rel, rel. cbn [spell_from map existsb]. rewrite app_nil_r, orb_false_r. reflexivity.
Qed.

Lemma spell_from_rel : forall p e r, p <> [] ->
  In r (spell_from p e) <->
  (exists q, In q (rel p) /\ r = 46 :: q) \/ (e = false /\ is_idx p = true /\ In r (rel p)).
Proof.
  intros [|[k|i] p'] e r NE; [contradiction| |].
  - cbn [spell_from rel tok is_idx]. rewrite in_map_iff. split.
    + intros [r0 [X1 X2]]. left. exists (k ++ r0). split; [|symmetry; exact X1].
      apply in_map_iff. exists r0. split; [reflexivity | exact X2].
    + intros [[q [X1 X2]]|[_ [X _]]]; [|discriminate].
      apply in_map_iff in X1 as [r0 [Y1 Y2]]. exists r0. split; [subst; reflexivity | exact Y2].
  - cbn [spell_from rel tok is_idx]. change (is_nil (index_key i)) with false.
    change (bracket i) with (index_key i). rewrite in_app_iff. split.
    + intros [X|X].
      * destruct e; [contradiction|]. right. split; [reflexivity|]. split; [reflexivity | exact X].
      * apply in_map_iff in X as [r0 [X1 X2]]. left. exists (index_key i ++ r0).
        split; [|symmetry; exact X1]. apply in_map_iff. exists r0. split; [reflexivity | exact X2].
    + intros [[q [X1 X2]]|[-> [_ X]]].
      * right. apply in_map_iff in X1 as [r0 [Y1 Y2]]. apply in_map_iff. exists r0.
        split; [subst; reflexivity | exact Y2].
      * left. exact X.
Qed.

Lemma spell_from_true_head : forall p r, In r (spell_from p true) -> r = [] \/ exists r', r = 46 :: r'.
Proof.
  intros [|[k|i] p'] r X; cbn [spell_from app] in X.
  - destruct X as [X|[]]. left. symmetry. exact X.
  - apply in_map_iff in X as [r0 [X _]]. right. eexists. symmetry. exact X.
  - apply in_map_iff in X as [r0 [X _]]. right. eexists. symmetry. exact X.
Qed.

(* a relative spelling starts with '[' exactly when the first step is an index
   (this is where names starting with '[' must be excluded) *)
Lemma rel_head91 : forall p q, In q (rel p) -> head_nb p = true ->
  ((exists r, q = 91 :: r) <-> is_idx p = true).
Proof.
  intros [|[k|i] p'] q X Hnb; [contradiction| |].
  - cbn [is_idx]. split; [|discriminate]. intros [r E]. exfalso.
    cbn [rel tok] in X. apply in_map_iff in X as [r0 [X1 X2]]. cbn [head_nb step_nb] in Hnb.
    destruct k as [|c k'].
    + cbn [app is_nil] in *. apply spell_from_true_head in X2. subst r0.
      destruct X2 as [X2|[r' X2]]; rewrite X2 in E; discriminate.
    + cbn [app key_nobracket] in *. rewrite <- X1 in E. inversion E; subst.
      rewrite N.eqb_refl in Hnb. discriminate.
  - cbn [is_idx]. split; [reflexivity|]. intros _.
    cbn [rel tok] in X. apply in_map_iff in X as [r0 [X1 _]]. subst q.
    unfold index_key. cbn [app]. eexists. reflexivity.
Qed.

Lemma is_nil_false : forall {A} (l : list A), is_nil l = false <-> l <> [].
Proof. intros A [|a l]; cbn; split; congruence. Qed.

(* the step of the walk: going down through [st] transforms the suffix list by
   filter_map (next_path (tok st)) and the question "is the descendant st :: p
   hidden" into "is p hidden" *)
Lemma hid_rel_step : forall st p qs, p <> [] -> head_nb p = true ->
  hid_rel qs (st :: p) = hid_rel (filter_map (next_path (tok st)) qs) p.
Proof.
  intros st p qs NE Hnb. apply eq_iff_eq_true. unfold hid_rel. rewrite !existsb_exists. split.
  - intros [sp [Hin Hmem]]. apply mem_str_In in Hmem. cbn [rel] in Hin.
    apply in_map_iff in Hin as [r [E Hr]]. subst sp.
    apply (spell_from_rel p _ r NE) in Hr as [[q [Hq ->]]|[Hn [Hi Hr]]].
    + exists q. split; [exact Hq|]. apply mem_str_In. apply filter_map_In.
      exists (tok st ++ 46 :: q). split; [exact Hmem|]. apply next_path_spec. left. reflexivity.
    + exists r. split; [exact Hr|]. apply mem_str_In. apply filter_map_In.
      exists (tok st ++ r). split; [exact Hmem|]. apply next_path_spec. right.
      split; [apply is_nil_false; exact Hn|]. split; [|reflexivity].
      apply (rel_head91 p r Hr Hnb). exact Hi.
  - intros [q' [Hin Hmem]]. apply mem_str_In in Hmem. apply filter_map_In in Hmem as [q [Hq Hn]].
    apply next_path_spec in Hn as [->|[Ht [Hr ->]]].
    + exists (tok st ++ 46 :: q'). split; [|apply mem_str_In; exact Hq].
      cbn [rel]. apply in_map_iff. exists (46 :: q'). split; [reflexivity|].
      apply (spell_from_rel p _ _ NE). left. exists q'. split; [exact Hin | reflexivity].
    + exists (tok st ++ q'). split; [|apply mem_str_In; exact Hq].
      cbn [rel]. apply in_map_iff. exists q'. split; [reflexivity|].
      apply (spell_from_rel p _ _ NE). right. split; [apply is_nil_false; exact Ht|].
      split; [|exact Hin]. apply (rel_head91 p q' Hin Hnb). exact Hr.
Qed.

(* ------------------------------------------------------------------ *)
(* The generalised induction                                            *)

(* the kind of step that can leave a node *)
Definition fits (v : json) (st : step) : bool :=
  match v, st with
  | JObj _, Key _ => true
  | JArr _, Idx _ => true
  | _, _ => false
  end.

Lemma marks_custom_gen : forall v, names_nobracket v = true ->
  forall qs hidf here,
    (forall st p, fits v st = true -> pos_nb (st :: p) = true ->
                  hidf (here ++ st :: p) = hid_rel qs (st :: p)) ->
    marks (Custom qs) v = annot hidf here v.
Proof.
  unfold names_nobracket.
  induction v as [| | | |l IH|m IH] using json_ind'; intros Hn qs hidf here Hx; try reflexivity.
  - rewrite marks_arr, annot_arr. f_equal. cbn [names_all] in Hn.
    assert (forall i p, pos_nb p = true -> hidf (here ++ Idx i :: p) = hid_rel qs (Idx i :: p)) as Hx'.
    { intros i p Hp. apply Hx; [reflexivity | exact Hp]. }
    clear Hx. generalize 0 as i.
    induction l as [|x l IHl]; intros i; [reflexivity|].
    inversion IH as [|? ? P1 P2]; subst. cbn [forallb] in Hn. apply andb_true_iff in Hn as [Hn1 Hn2].
    cbn [marks_list annot_list sd_for_key next_level]. f_equal; [f_equal|].
    + rewrite (Hx' i [] eq_refl). rewrite hid_rel_single. reflexivity.
    + apply P1; [exact Hn1|]. intros st p Hf Hp. rewrite <- app_assoc. cbn [app].
      rewrite (Hx' i (st :: p) Hp). apply (hid_rel_step (Idx i)); [discriminate|].
      cbn [pos_nb forallb] in Hp. apply andb_true_iff in Hp as [Hp _]. exact Hp.
    + apply IHl; assumption.
  - rewrite marks_obj, annot_obj. f_equal. cbn [names_all] in Hn.
    assert (forall k p, pos_nb (Key k :: p) = true -> hidf (here ++ Key k :: p) = hid_rel qs (Key k :: p)) as Hx'.
    { intros k p Hp. apply Hx; [reflexivity | exact Hp]. }
    clear Hx.
    induction m as [|[k x] m IHm]; [reflexivity|].
    inversion IH as [|? ? P1 P2]; subst. cbn [snd] in P1. cbn [forallb fst snd] in Hn.
    apply andb_true_iff in Hn as [Hn1 Hn2]. apply andb_true_iff in Hn1 as [Hk Hn1].
    cbn [marks_mems annot_mems sd_for_key next_level]. f_equal; [do 2 f_equal|].
    + rewrite (Hx' k []) by (cbn [pos_nb forallb step_nb]; rewrite Hk; reflexivity).
      rewrite hid_rel_single. reflexivity.
    + apply P1; [exact Hn1|]. intros st p Hf Hp. rewrite <- app_assoc. cbn [app].
      rewrite (Hx' k (st :: p)) by (cbn [pos_nb forallb step_nb] in *; rewrite Hk; exact Hp).
      apply (hid_rel_step (Key k)); [discriminate|].
      cbn [pos_nb forallb] in Hp. apply andb_true_iff in Hp as [Hp _]. exact Hp.
    + apply IHm; assumption.
Qed.

(* spec_hidden_raw of an accepted Custom strategy, on positions that start with a member *)
Lemma raw_custom_key : forall ps' k p,
  spec_hidden_raw (Custom (map (fun q => [36; 46] ++ q) ps')) (Key k :: p) = hid_rel ps' (Key k :: p).
Proof.
  intros ps' k p. unfold spec_hidden_raw, hid_rel. rewrite rel_key_spellings.
  generalize (spellings (Key k :: p)) as sps. induction sps as [|sp sps IH]; [reflexivity|].
  cbn [existsb]. rewrite IH. f_equal.
  clear. induction ps' as [|q ps' IH]; [reflexivity|].
  cbn [map mem_str]. rewrite IH. f_equal.
Qed.

(* C05, marking: the tree walk and the path grammar agree at every position of
   every tree, for all four strategy kinds.  Premises: the root is not an array
   and no member name starts with '['. *)
Theorem C05_marking_strong : forall s s' v,
  finalize_input s = Ok s' ->
  root_not_array v = true ->
  names_nobracket v = true ->
  marks s' v = annot (fun p => spec_hidden_raw s p) [] v.
Proof.
  intros s s' v Hf Hr Hn. destruct s as [| | |ps].
  - inversion Hf; subst. apply (C05_marking_fixed NoSDClaims v I).
  - inversion Hf; subst. apply (C05_marking_fixed TopLevel v I).
  - inversion Hf; subst. apply (C05_marking_fixed AllLevels v I).
  - apply finalize_input_custom in Hf as [ps' [-> ->]].
    apply marks_custom_gen; [exact Hn|]. intros st p Hfit Hp. cbn [app].
    destruct st as [k|i].
    + apply raw_custom_key.
    + destruct v; try discriminate.
Qed.

Theorem C05_marking : forall s s' v,
  finalize_input s = Ok s' ->
  root_not_array v = true ->
  names_ok v = true ->
  marks s' v = annot (fun p => spec_hidden_raw s p) [] v.
Proof.
  intros s s' v Hf Hr Hn. apply C05_marking_strong; [exact Hf | exact Hr | apply names_ok_nobracket; exact Hn].
Qed.

(* ------------------------------------------------------------------ *)
(* Top level: pull_always removes iss / iat / exp before the walk       *)

Lemma filter_all : forall {A} (f : A -> bool) l, (forall x, In x l -> f x = true) -> filter f l = l.
Proof.
  intros A f. induction l as [|a l IH]; intros Hx; [reflexivity|]. cbn [filter].
  rewrite (Hx a) by (left; reflexivity). f_equal. apply IH. intros x Hi. apply Hx. right. exact Hi.
Qed.

Lemma filter_filter : forall {A} (f g : A -> bool) l, filter g (filter f l) = filter (fun x => f x && g x) l.
Proof.
  intros A f g. induction l as [|a l IH]; [reflexivity|]. cbn [filter].
  destruct (f a); cbn [andb filter]; [destruct (g a); rewrite IH; reflexivity | exact IH].
Qed.

Lemma In_keys_filter : forall (f : str * json -> bool) k m, In k (keys (filter f m)) -> In k (keys m).
Proof.
  unfold keys. intros f k. induction m as [|a m IH]; cbn [filter map]; intros Hi; [exact Hi|].
  destruct (f a); cbn [map] in *; [destruct Hi as [Hi|Hi]; [left; exact Hi | right; apply IH; exact Hi]
                                  | right; apply IH; exact Hi].
Qed.

Lemma NoDup_keys_filter : forall (f : str * json -> bool) m, NoDup (keys m) -> NoDup (keys (filter f m)).
Proof.
  intros f. induction m as [|a m IH]; intros ND; [exact ND|].
  unfold keys in ND. cbn [map] in ND. inversion ND as [|? ? N1 N2]; subst. cbn [filter].
  destruct (f a); [|apply IH; exact N2].
  unfold keys. cbn [map]. constructor; [|apply IH; exact N2].
  intros C. apply N1. apply (In_keys_filter f). exact C.
Qed.

Lemma obj_remove_filter : forall k m, NoDup (keys m) ->
  obj_remove k m = filter (fun kv => negb (str_eqb k (fst kv))) m.
Proof.
  intros k. induction m as [|[k' v'] m IH]; intros ND; [reflexivity|].
  unfold keys in ND. cbn [map fst] in ND. inversion ND as [|? ? N1 N2]; subst.
  cbn [obj_remove filter fst]. destruct (str_eqb_spec k k') as [->|Nk]; cbn [negb].
  - symmetry. apply filter_all. intros [k2 v2] Hi. cbn [fst]. apply negb_true_iff. apply str_eqb_neq.
    intros ->. apply N1. apply in_map_iff. exists (k2, v2). split; [reflexivity | exact Hi].
  - f_equal. apply IH. exact N2.
Qed.

Lemma pull_always_snd : forall ks m acc, NoDup (keys m) ->
  snd (pull_always ks m acc) = filter (fun kv => negb (mem_str (fst kv) ks)) m.
Proof.
  induction ks as [|k ks IH]; intros m acc ND.
  - cbn [pull_always snd mem_str negb]. symmetry. apply filter_all. reflexivity.
  - cbn [pull_always].
    assert (forall acc', snd (pull_always ks (obj_remove k m) acc') =
                         filter (fun kv => negb (mem_str (fst kv) (k :: ks))) m) as R.
    { intros acc'. rewrite IH by (rewrite obj_remove_filter by exact ND; apply NoDup_keys_filter; exact ND).
      rewrite obj_remove_filter by exact ND. rewrite filter_filter. apply filter_ext.
      intros [k' x]. cbn [fst mem_str]. rewrite negb_orb. rewrite (str_eqb_sym k' k). reflexivity. }
    destruct (obj_get k m) as [v|] eqn:E; [apply R|].
    pose proof (R acc) as R'. rewrite (obj_remove_absent k m) in R' by (apply obj_get_None_keys; exact E).
    exact R'.
Qed.

Lemma forallb_filter : forall {A} (g f : A -> bool) l, forallb g l = true -> forallb g (filter f l) = true.
Proof.
  intros A g f. induction l as [|a l IH]; intros E; [reflexivity|].
  cbn [forallb] in E. apply andb_true_iff in E as [E1 E2]. cbn [filter].
  destruct (f a); [cbn [forallb]; rewrite E1; apply IH; exact E2 | apply IH; exact E2].
Qed.

(* the members under iss / iat / exp contribute no hidden position to the
   specification; the others are annotated alike with and without the clause *)
Lemma hp_top_filter : forall s m,
  hp_mems (annot_mems (spec_hidden_raw s) [] (filter (fun kv => negb (mem_str (fst kv) ALWAYS_REVEALED)) m)) [] =
  hp_mems (annot_mems (spec_hidden s) [] m) [].
Proof.
  intros s. induction m as [|[k x] m IH]; [reflexivity|].
  cbn [filter fst]. destruct (mem_str k ALWAYS_REVEALED) eqn:E; cbn [negb].
  - cbn [annot_mems hp_mems]. rewrite spec_hidden_unfold. cbn [app under_always_revealed]. rewrite E.
    rewrite hp_none.
    + cbn [app]. exact IH.
    + intros p. rewrite spec_hidden_unfold. cbn [app under_always_revealed]. rewrite E. reflexivity.
  - cbn [annot_mems hp_mems].
    assert (spec_hidden s ([] ++ [Key k]) = spec_hidden_raw s ([] ++ [Key k])) as F.
    { rewrite spec_hidden_unfold. cbn [app under_always_revealed]. rewrite E. reflexivity. }
    assert (annot (spec_hidden s) ([] ++ [Key k]) x = annot (spec_hidden_raw s) ([] ++ [Key k]) x) as T.
    { apply annot_ext. intros p. rewrite spec_hidden_unfold. cbn [app under_always_revealed]. rewrite E. reflexivity. }
    rewrite F, T, IH. reflexivity.
Qed.

Lemma marking_top_core : forall s s' m always rest,
  NoDup (keys m) ->
  pull_always ALWAYS_REVEALED m [] = (always, rest) ->
  (forall m0, m0 = filter (fun kv => negb (mem_str (fst kv) ALWAYS_REVEALED)) m ->
              marks s' (JObj m0) = annot (fun p => spec_hidden_raw s p) [] (JObj m0)) ->
  hidden_positions (marks s' (JObj rest)) [] = hidden_positions (annotate_spec s (JObj m)) [].
Proof.
  intros s s' m always rest ND Hp Hm.
  pose proof (pull_always_snd ALWAYS_REVEALED m [] ND) as Hr. rewrite Hp in Hr. cbn [snd] in Hr.
  rewrite (Hm rest Hr). subst rest. unfold annotate_spec. rewrite !annot_obj, !hp_obj. apply hp_top_filter.
Qed.

(* C05, marking, tied to `issue`: the positions hidden by the walk over the
   claims without iss / iat / exp are exactly (same list, same order) the
   positions of the whole claim set that the specification hides *)
Theorem C05_marking_top_strong : forall s s' m always rest,
  finalize_input s = Ok s' ->
  NoDup (keys m) ->
  names_nobracket (JObj m) = true ->
  pull_always ALWAYS_REVEALED m [] = (always, rest) ->
  hidden_positions (marks s' (JObj rest)) [] = hidden_positions (annotate_spec s (JObj m)) [].
Proof.
  intros s s' m always rest Hf ND Hn Hp. apply (marking_top_core s s' m always rest ND Hp).
  intros m0 ->. apply C05_marking_strong; [exact Hf | reflexivity|].
  unfold names_nobracket in *. cbn [names_all] in *. apply forallb_filter. exact Hn.
Qed.

Theorem C05_marking_top : forall s s' m always rest,
  finalize_input s = Ok s' ->
  NoDup (keys m) ->
  names_ok (JObj m) = true ->
  pull_always ALWAYS_REVEALED m [] = (always, rest) ->
  hidden_positions (marks s' (JObj rest)) [] = hidden_positions (annotate_spec s (JObj m)) [].
Proof.
  intros s s' m always rest Hf ND Hn Hp.
  apply (C05_marking_top_strong s s' m always rest Hf ND (names_ok_nobracket _ Hn) Hp).
Qed.

Theorem C05_marking_top_fixed : forall s m always rest,
  match s with Custom _ => False | _ => True end ->
  NoDup (keys m) ->
  pull_always ALWAYS_REVEALED m [] = (always, rest) ->
  hidden_positions (marks s (JObj rest)) [] = hidden_positions (annotate_spec s (JObj m)) [].
Proof.
  intros s m always rest Hs ND Hp. apply (marking_top_core s s m always rest ND Hp).
  intros m0 _. apply (C05_marking_fixed s (JObj m0) Hs).
Qed.

(* the hidden positions of an annotation are the positions of the tree on which the predicate holds *)
Lemma hidden_positions_char : forall v hid here p,
  In p (hidden_positions (annot hid here v) here) <-> In p (all_positions v here) /\ hid p = true.
Proof.
  unfold all_positions.
  induction v as [| | | |l IH|m IH] using json_ind'; intros hid here p; try (cbn; tauto).
  - rewrite !annot_arr, !hp_arr. generalize 0 as i.
    induction l as [|x l IHl]; intros i; [cbn; tauto|].
    inversion IH as [|? ? P1 P2]; subst. specialize (IHl P2). cbn [annot_list hp_list].
    rewrite !in_app_iff, P1, IHl.
    assert (In p (if hid (here ++ [Idx i]) then [here ++ [Idx i]] else []) <->
            In p [here ++ [Idx i]] /\ hid p = true) as F.
    { destruct (hid (here ++ [Idx i])) eqn:E; cbn [In]; split.
      - intros [X|[]]. split; [left; exact X | subst; exact E].
      - intros [X _]. exact X.
      - contradiction.
      - intros [[X|[]] Y]. subst. congruence. }
    rewrite F. tauto.
  - rewrite !annot_obj, !hp_obj.
    induction m as [|[k x] m IHm]; [cbn; tauto|].
    inversion IH as [|? ? P1 P2]; subst. cbn [snd] in P1. specialize (IHm P2). cbn [annot_mems hp_mems].
    rewrite !in_app_iff, P1, IHm.
    assert (In p (if hid (here ++ [Key k]) then [here ++ [Key k]] else []) <->
            In p [here ++ [Key k]] /\ hid p = true) as F.
    { destruct (hid (here ++ [Key k])) eqn:E; cbn [In]; split.
      - intros [X|[]]. split; [left; exact X | subst; exact E].
      - intros [X _]. exact X.
      - contradiction.
      - intros [[X|[]] Y]. subst. congruence. }
    rewrite F. tauto.
Qed.

(* the same statement position by position *)
Theorem C05_marking_top_iff : forall s s' m always rest p,
  finalize_input s = Ok s' ->
  NoDup (keys m) ->
  names_ok (JObj m) = true ->
  pull_always ALWAYS_REVEALED m [] = (always, rest) ->
  (In p (hidden_positions (marks s' (JObj rest)) []) <->
   In p (all_positions (JObj m) []) /\ spec_hidden s p = true).
Proof.
  intros s s' m always rest p Hf ND Hn Hp.
  rewrite (C05_marking_top s s' m always rest Hf ND Hn Hp). unfold annotate_spec.
  apply hidden_positions_char.
Qed.

(* ------------------------------------------------------------------ *)
(* A path naming no claim has no effect                                 *)

Lemma existsb_ext_in : forall {A} (f g : A -> bool) l, (forall x, In x l -> f x = g x) -> existsb f l = existsb g l.
Proof.
  intros A f g. induction l as [|a l IH]; intros Hx; [reflexivity|]. cbn [existsb].
  rewrite (Hx a) by (left; reflexivity). f_equal. apply IH. intros x Hi. apply Hx. right. exact Hi.
Qed.

Lemma finalize_input_map : forall ps', finalize_input (Custom (map (fun q => [36; 46] ++ q) ps')) = Ok (Custom ps').
Proof.
  intros ps'. cbn [finalize_input].
  assert (strip_all (map (fun q => [36; 46] ++ q) ps') = Some ps') as E by (apply strip_all_spec; reflexivity).
  rewrite E. reflexivity.
Qed.

Theorem C05_unmatched_path_no_effect_strong : forall q ps q' ps' v,
  finalize_input (Custom (q :: ps)) = Ok (Custom (q' :: ps')) ->
  root_not_array v = true ->
  names_nobracket v = true ->
  (forall p sp, In p (all_positions v []) -> In sp (spellings p) -> q <> [36; 46] ++ sp) ->
  finalize_input (Custom ps) = Ok (Custom ps') /\
  marks (Custom (q' :: ps')) v = marks (Custom ps') v.
Proof.
  intros q ps q' ps' v Hf Hr Hn Hq.
  pose proof Hf as Hf0.
  apply finalize_input_custom in Hf as [l [E1 E2]]. inversion E1; subst l. cbn [map] in E2.
  injection E2 as Ea Eb. clear E1.
  assert (finalize_input (Custom ps) = Ok (Custom ps')) as Hf1 by (rewrite Eb; apply finalize_input_map).
  split; [exact Hf1|].
  rewrite (C05_marking_strong _ _ v Hf0 Hr Hn), (C05_marking_strong _ _ v Hf1 Hr Hn).
  apply annot_ext_pos. intros p Hp. cbn [spec_hidden_raw]. apply existsb_ext_in. intros sp Hs.
  cbn [mem_str]. replace (str_eqb ([36; 46] ++ sp) q) with false; [reflexivity|].
  symmetry. apply str_eqb_neq. intros C. apply (Hq p sp Hp Hs). symmetry. exact C.
Qed.

Theorem C05_unmatched_path_no_effect : forall q ps q' ps' v,
  finalize_input (Custom (q :: ps)) = Ok (Custom (q' :: ps')) ->
  root_not_array v = true ->
  names_ok v = true ->
  (forall p sp, In p (all_positions v []) -> In sp (spellings p) -> q <> [36; 46] ++ sp) ->
  marks (Custom (q' :: ps')) v = marks (Custom ps') v.
Proof.
  intros q ps q' ps' v Hf Hr Hn Hq.
  apply (C05_unmatched_path_no_effect_strong q ps q' ps' v Hf Hr (names_ok_nobracket _ Hn) Hq).
Qed.

(* ------------------------------------------------------------------ *)
(* Non-vacuity and counterexamples                                      *)

Definition ex_claims : json :=
  JObj [(lit "a", JObj [(lit "b", JArr [JNum (lit "1"); JObj [(lit "c", JNum (lit "2"))]])]);
        (lit "iss", JStr (lit "x"))].
Definition ex_members : members :=
  [(lit "a", JObj [(lit "b", JArr [JNum (lit "1"); JObj [(lit "c", JNum (lit "2"))]])]);
   (lit "iss", JStr (lit "x"))].
Definition ex_strategy : strategy := Custom [lit "$.a.b[1]"; lit "$.a.b.[1].c"; lit "$.iss"; lit "$.zz"].
Definition ex_strategy' : strategy := Custom [lit "a.b[1]"; lit "a.b.[1].c"; lit "iss"; lit "zz"].

(* premises hold, both sides agree, and the result is not trivial *)
Example ex_marking :
  finalize_input ex_strategy = Ok ex_strategy' /\ root_not_array ex_claims = true /\ names_ok ex_claims = true /\
  marks ex_strategy' ex_claims = annot (fun p => spec_hidden_raw ex_strategy p) [] ex_claims /\
  hidden_positions (marks ex_strategy' ex_claims) [] =
    [[Key (lit "a"); Key (lit "b"); Idx 1]; [Key (lit "a"); Key (lit "b"); Idx 1; Key (lit "c")]; [Key (lit "iss")]].
Proof. vm_compute. repeat split. Qed.

Example ex_marking_top :
  NoDup (keys ex_members) /\
  pull_always ALWAYS_REVEALED ex_members [] = ([(lit "iss", JStr (lit "x"))], [List.hd (lit "", JNull) ex_members]) /\
  hidden_positions (marks ex_strategy' (JObj [List.hd (lit "", JNull) ex_members])) [] =
    [[Key (lit "a"); Key (lit "b"); Idx 1]; [Key (lit "a"); Key (lit "b"); Idx 1; Key (lit "c")]] /\
  hidden_positions (annotate_spec ex_strategy ex_claims) [] =
    [[Key (lit "a"); Key (lit "b"); Idx 1]; [Key (lit "a"); Key (lit "b"); Idx 1; Key (lit "c")]].
Proof.
  split; [apply keys_nodup_NoDup; vm_compute; reflexivity|]. vm_compute. repeat split.
Qed.

Example ex_fixed :
  marks TopLevel ex_claims = annot (fun p => spec_hidden_raw TopLevel p) [] ex_claims /\
  marks AllLevels ex_claims = annot (fun p => spec_hidden_raw AllLevels p) [] ex_claims /\
  hidden_positions (marks AllLevels ex_claims) [] =
    [[Key (lit "a")]; [Key (lit "a"); Key (lit "b")]; [Key (lit "a"); Key (lit "b"); Idx 0];
     [Key (lit "a"); Key (lit "b"); Idx 1]; [Key (lit "a"); Key (lit "b"); Idx 1; Key (lit "c")]; [Key (lit "iss")]].
Proof. vm_compute. repeat split. Qed.

(* "$.zz" names no claim of ex_claims: the premise of C05_unmatched_path_no_effect holds *)
Example ex_unmatched :
  marks (Custom [lit "zz"; lit "a.b[1]"]) ex_claims = marks (Custom [lit "a.b[1]"]) ex_claims.
Proof.
  apply (C05_unmatched_path_no_effect (lit "$.zz") [lit "$.a.b[1]"]); try (vm_compute; reflexivity).
  intros p sp Hp Hs. vm_compute in Hp.
  repeat (destruct Hp as [<-|Hp];
          [vm_compute in Hs; repeat (destruct Hs as [<-|Hs]; [vm_compute; discriminate|]); contradiction|]).
  contradiction.
Qed.

Example ex_refused : finalize_input (Custom [lit "$.a"; lit "a.b"]) = Err "Invalid JSONPath".
Proof. vm_compute. reflexivity. Qed.

(* COUNTEREXAMPLE 1 (why root_not_array): on a root array the walk matches "[0]"
   although a spelling never starts with an index.  Unreachable through `issue`,
   which refuses claims that are not an object. *)
Example cex_root_array :
  finalize_input (Custom [lit "$.[0]"]) = Ok (Custom [lit "[0]"]) /\
  names_ok (JArr [JNull]) = true /\
  marks (Custom [lit "[0]"]) (JArr [JNull]) = AArr [(true, ALeaf JNull)] /\
  annot (fun p => spec_hidden_raw (Custom [lit "$.[0]"]) p) [] (JArr [JNull]) = AArr [(false, ALeaf JNull)].
Proof. vm_compute. repeat split. Qed.

(* COUNTEREXAMPLE 2 (why names must not start with '['): with claims
   {"a":{"[0]":1}} the path "$.a[0]" makes the walk hide the member "[0]" of a,
   whose only spelling is "a.[0]". *)
Example cex_bracket_name :
  let claims := JObj [(lit "a", JObj [(lit "[0]", JNum (lit "1"))])] in
  finalize_input (Custom [lit "$.a[0]"]) = Ok (Custom [lit "a[0]"]) /\
  hidden_positions (marks (Custom [lit "a[0]"]) claims) [] = [[Key (lit "a"); Key (lit "[0]")]] /\
  hidden_positions (annot (fun p => spec_hidden_raw (Custom [lit "$.a[0]"]) p) [] claims) [] = [] /\
  spec_hidden (Custom [lit "$.a[0]"]) [Key (lit "a"); Key (lit "[0]")] = false.
Proof. vm_compute. repeat split. Qed.

(* a '.' inside a member name is harmless (only names_nobracket is needed):
   "$.a.b" designates both the member "a.b" and the member b of a, in walk and grammar alike *)
Example ex_dotted_name :
  let claims := JObj [(lit "a.b", JNull); (lit "a", JObj [(lit "b", JNull)])] in
  names_ok claims = false /\ names_nobracket claims = true /\
  marks (Custom [lit "a.b"]) claims = annot (fun p => spec_hidden_raw (Custom [lit "$.a.b"]) p) [] claims /\
  hidden_positions (marks (Custom [lit "a.b"]) claims) [] = [[Key (lit "a.b")]; [Key (lit "a"); Key (lit "b")]].
Proof. vm_compute. repeat split. Qed.

Print Assumptions finalize_input_ok_iff.
Print Assumptions C05_marking_fixed.
Print Assumptions C05_marking_strong.
Print Assumptions C05_marking.
Print Assumptions C05_marking_top_strong.
Print Assumptions C05_marking_top.
Print Assumptions C05_marking_top_fixed.
Print Assumptions C05_marking_top_iff.
Print Assumptions C05_unmatched_path_no_effect_strong.
Print Assumptions C05_unmatched_path_no_effect.

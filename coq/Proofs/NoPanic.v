(* Proofs/NoPanic.v — property C07 for the model: every entry point returns
   [Ok _] or [Err _] on every input; [Panic _] and [OutOfFuel] are unreachable,
   and [Unmodelled _] arises only at the explicitly listed dialect corners.

   Main results
     unpack_no_panic            unpack is never Panic / Unmodelled (any fuel, any input)
     unpack_fuel_enough         unpack dm (S (length dm)) v [] <> OutOfFuel  (even length dm: _tight)
     extract_sd_claims_returns  Ok or Err
     walk_no_panic              the holder's hash_to_disclosure[digest] index cannot panic
     present_returns            create_presentation: Ok or Err
     holder_new_returns         Ok / Err / the one Unmodelled corner (JSON serialization as array)
     verify_returns             Ok / Err / one of eight listed Unmodelled corners (unmodelled_sites)
     issue_returns              never OutOfFuel; Unmodelled = exhausted randomness only; Panic only in
                                the deterministic-salt build, only "utils.rs: SALTS is empty"
     parse_val_mono, parse_str_body_mono      success is monotone in the fuel
     parse_val_consumes                       every successful parse consumes input
     parse_fuel_adequate, parse_val_fuel_length, parse_json_raw_complete
                                              None from the parser is never a fuel artefact
     C07_no_panic               the collection

   Method: the nested [fix]es of the model (unpack, walk, create_sd_claims) are
   restated with their inner loops named ([unpack_elems] ..., [walk_obj] ...,
   [create_arr] ...) and tied to the model by equations proved by conversion
   ([unpack_eq], [walk_eq_obj], [walk_eq_arr], [create_eq_arr], [create_eq_obj],
   [parse_number_eq]); the lemmas are then by induction on the named loops. *)
From SDJWT Require Import Base.Json Base.JsonFacts Params Codec.Base64 Codec.Utf8 Codec.JsonPrint Codec.JsonParse
  Codec.DisclosureText Model.Common Model.Issuer Model.Holder Model.Jwt Model.Verifier.
From SDJWT Require Proofs.JsonLaxFacts.
From Coq Require Import Lia.

(* ------------------------------------------------------------------ *)
(* Outcome classes                                                      *)

(* never Panic, never Unmodelled *)
Definition npu {A} (o : outcome A) : Prop :=
  match o with Panic _ | Unmodelled _ => False | _ => True end.
(* never Panic, never OutOfFuel *)
Definition npf {A} (o : outcome A) : Prop :=
  match o with Panic _ | OutOfFuel => False | _ => True end.
(* Ok or Err *)
Definition okerr {A} (o : outcome A) : Prop :=
  match o with Ok _ | Err _ => True | _ => False end.

Lemma okerr_returns : forall {A} (o : outcome A), okerr o <-> returns o.
Proof.
  intros A o. unfold returns. destruct o; cbn; split; intros X; try exact I; try contradiction;
    try (left; eexists; reflexivity); try (right; eexists; reflexivity);
    destruct X as [[? X]|[? X]]; discriminate.
Qed.

Lemma okerr_npu : forall {A} (o : outcome A), okerr o -> npu o.
Proof. intros A [] X; cbn in *; tauto. Qed.
Lemma okerr_npf : forall {A} (o : outcome A), okerr o -> npf o.
Proof. intros A [] X; cbn in *; tauto. Qed.
Lemma okerr_split : forall {A} (o : outcome A), npu o -> npf o -> okerr o.
Proof. intros A [] X Y; cbn in *; tauto. Qed.

Lemma npu_bind : forall {A B} (x : outcome A) (f : A -> outcome B),
  npu x -> (forall a, x = Ok a -> npu (f a)) -> npu (bind x f).
Proof. intros A B [] f X Y; cbn in *; try tauto. apply Y. reflexivity. Qed.
Lemma npf_bind : forall {A B} (x : outcome A) (f : A -> outcome B),
  npf x -> (forall a, x = Ok a -> npf (f a)) -> npf (bind x f).
Proof. intros A B [] f X Y; cbn in *; try tauto. apply Y. reflexivity. Qed.
Lemma okerr_bind : forall {A B} (x : outcome A) (f : A -> outcome B),
  okerr x -> (forall a, x = Ok a -> okerr (f a)) -> okerr (bind x f).
Proof. intros A B [] f X Y; cbn in *; try tauto. apply Y. reflexivity. Qed.

(* ================================================================== *)
(* 1. The verifier's unpack                                            *)

(* [unpack dm fuel] is [unpack_go dm jump] for the [jump] that the fuel
   determines; the three inner loops are named.  These are verbatim copies of
   the bodies in Model/Verifier.v, tied to the model by [unpack_eq] (proved by
   conversion). *)
Section UnpackBody.
  Variable dm : dmap.
  Variable jump : json -> list str -> outcome (json * list str).

  Section Inner.
    Variable go : json -> list str -> outcome (json * list str).

    Fixpoint unpack_elems (l : list json) (acc : list json) (seen : list str) {struct l}
      : outcome (json * list str) :=
      match l with
      | [] => Ok (JArr (rev acc), seen)
      | x :: l' =>
          let plain := do (r, s2) <- go x seen; unpack_elems l' (r :: acc) s2 in
          match x with
          | JObj em =>
              match obj_get SD_LIST_PREFIX em with
              | None => plain
              | Some dgv =>
                  if Nat.ltb 1 (List.length em) then Err "placeholder object must contain only one key"
                  else
                    match dgv with
                    | JStr dg =>
                        if mem_str dg seen then Err "DuplicateDigestError"
                        else
                          let seen' := seen ++ [dg] in
                          match dmap_get dg dm with
                          | None => unpack_elems l' acc seen'
                          | Some (JArr [_; value], _) =>
                              do (r, s2) <- jump value seen'; unpack_elems l' (r :: acc) s2
                          | Some (JArr _, _) => Err "array element disclosure must have two elements"
                          | Some (_, _) => Err "InvalidArrayDisclosureObject"
                          end
                    | _ => Err "digest is not a string"
                    end
              end
          | _ => plain
          end
      end.

    Fixpoint unpack_mems (m : members) (acc : members) (seen : list str) {struct m}
      : outcome (members * list str) :=
      match m with
      | [] => Ok (acc, seen)
      | (k, x) :: m' =>
          if str_eqb k SD_DIGESTS_KEY then unpack_mems m' acc seen
          else do (r, s2) <- go x seen; unpack_mems m' (obj_insert k r acc) s2
      end.
  End Inner.

  Fixpoint unpack_digs (ds : list json) (pre : members) (seen : list str) {struct ds}
    : outcome (json * list str) :=
    match ds with
    | [] => Ok (JObj pre, seen)
    | d :: ds' =>
        match d with
        | JStr dg =>
            if mem_str dg seen then Err "DuplicateDigestError"
            else
              let seen' := seen ++ [dg] in
              match dmap_get dg dm with
              | None => unpack_digs ds' pre seen'
              | Some (JArr [_; JStr name; value], _) =>
                  if is_reserved_name name then Err "disclosed claim name is reserved"
                  else if obj_has name pre then Err "DuplicateKeyError"
                  else do (r, s2) <- jump value seen'; unpack_digs ds' (obj_insert name r pre) s2
              | Some (JArr [_; _; _], _) => Err "disclosed claim name is not a string"
              | Some (JArr _, _) => Err "object property disclosure must have three elements"
              | Some (_, _) => Err "InvalidArrayDisclosureObject"
              end
        | _ => Err "digest is not a string"
        end
    end.

  Fixpoint unpack_go (v : json) (seen : list str) {struct v} : outcome (json * list str) :=
    match v with
    | JArr l => unpack_elems unpack_go l [] seen
    | JObj m =>
        do (pre, seen1) <- unpack_mems unpack_go m [] seen;
        match obj_get SD_DIGESTS_KEY m with
        | Some (JArr ds) => unpack_digs ds pre seen1
        | _ => Ok (JObj pre, seen1)
        end
    | _ => Ok (v, seen)
    end.
End UnpackBody.

Definition jump_of (dm : dmap) (fuel : nat) : json -> list str -> outcome (json * list str) :=
  match fuel with
  | O => fun _ _ => OutOfFuel
  | S f => unpack dm f
  end.

Lemma unpack_eq : forall dm fuel, unpack dm fuel = unpack_go dm (jump_of dm fuel).
Proof. intros dm [|f]; reflexivity. Qed.

(* ---- 1a. never Panic, never Unmodelled ---- *)
Section UnpackNpu.
  Variable dm : dmap.
  Variable jump : json -> list str -> outcome (json * list str).
  Hypothesis Hjump : forall v s, npu (jump v s).

  Lemma unpack_elems_npu : forall go l,
    Forall (fun x => forall s, npu (go x s)) l ->
    forall acc seen, npu (unpack_elems dm jump go l acc seen).
  Proof.
    intros go l F. induction F as [|x l Hx F IH]; intros acc seen; [exact I|].
    cbn [unpack_elems].
    assert (Hp : npu (do (r, s2) <- go x seen; unpack_elems dm jump go l (r :: acc) s2)).
    { apply npu_bind; [apply Hx|]. intros [r s2] _. apply IH. }
    destruct x as [| | | | |em]; try exact Hp.
    destruct (obj_get SD_LIST_PREFIX em) as [dgv|]; [|exact Hp].
    destruct (Nat.ltb 1 (List.length em)); [exact I|].
    destruct dgv as [| | |dg| |]; try exact I.
    destruct (mem_str dg seen); [exact I|].
    destruct (dmap_get dg dm) as [[d raw]|]; [|apply IH].
    destruct d as [| | | |dl|]; try exact I.
    destruct dl as [|a [|b [|c dl]]]; try exact I.
    apply npu_bind; [apply Hjump|]. intros [r s2] _. apply IH.
  Qed.

  Lemma unpack_mems_npu : forall go m,
    Forall (fun kv => forall s, npu (go (snd kv) s)) m ->
    forall acc seen, npu (unpack_mems go m acc seen).
  Proof.
    intros go m F. induction F as [|[k x] m Hx F IH]; intros acc seen; [exact I|].
    cbn [unpack_mems]. destruct (str_eqb k SD_DIGESTS_KEY); [apply IH|].
    apply npu_bind; [apply Hx|]. intros [r s2] _. apply IH.
  Qed.

  Lemma unpack_digs_npu : forall ds pre seen, npu (unpack_digs dm jump ds pre seen).
  Proof.
    induction ds as [|d ds IH]; intros pre seen; [exact I|].
    cbn [unpack_digs].
    destruct d as [| | |dg| |]; try exact I.
    destruct (mem_str dg seen); [exact I|].
    destruct (dmap_get dg dm) as [[d raw]|]; [|apply IH].
    destruct d as [| | | |dl|]; try exact I.
    destruct dl as [|a [|b [|c [|e dl]]]]; try exact I.
    all: destruct b as [| | |name| |]; try exact I.
    destruct (is_reserved_name name); [exact I|].
    destruct (obj_has name pre); [exact I|].
    apply npu_bind; [apply Hjump|]. intros [r s2] _. apply IH.
  Qed.

  Lemma unpack_go_npu : forall v seen, npu (unpack_go dm jump v seen).
  Proof.
    induction v as [| | | |l IH|m IH] using json_ind'; intros seen; try exact I.
    - cbn [unpack_go]. apply unpack_elems_npu. exact IH.
    - cbn [unpack_go]. apply npu_bind; [apply unpack_mems_npu; exact IH|].
      intros [pre seen1] _.
      destruct (obj_get SD_DIGESTS_KEY m) as [[| | | |ds|]|]; try exact I.
      apply unpack_digs_npu.
  Qed.
End UnpackNpu.

Lemma unpack_npu : forall dm fuel v seen, npu (unpack dm fuel v seen).
Proof.
  intros dm. induction fuel as [|f IH]; intros v seen; rewrite unpack_eq; apply unpack_go_npu.
  - intros; exact I.
  - exact IH.
Qed.

Theorem unpack_no_panic : forall dm fuel v seen,
  (forall s, unpack dm fuel v seen <> Panic s) /\ (forall w, unpack dm fuel v seen <> Unmodelled w).
Proof.
  intros dm fuel v seen. pose proof (unpack_npu dm fuel v seen) as N.
  split; intros s E; rewrite E in N; exact N.
Qed.
Print Assumptions unpack_no_panic.

(* ---- 1b. the fuel [S (length dm)] is enough ---- *)

(* a digest that the verifier would follow into a disclosure *)
Definition followed (dm : dmap) (d : str) : bool :=
  match dmap_get d dm with Some _ => true | None => false end.
Definition hits (dm : dmap) (seen : list str) : nat := List.length (filter (followed dm) seen).

Lemma hits_app : forall dm a b, hits dm (a ++ b) = (hits dm a + hits dm b)%nat.
Proof. intros. unfold hits. rewrite filter_app, app_length. reflexivity. Qed.

Lemma hits_single : forall dm dg x, dmap_get dg dm = Some x -> hits dm [dg] = 1%nat.
Proof. intros dm dg x E. unfold hits, followed. cbn [filter]. rewrite E. reflexivity. Qed.

Lemma dmap_get_In_keys : forall d (dm : dmap) x, dmap_get d dm = Some x -> In d (map fst dm).
Proof.
  induction dm as [|[d' y] dm IH]; cbn; intros x E; [discriminate|].
  destruct (str_eqb_spec d d'); [left; congruence | right; eapply IH; exact E].
Qed.

(* pigeonhole *)
Lemma NoDup_keys_length : forall (dm : dmap) (l : list str),
  NoDup l -> (forall x, In x l -> In x (map fst dm)) -> (List.length l <= List.length dm)%nat.
Proof.
  intros dm l N I. rewrite <- (map_length fst dm). apply NoDup_incl_length; [exact N | exact I].
Qed.

Lemma hits_le : forall dm seen, NoDup seen -> (hits dm seen <= List.length dm)%nat.
Proof.
  intros dm seen N. unfold hits. apply NoDup_keys_length.
  - apply NoDup_filter. exact N.
  - intros x I. apply filter_In in I as [_ F]. unfold followed in F.
    destruct (dmap_get x dm) eqn:E; [|discriminate]. eapply dmap_get_In_keys; exact E.
Qed.

Lemma NoDup_snoc : forall (l : list str) x, NoDup l -> ~ In x l -> NoDup (l ++ [x]).
Proof.
  induction l as [|y l IH]; cbn; intros x N I.
  - constructor; [intros []|constructor].
  - inversion N as [|? ? Ny Nl]; subst. constructor.
    + rewrite in_app_iff. cbn. intros [C|[C|[]]]; [contradiction|]. apply I. left. symmetry. exact C.
    + apply IH; [exact Nl|]. intros C. apply I. right. exact C.
Qed.

(* the invariant: not OutOfFuel, and an Ok result extends [seen] keeping it duplicate-free *)
Definition uinv {A} (seen : list str) (o : outcome (A * list str)) : Prop :=
  match o with
  | Ok (_, s') => NoDup s' /\ exists ext, s' = seen ++ ext
  | OutOfFuel => False
  | _ => True
  end.

Lemma uinv_weaken : forall {A} seen ext (o : outcome (A * list str)), uinv (seen ++ ext) o -> uinv seen o.
Proof.
  intros A seen ext [[a s']| | | |] U; cbn in *; try exact U.
  destruct U as [N [e ->]]. split; [exact N|]. exists (ext ++ e). rewrite app_assoc. reflexivity.
Qed.

Lemma uinv_bind : forall {A B} seen (x : outcome (A * list str)) (f : A * list str -> outcome (B * list str)),
  uinv seen x ->
  (forall a ext, x = Ok (a, seen ++ ext) -> NoDup (seen ++ ext) -> uinv (seen ++ ext) (f (a, seen ++ ext))) ->
  uinv seen (bind x f).
Proof.
  intros A B seen [[a s']| | | |] f U K; cbn in *; try exact U.
  destruct U as [N [e ->]]. eapply uinv_weaken. apply K; [reflexivity | exact N].
Qed.

Section UnpackFuel.
  Variable dm : dmap.
  Variable n : nat.
  Variable jump : json -> list str -> outcome (json * list str).
  Hypothesis Hjump : forall v s, NoDup s -> (hits dm s + n >= S (List.length dm))%nat -> uinv s (jump v s).

  Definition fpre (s : list str) : Prop := NoDup s /\ (hits dm s + n >= List.length dm)%nat.

  Lemma fpre_ext : forall s ext, fpre s -> NoDup (s ++ ext) -> fpre (s ++ ext).
  Proof. intros s ext [_ Hh] N. split; [exact N|]. rewrite hits_app. lia. Qed.

  Lemma fpre_snoc : forall s dg, fpre s -> mem_str dg s = false -> fpre (s ++ [dg]).
  Proof.
    intros s dg P M. apply fpre_ext; [exact P|]. apply NoDup_snoc; [apply P|]. apply mem_str_not_In. exact M.
  Qed.

  Lemma jump_snoc : forall v s dg x, fpre s -> mem_str dg s = false -> dmap_get dg dm = Some x ->
    uinv (s ++ [dg]) (jump v (s ++ [dg])).
  Proof.
    intros v s dg x P M E. apply Hjump.
    - apply fpre_snoc; assumption.
    - rewrite hits_app, (hits_single _ _ _ E). destruct P as [_ Hh]. lia.
  Qed.

  Lemma unpack_elems_fuel : forall go l,
    Forall (fun x => forall s, fpre s -> uinv s (go x s)) l ->
    forall acc seen, fpre seen -> uinv seen (unpack_elems dm jump go l acc seen).
  Proof.
    intros go l F. induction F as [|x l Hx F IH]; intros acc seen P.
    { cbn. split; [apply P|]. exists []. rewrite app_nil_r. reflexivity. }
    cbn [unpack_elems].
    assert (Hp : uinv seen (do (r, s2) <- go x seen; unpack_elems dm jump go l (r :: acc) s2)).
    { apply uinv_bind; [apply Hx; exact P|]. intros r ext _ N. apply IH. apply fpre_ext; assumption. }
    destruct x as [| | | | |em]; try exact Hp.
    destruct (obj_get SD_LIST_PREFIX em) as [dgv|]; [|exact Hp].
    destruct (Nat.ltb 1 (List.length em)); [exact I|].
    destruct dgv as [| | |dg| |]; try exact I.
    destruct (mem_str dg seen) eqn:M; [exact I|].
    destruct (dmap_get dg dm) as [[d raw]|] eqn:E.
    2:{ eapply uinv_weaken. apply IH. apply fpre_snoc; assumption. }
    destruct d as [| | | |dl|]; try exact I.
    destruct dl as [|a [|b [|c dl]]]; try exact I.
    eapply uinv_weaken. apply uinv_bind; [eapply jump_snoc; eassumption|].
    intros r ext _ N. apply IH. apply fpre_ext; [apply fpre_snoc; assumption | exact N].
  Qed.

  Lemma unpack_mems_fuel : forall go m,
    Forall (fun kv => forall s, fpre s -> uinv s (go (snd kv) s)) m ->
    forall acc seen, fpre seen -> uinv seen (unpack_mems go m acc seen).
  Proof.
    intros go m F. induction F as [|[k x] m Hx F IH]; intros acc seen P.
    { cbn. split; [apply P|]. exists []. rewrite app_nil_r. reflexivity. }
    cbn [unpack_mems]. destruct (str_eqb k SD_DIGESTS_KEY); [apply IH; exact P|].
    apply uinv_bind; [apply Hx; exact P|]. intros r ext _ N. apply IH. apply fpre_ext; assumption.
  Qed.

  Lemma unpack_digs_fuel : forall ds pre seen, fpre seen -> uinv seen (unpack_digs dm jump ds pre seen).
  Proof.
    induction ds as [|d ds IH]; intros pre seen P.
    { cbn. split; [apply P|]. exists []. rewrite app_nil_r. reflexivity. }
    cbn [unpack_digs].
    destruct d as [| | |dg| |]; try exact I.
    destruct (mem_str dg seen) eqn:M; [exact I|].
    destruct (dmap_get dg dm) as [[d raw]|] eqn:E.
    2:{ eapply uinv_weaken. apply IH. apply fpre_snoc; assumption. }
    destruct d as [| | | |dl|]; try exact I.
    destruct dl as [|a [|b [|c [|e dl]]]]; try exact I.
    all: destruct b as [| | |name| |]; try exact I.
    destruct (is_reserved_name name); [exact I|].
    destruct (obj_has name pre); [exact I|].
    eapply uinv_weaken. apply uinv_bind; [eapply jump_snoc; eassumption|].
    intros r ext _ N. apply IH. apply fpre_ext; [apply fpre_snoc; assumption | exact N].
  Qed.

  Lemma unpack_go_fuel : forall v seen, fpre seen -> uinv seen (unpack_go dm jump v seen).
  Proof.
    induction v as [| | | |l IH|m IH] using json_ind'; intros seen P;
      try (cbn; split; [apply P|]; exists []; rewrite app_nil_r; reflexivity).
    - cbn [unpack_go]. apply unpack_elems_fuel; assumption.
    - cbn [unpack_go]. apply uinv_bind; [apply unpack_mems_fuel; assumption|].
      intros pre ext _ N.
      assert (P2 : fpre (seen ++ ext)) by (apply fpre_ext; assumption).
      destruct (obj_get SD_DIGESTS_KEY m) as [[| | | |ds|]|];
        try (cbn; split; [apply P2|]; exists []; rewrite app_nil_r; reflexivity).
      apply unpack_digs_fuel. exact P2.
  Qed.
End UnpackFuel.

Lemma unpack_fuel_inv : forall dm fuel v seen,
  NoDup seen -> (hits dm seen + fuel >= List.length dm)%nat -> uinv seen (unpack dm fuel v seen).
Proof.
  intros dm. induction fuel as [|f IH]; intros v seen N Hh; rewrite unpack_eq.
  - apply (unpack_go_fuel dm 0); [|split; assumption].
    intros v' s N' Hh'. pose proof (hits_le dm s N'). lia.
  - apply (unpack_go_fuel dm (S f)); [|split; assumption].
    intros v' s N' Hh'. cbn [jump_of]. apply IH; [exact N' | lia].
Qed.

(* [List.length dm] would already do; the model supplies one more *)
Theorem unpack_fuel_enough_tight : forall dm v, unpack dm (List.length dm) v [] <> OutOfFuel.
Proof.
  intros dm v E. pose proof (unpack_fuel_inv dm (List.length dm) v [] (NoDup_nil _)) as U.
  rewrite E in U. apply U. cbn. lia.
Qed.

Theorem unpack_fuel_enough : forall dm v, unpack dm (S (List.length dm)) v [] <> OutOfFuel.
Proof.
  intros dm v E. pose proof (unpack_fuel_inv dm (S (List.length dm)) v [] (NoDup_nil _)) as U.
  rewrite E in U. apply U. cbn. lia.
Qed.
Print Assumptions unpack_fuel_enough.

(* non-vacuity: a disclosure chain of depth two is followed with the model's fuel,
   and the fuel is really needed (with none the same input runs out) *)
Definition ex_dm : dmap :=
  [ (lit "d1", (JArr [JStr (lit "s1"); JStr (lit "a"); JObj [(SD_DIGESTS_KEY, JArr [JStr (lit "d2")])]], lit "raw1"));
    (lit "d2", (JArr [JStr (lit "s2"); JStr (lit "b"); JNum (lit "1")], lit "raw2")) ].
Definition ex_payload : members := [(SD_DIGESTS_KEY, JArr [JStr (lit "d1"); JStr (lit "zz")]); (lit "c", JBool true)].

Example unpack_fuel_enough_ex :
  unpack ex_dm (S (List.length ex_dm)) (JObj ex_payload) []
  = Ok (JObj [(lit "c", JBool true); (lit "a", JObj [(lit "b", JNum (lit "1"))])], [lit "d1"; lit "d2"; lit "zz"])
  /\ unpack ex_dm 1 (JObj ex_payload) [] = OutOfFuel.
Proof. vm_compute. split; reflexivity. Qed.

(* ================================================================== *)
(* 3. extract_sd_claims                                                *)

Lemma extract_sd_claims_okerr : forall dm payload, okerr (extract_sd_claims dm payload).
Proof.
  intros dm payload. unfold extract_sd_claims.
  apply okerr_bind.
  { destruct (obj_get DIGEST_ALG_KEY payload) as [[| | |a| |]|]; try exact I.
    destruct (str_eqb a DEFAULT_DIGEST_ALG); exact I. }
  intros _ _. apply okerr_bind.
  - pose proof (unpack_npu dm (S (List.length dm)) (JObj payload) []) as N.
    pose proof (unpack_fuel_enough dm (JObj payload)) as F.
    destruct (unpack dm (S (List.length dm)) (JObj payload) []); cbn in *; try exact I; try exact N.
    apply F. reflexivity.
  - intros [claims s] _. destruct claims; exact I.
Qed.

Theorem extract_sd_claims_returns : forall dm payload, returns (extract_sd_claims dm payload).
Proof. intros. apply okerr_returns. apply extract_sd_claims_okerr. Qed.
Print Assumptions extract_sd_claims_returns.

Example extract_sd_claims_returns_ex :
  extract_sd_claims ex_dm ex_payload
  = Ok (JObj [(lit "c", JBool true); (lit "a", JObj [(lit "b", JNum (lit "1"))])]).
Proof. vm_compute. reflexivity. Qed.

(* ================================================================== *)
(* 4. The holder's walk                                                *)

Section WalkBody.
  Variable dm : dmap.
  Variable walkf : json -> json -> outcome (list str).

  Section Obj.
  Variable payload : members.
  Variable sd_map : sdmap.

  Definition walk_finish (k : str)
             (cont : list str -> outcome (list str)) (acc : list str) : outcome (list str) :=
    if obj_has k payload then cont acc
    else match sdmap_get k sd_map with
         | Some (_, dg) =>
             match dmap_get dg dm with
             | Some (_, raw) => cont (acc ++ [raw])
             | None => Panic "holder.rs: hash_to_disclosure[digest]"
             end
         | None => Err "Requested claim doesn't exist"
         end.

  Fixpoint walk_obj (sm : members) (acc : list str) {struct sm}
    : outcome (list str) :=
    match sm with
    | [] => Ok acc
    | (k, s) :: sm' =>
        let finish := walk_finish k (walk_obj sm') in
        match s with
        | JBool true | JNum _ | JStr _ => finish acc
        | JArr _ =>
            let arr :=
              match obj_get k payload with
              | Some (JArr a) => Some a
              | _ => match sdmap_get k sd_map with Some (JArr a, _) => Some a | _ => None end
              end in
            match arr with
            | Some a => do r <- walkf s (JArr a); finish (acc ++ r)
            | None => finish acc
            end
        | JObj [] => finish acc
        | JObj (_ :: _) =>
            let next :=
              match obj_get k payload with
              | Some (JObj n) => Ok n
              | _ => match sdmap_get k sd_map with
                     | None => Err "Requested claim doesn't exist"
                     | Some (JObj n, _) => Ok n
                     | Some _ => Err "json object"
                     end
              end in
            do n <- next;
            do r <- walkf s (JObj n);
            finish (acc ++ r)
        | JBool false | JNull => walk_obj sm' acc
        end
    end.
  End Obj.

  Fixpoint walk_arr (sl : list json) (a : list json) (acc : list str) {struct sl} : outcome (list str) :=
    match sl, a with
    | s :: sl', e :: a' =>
        match e with
        | JObj em =>
            match s with
            | JBool true =>
                match obj_get SD_LIST_PREFIX em with
                | Some (JStr dg) =>
                    match dmap_get dg dm with
                    | Some (_, raw) => walk_arr sl' a' (acc ++ [raw])
                    | None => walk_arr sl' a' acc
                    end
                | _ => walk_arr sl' a' acc
                end
            | _ =>
                match obj_get SD_LIST_PREFIX em with
                | Some (JStr dg) =>
                    match dmap_get dg dm with
                    | None => walk_arr sl' a' acc
                    | Some (JArr dl, raw) =>
                        match s, nth_error dl 1 with
                        | JArr _, Some (JArr a2) =>
                            do r <- walkf s (JArr a2); walk_arr sl' a' (acc ++ raw :: r)
                        | JObj _, Some (JObj e2) =>
                            do r <- walkf s (JObj e2); walk_arr sl' a' (acc ++ raw :: r)
                        | _, _ => walk_arr sl' a' acc
                        end
                    | Some (_, _) => Err "json array"
                    end
                | _ =>
                    match s with
                    | JObj _ => do r <- walkf s (JObj em); walk_arr sl' a' (acc ++ r)
                    | _ => walk_arr sl' a' acc
                    end
                end
            end
        | JArr a2 =>
            match s with
            | JArr _ => do r <- walkf s (JArr a2); walk_arr sl' a' (acc ++ r)
            | _ => walk_arr sl' a' acc
            end
        | _ => walk_arr sl' a' acc
        end
    | _, _ => Ok acc
    end.
End WalkBody.

Lemma walk_eq_obj : forall dm sm payload,
  walk dm (JObj sm) (JObj payload) = walk_obj dm (walk dm) payload (build_sd_map dm payload) sm [].
Proof. reflexivity. Qed.

Lemma walk_eq_arr : forall dm sl a, walk dm (JArr sl) (JArr a) = walk_arr dm (walk dm) sl a [].
Proof. reflexivity. Qed.

(* every digest stored in the sd_map is a key of the disclosure map *)
Definition sdmap_ok (dm : dmap) (m : sdmap) : Prop :=
  forall k x dg, sdmap_get k m = Some (x, dg) -> exists y, dmap_get dg dm = Some y.

Lemma sdmap_get_put : forall k k' x m,
  sdmap_get k (sdmap_put k' x m) = if str_eqb k k' then Some x else sdmap_get k m.
Proof.
  induction m as [|[k2 x2] m IH]; cbn; [reflexivity|].
  destruct (str_eqb_spec k' k2) as [->|N]; cbn.
  - destruct (str_eqb k k2); reflexivity.
  - rewrite IH. destruct (str_eqb_spec k k2) as [->|N2]; [|reflexivity].
    destruct (str_eqb_spec k2 k'); [congruence | reflexivity].
Qed.

Lemma build_sd_map_ok : forall dm payload, sdmap_ok dm (build_sd_map dm payload).
Proof.
  intros dm payload. unfold build_sd_map.
  destruct (obj_get SD_DIGESTS_KEY payload) as [[| | | |ds|]|]; try (intros k x dg E; discriminate).
  assert (G : forall acc, sdmap_ok dm acc ->
    sdmap_ok dm (fold_left
        (fun acc d =>
           match d with
           | JStr dg =>
               match dmap_get dg dm with
               | Some (disc, _) =>
                   match val_idx disc 1 with
                   | JStr name => sdmap_put name (val_idx disc 2, dg) acc
                   | _ => acc
                   end
               | None => acc
               end
           | _ => acc
           end) ds acc)).
  { induction ds as [|d ds IH]; intros acc A; [exact A|].
    cbn [fold_left]. apply IH.
    destruct d as [| | |dg| |]; try exact A.
    destruct (dmap_get dg dm) as [[disc raw]|] eqn:E; [|exact A].
    destruct (val_idx disc 1) as [| | |name| |]; try exact A.
    intros k x dg' G. rewrite sdmap_get_put in G. destruct (str_eqb k name).
    - inversion G; subst. eexists. exact E.
    - eapply A. exact G. }
  apply G. intros k x dg E. discriminate.
Qed.

Ltac crunch tac :=
  repeat match goal with
  | |- okerr (Ok _) => exact I
  | |- okerr (Err _) => exact I
  | |- okerr (bind _ _) => apply okerr_bind; [|intros ? _]
  | |- okerr (match ?x with _ => _ end) => destruct x eqn:?
  | _ => progress tac
  end.

Section WalkOkerr.
  Variable dm : dmap.
  Variable walkf : json -> json -> outcome (list str).

  Lemma walk_finish_okerr : forall payload sd_map k cont,
    sdmap_ok dm sd_map -> (forall acc, okerr (cont acc)) ->
    forall acc, okerr (walk_finish dm payload sd_map k cont acc).
  Proof.
    intros payload sd_map k cont S C acc. unfold walk_finish.
    destruct (obj_has k payload); [apply C|].
    destruct (sdmap_get k sd_map) as [[x dg]|] eqn:E; [|exact I].
    destruct (S _ _ _ E) as [[y raw] ->]. apply C.
  Qed.

  Lemma walk_obj_okerr : forall payload sd_map sm,
    sdmap_ok dm sd_map ->
    Forall (fun kv => forall t, okerr (walkf (snd kv) t)) sm ->
    forall acc, okerr (walk_obj dm walkf payload sd_map sm acc).
  Proof.
    intros payload sd_map sm S F. induction F as [|[k s] sm Hs F IH]; intros acc; [exact I|].
    cbn [walk_obj]. cbn [snd] in Hs.
    pose proof (walk_finish_okerr payload sd_map k _ S IH) as Fin.
    crunch ltac:(first [apply Fin | apply IH | apply Hs]).
  Qed.

  Lemma walk_arr_okerr : forall sl,
    Forall (fun s => forall t, okerr (walkf s t)) sl ->
    forall a acc, okerr (walk_arr dm walkf sl a acc).
  Proof.
    intros sl F. induction F as [|s sl Hs F IH]; intros a acc; [exact I|].
    cbn [walk_arr]. destruct a as [|e a]; [exact I|].
    crunch ltac:(first [apply IH | apply Hs]).
  Qed.
End WalkOkerr.

Lemma walk_okerr : forall dm sel target, okerr (walk dm sel target).
Proof.
  intros dm. induction sel as [| | | |sl IH|sm IH] using json_ind'; intros target; try exact I.
  - destruct target; try exact I. rewrite walk_eq_arr. apply walk_arr_okerr. exact IH.
  - destruct target; try exact I. rewrite walk_eq_obj. apply walk_obj_okerr; [apply build_sd_map_ok | exact IH].
Qed.

Theorem walk_no_panic : forall dm sel target,
  (forall s, walk dm sel target <> Panic s) /\ walk dm sel target <> OutOfFuel /\
  (forall w, walk dm sel target <> Unmodelled w).
Proof.
  intros dm sel target. pose proof (walk_okerr dm sel target) as N.
  repeat split; intros; intros E; rewrite E in N; exact N.
Qed.
Print Assumptions walk_no_panic.

(* non-vacuity: the guarded lookup is reached (claim "a" is only in the sd_map) and
   succeeds; with an sd_map that breaks the invariant the same code does panic *)
Example walk_no_panic_ex :
  walk ex_dm (JObj [(lit "a", JObj [(lit "b", JBool true)]); (lit "c", JBool true)]) (JObj ex_payload)
  = Ok [lit "raw2"; lit "raw1"]
  /\ walk_finish ex_dm [] [(lit "a", (JNull, lit "nope"))] (lit "a") Ok []
     = Panic "holder.rs: hash_to_disclosure[digest]".
Proof. vm_compute. split; reflexivity. Qed.

(* ================================================================== *)
(* 5. create_presentation                                              *)

Lemma jwt_encode_okerr : forall o typ alg k payload, okerr (jwt_encode o typ alg k payload).
Proof. intros. unfold jwt_encode. crunch idtac. Qed.

Lemma present_okerr : forall o h sel a now, okerr (snd (present o h sel a now)).
Proof.
  intros o h sel a now. unfold present.
  pose proof (walk_okerr (h_dmap h) (JObj sel) (JObj (h_payload h))) as W.
  destruct (walk (h_dmap h) (JObj sel) (JObj (h_payload h))) as [hs| | | |]; cbn [okerr] in W;
    try contradiction; [|exact I].
  destruct (kb_nonce a) as [nonce|], (kb_aud a) as [aud|], (kb_key a) as [hk|]; try exact I.
  - match goal with |- context [jwt_encode ?o ?t ?al ?k ?p] =>
      pose proof (jwt_encode_okerr o t al k p) as J; destruct (jwt_encode o t al k p) as [[hd kb]| | | |] end;
      cbn [okerr] in J; try contradiction; [|exact I].
    destruct (h_fmt h); [exact I|]. destruct (h_json h) as [[[pr pl] sg]|]; exact I.
  - destruct (h_fmt h); [exact I|]. destruct (h_json h) as [[[pr pl] sg]|]; exact I.
Qed.

Theorem present_returns : forall o h sel a now, returns (snd (present o h sel a now)).
Proof. intros. apply okerr_returns. apply present_okerr. Qed.
Print Assumptions present_returns.

Definition ex_oracles : oracles :=
  {| H := fun s => 35 :: s; sig_ok := fun _ _ _ _ => true; sign := fun _ _ _ => lit "sig";
     jwk_key := fun _ => Some {| kid := 7; kfam := FEc |} |}.
Definition ex_holder : holder :=
  {| h_fmt := Compact; h_jwt := lit "h.p.s"; h_payload := ex_payload; h_dmap := ex_dm; h_json := None;
     h_in_disclosures := [lit "raw1"; lit "raw2"]; h_in_kb := None;
     h_hs := []; h_kb_header := []; h_kb_payload := []; h_kb := [] |}.

Example present_returns_ex :
  snd (present ex_oracles ex_holder [(lit "a", JBool true)] no_kb 0) = Ok (lit "h.p.s~raw1~")
  /\ is_ok (snd (present ex_oracles ex_holder [(lit "a", JBool true)]
                   {| kb_nonce := Some (lit "n"); kb_aud := Some (lit "v");
                      kb_key := Some {| kid := 7; kfam := FEc |}; kb_alg := None |} 1000)) = true
  /\ is_err (snd (present ex_oracles ex_holder [(lit "zz", JBool true)] no_kb 0)) = true.
Proof. vm_compute. repeat split; reflexivity. Qed.

(* ================================================================== *)
(* 6. SDJWTHolder::new and SDJWTVerifier::new                          *)

(* Ok, Err, or Unmodelled with one of the listed reasons *)
Definition corner {A} (ws : list string) (o : outcome A) : Prop :=
  match o with
  | Ok _ | Err _ => True
  | Unmodelled w => In w ws
  | Panic _ | OutOfFuel => False
  end.

Lemma corner_incl : forall {A} ws ws' (o : outcome A), corner ws o -> incl ws ws' -> corner ws' o.
Proof. intros A ws ws' [] C I; cbn in *; try exact C. apply I. exact C. Qed.

Lemma okerr_corner : forall {A} ws (o : outcome A), okerr o -> corner ws o.
Proof. intros A ws [] X; cbn in *; tauto. Qed.

Lemma corner_bind : forall {A B} ws (x : outcome A) (f : A -> outcome B),
  corner ws x -> (forall a, x = Ok a -> corner ws (f a)) -> corner ws (bind x f).
Proof. intros A B ws [] f X Y; cbn in *; try tauto. apply Y. reflexivity. Qed.

Lemma corner_npf : forall {A} ws (o : outcome A), corner ws o -> npf o.
Proof. intros A ws [] X; cbn in *; tauto. Qed.

Ltac in_list := cbn [In]; repeat (first [left; reflexivity | right]).
Ltac incl_list := let w := fresh "w" in let Hw := fresh "Hw" in
  intros w Hw; cbn [In] in Hw |- *; intuition auto.
Ltac use_corner L := eapply corner_incl; [apply L | incl_list].

Ltac ccrunch tac :=
  repeat match goal with
  | |- corner _ (Ok _) => exact I
  | |- corner _ (Err _) => exact I
  | |- corner _ (Unmodelled _) => solve [in_list]
  | |- corner _ (bind _ _) => apply corner_bind; [|intros ? _]
  | |- corner _ (match ?x with _ => _ end) => destruct x eqn:?
  | |- corner _ (let _ := _ in _) => cbv zeta
  | _ => progress tac
  end.

Definition W_sdjwt_array : string := "SDJWTJson given as a JSON array".
Definition W_header_array : string := "header given as a JSON array".
Definition W_header_jwk : string := "header with an embedded jwk".
Definition W_num_big : string := "integer beyond u64 in exp/nbf".
Definition W_num_negzero : string := "-0 in exp/nbf".
Definition W_num_float : string := "float in exp/nbf".
Definition W_num_container : string := "container in exp/nbf".
Definition W_sub : string := "non-string sub".

Definition ws_parse : list string := [W_sdjwt_array].
Definition ws_header : list string := [W_header_array; W_header_jwk].
Definition ws_numeric : list string := [W_num_big; W_num_negzero; W_num_float; W_num_container].
Definition ws_validate : list string := W_sub :: ws_numeric.
Definition ws_jwt : list string := ws_header ++ ws_validate.
Definition ws_verify : list string := ws_parse ++ ws_jwt.

Global Hint Unfold ws_parse ws_header ws_numeric ws_validate ws_jwt ws_verify
  W_sdjwt_array W_header_array W_header_jwk W_num_big W_num_negzero W_num_float W_num_container W_sub : ws.
Ltac in_list ::= autounfold with ws; cbn [In app]; repeat (first [left; reflexivity | right]).
Ltac incl_list ::= let w := fresh "w" in let Hw := fresh "Hw" in
  intros w Hw; autounfold with ws in Hw |- *; cbn [In app] in Hw |- *; intuition auto.

Lemma jwt_payload_decode_okerr : forall b, okerr (jwt_payload_decode b).
Proof. intros. unfold jwt_payload_decode. crunch idtac. Qed.

Lemma parse_compact_okerr : forall input, okerr (parse_compact input).
Proof. intros. unfold parse_compact. crunch ltac:(apply jwt_payload_decode_okerr). Qed.

Lemma parse_json_form_strict_corner : forall input, corner ws_parse (parse_json_form_strict input).
Proof.
  intros. unfold parse_json_form_strict, ws_parse, W_sdjwt_array.
  ccrunch ltac:(apply okerr_corner; apply jwt_payload_decode_okerr).
Qed.

Lemma parse_json_form_corner : forall input, corner ws_parse (parse_json_form input).
Proof.
  apply (JsonLaxFacts.parse_json_form_ind (corner ws_parse)); [apply parse_json_form_strict_corner | exact I].
Qed.

(* both readings of the JSON serialization (strict whole text / unknown members blanked by
   Codec/JsonLax.v) return: no Panic, no OutOfFuel, for any input *)
Theorem parse_json_form_never_panics : forall input,
  (forall s, parse_json_form input <> Panic s) /\ parse_json_form input <> OutOfFuel.
Proof.
  intros input. pose proof (parse_json_form_corner input) as C.
  split; [intros s E | intros E]; rewrite E in C; exact C.
Qed.
Print Assumptions parse_json_form_never_panics.

Lemma parse_sd_jwt_corner : forall fmt input, corner ws_parse (parse_sd_jwt fmt input).
Proof.
  intros [] input; cbn [parse_sd_jwt]; [apply okerr_corner, parse_compact_okerr | apply parse_json_form_corner].
Qed.

Lemma create_hash_mappings_okerr : forall o ds acc, okerr (create_hash_mappings o ds acc).
Proof.
  intros o. induction ds as [|d ds IH]; intros acc; [exact I|].
  cbn [create_hash_mappings]. crunch ltac:(apply IH).
Qed.

Lemma header_from_encoded_corner : forall h, corner ws_header (header_from_encoded h).
Proof. intros. unfold header_from_encoded, ws_header, W_header_array, W_header_jwk. ccrunch idtac. Qed.

Lemma decode_header_corner : forall t, corner ws_header (decode_header t).
Proof. intros. unfold decode_header. ccrunch ltac:(apply header_from_encoded_corner). Qed.

Lemma numeric_claim_corner : forall k m, corner ws_numeric (numeric_claim k m).
Proof.
  intros. unfold numeric_claim, ws_numeric, W_num_big, W_num_negzero, W_num_float, W_num_container.
  ccrunch idtac.
Qed.

Lemma validate_corner : forall v raw m now, corner ws_validate (validate v raw m now).
Proof.
  intros. unfold validate.
  ccrunch ltac:(first [use_corner numeric_claim_corner]).
Qed.

Lemma jwt_decode_corner : forall o token k v now, corner ws_jwt (jwt_decode o token k v now).
Proof.
  intros. unfold jwt_decode.
  ccrunch ltac:(first [use_corner header_from_encoded_corner | use_corner validate_corner]).
Qed.

Lemma verify_key_binding_corner : forall o p payload ea en now,
  corner ws_jwt (verify_key_binding o p payload ea en now).
Proof.
  intros. unfold verify_key_binding.
  ccrunch ltac:(first [apply jwt_decode_corner]).
Qed.

Lemma holder_new_corner : forall o input fmt, corner ws_parse (holder_new o input fmt).
Proof.
  intros. unfold holder_new.
  ccrunch ltac:(first [apply parse_sd_jwt_corner | apply okerr_corner; apply create_hash_mappings_okerr]).
Qed.

Lemma verify_corner : forall o input resolver ea en fmt now,
  corner ws_verify (verify o input resolver ea en fmt now).
Proof.
  intros. unfold verify.
  ccrunch ltac:(first [ use_corner parse_sd_jwt_corner
                      | apply okerr_corner; apply create_hash_mappings_okerr
                      | use_corner decode_header_corner
                      | use_corner jwt_decode_corner
                      | apply okerr_corner; apply extract_sd_claims_okerr
                      | use_corner verify_key_binding_corner ]).
Qed.

Lemma parse_json_form_unmodelled : forall input w,
  parse_json_form input = Unmodelled w -> exists l, parse_json_raw input = Some (JArr l).
Proof.
  assert (S : forall t w, parse_json_form_strict t = Unmodelled w -> exists l, parse_json_raw t = Some (JArr l)).
  { intros input w P. unfold parse_json_form_strict in P.
    destruct (parse_json_raw input) as [[| | | |l|raw]|]; try discriminate.
    { eexists; reflexivity. }
    exfalso.
    match type of P with ?x = _ => assert (K : okerr x) by (crunch ltac:(apply jwt_payload_decode_okerr)) end.
    rewrite P in K. exact K. }
  intros input w P.
  destruct (JsonLaxFacts.parse_json_form_cases input) as [E | (N & [(t & L & E) | (_ & E)])]; rewrite E in P.
  - exact (S input w P).
  - exfalso. destruct (S t w P) as (l & A). exact (JsonLaxFacts.lax_path_not_array input t N L l A).
  - discriminate P.
Qed.

(* The Unmodelled corners, listed.  [holder_new] has exactly one: the JSON
   serialization given as a positional array. *)
Theorem holder_new_returns : forall o input fmt,
  (forall s, holder_new o input fmt <> Panic s) /\ holder_new o input fmt <> OutOfFuel /\
  (forall w, holder_new o input fmt = Unmodelled w ->
     w = "SDJWTJson given as a JSON array"%string /\ fmt = JSONFmt /\ exists l, parse_json_raw input = Some (JArr l)).
Proof.
  intros o input fmt. pose proof (holder_new_corner o input fmt) as C.
  split; [|split].
  - intros s E. rewrite E in C. exact C.
  - intros E. rewrite E in C. exact C.
  - intros w E. unfold holder_new in E.
    pose proof (create_hash_mappings_okerr o) as K.
    destruct fmt; cbn [parse_sd_jwt] in E.
    + pose proof (parse_compact_okerr input) as P.
      destruct (parse_compact input) as [p| | | |]; cbn in P, E; try contradiction; try discriminate.
      specialize (K (p_disclosures p) []). destruct (create_hash_mappings o (p_disclosures p) []); cbn in K, E;
        try contradiction; discriminate.
    + destruct (parse_json_form input) as [p| | | |] eqn:P; cbn in E; try discriminate.
      * specialize (K (p_disclosures p) []). destruct (create_hash_mappings o (p_disclosures p) []); cbn in K, E;
          try contradiction; discriminate.
      * inversion E; subst. clear E. split; [|split; [reflexivity | eapply parse_json_form_unmodelled; exact P]].
        pose proof (parse_json_form_corner input) as C'. rewrite P in C'. destruct C' as [C'|[]]. symmetry. exact C'.
Qed.
Print Assumptions holder_new_returns.

(* [verify]: the Unmodelled corners are those of parse_json_form, header_from_encoded,
   numeric_claim and validate, and nothing else *)
Theorem verify_returns : forall o input resolver ea en fmt now,
  (forall s, verify o input resolver ea en fmt now <> Panic s) /\
  verify o input resolver ea en fmt now <> OutOfFuel /\
  (forall w, verify o input resolver ea en fmt now = Unmodelled w ->
     In w [ "SDJWTJson given as a JSON array"; "header given as a JSON array"; "header with an embedded jwk";
            "non-string sub"; "integer beyond u64 in exp/nbf"; "-0 in exp/nbf"; "float in exp/nbf";
            "container in exp/nbf" ]%string).
Proof.
  intros. pose proof (verify_corner o input resolver ea en fmt now) as C.
  split; [|split].
  - intros s E. rewrite E in C. exact C.
  - intros E. rewrite E in C. exact C.
  - intros w E. rewrite E in C. exact C.
Qed.
Print Assumptions verify_returns.

(* where each corner comes from *)
Lemma unmodelled_sites :
  (forall fmt input w, parse_sd_jwt fmt input = Unmodelled w -> w = "SDJWTJson given as a JSON array"%string) /\
  (forall h w, header_from_encoded h = Unmodelled w ->
     w = "header given as a JSON array"%string \/ w = "header with an embedded jwk"%string) /\
  (forall k m w, numeric_claim k m = Unmodelled w ->
     In w ["integer beyond u64 in exp/nbf"; "-0 in exp/nbf"; "float in exp/nbf"; "container in exp/nbf"]%string) /\
  (forall v raw m now w, validate v raw m now = Unmodelled w ->
     In w ["non-string sub"; "integer beyond u64 in exp/nbf"; "-0 in exp/nbf"; "float in exp/nbf";
           "container in exp/nbf"]%string) /\
  (forall o ds acc w, create_hash_mappings o ds acc <> Unmodelled w) /\
  (forall dm payload w, extract_sd_claims dm payload <> Unmodelled w).
Proof.
  repeat split.
  - intros fmt input w E. pose proof (parse_sd_jwt_corner fmt input) as C. rewrite E in C.
    destruct C as [C|[]]. symmetry. exact C.
  - intros h w E. pose proof (header_from_encoded_corner h) as C. rewrite E in C.
    destruct C as [C|[C|[]]]; [left | right]; symmetry; exact C.
  - intros k m w E. pose proof (numeric_claim_corner k m) as C. rewrite E in C. exact C.
  - intros v raw m now w E. pose proof (validate_corner v raw m now) as C. rewrite E in C. exact C.
  - intros o ds acc w E. pose proof (create_hash_mappings_okerr o ds acc) as C. rewrite E in C. exact C.
  - intros dm payload w E. pose proof (extract_sd_claims_okerr dm payload) as C. rewrite E in C. exact C.
Qed.

(* non-vacuity: an issued credential verifies; corners and errors do arise *)
Definition ex_key : key := {| kid := 7; kfam := FEc |}.
Definition ex_claims (exp : str) : json :=
  JObj [(lit "iss", JStr (lit "x")); (lit "exp", JNum exp); (lit "a", JNum (lit "1")); (lit "l", JArr [JBool true])].
Definition ex_rng : rng := {| r_queue := None; r_salts := [lit "s1"; lit "s2"; lit "s3"]; r_counts := [] |}.
Definition ex_issued (exp : str) : str :=
  match issue ex_oracles (lit "ES256") ex_key (ex_claims exp) AllLevels None false Compact ex_rng with
  | Ok (i, _) => is_serialized i
  | _ => []
  end.

Example verify_returns_ex :
  verify ex_oracles (ex_issued (lit "2000000000")) (fun _ _ => ex_key) None None Compact 1000
    = Ok (ex_claims (lit "2000000000"))
  /\ verify ex_oracles (ex_issued (lit "2.5e9")) (fun _ _ => ex_key) None None Compact 1000
    = Unmodelled "float in exp/nbf"
  /\ is_err (verify ex_oracles (ex_issued (lit "5")) (fun _ _ => ex_key) None None Compact 1000) = true
  /\ is_err (verify ex_oracles (lit "garbage") (fun _ _ => ex_key) None None Compact 1000) = true.
Proof. vm_compute. repeat split; reflexivity. Qed.

Example holder_new_returns_ex :
  is_ok (holder_new ex_oracles (ex_issued (lit "2000000000")) Compact) = true
  /\ holder_new ex_oracles (lit "[]") JSONFmt = Unmodelled "SDJWTJson given as a JSON array"
  /\ is_err (holder_new ex_oracles (lit "x") Compact) = true.
Proof. vm_compute. repeat split; reflexivity. Qed.

(* ================================================================== *)
(* 7. The issuer                                                       *)

Section CreateBody.
  Variable o : oracles.
  Variable decoy : bool.
  Variable s : strategy.
  Variable rec : json -> strategy -> ist -> outcome (json * ist).

  Fixpoint create_arr (l : list json) (idx : N) (acc : list json) (st : ist) {struct l} : outcome (json * ist) :=
    match l with
    | [] => Ok (JArr (rev acc), st)
    | x :: l' =>
        let k := index_key idx in
        do (sub, st1) <- rec x (next_level s k) st;
        if sd_for_key s k then
          do (h, st2) <- new_disclosure o None sub st1;
          create_arr l' (idx + 1) (JObj [(SD_LIST_PREFIX, JStr h)] :: acc) st2
        else create_arr l' (idx + 1) (sub :: acc) st1
    end.

  Fixpoint create_obj (m : members) (claims : members) (sd : list str) (st : ist) {struct m} : outcome (json * ist) :=
    match m with
    | [] =>
        do (sd2, st2) <- (if decoy then
                             do (n, st1) <- draw_count st;
                             do (ds, st2) <- decoys o n st1;
                             Ok (sd ++ ds, st2)
                           else Ok (sd, st));
        match sd2 with
        | [] => Ok (JObj (obj_remove SD_DIGESTS_KEY claims), st2)
        | _ :: _ => Ok (JObj (obj_insert SD_DIGESTS_KEY (JArr (map JStr (sort_strs sd2))) claims), st2)
        end
    | (k, x) :: m' =>
        do (sub, st1) <- rec x (next_level s k) st;
        if sd_for_key s k then
          do (h, st2) <- new_disclosure o (Some k) sub st1;
          create_obj m' claims (sd ++ [h]) st2
        else create_obj m' (obj_insert k sub claims) sd st1
    end.
End CreateBody.

Lemma create_eq_arr : forall o decoy l s st,
  create_sd_claims o decoy (JArr l) s st = create_arr o s (create_sd_claims o decoy) l 0 [] st.
Proof. reflexivity. Qed.

Lemma create_eq_obj : forall o decoy m s st,
  create_sd_claims o decoy (JObj m) s st
  = create_obj o decoy s (create_sd_claims o decoy) m [(SD_DIGESTS_KEY, JNull)] [] st.
Proof. reflexivity. Qed.

Definition W_rand : string := "randomness stream exhausted".
Definition P_salts : string := "utils.rs: SALTS is empty".

(* [q] says whether this is the deterministic-salt build (SALTS queue present).
   Ok keeps the build kind; Unmodelled only for an exhausted stream; Panic only
   in the deterministic-salt build and only for the empty queue; never OutOfFuel. *)
Definition icls {A} (q : bool) (o : outcome A) : Prop :=
  match o with
  | Ok _ | Err _ => True
  | Unmodelled w => w = W_rand
  | Panic site => q = true /\ site = P_salts
  | OutOfFuel => False
  end.

Definition isinv {A} (q : bool) (o : outcome (A * ist)) : Prop :=
  match o with
  | Ok (_, st') => is_mock st' = q
  | _ => icls q o
  end.

Lemma isinv_bind : forall {A B} q (x : outcome (A * ist)) (f : A * ist -> outcome (B * ist)),
  isinv q x -> (forall a st1, is_mock st1 = q -> isinv q (f (a, st1))) -> isinv q (bind x f).
Proof. intros A B q [[a st1]| | | |] f X Y; cbn in *; try exact X. apply Y. exact X. Qed.

Lemma isinv_icls_bind : forall {A B} q (x : outcome (A * ist)) (f : A * ist -> outcome B),
  isinv q x -> (forall a st1, is_mock st1 = q -> icls q (f (a, st1))) -> icls q (bind x f).
Proof. intros A B q [[a st1]| | | |] f X Y; cbn in *; try exact X. apply Y. exact X. Qed.

Lemma okerr_icls : forall {A} q (x : outcome A), okerr x -> icls q x.
Proof. intros A q [] X; cbn in *; tauto. Qed.

Lemma okerr_icls_bind : forall {A B} q (x : outcome A) (f : A -> outcome B),
  okerr x -> (forall a, icls q (f a)) -> icls q (bind x f).
Proof. intros A B q [] f X Y; cbn in *; try tauto. apply Y. Qed.

Lemma draw_salt_inv : forall st q, is_mock st = q -> isinv q (draw_salt st).
Proof.
  intros st q M. unfold draw_salt. destruct (r_salts (i_rng st)); [reflexivity|]. cbn. exact M.
Qed.

Lemma draw_count_inv : forall st q, is_mock st = q -> isinv q (draw_count st).
Proof.
  intros st q M. unfold draw_count. destruct (r_counts (i_rng st)); [reflexivity|]. cbn. exact M.
Qed.

Lemma draw_disclosure_salt_inv : forall st q, is_mock st = q -> isinv q (draw_disclosure_salt st).
Proof.
  intros st q M. unfold draw_disclosure_salt.
  destruct (r_queue (i_rng st)) as [[|x qu]|] eqn:E.
  - cbn. unfold is_mock in M. rewrite E in M. split; [symmetry; exact M | reflexivity].
  - cbn. unfold is_mock in *. cbn. rewrite E in M. exact M.
  - apply draw_salt_inv. exact M.
Qed.

Lemma new_disclosure_inv : forall o name v st q, is_mock st = q -> isinv q (new_disclosure o name v st).
Proof.
  intros o name v st q M. unfold new_disclosure.
  apply isinv_bind; [apply draw_disclosure_salt_inv; exact M|].
  intros salt st1 M1. cbn. exact M1.
Qed.

Lemma decoys_inv : forall o n st q, is_mock st = q -> isinv q (decoys o n st).
Proof.
  intros o. induction n as [|n IH]; intros st q M; [exact M|].
  cbn [decoys]. apply isinv_bind; [apply draw_salt_inv; exact M|].
  intros salt st1 M1. apply isinv_bind; [apply IH; exact M1|].
  intros ds st2 M2. exact M2.
Qed.

Section CreateInv.
  Variable o : oracles.
  Variable decoy : bool.
  Variable q : bool.
  Variable rec : json -> strategy -> ist -> outcome (json * ist).

  Lemma create_arr_inv : forall l,
    Forall (fun x => forall s st, is_mock st = q -> isinv q (rec x s st)) l ->
    forall s idx acc st, is_mock st = q -> isinv q (create_arr o s rec l idx acc st).
  Proof.
    intros l F. induction F as [|x l Hx F IH]; intros s idx acc st M; [exact M|].
    cbn [create_arr]. apply isinv_bind; [apply Hx; exact M|].
    intros sub st1 M1. destruct (sd_for_key s (index_key idx)); [|apply IH; exact M1].
    apply isinv_bind; [apply new_disclosure_inv; exact M1|].
    intros h st2 M2. apply IH. exact M2.
  Qed.

  Lemma create_obj_inv : forall m,
    Forall (fun kv => forall s st, is_mock st = q -> isinv q (rec (snd kv) s st)) m ->
    forall s claims sd st, is_mock st = q -> isinv q (create_obj o decoy s rec m claims sd st).
  Proof.
    intros m F. induction F as [|[k x] m Hx F IH]; intros s claims sd st M.
    - cbn [create_obj]. apply isinv_bind.
      + destruct decoy; [|exact M].
        apply isinv_bind; [apply draw_count_inv; exact M|]. intros n st1 M1.
        apply isinv_bind; [apply decoys_inv; exact M1|]. intros ds st2 M2. exact M2.
      + intros sd2 st2 M2. destruct sd2; exact M2.
    - cbn [create_obj]. apply isinv_bind; [apply Hx; exact M|].
      intros sub st1 M1. destruct (sd_for_key s k); [|apply IH; exact M1].
      apply isinv_bind; [apply new_disclosure_inv; exact M1|].
      intros h st2 M2. apply IH. exact M2.
  Qed.
End CreateInv.

Lemma create_sd_claims_inv : forall o decoy q v s st,
  is_mock st = q -> isinv q (create_sd_claims o decoy v s st).
Proof.
  intros o decoy q. induction v as [|b|lx|x|l IH|m IH] using json_ind'; intros s st M; try exact M.
  - rewrite create_eq_arr. apply create_arr_inv; assumption.
  - rewrite create_eq_obj. apply create_obj_inv; assumption.
Qed.

Lemma finalize_input_okerr : forall s, okerr (finalize_input s).
Proof. intros []; cbn; try exact I. destruct (strip_all paths); exact I. Qed.

Lemma serialize_issued_okerr : forall fmt jwt ds, okerr (serialize_issued fmt jwt ds).
Proof. intros. unfold serialize_issued. crunch idtac. Qed.

Lemma issue_icls : forall o alg k claims s hj decoy fmt r,
  icls (match r_queue r with Some _ => true | None => false end) (issue o alg k claims s hj decoy fmt r).
Proof.
  intros. unfold issue. set (q := match r_queue r with Some _ => true | None => false end).
  apply okerr_icls_bind; [apply finalize_input_okerr|]. intros s'.
  destruct (has_reserved claims); [exact I|].
  destruct claims as [| | | | |m]; try exact I.
  destruct (pull_always ALWAYS_REVEALED m []) as [always rest].
  apply isinv_icls_bind; [apply create_sd_claims_inv; reflexivity|].
  intros body st _. destruct body as [| | | | |b]; try exact I.
  apply okerr_icls_bind; [apply jwt_encode_okerr|]. intros [header jwt].
  apply okerr_icls_bind; [apply serialize_issued_okerr|]. intros ser. exact I.
Qed.

Theorem issue_returns : forall o alg k claims s hj decoy fmt r,
  (* never out of fuel *)
  issue o alg k claims s hj decoy fmt r <> OutOfFuel /\
  (* outside the model only when the supplied randomness is too short *)
  (forall w, issue o alg k claims s hj decoy fmt r = Unmodelled w -> w = "randomness stream exhausted"%string) /\
  (* the normal build never panics *)
  (r_queue r = None -> forall site, issue o alg k claims s hj decoy fmt r <> Panic site) /\
  (* the deterministic-salt build panics only on the empty SALTS queue *)
  (forall site, issue o alg k claims s hj decoy fmt r = Panic site -> site = "utils.rs: SALTS is empty"%string).
Proof.
  intros. pose proof (issue_icls o alg k claims s hj decoy fmt r) as C.
  repeat split.
  - intros E. rewrite E in C. exact C.
  - intros w E. rewrite E in C. exact C.
  - intros Q site E. rewrite E, Q in C. destruct C as [C _]. discriminate.
  - intros site E. rewrite E in C. apply C.
Qed.
Print Assumptions issue_returns.

Example issue_returns_ex :
  is_ok (issue ex_oracles (lit "ES256") ex_key (ex_claims (lit "5")) AllLevels None false Compact ex_rng) = true
  /\ issue ex_oracles (lit "ES256") ex_key (ex_claims (lit "5")) AllLevels None false Compact
       {| r_queue := None; r_salts := [lit "s1"]; r_counts := [] |} = Unmodelled "randomness stream exhausted"
  /\ issue ex_oracles (lit "ES256") ex_key (ex_claims (lit "5")) AllLevels None true Compact ex_rng
       = Unmodelled "randomness stream exhausted"
  /\ issue ex_oracles (lit "ES256") ex_key (ex_claims (lit "5")) AllLevels None false Compact
       {| r_queue := Some [lit "q1"]; r_salts := []; r_counts := [] |} = Panic "utils.rs: SALTS is empty"
  /\ is_ok (issue ex_oracles (lit "ES256") ex_key (ex_claims (lit "5")) AllLevels None false Compact
       {| r_queue := Some [lit "q1"; lit "q2"; lit "q3"]; r_salts := []; r_counts := [] |}) = true
  /\ is_err (issue ex_oracles (lit "HS256") ex_key (ex_claims (lit "5")) AllLevels None false Compact ex_rng) = true.
Proof. vm_compute. repeat split; reflexivity. Qed.

(* ================================================================== *)
(* 8. The JSON parser's fuel                                           *)
(* The parser returns [option]; [None] is a syntax error.  [parse_json_raw]
   supplies the fuel 2*|s|+2 (not |s|).  Shown here: success is monotone in the
   fuel; a successful parse consumes input; the number of characters consumed
   (so: |s|, a fortiori 2*|s|+2) is enough fuel.  Hence [None] is never due to
   the fuel. *)

Ltac hmatch H :=
  repeat match type of H with
  | match ?x with _ => _ end = Some _ => destruct x eqn:?; try discriminate H
  end.

Lemma parse_str_body_mono : forall f s acc r,
  parse_str_body f s acc = Some r -> forall f', (f <= f')%nat -> parse_str_body f' s acc = Some r.
Proof.
  induction f as [|f IH]; intros s acc r E f' L; [discriminate|].
  destruct f' as [|f']; [lia|]. assert (L' : (f <= f')%nat) by lia.
  cbn [parse_str_body] in E |- *.
  hmatch E; first [exact E | apply (IH _ _ _ E _ L')].
Qed.

Lemma parse_mono_all : forall f,
  (forall d s r, parse_val f d s = Some r -> forall f', (f <= f')%nat -> parse_val f' d s = Some r) /\
  (forall d s acc r, parse_elems f d s acc = Some r -> forall f', (f <= f')%nat -> parse_elems f' d s acc = Some r) /\
  (forall d s acc r, parse_members f d s acc = Some r -> forall f', (f <= f')%nat -> parse_members f' d s acc = Some r).
Proof.
  induction f as [|f [IHv [IHe IHm]]].
  { repeat split; intros; discriminate. }
  repeat split.
  - intros d s r E f' L. destruct f' as [|f']; [lia|]. assert (L' : (f <= f')%nat) by lia.
    cbn [parse_val] in E |- *.
    hmatch E; first [exact E | apply (IHe _ _ _ _ E _ L') | apply (IHm _ _ _ _ E _ L')].
  - intros d s acc r E f' L. destruct f' as [|f']; [lia|]. assert (L' : (f <= f')%nat) by lia.
    cbn [parse_elems] in E |- *.
    destruct (parse_val f d s) as [[v r0]|] eqn:Ev; [|discriminate].
    rewrite (IHv _ _ _ Ev _ L').
    hmatch E; first [exact E | apply (IHe _ _ _ _ E _ L')].
  - intros d s acc r E f' L. destruct f' as [|f']; [lia|]. assert (L' : (f <= f')%nat) by lia.
    cbn [parse_members] in E |- *.
    destruct (parse_string_lit (skip_ws s)) as [[k r0]|]; [|discriminate].
    destruct (skip_ws r0) as [|c r1]; [discriminate|].
    destruct (N.eq_dec c 58) as [->|Nc].
    2:{ exfalso. destruct c as [|p]; [discriminate|].
        repeat (destruct p as [p|p|]; try discriminate E; try (apply Nc; reflexivity)). }
    destruct (parse_val f d r1) as [[v r2]|] eqn:Ev; [|discriminate].
    rewrite (IHv _ _ _ Ev _ L').
    hmatch E; first [exact E | apply (IHm _ _ _ _ E _ L')].
Qed.

Theorem parse_val_mono : forall f d s r,
  parse_val f d s = Some r -> forall f', (f <= f')%nat -> parse_val f' d s = Some r.
Proof. intros f. apply (parse_mono_all f). Qed.

(* ---- every successful parse consumes input ---- *)

Lemma skip_ws_len : forall s, (List.length (skip_ws s) <= List.length s)%nat.
Proof. induction s as [|c s IH]; cbn; [lia|]. destruct (is_ws c); cbn; lia. Qed.

Lemma hex4_len : forall s n r, hex4 s = Some (n, r) -> (List.length r < List.length s)%nat.
Proof.
  intros s n r E. unfold hex4 in E. hmatch E. inversion E; subst. cbn. lia.
Qed.

Lemma parse_str_body_len : forall f s acc st r,
  parse_str_body f s acc = Some (st, r) -> (List.length r < List.length s)%nat.
Proof.
  induction f as [|f IH]; intros s acc st r E; [discriminate|].
  cbn [parse_str_body] in E.
  hmatch E;
    repeat match goal with
    | X : hex4 _ = Some _ |- _ => apply hex4_len in X
    end;
    first [ apply IH in E; cbn [List.length] in *; lia | injection E as _ <-; cbn [List.length] in *; lia ].
Qed.

Lemma parse_string_lit_len : forall s st r,
  parse_string_lit s = Some (st, r) -> (List.length r < List.length s)%nat.
Proof.
  intros s st r E. unfold parse_string_lit in E. hmatch E. apply parse_str_body_len in E. cbn. lia.
Qed.

Lemma take_digits_len : forall s d r, take_digits s = (d, r) -> (List.length r <= List.length s)%nat.
Proof.
  induction s as [|c s IH]; cbn; intros d r E; [inversion E; cbn; lia|].
  destruct (is_digit c); [|inversion E; cbn; lia].
  destruct (take_digits s) as [d' r'] eqn:T. inversion E; subst. specialize (IH _ _ eq_refl). lia.
Qed.

(* parse_number in named stages (tied to the model by conversion) *)
Definition pn_sign (s : str) : str * str := match s with 45 :: r => ([45], r) | _ => ([], s) end.
Definition pn_int (c : N) (r : str) : option (str * str) :=
  if N.eqb c 48 then
    match r with
    | d :: _ => if is_digit d then None else Some ([48], r)
    | [] => Some ([48], r)
    end
  else if is_digit c then let (ds, r') := take_digits r in Some (c :: ds, r')
  else None.
Definition pn_frac (s2 : str) : option (str * str) :=
  match s2 with
  | 46 :: r2 =>
      let (ds, r3) := take_digits r2 in
      match ds with [] => None | _ => Some (46 :: ds, r3) end
  | _ => Some ([], s2)
  end.
Definition pn_sg (r4 : str) : str * str :=
  match r4 with
  | 43 :: r' => ([43], r')
  | 45 :: r' => ([45], r')
  | _ => ([], r4)
  end.
Definition pn_exp (s3 : str) : option (str * str) :=
  match s3 with
  | e :: r4 =>
      if N.eqb e 101 || N.eqb e 69 then
        let '(sg, r5) := pn_sg r4 in
        let (ds, r6) := take_digits r5 in
        match ds with [] => None | _ => Some (e :: sg ++ ds, r6) end
      else Some ([], s3)
  | [] => Some ([], s3)
  end.

Lemma parse_number_eq : forall s,
  parse_number s =
  let '(sign, s1) := pn_sign s in
  match s1 with
  | [] => None
  | c :: r =>
      match pn_int c r with
      | None => None
      | Some (ip, s2) =>
          match pn_frac s2 with
          | None => None
          | Some (fp, s3) =>
              match pn_exp s3 with
              | None => None
              | Some (ep, s4) => Some (sign ++ ip ++ fp ++ ep, s4)
              end
          end
      end
  end.
Proof. reflexivity. Qed.

Ltac brute_pos p tac :=
  repeat (destruct p as [p|p|]; try solve [tac]).

Lemma pn_sign_len : forall s sg s1, pn_sign s = (sg, s1) -> (List.length s1 <= List.length s)%nat.
Proof.
  intros s sg s1. unfold pn_sign. destruct s as [|[|p] r]; try (intros E; inversion E; cbn; lia).
  brute_pos p ltac:(intros E; inversion E; cbn; lia).
Qed.

Lemma pn_sg_len : forall s sg s1, pn_sg s = (sg, s1) -> (List.length s1 <= List.length s)%nat.
Proof.
  intros s sg s1. unfold pn_sg. destruct s as [|[|p] r]; try (intros E; inversion E; cbn; lia).
  brute_pos p ltac:(intros E; inversion E; cbn; lia).
Qed.

Lemma pn_int_len : forall c r ip s2, pn_int c r = Some (ip, s2) -> (List.length s2 <= List.length r)%nat.
Proof.
  intros c r ip s2 E. unfold pn_int in E.
  destruct (N.eqb c 48).
  - destruct r as [|d r']; [inversion E; lia|]. destruct (is_digit d); [discriminate|]. inversion E; lia.
  - destruct (is_digit c); [|discriminate]. destruct (take_digits r) as [ds r'] eqn:T.
    inversion E; subst. eapply take_digits_len; exact T.
Qed.

Lemma pn_frac_len : forall s2 fp s3, pn_frac s2 = Some (fp, s3) -> (List.length s3 <= List.length s2)%nat.
Proof.
  intros s2 fp s3. unfold pn_frac. destruct s2 as [|[|p] r]; try (intros E; inversion E; cbn; lia).
  brute_pos p ltac:(intros E; inversion E; cbn; lia).
  intros E. destruct (take_digits r) as [ds r3] eqn:T. destruct ds; [discriminate|].
  inversion E; subst. apply take_digits_len in T. cbn. lia.
Qed.

Lemma pn_exp_len : forall s3 ep s4, pn_exp s3 = Some (ep, s4) -> (List.length s4 <= List.length s3)%nat.
Proof.
  intros s3 ep s4 E. unfold pn_exp in E. destruct s3 as [|e r4]; [inversion E; lia|].
  destruct (N.eqb e 101 || N.eqb e 69); [|inversion E; lia].
  destruct (pn_sg r4) as [sg r5] eqn:S. apply pn_sg_len in S.
  destruct (take_digits r5) as [ds r6] eqn:T. apply take_digits_len in T.
  destruct ds; [discriminate|]. inversion E; subst. cbn. lia.
Qed.

Lemma parse_number_len : forall s lx r, parse_number s = Some (lx, r) -> (List.length r < List.length s)%nat.
Proof.
  intros s lx r E. rewrite parse_number_eq in E.
  destruct (pn_sign s) as [sg s1] eqn:S. apply pn_sign_len in S.
  destruct s1 as [|c r0]; [discriminate|].
  destruct (pn_int c r0) as [[ip s2]|] eqn:I1; [|discriminate]. apply pn_int_len in I1.
  destruct (pn_frac s2) as [[fp s3]|] eqn:F; [|discriminate]. apply pn_frac_len in F.
  destruct (pn_exp s3) as [[ep s4]|] eqn:X; [|discriminate]. apply pn_exp_len in X.
  inversion E; subst. cbn in S. lia.
Qed.

Lemma strip_prefix_len : forall p s r, strip_prefix p s = Some r -> (List.length r + List.length p = List.length s)%nat.
Proof.
  induction p as [|x p IH]; intros s r E; cbn in E.
  - inversion E. cbn. lia.
  - destruct s as [|y s]; [discriminate|]. destruct (N.eqb x y); [|discriminate]. apply IH in E. cbn. lia.
Qed.

Lemma expect_lit_len : forall l v s v' r, l <> [] -> expect_lit l v s = Some (v', r) -> (List.length r < List.length s)%nat.
Proof.
  intros l v s v' r N E. unfold expect_lit in E. destruct (strip_prefix l s) eqn:P; [|discriminate].
  inversion E; subst. apply strip_prefix_len in P. destruct l; [contradiction|]. cbn in P. lia.
Qed.

Ltac len_facts IHv :=
  repeat match goal with
  | X : skip_ws ?a = ?b |- _ =>
      let L := fresh "L" in pose proof (skip_ws_len a) as L; rewrite X in L; clear X
  | X : expect_lit _ _ _ = Some (_, _) |- _ => apply expect_lit_len in X; [|discriminate]
  | X : parse_string_lit _ = Some (_, _) |- _ => apply parse_string_lit_len in X
  | X : parse_number _ = Some (_, _) |- _ => apply parse_number_len in X
  | X : parse_val _ _ _ = Some (_, _) |- _ => apply IHv in X
  | X : context [List.length (skip_ws ?a)] |- _ =>
      lazymatch goal with
      | _ : (List.length (skip_ws a) <= List.length a)%nat |- _ => fail
      | _ => pose proof (skip_ws_len a)
      end
  end.

Ltac len_fin E IHv IHe IHm :=
  subst;
  first [ apply IHe in E | apply IHm in E | (inversion E; subst) ];
  len_facts IHv; cbn [List.length] in *; lia.

Lemma parse_len_all : forall f,
  (forall d s v r, parse_val f d s = Some (v, r) -> (List.length r < List.length s)%nat) /\
  (forall d s acc v r, parse_elems f d s acc = Some (v, r) -> (List.length r < List.length s)%nat) /\
  (forall d s acc v r, parse_members f d s acc = Some (v, r) -> (List.length r < List.length s)%nat).
Proof.
  induction f as [|f [IHv [IHe IHm]]].
  { repeat split; intros; discriminate. }
  repeat split.
  - intros d s v r E. cbn [parse_val] in E. hmatch E; len_fin E IHv IHe IHm.
  - intros d s acc v r E. cbn [parse_elems] in E. hmatch E; len_fin E IHv IHe IHm.
  - intros d s acc v r E. cbn [parse_members] in E. hmatch E; len_fin E IHv IHe IHm.
Qed.

Theorem parse_val_consumes : forall f d s v r,
  parse_val f d s = Some (v, r) -> (List.length r < List.length s)%nat.
Proof. intros f. apply (parse_len_all f). Qed.

(* ---- twice the input length is enough fuel ---- *)
Lemma parse_enough_all : forall f,
  (forall d s r, parse_val f d s = Some r ->
     forall f', (2 * List.length s <= f')%nat -> parse_val f' d s = Some r) /\
  (forall d s acc r, parse_elems f d s acc = Some r ->
     forall f', (2 * List.length s + 1 <= f')%nat -> parse_elems f' d s acc = Some r) /\
  (forall d s acc r, parse_members f d s acc = Some r ->
     forall f', (2 * List.length s + 1 <= f')%nat -> parse_members f' d s acc = Some r).
Proof.
  induction f as [|f [IHv [IHe IHm]]].
  { repeat split; intros; discriminate. }
  repeat split.
  - intros d s r E f' L. cbn [parse_val] in E.
    destruct (skip_ws s) as [|c r0] eqn:Es; [discriminate|].
    pose proof (skip_ws_len s) as Ls. rewrite Es in Ls. cbn [List.length] in Ls.
    destruct f' as [|f']; [lia|]. cbn [parse_val]. rewrite Es.
    hmatch E; subst;
      first [ exact E
            | apply (IHe _ _ _ _ E); len_facts parse_val_consumes; cbn [List.length] in *; lia
            | apply (IHm _ _ _ _ E); len_facts parse_val_consumes; cbn [List.length] in *; lia ].
  - intros d s acc r E f' L. cbn [parse_elems] in E.
    destruct f' as [|f']; [lia|]. cbn [parse_elems].
    destruct (parse_val f d s) as [[v r0]|] eqn:Ev; [|discriminate].
    rewrite (IHv _ _ _ Ev f') by lia.
    apply parse_val_consumes in Ev.
    hmatch E; subst;
      first [ exact E
            | apply (IHe _ _ _ _ E); len_facts parse_val_consumes; cbn [List.length] in *; lia ].
  - intros d s acc r E f' L. cbn [parse_members] in E.
    destruct f' as [|f']; [lia|]. cbn [parse_members].
    destruct (parse_string_lit (skip_ws s)) as [[k r0]|] eqn:Ps; [|discriminate].
    apply parse_string_lit_len in Ps. pose proof (skip_ws_len s) as Ls.
    destruct (skip_ws r0) as [|c r1] eqn:E0; [discriminate|].
    pose proof (skip_ws_len r0) as L0. rewrite E0 in L0. cbn [List.length] in L0.
    destruct (N.eq_dec c 58) as [->|Nc].
    2:{ exfalso. destruct c as [|p]; [discriminate|].
        repeat (destruct p as [p|p|]; try discriminate E; try (apply Nc; reflexivity)). }
    destruct (parse_val f d r1) as [[v r2]|] eqn:Ev; [|discriminate].
    rewrite (IHv _ _ _ Ev f') by lia.
    apply parse_val_consumes in Ev.
    hmatch E; subst;
      first [ exact E
            | apply (IHm _ _ _ _ E); len_facts parse_val_consumes; cbn [List.length] in *; lia ].
Qed.

(* fuel adequacy of the parser: a parse that succeeds with any fuel succeeds, with the
   same result, with the fuel [parse_json_raw] supplies; so [None] from the model's
   parser is a syntax error, never an artefact of the fuel *)
Theorem parse_fuel_adequate : forall f d s r,
  parse_val f d s = Some r -> parse_val (2 * List.length s + 2) d s = Some r.
Proof. intros f d s r E. apply (proj1 (parse_enough_all f) d s r E). lia. Qed.
Print Assumptions parse_fuel_adequate.

Theorem parse_val_fuel_irrelevant : forall f f' d s,
  (2 * List.length s <= f)%nat -> (2 * List.length s <= f')%nat -> parse_val f d s = parse_val f' d s.
Proof.
  intros f f' d s L L'.
  destruct (parse_val f d s) as [r|] eqn:E.
  - symmetry. apply (proj1 (parse_enough_all f) d s r E). exact L'.
  - destruct (parse_val f' d s) as [r'|] eqn:E'; [|reflexivity].
    rewrite (proj1 (parse_enough_all f') d s r' E' f L) in E. discriminate.
Qed.

Theorem parse_json_raw_complete : forall f s v r,
  parse_val f MAX_DEPTH s = Some (v, r) -> skip_ws r = [] -> parse_json_raw s = Some v.
Proof.
  intros f s v r E W. unfold parse_json_raw. rewrite (parse_fuel_adequate _ _ _ _ E), W. reflexivity.
Qed.

Example parse_fuel_ex :
  parse_json_raw (lit "{""a"": [1, [2, {}], ""x\n""], ""b"": -1.5e+3}")
  = Some (JObj [(lit "a", JArr [JNum (lit "1"); JArr [JNum (lit "2"); JObj []]; JStr (lit "x" ++ [10])]);
                (lit "b", JNum (lit "-1.5e+3"))])
  /\ parse_val 7 MAX_DEPTH (lit "[[[[1]]]]") = None
  /\ parse_val 9 MAX_DEPTH (lit "[[[[1]]]]") = Some (JArr [JArr [JArr [JArr [JNum (lit "1")]]]], []).
Proof. vm_compute. repeat split; reflexivity. Qed.

(* ---- sharper: the number of characters consumed is enough fuel ---- *)
Lemma parse_elems_consumes : forall f d s acc v r,
  parse_elems f d s acc = Some (v, r) -> (List.length r < List.length s)%nat.
Proof. intros f. apply (parse_len_all f). Qed.
Lemma parse_members_consumes : forall f d s acc v r,
  parse_members f d s acc = Some (v, r) -> (List.length r < List.length s)%nat.
Proof. intros f. apply (parse_len_all f). Qed.

Ltac tail_len E :=
  hmatch E; subst;
  first [ apply parse_elems_consumes in E | apply parse_members_consumes in E | (inversion E; subst) ];
  len_facts parse_val_consumes; cbn [List.length] in *; lia.

Lemma parse_tight_all : forall f,
  (forall d s v rest, parse_val f d s = Some (v, rest) ->
     forall f', (List.length s - List.length rest <= f')%nat -> parse_val f' d s = Some (v, rest)) /\
  (forall d s acc v rest, parse_elems f d s acc = Some (v, rest) ->
     forall f', (List.length s - List.length rest <= f')%nat -> parse_elems f' d s acc = Some (v, rest)) /\
  (forall d s acc v rest, parse_members f d s acc = Some (v, rest) ->
     forall f', (List.length s - List.length rest <= f')%nat -> parse_members f' d s acc = Some (v, rest)).
Proof.
  induction f as [|f [IHv [IHe IHm]]].
  { repeat split; intros; discriminate. }
  repeat split.
  - intros d s v rest E f' L. pose proof (parse_val_consumes _ _ _ _ _ E) as Lc. cbn [parse_val] in E.
    destruct (skip_ws s) as [|c r0] eqn:Es; [discriminate|].
    pose proof (skip_ws_len s) as Ls. rewrite Es in Ls. cbn [List.length] in Ls.
    destruct f' as [|f']; [lia|]. cbn [parse_val]. rewrite Es.
    hmatch E; subst;
      first [ exact E
            | apply (IHe _ _ _ _ _ E); len_facts parse_val_consumes; cbn [List.length] in *; lia
            | apply (IHm _ _ _ _ _ E); len_facts parse_val_consumes; cbn [List.length] in *; lia ].
  - intros d s acc v rest E f' L. pose proof (parse_elems_consumes _ _ _ _ _ _ E) as Lc.
    cbn [parse_elems] in E.
    destruct f' as [|f']; [lia|]. cbn [parse_elems].
    destruct (parse_val f d s) as [[v0 r0]|] eqn:Ev; [|discriminate].
    assert (Lr : (List.length rest < List.length r0)%nat) by (clear - E; tail_len E).
    rewrite (IHv _ _ _ _ Ev f') by lia.
    apply parse_val_consumes in Ev.
    hmatch E; subst;
      first [ exact E
            | apply (IHe _ _ _ _ _ E); len_facts parse_val_consumes; cbn [List.length] in *; lia ].
  - intros d s acc v rest E f' L. pose proof (parse_members_consumes _ _ _ _ _ _ E) as Lc.
    cbn [parse_members] in E.
    destruct f' as [|f']; [lia|]. cbn [parse_members].
    destruct (parse_string_lit (skip_ws s)) as [[k r0]|] eqn:Ps; [|discriminate].
    apply parse_string_lit_len in Ps. pose proof (skip_ws_len s) as Ls.
    destruct (skip_ws r0) as [|c r1] eqn:E0; [discriminate|].
    pose proof (skip_ws_len r0) as L0. rewrite E0 in L0. cbn [List.length] in L0.
    destruct (N.eq_dec c 58) as [->|Nc].
    2:{ exfalso. destruct c as [|p]; [discriminate|].
        repeat (destruct p as [p|p|]; try discriminate E; try (apply Nc; reflexivity)). }
    destruct (parse_val f d r1) as [[v0 r2]|] eqn:Ev; [|discriminate].
    assert (Lr : (List.length rest < List.length r2)%nat) by (clear - E; tail_len E).
    rewrite (IHv _ _ _ _ Ev f') by lia.
    apply parse_val_consumes in Ev.
    hmatch E; subst;
      first [ exact E
            | apply (IHm _ _ _ _ _ E); len_facts parse_val_consumes; cbn [List.length] in *; lia ].
Qed.

(* the statement asked for: any fuel above the input length gives the same result *)
Theorem parse_val_fuel_length : forall f d s,
  (List.length s < f)%nat -> parse_val f d s = parse_val (S (List.length s)) d s.
Proof.
  intros f d s L.
  destruct (parse_val (S (List.length s)) d s) as [r|] eqn:E.
  - apply (parse_val_mono _ _ _ _ E). lia.
  - destruct (parse_val f d s) as [[v rest]|] eqn:E'; [|reflexivity].
    rewrite (proj1 (parse_tight_all f) d s v rest E' (S (List.length s))) in E by lia. discriminate.
Qed.
Print Assumptions parse_val_fuel_length.

(* the string-literal scanner: the fuel [parse_string_lit] supplies is enough *)
Lemma parse_str_body_enough : forall f s acc r,
  parse_str_body f s acc = Some r -> forall f', (List.length s <= f')%nat -> parse_str_body f' s acc = Some r.
Proof.
  induction f as [|f IH]; intros s acc r E f' L; [discriminate|].
  cbn [parse_str_body] in E. destruct s as [|c s']; [discriminate|].
  destruct f' as [|f']; [cbn in L; lia|]. cbn [parse_str_body]. cbn [List.length] in L.
  hmatch E;
    repeat match goal with
    | X : hex4 _ = Some _ |- _ => apply hex4_len in X
    end;
    first [ exact E | apply (IH _ _ _ E); cbn [List.length] in *; lia ].
Qed.

Theorem parse_str_body_fuel_length : forall f s acc,
  (List.length s <= f)%nat -> parse_str_body f s acc = parse_str_body (List.length s) s acc.
Proof.
  intros f s acc L.
  destruct (parse_str_body (List.length s) s acc) as [r|] eqn:E.
  - apply (parse_str_body_mono _ _ _ _ E). exact L.
  - destruct (parse_str_body f s acc) as [r|] eqn:E'; [|reflexivity].
    rewrite (parse_str_body_enough _ _ _ _ E' (List.length s)) in E by lia. discriminate.
Qed.

(* ================================================================== *)
(* C07                                                                 *)

Lemma corner_cases : forall {A} ws (o : outcome A),
  corner ws o -> returns o \/ exists w, o = Unmodelled w /\ In w ws.
Proof.
  intros A ws [] C; cbn in C; try contradiction.
  - left. left. eexists; reflexivity.
  - left. right. eexists; reflexivity.
  - right. eexists. split; [reflexivity | exact C].
Qed.

Theorem C07_no_panic :
  (* verifier: claim extraction always returns *)
  (forall dm payload, returns (extract_sd_claims dm payload)) /\
  (* holder: create_presentation always returns *)
  (forall o h sel a now, returns (snd (present o h sel a now))) /\
  (* holder: new returns, except for the one dialect corner outside the model *)
  (forall o input fmt,
     returns (holder_new o input fmt) \/
     holder_new o input fmt = Unmodelled "SDJWTJson given as a JSON array") /\
  (* verifier: new returns, except for the listed dialect corners *)
  (forall o input resolver ea en fmt now,
     returns (verify o input resolver ea en fmt now) \/
     exists w, verify o input resolver ea en fmt now = Unmodelled w /\
       In w [ "SDJWTJson given as a JSON array"; "header given as a JSON array"; "header with an embedded jwk";
              "non-string sub"; "integer beyond u64 in exp/nbf"; "-0 in exp/nbf"; "float in exp/nbf";
              "container in exp/nbf" ]%string) /\
  (* issuer, normal build: returns unless the supplied randomness runs out *)
  (forall o alg k claims s hj decoy fmt r, r_queue r = None ->
     returns (issue o alg k claims s hj decoy fmt r) \/
     issue o alg k claims s hj decoy fmt r = Unmodelled "randomness stream exhausted") /\
  (* issuer, deterministic-salt build: additionally the documented expect() on the empty queue *)
  (forall o alg k claims s hj decoy fmt r,
     returns (issue o alg k claims s hj decoy fmt r) \/
     issue o alg k claims s hj decoy fmt r = Unmodelled "randomness stream exhausted" \/
     issue o alg k claims s hj decoy fmt r = Panic "utils.rs: SALTS is empty").
Proof.
  split; [exact extract_sd_claims_returns|].
  split; [exact present_returns|].
  split; [|split; [|split]].
  - intros o input fmt. destruct (corner_cases _ _ (holder_new_corner o input fmt)) as [R|[w [E [W|[]]]]].
    + left. exact R.
    + right. rewrite E, <- W. reflexivity.
  - intros o input resolver ea en fmt now.
    destruct (corner_cases _ _ (verify_corner o input resolver ea en fmt now)) as [R|[w [E W]]].
    + left. exact R.
    + right. exists w. split; [exact E | exact W].
  - intros o alg k claims s hj decoy fmt r Q.
    pose proof (issue_icls o alg k claims s hj decoy fmt r) as C. rewrite Q in C.
    destruct (issue o alg k claims s hj decoy fmt r); cbn in C.
    + left. left. eexists; reflexivity.
    + left. right. eexists; reflexivity.
    + destruct C as [C _]. discriminate.
    + contradiction.
    + right. rewrite C. reflexivity.
  - intros o alg k claims s hj decoy fmt r.
    pose proof (issue_icls o alg k claims s hj decoy fmt r) as C.
    destruct (issue o alg k claims s hj decoy fmt r); cbn in C.
    + left. left. eexists; reflexivity.
    + left. right. eexists; reflexivity.
    + right. right. destruct C as [_ C]. rewrite C. reflexivity.
    + contradiction.
    + right. left. rewrite C. reflexivity.
Qed.
Print Assumptions C07_no_panic.

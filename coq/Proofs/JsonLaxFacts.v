(* Proofs/JsonLaxFacts.v — facts about the two readings of the JSON serialization
   (Model/Common.v: parse_json_form = strict reading when the whole text is strict JSON,
   otherwise strict reading of the text whose unknown top-level members were blanked by
   Codec/JsonLax.v), and the justification for trying the strict reading first:
   whatever the strict parser accepts, serde's syntactic skipping (ignore_value) accepts
   too, with the same extent ([strict_implies_lax]). *)
From Coq Require Import Lia.
From SDJWT Require Import Base.Json Base.JsonFacts Codec.JsonParse Codec.JsonLax Model.Common.
From SDJWT Require Proofs.JsonRoundtrip.

(* ---- the case analysis behind parse_json_form ---- *)

Lemma parse_json_form_of_raw : forall input v, parse_json_raw input = Some v ->
  parse_json_form input = parse_json_form_strict input.
Proof. intros input v E. unfold parse_json_form. rewrite E. reflexivity. Qed.

Theorem parse_json_form_strict_agree : forall input, parse_json_raw input <> None ->
  parse_json_form input = parse_json_form_strict input.
Proof.
  intros input N. destruct (parse_json_raw input) as [v|] eqn:E; [|congruence].
  exact (parse_json_form_of_raw input v E).
Qed.

(* every answer of parse_json_form is an answer of the strict reading of some text, or the
   syntax error *)
Lemma parse_json_form_cases : forall input,
  parse_json_form input = parse_json_form_strict input \/
  (parse_json_raw input = None /\
   ((exists t, lax_blank_unknown known_fields input = Some t /\
               parse_json_form input = parse_json_form_strict t) \/
    (lax_blank_unknown known_fields input = None /\
     parse_json_form input = Err "JSON serialization: syntax"))).
Proof.
  intros input. unfold parse_json_form. destruct (parse_json_raw input) as [v|] eqn:E; [left; reflexivity|].
  right. split; [reflexivity|]. destruct (lax_blank_unknown known_fields input) as [t|].
  - left. exists t. split; reflexivity.
  - right. split; reflexivity.
Qed.

Lemma parse_json_form_ind : forall (P : outcome parsed -> Prop),
  (forall t, P (parse_json_form_strict t)) -> P (Err "JSON serialization: syntax") ->
  forall input, P (parse_json_form input).
Proof.
  intros P Hs He input.
  destruct (parse_json_form_cases input) as [-> | (_ & [(t & _ & ->) | (_ & ->)])]; [apply Hs | apply Hs | exact He].
Qed.

Theorem parse_json_form_lax_inv : forall input p, parse_json_form input = Ok p ->
  parse_json_form_strict input = Ok p \/
  exists t, lax_blank_unknown known_fields input = Some t /\ parse_json_form_strict t = Ok p.
Proof.
  intros input p P.
  destruct (parse_json_form_cases input) as [E | (_ & [(t & L & E) | (_ & E)])]; rewrite E in P.
  - left. exact P.
  - right. exists t. split; [exact L | exact P].
  - discriminate P.
Qed.
Print Assumptions parse_json_form_lax_inv.

Corollary parse_json_form_ok_strict : forall input p, parse_json_form input = Ok p ->
  exists t, parse_json_form_strict t = Ok p.
Proof.
  intros input p P. destruct (parse_json_form_lax_inv input p P) as [E | (t & _ & E)]; eauto.
Qed.

(* ---- the blanked text is the input itself or starts with '{'; a text that starts with
        '{' never parses to an array ---- *)

Lemma lax_blank_unknown_shape : forall known s t, lax_blank_unknown known s = Some t ->
  t = s \/ exists r, t = 123 :: r.
Proof.
  intros known s t E. unfold lax_blank_unknown in E.
  destruct (skip_ws s) as [|c r]; [left; congruence|].
  destruct (N.eqb c 123); [|left; congruence]. right.
  destruct (skip_ws r) as [|c1 r']; [discriminate|].
  destruct (N.eqb c1 125).
  - destruct (skip_ws r'); [|discriminate]. inversion E. eauto.
  - destruct (lax_blank_members _ known (c1 :: r')) as [t'|]; [|discriminate]. inversion E. eauto.
Qed.

Lemma parse_members_obj : forall f d s acc v r, parse_members f d s acc = Some (v, r) -> exists m, v = JObj m.
Proof.
  induction f as [|f IH]; intros d s acc v r E; [discriminate|]. cbn [parse_members] in E.
  destruct (parse_string_lit (skip_ws s)) as [[k r0]|]; [|discriminate].
  destruct (skip_ws r0) as [|c r1]; [discriminate|].
  destruct (N.eq_dec c 58) as [->|N1].
  2:{ exfalso. destruct c as [|p]; [discriminate|]. do 7 (try destruct p as [p|p|]); try discriminate; congruence. }
  destruct (parse_val f d r1) as [[v1 r2]|]; [|discriminate].
  destruct (skip_ws r2) as [|c2 r3]; [discriminate|].
  destruct (N.eq_dec c2 44) as [->|N2]; [eapply IH; exact E|].
  destruct (N.eq_dec c2 125) as [->|N3]; [inversion E; eauto|].
  exfalso. destruct c2 as [|p]; [discriminate|]. do 7 (try destruct p as [p|p|]); try discriminate; congruence.
Qed.

Lemma parse_val_brace : forall f d r v rest, parse_val f d (123 :: r) = Some (v, rest) -> exists m, v = JObj m.
Proof.
  intros f d r v rest E. destruct f as [|f]; [discriminate|]. cbn [parse_val] in E.
  change (skip_ws (123 :: r)) with (123 :: r) in E. cbv beta iota in E.
  change (N.eqb 123 110) with false in E. change (N.eqb 123 116) with false in E.
  change (N.eqb 123 102) with false in E. change (N.eqb 123 34) with false in E.
  change (N.eqb 123 91) with false in E. change (N.eqb 123 123) with true in E. cbv beta iota in E.
  destruct d as [|[|d]]; try discriminate.
  destruct (skip_ws r) as [|c r'] eqn:W.
  - eapply parse_members_obj; exact E.
  - destruct (N.eq_dec c 125) as [->|N1]; [inversion E; eauto|].
    assert (E' : parse_members f (S d) (c :: r') [] = Some (v, rest)).
    { destruct c as [|p]; [exact E|]. do 7 (try destruct p as [p|p|]); try exact E; congruence. }
    eapply parse_members_obj; exact E'.
Qed.

Lemma parse_json_raw_brace : forall r v, parse_json_raw (123 :: r) = Some v -> exists m, v = JObj m.
Proof.
  intros r v E. unfold parse_json_raw in E.
  destruct (parse_val _ MAX_DEPTH (123 :: r)) as [[v' rest]|] eqn:P; [|discriminate].
  destruct (skip_ws rest); [|discriminate]. inversion E; subst. eapply parse_val_brace; exact P.
Qed.

(* on the lax path the strict reading of the blanked text never sees a top-level array *)
Lemma lax_path_not_array : forall input t, parse_json_raw input = None ->
  lax_blank_unknown known_fields input = Some t -> forall l, parse_json_raw t <> Some (JArr l).
Proof.
  intros input t N L l E. destruct (lax_blank_unknown_shape _ _ _ L) as [->|(r & ->)]; [congruence|].
  destruct (parse_json_raw_brace r _ E) as (m & M). discriminate M.
Qed.

(* ================================================================== *)
(* Strict acceptance implies lax acceptance with the same extent       *)
(* ================================================================== *)

Local Ltac bits_absurd c :=
  exfalso; destruct c as [|c]; [discriminate|]; do 7 (try destruct c as [c|c|]); try discriminate; congruence.

(* ---- strings ---- *)
Lemma hex4_inv : forall s n r, hex4 s = Some (n, r) ->
  exists a b c d, s = a :: b :: c :: d :: r /\ (is_hex a && is_hex b && is_hex c && is_hex d) = true.
Proof.
  intros s n r H. unfold hex4 in H. destruct s as [|a [|b [|c [|d s3]]]]; try discriminate.
  exists a, b, c, d. unfold is_hex.
  destruct (hex_val a), (hex_val b), (hex_val c), (hex_val d); try discriminate.
  inversion H; subst. split; reflexivity.
Qed.

Lemma strict_str_lax : forall f s acc x rest, parse_str_body f s acc = Some (x, rest) ->
  lax_str_body s = Some rest.
Proof.
  induction f as [|f IH]; intros s acc x rest E; [discriminate|]. cbn [parse_str_body] in E.
  destruct s as [|c s1]; [discriminate|]. cbn [lax_str_body].
  destruct (N.eqb c 34). { inversion E; subst. reflexivity. }
  destruct (N.eqb c 92).
  - destruct s1 as [|e s2]; [discriminate|]. unfold is_simple_escape. revert E.
    destruct (N.eqb e 34); cbn [orb]. { intro E; eapply IH; exact E. }
    destruct (N.eqb e 92); cbn [orb]. { intro E; eapply IH; exact E. }
    destruct (N.eqb e 47); cbn [orb]. { intro E; eapply IH; exact E. }
    destruct (N.eqb e 98); cbn [orb]. { intro E; eapply IH; exact E. }
    destruct (N.eqb e 102); cbn [orb]. { intro E; eapply IH; exact E. }
    destruct (N.eqb e 110); cbn [orb]. { intro E; eapply IH; exact E. }
    destruct (N.eqb e 114); cbn [orb]. { intro E; eapply IH; exact E. }
    destruct (N.eqb e 116); cbn [orb]. { intro E; eapply IH; exact E. }
    destruct (N.eqb e 117); [|discriminate]. intro E.
    destruct (hex4 s2) as [[n r3]|] eqn:H; [|discriminate].
    destruct (hex4_inv _ _ _ H) as (a & b & c' & d & -> & Hx). rewrite Hx.
    destruct (N.leb 55296 n && N.leb n 56319).
    + destruct r3 as [|u1 r3]; [discriminate|].
      destruct (N.eq_dec u1 92) as [->|N1]; [|bits_absurd u1].
      destruct r3 as [|u2 r4]; [discriminate|].
      destruct (N.eq_dec u2 117) as [->|N2]; [|bits_absurd u2].
      destruct (hex4 r4) as [[n2 r5]|] eqn:H2; [|discriminate].
      destruct (hex4_inv _ _ _ H2) as (a2 & b2 & c2 & d2 & -> & Hx2).
      destruct (N.leb 56320 n2 && N.leb n2 57343); [|discriminate].
      apply IH in E.
      change (lax_str_body (92 :: 117 :: a2 :: b2 :: c2 :: d2 :: r5))
        with (if is_hex a2 && is_hex b2 && is_hex c2 && is_hex d2 then lax_str_body r5 else None).
      rewrite Hx2. exact E.
    + destruct (N.leb 56320 n && N.leb n 57343); [discriminate|]. eapply IH; exact E.
  - destruct (N.ltb c 32); [discriminate|]. eapply IH; exact E.
Qed.

Lemma strict_string_lit_lax : forall s k rest, parse_string_lit s = Some (k, rest) ->
  exists r0, s = 34 :: r0 /\ lax_str_body r0 = Some rest.
Proof.
  intros s k rest E. unfold parse_string_lit in E. destruct s as [|c r0]; [discriminate|].
  destruct (N.eq_dec c 34) as [->|N1]; [|bits_absurd c].
  exists r0. split; [reflexivity|]. eapply strict_str_lax; exact E.
Qed.

(* ---- numbers (through the staged form of parse_number in Proofs/JsonRoundtrip.v) ---- *)
Lemma strict_exp_lax : forall s3 ep s4, JsonRoundtrip.num_exp s3 = Some (ep, s4) -> lax_exp_opt s3 = Some s4.
Proof.
  intros s3 ep s4 E. unfold JsonRoundtrip.num_exp in E. destruct s3 as [|e r4]; cbn [lax_exp_opt].
  - inversion E; subst. reflexivity.
  - destruct (N.eqb e 101 || N.eqb e 69); [|inversion E; subst; reflexivity].
    unfold lax_exponent. revert E. destruct (JsonRoundtrip.exp_sign r4) as [sg r5] eqn:G. intro E.
    rewrite JsonRoundtrip.exp_sign_eq in G.
    assert (S : strip_sign r4 = r5).
    { destruct r4 as [|c r']; cbn [strip_sign]; [inversion G; reflexivity|].
      destruct (N.eqb c 43); cbn [orb]; [inversion G; reflexivity|].
      destruct (N.eqb c 45); inversion G; reflexivity. }
    rewrite S. destruct (take_digits r5) as [ds r6]. destruct ds; [discriminate|].
    inversion E; subst. reflexivity.
Qed.

Lemma strict_frac_lax : forall s2 fp s3 ep s4, JsonRoundtrip.num_frac s2 = Some (fp, s3) ->
  JsonRoundtrip.num_exp s3 = Some (ep, s4) -> lax_frac_exp s2 = Some s4.
Proof.
  intros s2 fp s3 ep s4 F X. apply strict_exp_lax in X. rewrite JsonRoundtrip.num_frac_eq in F.
  destruct s2 as [|c r2]; cbn [lax_frac_exp].
  - inversion F; subst. exact X.
  - destruct (N.eqb c 46).
    + destruct (take_digits r2) as [ds r3]. destruct ds; [discriminate|]. inversion F; subst. exact X.
    + inversion F; subst. exact X.
Qed.

Lemma strict_int_lax : forall s1 ip s2 fp s3 ep s4, JsonRoundtrip.num_int s1 = Some (ip, s2) ->
  JsonRoundtrip.num_frac s2 = Some (fp, s3) -> JsonRoundtrip.num_exp s3 = Some (ep, s4) ->
  lax_integer s1 = Some s4.
Proof.
  intros s1 ip s2 fp s3 ep s4 I F X. pose proof (strict_frac_lax _ _ _ _ _ F X) as L.
  unfold JsonRoundtrip.num_int in I. destruct s1 as [|c r]; [discriminate|]. cbn [lax_integer].
  destruct (N.eqb c 48).
  - destruct r as [|d r']; [inversion I; subst; exact L|].
    destruct (is_digit d); [discriminate|]. inversion I; subst. exact L.
  - destruct (is_digit c); [|discriminate]. destruct (take_digits r) as [ds r'].
    inversion I; subst. exact L.
Qed.

Lemma strict_num_lax : forall c r lx rest, parse_number (c :: r) = Some (lx, rest) ->
  (if N.eqb c 45 then lax_integer r else lax_integer (c :: r)) = Some rest.
Proof.
  intros c r lx rest E. rewrite JsonRoundtrip.parse_number_pn in E. unfold JsonRoundtrip.pn in E.
  rewrite JsonRoundtrip.num_sign_eq in E.
  destruct (N.eqb c 45);
    match type of E with context [JsonRoundtrip.num_int ?s1] =>
      destruct (JsonRoundtrip.num_int s1) as [[ip s2]|] eqn:I; [|discriminate];
      destruct (JsonRoundtrip.num_frac s2) as [[fp s3]|] eqn:F; [|discriminate];
      destruct (JsonRoundtrip.num_exp s3) as [[ep s4]|] eqn:X; [|discriminate];
      inversion E; subst; eapply strict_int_lax; eassumption
    end.
Qed.

(* ---- fuel-free equations of the skipping machine, case by case ---- *)
Definition lax_cont (stk : list bool) (o : option str) : option (option str) :=
  match o with Some r' => lax_go true stk r' | None => Some None end.

Definition lax_member (stk : list bool) (s : str) : option (option str) :=
  match lax_key s with Some r2 => lax_go false (true :: stk) r2 | None => Some None end.

Local Ltac machine W := rewrite lax_go_eq; unfold lax_step; rewrite W; reflexivity.

Lemma lax_go_done : forall s, lax_go true [] s = Some (Some s).
Proof. intros. rewrite lax_go_eq. reflexivity. Qed.
Lemma lax_after_comma_arr : forall stk s r, skip_ws s = 44 :: r ->
  lax_go true (false :: stk) s = lax_go false (false :: stk) r.
Proof. intros stk s r W. machine W. Qed.
Lemma lax_after_close_arr : forall stk s r, skip_ws s = 93 :: r -> lax_go true (false :: stk) s = lax_go true stk r.
Proof. intros stk s r W. machine W. Qed.
Lemma lax_after_comma_obj : forall stk s r, skip_ws s = 44 :: r -> lax_go true (true :: stk) s = lax_member stk r.
Proof. intros stk s r W. machine W. Qed.
Lemma lax_after_close_obj : forall stk s r, skip_ws s = 125 :: r -> lax_go true (true :: stk) s = lax_go true stk r.
Proof. intros stk s r W. machine W. Qed.

Lemma lax_val_null : forall stk s r, skip_ws s = 110 :: r ->
  lax_go false stk s = lax_cont stk (strip_prefix [117; 108; 108] r).
Proof. intros stk s r W. machine W. Qed.
Lemma lax_val_true : forall stk s r, skip_ws s = 116 :: r ->
  lax_go false stk s = lax_cont stk (strip_prefix [114; 117; 101] r).
Proof. intros stk s r W. machine W. Qed.
Lemma lax_val_false : forall stk s r, skip_ws s = 102 :: r ->
  lax_go false stk s = lax_cont stk (strip_prefix [97; 108; 115; 101] r).
Proof. intros stk s r W. machine W. Qed.
Lemma lax_val_str : forall stk s r, skip_ws s = 34 :: r -> lax_go false stk s = lax_cont stk (lax_str_body r).
Proof. intros stk s r W. machine W. Qed.
Lemma lax_val_minus : forall stk s r, skip_ws s = 45 :: r -> lax_go false stk s = lax_cont stk (lax_integer r).
Proof. intros stk s r W. machine W. Qed.
Lemma lax_val_digit : forall stk s c r, is_digit c = true -> skip_ws s = c :: r ->
  lax_go false stk s = lax_cont stk (lax_integer (c :: r)).
Proof.
  intros stk s c r D W. rewrite lax_go_eq. unfold lax_step. rewrite W, D.
  destruct (JsonRoundtrip.digit_bounds c D) as [B1 B2].
  destruct (N.eqb_spec c 110); [lia|]. destruct (N.eqb_spec c 116); [lia|].
  destruct (N.eqb_spec c 102); [lia|]. destruct (N.eqb_spec c 45); [lia|]. reflexivity.
Qed.
Lemma lax_val_arr : forall stk s r, skip_ws s = 91 :: r ->
  lax_go false stk s =
  match skip_ws r with
  | [] => Some None
  | c1 :: r' => if N.eqb c1 93 then lax_go true stk r' else lax_go false (false :: stk) (c1 :: r')
  end.
Proof. intros stk s r W. machine W. Qed.
Lemma lax_val_obj : forall stk s r, skip_ws s = 123 :: r ->
  lax_go false stk s =
  match skip_ws r with
  | [] => Some None
  | c1 :: r' => if N.eqb c1 125 then lax_go true stk r' else lax_member stk (c1 :: r')
  end.
Proof. intros stk s r W. machine W. Qed.

Lemma parse_elems_nil : forall f d acc, parse_elems f d [] acc = None.
Proof. intros [|[|f]] d acc; reflexivity. Qed.
Lemma parse_members_nil : forall f d acc, parse_members f d [] acc = None.
Proof. intros [|f] d acc; reflexivity. Qed.

(* ---- the simulation: what the strict parser consumes, the machine consumes ---- *)
Definition sim_val (f : nat) : Prop := forall d s v rest, parse_val f d s = Some (v, rest) ->
  forall stk, lax_go false stk s = lax_go true stk rest.
Definition sim_elems (f : nat) : Prop := forall d s acc v rest, parse_elems f d s acc = Some (v, rest) ->
  forall stk, lax_go false (false :: stk) s = lax_go true stk rest.
Definition sim_members (f : nat) : Prop := forall d s acc v rest, parse_members f d s acc = Some (v, rest) ->
  forall stk, lax_member stk s = lax_go true stk rest.

Lemma sim_val_S : forall f, sim_elems f -> sim_members f -> sim_val (S f).
Proof.
  intros f IHe IHm d s v rest E stk. cbn [parse_val] in E.
  destruct (skip_ws s) as [|c r] eqn:W; [discriminate|]. revert E.
  destruct (N.eqb_spec c 110) as [->|N110].
  { intro E. rewrite (lax_val_null _ _ _ W). unfold expect_lit in E.
    change (strip_prefix [110; 117; 108; 108] (110 :: r)) with (strip_prefix [117; 108; 108] r) in E.
    destruct (strip_prefix [117; 108; 108] r) as [r'|]; [|discriminate]. inversion E; subst. reflexivity. }
  destruct (N.eqb_spec c 116) as [->|N116].
  { intro E. rewrite (lax_val_true _ _ _ W). unfold expect_lit in E.
    change (strip_prefix [116; 114; 117; 101] (116 :: r)) with (strip_prefix [114; 117; 101] r) in E.
    destruct (strip_prefix [114; 117; 101] r) as [r'|]; [|discriminate]. inversion E; subst. reflexivity. }
  destruct (N.eqb_spec c 102) as [->|N102].
  { intro E. rewrite (lax_val_false _ _ _ W). unfold expect_lit in E.
    change (strip_prefix [102; 97; 108; 115; 101] (102 :: r)) with (strip_prefix [97; 108; 115; 101] r) in E.
    destruct (strip_prefix [97; 108; 115; 101] r) as [r'|]; [|discriminate]. inversion E; subst. reflexivity. }
  destruct (N.eqb_spec c 34) as [->|N34].
  { intro E. rewrite (lax_val_str _ _ _ W).
    destruct (parse_string_lit (34 :: r)) as [[st r']|] eqn:K; [|discriminate]. inversion E; subst.
    destruct (strict_string_lit_lax _ _ _ K) as (r0 & Q & B). inversion Q; subst. rewrite B. reflexivity. }
  destruct (N.eqb_spec c 91) as [->|N91].
  { intro E. destruct d as [|[|d']]; try discriminate. rewrite (lax_val_arr _ _ _ W).
    destruct (skip_ws r) as [|c1 r'] eqn:W1. { rewrite parse_elems_nil in E. discriminate. }
    destruct (N.eqb_spec c1 93) as [->|N93]. { inversion E; subst. reflexivity. }
    assert (E' : parse_elems f (S d') (c1 :: r') [] = Some (v, rest)).
    { destruct c1 as [|p]; [exact E|]. do 7 (try destruct p as [p|p|]); try exact E; congruence. }
    eapply IHe; exact E'. }
  destruct (N.eqb_spec c 123) as [->|N123].
  { intro E. destruct d as [|[|d']]; try discriminate. rewrite (lax_val_obj _ _ _ W).
    destruct (skip_ws r) as [|c1 r'] eqn:W1. { rewrite parse_members_nil in E. discriminate. }
    destruct (N.eqb_spec c1 125) as [->|N125]. { inversion E; subst. reflexivity. }
    assert (E' : parse_members f (S d') (c1 :: r') [] = Some (v, rest)).
    { destruct c1 as [|p]; [exact E|]. do 7 (try destruct p as [p|p|]); try exact E; congruence. }
    eapply IHm; exact E'. }
  destruct (N.eqb_spec c 45) as [->|N45]; cbn [orb].
  { intro E. rewrite (lax_val_minus _ _ _ W).
    destruct (parse_number (45 :: r)) as [[lx r']|] eqn:P; [|discriminate]. inversion E; subst.
    apply strict_num_lax in P. change (N.eqb 45 45) with true in P. cbv iota in P. rewrite P. reflexivity. }
  destruct (is_digit c) eqn:D; [|discriminate]. intro E. rewrite (lax_val_digit _ _ _ _ D W).
  destruct (parse_number (c :: r)) as [[lx r']|] eqn:P; [|discriminate]. inversion E; subst.
  apply strict_num_lax in P. destruct (N.eqb_spec c 45); [contradiction|]. rewrite P. reflexivity.
Qed.

Lemma sim_elems_S : forall f, sim_val f -> sim_elems f -> sim_elems (S f).
Proof.
  intros f IHv IHe d s acc v rest E stk. cbn [parse_elems] in E.
  destruct (parse_val f d s) as [[v1 r]|] eqn:V; [|discriminate].
  rewrite (IHv _ _ _ _ V). destruct (skip_ws r) as [|c r'] eqn:W; [discriminate|].
  destruct (N.eq_dec c 44) as [->|N44].
  { rewrite (lax_after_comma_arr _ _ _ W). eapply IHe; exact E. }
  destruct (N.eq_dec c 93) as [->|N93].
  { rewrite (lax_after_close_arr _ _ _ W). inversion E; subst. reflexivity. }
  bits_absurd c.
Qed.

Lemma sim_members_S : forall f, sim_val f -> sim_members f -> sim_members (S f).
Proof.
  intros f IHv IHm d s acc v rest E stk. cbn [parse_members] in E.
  destruct (parse_string_lit (skip_ws s)) as [[k r]|] eqn:K; [|discriminate].
  destruct (strict_string_lit_lax _ _ _ K) as (r0 & W & B).
  destruct (skip_ws r) as [|c1 r1] eqn:W1; [discriminate|].
  destruct (N.eq_dec c1 58) as [->|N58]; [|bits_absurd c1].
  destruct (parse_val f d r1) as [[v1 r2]|] eqn:V; [|discriminate].
  assert (Kk : lax_key s = Some r1).
  { unfold lax_key. rewrite W. change (N.eqb 34 34) with true. cbv iota. rewrite B, W1. reflexivity. }
  unfold lax_member at 1. rewrite Kk, (IHv _ _ _ _ V).
  destruct (skip_ws r2) as [|c2 r3] eqn:W2; [discriminate|].
  destruct (N.eq_dec c2 44) as [->|N44].
  { rewrite (lax_after_comma_obj _ _ _ W2). eapply IHm; exact E. }
  destruct (N.eq_dec c2 125) as [->|N125].
  { rewrite (lax_after_close_obj _ _ _ W2). inversion E; subst. reflexivity. }
  bits_absurd c2.
Qed.

Lemma sim_all : forall f, sim_val f /\ sim_elems f /\ sim_members f.
Proof.
  induction f as [|f (IHv & IHe & IHm)].
  - repeat split; intros d s; intros; discriminate.
  - repeat split; [apply sim_val_S | apply sim_elems_S | apply sim_members_S]; assumption.
Qed.

(* STRETCH of the work package: whatever the strict parser accepts as a value — at any fuel,
   any nesting allowance — serde's ignore_value accepts too, and it stops at the same place.
   So a text the strict whole-text reading accepts is also one the streaming deserializer's
   skipping accepts: trying the strict reading first in parse_json_form loses nothing. *)
Theorem strict_implies_lax : forall fuel depth s v rest,
  parse_val fuel depth s = Some (v, rest) -> lax_skip_value s = Some rest.
Proof.
  intros fuel depth s v rest E. destruct (sim_all fuel) as (Sv & _ & _).
  unfold lax_skip_value. rewrite (Sv _ _ _ _ E []), lax_go_done. reflexivity.
Qed.
Print Assumptions strict_implies_lax.

(* non-vacuity: a strict value with nested containers, escapes and numbers, followed by a tail *)
Example strict_implies_lax_ex :
  let s := lit " {""a"":[1,{""b"":null}],""c"":-0.5E+7,""d"":""😀\n""} tail" in
  (exists v, parse_val 200 MAX_DEPTH s = Some (v, lit " tail")) /\ lax_skip_value s = Some (lit " tail").
Proof. vm_compute. split; [eexists; reflexivity | reflexivity]. Qed.

(* the converse fails: the machine accepts what the strict grammar refuses *)
Example lax_not_strict :
  lax_skip_value (lit """\ud800""") = Some [] /\ parse_val 100 MAX_DEPTH (lit """\ud800""") = None /\
  lax_skip_value (deep_array 200) = Some [] /\ parse_val 1000 MAX_DEPTH (deep_array 200) = None.
Proof. vm_compute. repeat split. Qed.

(* ---- end to end: a serialization whose UNKNOWN members lie outside the strict grammar
        (lone surrogate, 300-deep array) is accepted on the lax path and yields exactly the
        record of the same text with those members set to null; the strict reading of the
        original text is a syntax error (non-vacuity of the second case of
        [parse_json_form_lax_inv]).  A KNOWN member outside the strict grammar is still an error. ---- *)
Definition lax_demo : str :=
  lit "{""x"":""\ud800"",""protected"":""e30"",""payload"":""e30"",""signature"":""s"",""disclosures"":[""d1""],""y"":"
  ++ deep_array 300 ++ lit "}".
Definition lax_demo_blank : str :=
  lit "{""x"":null,""protected"":""e30"",""payload"":""e30"",""signature"":""s"",""disclosures"":[""d1""],""y"":null}".

Example lax_demo_accepted :
  parse_json_raw lax_demo = None /\
  parse_json_form_strict lax_demo = Err "JSON serialization: syntax" /\
  lax_blank_unknown known_fields lax_demo = Some lax_demo_blank /\
  parse_json_form lax_demo = parse_json_form lax_demo_blank /\
  is_ok (parse_json_form lax_demo) = true.
Proof. vm_compute. repeat split. Qed.

Example lax_known_member_still_strict :
  parse_json_form (lit "{""protected"":""\ud800"",""payload"":""e30"",""signature"":""s"",""disclosures"":[]}")
  = Err "JSON serialization: syntax" /\
  parse_json_form (lit "{""protected"":""e30"",""payload"":""e30"",""signature"":""s"",""disclosures"":[],""x"":01}")
  = Err "JSON serialization: syntax".
Proof. vm_compute. split; reflexivity. Qed.

Example parse_json_form_strict_agree_ex :
  parse_json_raw lax_demo_blank <> None /\ parse_json_form lax_demo_blank = parse_json_form_strict lax_demo_blank.
Proof. vm_compute. split; [discriminate | reflexivity]. Qed.

(* the skipper's fuel is adequate (re-exported from Codec/JsonLax.v for the property file) *)
Lemma lax_skip_total : forall after stk s, lax_go after stk s <> None.
Proof. exact lax_go_total. Qed.
Print Assumptions lax_skip_total.

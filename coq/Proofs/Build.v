(* Proofs/Build.v — the factoring of the issuer used by the round-trip theorems
   (DESIGN.md §3.3): an issued credential is described by a *digest tree*
   [dtree]: the claim tree in which every selectively-disclosable member /
   element carries the salt and digest of its disclosure, and every object the
   `_sd` list it was given (real digests and decoys, in emitted order).

     marks s v          which nodes the issuer's own path walk (next_level /
                        sd_for_key) makes selectively disclosable
     flags d            the annotated claim tree of Spec/View.v
     payload_of d       the JSON the issuer emits for the tree (pure "build")
     disclosures_of d   (digest, decoded disclosure) in creation order
     all_digests d      every digest occurring in the payload and, recursively,
                        in the disclosed values
     view_d has d       the claims seen by someone holding the disclosures
                        whose digests satisfy [has]

   Definitions only; the theorems are in Proofs/IssuerBuild.v (the model
   issuer produces payload_of / disclosures_of of some dtree), Proofs/UnpackView.v
   (the model verifier computes view_d) and Proofs/WalkSel.v (the model holder
   selects the designated disclosures). *)
From SDJWT Require Import Base.Json Base.JsonFacts Params Codec.JsonPrint Codec.DisclosureText
  Model.Common Model.Issuer Spec.Path Spec.View.
From Coq Require Import Permutation.

Inductive dtree :=
| DLeaf (v : json)
| DArr (es : list (option (str * str) * dtree))                       (* Some (salt, digest) = hidden *)
| DObj (ms : list (str * (option (str * str) * dtree))) (sdl : list str).

Definition hid (h : option (str * str)) : bool := match h with Some _ => true | None => false end.

Section DtreeInd.
  Variable P : dtree -> Prop.
  Hypothesis Hleaf : forall v, P (DLeaf v).
  Hypothesis Harr : forall es, Forall (fun e => P (snd e)) es -> P (DArr es).
  Hypothesis Hobj : forall ms sdl, Forall (fun kv => P (snd (snd kv))) ms -> P (DObj ms sdl).
  Fixpoint dtree_ind' (d : dtree) : P d :=
    match d with
    | DLeaf v => Hleaf v
    | DArr es =>
        Harr es ((fix go (es : list (option (str * str) * dtree)) : Forall (fun e => P (snd e)) es :=
                    match es with
                    | [] => Forall_nil _
                    | e :: es' => Forall_cons e (dtree_ind' (snd e)) (go es')
                    end) es)
    | DObj ms sdl =>
        Hobj ms sdl ((fix go (ms : list (str * (option (str * str) * dtree)))
                        : Forall (fun kv => P (snd (snd kv))) ms :=
                        match ms with
                        | [] => Forall_nil _
                        | kv :: ms' => Forall_cons kv (dtree_ind' (snd (snd kv))) (go ms')
                        end) ms)
    end.
End DtreeInd.

Section AtreeInd.
  Variable P : atree -> Prop.
  Hypothesis Hleaf : forall v, P (ALeaf v).
  Hypothesis Harr : forall es, Forall (fun e => P (snd e)) es -> P (AArr es).
  Hypothesis Hobj : forall ms, Forall (fun kv => P (snd (snd kv))) ms -> P (AObj ms).
  Fixpoint atree_ind' (t : atree) : P t :=
    match t with
    | ALeaf v => Hleaf v
    | AArr es =>
        Harr es ((fix go (es : list (bool * atree)) : Forall (fun e => P (snd e)) es :=
                    match es with
                    | [] => Forall_nil _
                    | e :: es' => Forall_cons e (atree_ind' (snd e)) (go es')
                    end) es)
    | AObj ms =>
        Hobj ms ((fix go (ms : list (str * (bool * atree))) : Forall (fun kv => P (snd (snd kv))) ms :=
                    match ms with
                    | [] => Forall_nil _
                    | kv :: ms' => Forall_cons kv (atree_ind' (snd (snd kv))) (go ms')
                    end) ms)
    end.
End AtreeInd.

(* ---- the issuer's own marking (from next_level / sd_for_key) ---- *)
Fixpoint marks (s : strategy) (v : json) {struct v} : atree :=
  match v with
  | JArr l =>
      AArr ((fix go (l : list json) (i : N) {struct l} : list (bool * atree) :=
               match l with
               | [] => []
               | x :: l' => let k := index_key i in
                            (sd_for_key s k, marks (next_level s k) x) :: go l' (i + 1)
               end) l 0)
  | JObj m =>
      AObj ((fix go (m : members) {struct m} : list (str * (bool * atree)) :=
               match m with
               | [] => []
               | (k, x) :: m' => (k, (sd_for_key s k, marks (next_level s k) x)) :: go m'
               end) m)
  | _ => ALeaf v
  end.

(* ---- forgetting salts and digests ---- *)
Fixpoint flags (d : dtree) : atree :=
  match d with
  | DLeaf v => ALeaf v
  | DArr es => AArr (map (fun e => (hid (fst e), flags (snd e))) es)
  | DObj ms _ => AObj (map (fun kv => (fst kv, (hid (fst (snd kv)), flags (snd (snd kv))))) ms)
  end.

(* the user's claims back *)
Fixpoint claims_of (d : dtree) : json :=
  match d with
  | DLeaf v => v
  | DArr es => JArr (map (fun e => claims_of (snd e)) es)
  | DObj ms _ => JObj (map (fun kv => (fst kv, claims_of (snd (snd kv)))) ms)
  end.

(* ---- what the issuer emits ---- *)
Definition placeholder (dg : str) : json := JObj [(SD_LIST_PREFIX, JStr dg)].

Definition sd_member (sdl : list str) : members :=
  match sdl with [] => [] | _ :: _ => [(SD_DIGESTS_KEY, JArr (map JStr sdl))] end.

Fixpoint payload_of (d : dtree) : json :=
  match d with
  | DLeaf v => v
  | DArr es =>
      JArr (map (fun e => match fst e with
                          | Some (_, dg) => placeholder dg
                          | None => payload_of (snd e)
                          end) es)
  | DObj ms sdl =>
      JObj (sd_member sdl ++
            flat_map (fun kv => match fst (snd kv) with
                                | None => [(fst kv, payload_of (snd (snd kv)))]
                                | Some _ => []
                                end) ms)
  end.

(* (digest, decoded disclosure), children before their parent, as all_disclosures is filled *)
Fixpoint disclosures_of (d : dtree) : list (str * json) :=
  match d with
  | DLeaf _ => []
  | DArr es =>
      flat_map (fun e => disclosures_of (snd e) ++
                         match fst e with
                         | Some (salt, dg) => [(dg, JArr [JStr salt; payload_of (snd e)])]
                         | None => []
                         end) es
  | DObj ms _ =>
      flat_map (fun kv => disclosures_of (snd (snd kv)) ++
                          match fst (snd kv) with
                          | Some (salt, dg) => [(dg, JArr [JStr salt; JStr (fst kv); payload_of (snd (snd kv))])]
                          | None => []
                          end) ms
  end.

(* the digests of the hidden members of one object *)
Definition own_digests (ms : list (str * (option (str * str) * dtree))) : list str :=
  flat_map (fun kv => match fst (snd kv) with Some (_, dg) => [dg] | None => [] end) ms.

Fixpoint all_digests (d : dtree) : list str :=
  match d with
  | DLeaf _ => []
  | DArr es =>
      flat_map (fun e => match fst e with Some (_, dg) => [dg] | None => [] end ++ all_digests (snd e)) es
  | DObj ms sdl => sdl ++ flat_map (fun kv => all_digests (snd (snd kv))) ms
  end.

(* local shape conditions the issuer guarantees for claims that pass its checks:
   leaves are not containers, member names are pairwise distinct and never
   `_sd`, every object's `_sd` list contains the digests of its hidden members *)
Definition is_container (v : json) : bool := match v with JArr _ | JObj _ => true | _ => false end.

Fixpoint shape_ok (d : dtree) : Prop :=
  match d with
  | DLeaf v => is_container v = false
  | DArr es => (fix go (es : list (option (str * str) * dtree)) : Prop :=
                  match es with [] => True | e :: es' => shape_ok (snd e) /\ go es' end) es
  | DObj ms sdl =>
      NoDup (map fst ms) /\ ~ In SD_DIGESTS_KEY (map fst ms) /\ ~ In SD_LIST_PREFIX (map fst ms) /\
      incl (own_digests ms) sdl /\
      (fix go (ms : list (str * (option (str * str) * dtree))) : Prop :=
         match ms with [] => True | kv :: ms' => shape_ok (snd (snd kv)) /\ go ms' end) ms
  end.

(* a digest tree is well formed when, in addition, no digest occurs twice *)
Definition wf_dtree (d : dtree) : Prop := shape_ok d /\ NoDup (all_digests d).

(* every digest is the hash of the base64url text of its disclosure (C05, C14) *)
Fixpoint digests_ok (o : oracles) (d : dtree) : Prop :=
  match d with
  | DLeaf _ => True
  | DArr es =>
      (fix go (es : list (option (str * str) * dtree)) : Prop :=
         match es with
         | [] => True
         | e :: es' =>
             match fst e with
             | Some (salt, dg) => dg = H o (base64url_encode_str (disclosure_text false salt None (payload_of (snd e))))
             | None => True
             end /\ digests_ok o (snd e) /\ go es'
         end) es
  | DObj ms _ =>
      (fix go (ms : list (str * (option (str * str) * dtree))) : Prop :=
         match ms with
         | [] => True
         | kv :: ms' =>
             match fst (snd kv) with
             | Some (salt, dg) =>
                 dg = H o (base64url_encode_str (disclosure_text false salt (Some (fst kv)) (payload_of (snd (snd kv)))))
             | None => True
             end /\ digests_ok o (snd (snd kv)) /\ go ms'
         end) ms
  end.

(* ---- the view of someone who can open the digests satisfying [has] ---- *)
Fixpoint view_d (has : str -> bool) (d : dtree) : json :=
  match d with
  | DLeaf v => v
  | DArr es =>
      JArr (flat_map (fun e => match fst e with
                               | Some (_, dg) => if has dg then [view_d has (snd e)] else []
                               | None => [view_d has (snd e)]
                               end) es)
  | DObj ms _ =>
      JObj (flat_map (fun kv => match fst (snd kv) with
                                | Some (_, dg) => if has dg then [(fst kv, view_d has (snd (snd kv)))] else []
                                | None => [(fst kv, view_d has (snd (snd kv)))]
                                end) ms)
  end.

(* the digest sitting at each hidden position *)
Fixpoint pos_digests (d : dtree) (here : pos) : list (pos * str) :=
  match d with
  | DLeaf _ => []
  | DArr es =>
      (fix go (es : list (option (str * str) * dtree)) (i : N) : list (pos * str) :=
         match es with
         | [] => []
         | e :: es' =>
             let p := here ++ [Idx i] in
             match fst e with Some (_, dg) => [(p, dg)] | None => [] end ++ pos_digests (snd e) p ++ go es' (i + 1)
         end) es 0
  | DObj ms _ =>
      (fix go (ms : list (str * (option (str * str) * dtree))) : list (pos * str) :=
         match ms with
         | [] => []
         | kv :: ms' =>
             let p := here ++ [Key (fst kv)] in
             match fst (snd kv) with Some (_, dg) => [(p, dg)] | None => [] end
               ++ pos_digests (snd (snd kv)) p ++ go ms'
         end) ms
  end.

Fixpoint digest_at (p : pos) (l : list (pos * str)) : option str :=
  match l with
  | [] => None
  | (q, dg) :: l' => if pos_eqb p q then Some dg else digest_at p l'
  end.

(* ---- JSON equality up to member order (what serde_json's Value::eq decides) ---- *)
Inductive jequiv : json -> json -> Prop :=
| JE_null : jequiv JNull JNull
| JE_bool : forall b, jequiv (JBool b) (JBool b)
| JE_num : forall n, jequiv (JNum n) (JNum n)
| JE_str : forall s, jequiv (JStr s) (JStr s)
| JE_arr : forall l1 l2, Forall2 jequiv l1 l2 -> jequiv (JArr l1) (JArr l2)
| JE_obj : forall m1 m2 m2', Permutation m2 m2' ->
             Forall2 (fun a b => fst a = fst b /\ jequiv (snd a) (snd b)) m1 m2' -> jequiv (JObj m1) (JObj m2).

(* Proofs/UnpackSpec.v — property C08: the model verifier's disclosure
   processing ([unpack], [extract_sd_claims], Model/Verifier.v) refines the
   independent restatement of SD-JWT draft-07 §8.1 ([spec_value],
   [spec_process], Spec/Draft07.v): whenever the verifier accepts, the
   specification accepts and yields the same claims.  The verifier may be
   stricter, never more lenient.

   Contents
     1. [tab_of], the step functions of [unpack] / [spec_value] as stand-alone
        fixpoints, unfolding equations, inversion of one Ok step;
     2. refinement: [unpack_refines_spec], [C08_refines_spec],
        [C08_never_more_lenient];
     3. the accumulated digest list: [unpack_seen_ext] (only grows, stays
        duplicate-free), well-formedness of the result [unpack_wf];
     4. the must-reject list of C08, directly from the definition of [unpack];
     5. the well-formedness premise is what the verifier has: [parse_json_wf],
        [create_hash_mappings_wf], [jwt_decode_wf], and [verify_refines_spec]. *)
From SDJWT Require Import Base.Json Base.JsonFacts Params Codec.JsonParse
  Model.Common Model.Issuer Model.Holder Model.Jwt Model.Verifier Spec.Draft07.
From Coq Require Import Lia Permutation.

(* ------------------------------------------------------------------ *)
(* 1. tables, step functions, unfolding                                 *)

Definition tab_of (dm : dmap) : dtab := map (fun e => (fst e, fst (snd e))) dm.

Lemma dtab_get_tab_of : forall d dm, dtab_get d (tab_of dm) = option_map fst (dmap_get d dm).
Proof.
  induction dm as [|[d' [x t]] dm IH]; cbn; [reflexivity|].
  destruct (str_eqb d d'); [reflexivity | exact IH].
Qed.

Lemma tab_of_length : forall dm, List.length (tab_of dm) = List.length dm.
Proof. intros. unfold tab_of. apply map_length. Qed.

(* all decoded disclosures in the table are well formed (what parsing gives) *)
Definition dm_wf (dm : dmap) : Prop :=
  forall d x t, dmap_get d dm = Some (x, t) -> wf_json x = true.

Lemma mem_str_rev : forall x l, mem_str x (rev l) = mem_str x l.
Proof.
  induction l as [|y l IH]; cbn; [reflexivity|].
  rewrite mem_str_app, IH. cbn. rewrite orb_false_r. apply orb_comm.
Qed.

(* the placeholder shape the specification recognises *)
Definition is_ph (x : json) : option str :=
  match x with
  | JObj [(k, JStr d)] => if str_eqb k SD_LIST_PREFIX then Some d else None
  | _ => None
  end.

Lemma is_ph_none : forall em, obj_get SD_LIST_PREFIX em = None -> is_ph (JObj em) = None.
Proof.
  intros em G. destruct em as [|[k [| | |d| |]] [|? ?]]; try reflexivity.
  cbn [is_ph]. cbn [obj_get] in G. rewrite str_eqb_sym.
  destruct (str_eqb SD_LIST_PREFIX k); [discriminate | reflexivity].
Qed.

Lemma is_ph_ph : forall dg, is_ph (JObj [(SD_LIST_PREFIX, JStr dg)]) = Some dg.
Proof. intros. cbn [is_ph]. rewrite str_eqb_refl. reflexivity. Qed.

Section UnpackSteps.
  Variable dm : dmap.
  Variable jump go : json -> list str -> outcome (json * list str).

  Fixpoint u_elems (l : list json) (acc : list json) (seen : list str) {struct l} : outcome (json * list str) :=
    match l with
    | [] => Ok (JArr (rev acc), seen)
    | x :: l' =>
        let plain := do (r, s2) <- go x seen; u_elems l' (r :: acc) s2 in
        match x with
        | JObj em =>
            match obj_get SD_LIST_PREFIX em with
            | None => plain
            | Some dgv =>
                if Nat.ltb 1 (List.length em) then Err "placeholder object must contain only one key"
                else
                  match dgv with
                  | JStr dg =>
                      if mem_str dg seen then Err "DuplicateDigestError"
                      else
                        let seen' := seen ++ [dg] in
                        match dmap_get dg dm with
                        | None => u_elems l' acc seen'
                        | Some (JArr [_; value], _) =>
                            do (r, s2) <- jump value seen'; u_elems l' (r :: acc) s2
                        | Some (JArr _, _) => Err "array element disclosure must have two elements"
                        | Some (_, _) => Err "InvalidArrayDisclosureObject"
                        end
                  | _ => Err "digest is not a string"
                  end
            end
        | _ => plain
        end
    end.

  Fixpoint u_mems (m : members) (acc : members) (seen : list str) {struct m} : outcome (members * list str) :=
    match m with
    | [] => Ok (acc, seen)
    | (k, x) :: m' =>
        if str_eqb k SD_DIGESTS_KEY then u_mems m' acc seen
        else do (r, s2) <- go x seen; u_mems m' (obj_insert k r acc) s2
    end.

  Fixpoint u_digs (ds : list json) (pre : members) (seen : list str) {struct ds} : outcome (json * list str) :=
    match ds with
    | [] => Ok (JObj pre, seen)
    | d :: ds' =>
        match d with
        | JStr dg =>
            if mem_str dg seen then Err "DuplicateDigestError"
            else
              let seen' := seen ++ [dg] in
              match dmap_get dg dm with
              | None => u_digs ds' pre seen'
              | Some (JArr [_; JStr name; value], _) =>
                  if is_reserved_name name then Err "disclosed claim name is reserved"
                  else if obj_has name pre then Err "DuplicateKeyError"
                  else do (r, s2) <- jump value seen'; u_digs ds' (obj_insert name r pre) s2
              | Some (JArr [_; _; _], _) => Err "disclosed claim name is not a string"
              | Some (JArr _, _) => Err "object property disclosure must have three elements"
              | Some (_, _) => Err "InvalidArrayDisclosureObject"
              end
        | _ => Err "digest is not a string"
        end
    end.
End UnpackSteps.

Definition jump_of (dm : dmap) (fuel : nat) : json -> list str -> outcome (json * list str) :=
  match fuel with
  | O => fun _ _ => OutOfFuel
  | S f => unpack dm f
  end.

Lemma unpack_arr : forall dm fuel l seen,
  unpack dm fuel (JArr l) seen = u_elems dm (jump_of dm fuel) (unpack dm fuel) l [] seen.
Proof. intros. destruct fuel; reflexivity. Qed.

Lemma unpack_obj : forall dm fuel m seen,
  unpack dm fuel (JObj m) seen =
  (do (pre, seen1) <- u_mems (unpack dm fuel) m [] seen;
   match obj_get SD_DIGESTS_KEY m with
   | Some (JArr ds) => u_digs dm (jump_of dm fuel) ds pre seen1
   | _ => Ok (JObj pre, seen1)
   end).
Proof. intros. destruct fuel; reflexivity. Qed.

Definition is_container (v : json) : bool :=
  match v with JArr _ | JObj _ => true | _ => false end.

Lemma unpack_atom : forall dm fuel v seen,
  is_container v = false -> unpack dm fuel v seen = Ok (v, seen).
Proof. intros dm fuel v seen C. destruct fuel; destruct v; try discriminate; reflexivity. Qed.

Section SpecSteps.
  Variable dm : dtab.
  Variable enter go : json -> list str -> option (json * list str).

  Fixpoint s_elems (l : list json) (seen : list str) {struct l} : option (list json * list str) :=
    match l with
    | [] => Some ([], seen)
    | x :: l' =>
        let keep :=
          match go x seen with
          | Some (r, s2) => match s_elems l' s2 with Some (rs, s3) => Some (r :: rs, s3) | None => None end
          | None => None
          end in
        match x with
        | JObj [(k, JStr d)] =>
            if str_eqb k SD_LIST_PREFIX then
              if mem_str d seen then None
              else
                match dtab_get d dm with
                | None => s_elems l' (d :: seen)
                | Some (JArr [_; value]) =>
                    match enter value (d :: seen) with
                    | Some (r, s2) =>
                        match s_elems l' s2 with Some (rs, s3) => Some (r :: rs, s3) | None => None end
                    | None => None
                    end
                | Some _ => None
                end
            else keep
        | _ => keep
        end
    end.

  Fixpoint s_mems (m : members) (seen : list str) {struct m} : option (members * list str) :=
    match m with
    | [] => Some ([], seen)
    | (k, x) :: m' =>
        if str_eqb k SD_DIGESTS_KEY then s_mems m' seen
        else match go x seen with
             | Some (r, s2) =>
                 match s_mems m' s2 with Some (rs, s3) => Some ((k, r) :: rs, s3) | None => None end
             | None => None
             end
    end.

  Variable m : members.

  Fixpoint s_ins (ds : list str) (out : members) (seen : list str) {struct ds} : option (json * list str) :=
    match ds with
    | [] => Some (JObj out, seen)
    | d :: ds' =>
        if mem_str d seen then None
        else
          match dtab_get d dm with
          | None => s_ins ds' out (d :: seen)
          | Some (JArr [_; JStr name; value]) =>
              if str_eqb name SD_DIGESTS_KEY || str_eqb name SD_LIST_PREFIX then None
              else if obj_has name out || obj_has name m then None
              else match enter value (d :: seen) with
                   | Some (r, s2) => s_ins ds' (out ++ [(name, r)]) s2
                   | None => None
                   end
          | Some _ => None
          end
    end.
End SpecSteps.

Definition enter_of (dm : dtab) (fuel : nat) : json -> list str -> option (json * list str) :=
  match fuel with
  | O => fun _ _ => None
  | S f => spec_value dm f
  end.

Definition digests_of (m : members) : list str :=
  match obj_get SD_DIGESTS_KEY m with
  | Some (JArr ds) => match strings_of ds with Some l => l | None => [] end
  | _ => []
  end.

Lemma spec_arr : forall dm fuel l seen,
  spec_value dm fuel (JArr l) seen =
  match s_elems dm (enter_of dm fuel) (spec_value dm fuel) l seen with
  | Some (rs, s) => Some (JArr rs, s)
  | None => None
  end.
Proof. intros. destruct fuel; reflexivity. Qed.

Lemma spec_obj : forall dm fuel m seen,
  spec_value dm fuel (JObj m) seen =
  match s_mems (spec_value dm fuel) m seen with
  | None => None
  | Some (kept, seen1) => s_ins dm (enter_of dm fuel) m (digests_of m) kept seen1
  end.
Proof. intros. destruct fuel; reflexivity. Qed.

Lemma spec_atom : forall dm fuel v seen,
  is_container v = false -> spec_value dm fuel v seen = Some (v, seen).
Proof. intros dm fuel v seen C. destruct fuel; destruct v; try discriminate; reflexivity. Qed.

Lemma strings_of_cons : forall d l,
  strings_of (d :: l) =
  match d, strings_of l with JStr s, Some r => Some (s :: r) | _, _ => None end.
Proof. reflexivity. Qed.

(* one step of the specification's array loop, by the shape of the element *)
Lemma s_elems_cons : forall dm enter go x l' seen,
  s_elems dm enter go (x :: l') seen =
  match is_ph x with
  | Some d =>
      if mem_str d seen then None
      else
        match dtab_get d dm with
        | None => s_elems dm enter go l' (d :: seen)
        | Some (JArr [_; value]) =>
            match enter value (d :: seen) with
            | Some (r, s2) =>
                match s_elems dm enter go l' s2 with Some (rs, s3) => Some (r :: rs, s3) | None => None end
            | None => None
            end
        | Some _ => None
        end
  | None =>
      match go x seen with
      | Some (r, s2) =>
          match s_elems dm enter go l' s2 with Some (rs, s3) => Some (r :: rs, s3) | None => None end
      | None => None
      end
  end.
Proof.
  intros. destruct x as [| | | | |[|[k [| | |d| |]] [|? ?]]]; try reflexivity.
  cbn [s_elems is_ph]. destruct (str_eqb k SD_LIST_PREFIX); reflexivity.
Qed.

(* ---- inversion of one accepted step of the verifier's loops ---- *)
Section UnpackInv.
  Variable dm : dmap.
  Variable jump go : json -> list str -> outcome (json * list str).

  Lemma u_elems_cons_Ok : forall x l' acc seen r,
    u_elems dm jump go (x :: l') acc seen = Ok r ->
    ((is_ph x = None /\ (forall em, x = JObj em -> obj_get SD_LIST_PREFIX em = None)) /\
     exists rv s2, go x seen = Ok (rv, s2) /\ u_elems dm jump go l' (rv :: acc) s2 = Ok r) \/
    (exists dg, x = JObj [(SD_LIST_PREFIX, JStr dg)] /\ mem_str dg seen = false /\
       ((dmap_get dg dm = None /\ u_elems dm jump go l' acc (seen ++ [dg]) = Ok r) \/
        (exists s value t rv s2, dmap_get dg dm = Some (JArr [s; value], t) /\
            jump value (seen ++ [dg]) = Ok (rv, s2) /\ u_elems dm jump go l' (rv :: acc) s2 = Ok r))).
  Proof.
    intros x l' acc seen r E.
    assert (PL : (is_ph x = None /\ (forall em, x = JObj em -> obj_get SD_LIST_PREFIX em = None)) ->
                 (do (r0, s2) <- go x seen; u_elems dm jump go l' (r0 :: acc) s2) = Ok r ->
                 (is_ph x = None /\ (forall em, x = JObj em -> obj_get SD_LIST_PREFIX em = None)) /\
                 exists rv s2, go x seen = Ok (rv, s2) /\ u_elems dm jump go l' (rv :: acc) s2 = Ok r).
    { intros N E'. split; [exact N|]. inv_bind E'. destruct a as [rv s2]. exists rv, s2. split; assumption. }
    destruct x as [| b | n | s | l | em];
      try (left; apply PL; [split; [reflexivity | intros em C; discriminate C] | exact E]).
    cbn [u_elems] in E.
    destruct (obj_get SD_LIST_PREFIX em) as [dgv|] eqn:G.
    2:{ left. apply PL; [split; [apply is_ph_none; exact G | intros em' C; injection C as <-; exact G] | exact E]. }
    destruct (Nat.ltb 1 (List.length em)) eqn:L; [discriminate|].
    destruct em as [|[k v] [|? ?]]; [discriminate G | | cbn in L; discriminate L].
    cbn [obj_get] in G. destruct (str_eqb SD_LIST_PREFIX k) eqn:K; [|discriminate].
    apply str_eqb_eq in K. subst k. injection G as ->.
    destruct dgv as [| | |dg| |]; try discriminate E.
    right. exists dg. split; [reflexivity|].
    destruct (mem_str dg seen) eqn:M; [discriminate|]. split; [reflexivity|].
    destruct (dmap_get dg dm) as [[dv t]|] eqn:D.
    2:{ left. split; [reflexivity | exact E]. }
    right. destruct dv as [| | | |dl|]; try discriminate E.
    destruct dl as [|s [|value [|w dl]]]; try discriminate E.
    inv_bind E. destruct a as [rv s2]. exists s, value, t, rv, s2. repeat split; assumption.
  Qed.

  Lemma u_mems_cons_Ok : forall k x m' acc seen r,
    u_mems go ((k, x) :: m') acc seen = Ok r ->
    (k = SD_DIGESTS_KEY /\ u_mems go m' acc seen = Ok r) \/
    (k <> SD_DIGESTS_KEY /\
     exists rv s2, go x seen = Ok (rv, s2) /\ u_mems go m' (obj_insert k rv acc) s2 = Ok r).
  Proof.
    intros k x m' acc seen r E. cbn [u_mems] in E.
    destruct (str_eqb_spec k SD_DIGESTS_KEY) as [->|N].
    - left. split; [reflexivity | exact E].
    - right. split; [exact N|]. inv_bind E. destruct a as [rv s2]. exists rv, s2. split; assumption.
  Qed.

  Lemma u_digs_cons_Ok : forall d ds' pre seen r,
    u_digs dm jump (d :: ds') pre seen = Ok r ->
    exists dg, d = JStr dg /\ mem_str dg seen = false /\
      ((dmap_get dg dm = None /\ u_digs dm jump ds' pre (seen ++ [dg]) = Ok r) \/
       (exists s name value t rv s2,
           dmap_get dg dm = Some (JArr [s; JStr name; value], t) /\
           is_reserved_name name = false /\ obj_has name pre = false /\
           jump value (seen ++ [dg]) = Ok (rv, s2) /\
           u_digs dm jump ds' (obj_insert name rv pre) s2 = Ok r)).
  Proof.
    intros d ds' pre seen r E. cbn [u_digs] in E.
    destruct d as [| | |dg| |]; try discriminate E.
    exists dg. split; [reflexivity|].
    destruct (mem_str dg seen) eqn:M; [discriminate|]. split; [reflexivity|].
    destruct (dmap_get dg dm) as [[dv t]|] eqn:D.
    2:{ left. split; [reflexivity | exact E]. }
    right. destruct dv as [| | | |dl|]; try discriminate E.
    destruct dl as [|s [|nm [|value [|w dl]]]]; try discriminate E; try (destruct nm; discriminate E).
    destruct nm as [| | |name| |]; try discriminate E.
    destruct (is_reserved_name name) eqn:R; [discriminate|].
    destruct (obj_has name pre) eqn:O; [discriminate|].
    inv_bind E. destruct a as [rv s2]. exists s, name, value, t, rv, s2. repeat split; assumption.
  Qed.
End UnpackInv.

(* ------------------------------------------------------------------ *)
(* 2. refinement                                                        *)

Lemma wf_arr2 : forall s v, wf_json (JArr [s; v]) = true -> wf_json v = true.
Proof.
  intros s v W. change (wf_json s && (wf_json v && true) = true) in W.
  apply andb_true_iff in W as [_ W]. apply andb_true_iff in W as [W _]. exact W.
Qed.

Lemma wf_arr3 : forall s n v, wf_json (JArr [s; n; v]) = true -> wf_json v = true.
Proof.
  intros s n v W. change (wf_json s && (wf_json n && (wf_json v && true)) = true) in W.
  apply andb_true_iff in W as [_ W]. apply andb_true_iff in W as [_ W].
  apply andb_true_iff in W as [W _]. exact W.
Qed.

Lemma reserved_sd : is_reserved_name SD_DIGESTS_KEY = true.
Proof. reflexivity. Qed.
Lemma reserved_prefix : is_reserved_name SD_LIST_PREFIX = true.
Proof. reflexivity. Qed.

Section Refine.
  Variable dm : dmap.
  Hypothesis DMWF : dm_wf dm.
  Variable jump : json -> list str -> outcome (json * list str).
  Variable enter : json -> list str -> option (json * list str).
  Hypothesis J : forall value seen V seen', wf_json value = true ->
    jump value seen = Ok (V, seen') -> enter value (rev seen) = Some (V, rev seen').
  Variable gu : json -> list str -> outcome (json * list str).
  Variable gs : json -> list str -> option (json * list str).

  Definition Pgo (x : json) : Prop :=
    forall seen V seen', wf_json x = true ->
      gu x seen = Ok (V, seen') -> gs x (rev seen) = Some (V, rev seen').

  Lemma elems_ref : forall l, Forall Pgo l ->
    forall acc seen R seen', forallb wf_json l = true ->
    u_elems dm jump gu l acc seen = Ok (R, seen') ->
    exists rs, s_elems (tab_of dm) enter gs l (rev seen) = Some (rs, rev seen') /\
               R = JArr (rev acc ++ rs).
  Proof.
    induction l as [|x l IH]; intros F acc seen R seen' W E.
    - cbn in E. injection E as <- <-. exists []. split; [reflexivity | rewrite app_nil_r; reflexivity].
    - inversion F as [|? ? Px Fl]; subst. cbn [forallb] in W. apply andb_true_iff in W as [Wx Wl].
      rewrite s_elems_cons.
      apply u_elems_cons_Ok in E
        as [[[N _] [rv [s2 [G E]]]] | [dg [-> [M [[D E] | [s [value [t [rv [s2 [D [Jv E]]]]]]]]]]]].
      + rewrite N. rewrite (Px _ _ _ Wx G). destruct (IH Fl _ _ _ _ Wl E) as [rs [S ->]].
        rewrite S. exists (rv :: rs). split; [reflexivity|]. cbn [rev]. rewrite <- app_assoc. reflexivity.
      + rewrite is_ph_ph, mem_str_rev, M, dtab_get_tab_of, D. cbn [option_map].
        destruct (IH Fl _ _ _ _ Wl E) as [rs [S ->]]. rewrite rev_unit in S.
        exists rs. split; [exact S | reflexivity].
      + rewrite is_ph_ph, mem_str_rev, M, dtab_get_tab_of, D. cbn [option_map fst].
        assert (Wv : wf_json value = true). { apply DMWF in D. eapply wf_arr2; exact D. }
        apply J in Jv; [|exact Wv]. rewrite rev_unit in Jv. rewrite Jv.
        destruct (IH Fl _ _ _ _ Wl E) as [rs [S ->]]. rewrite S.
        exists (rv :: rs). split; [reflexivity|]. cbn [rev]. rewrite <- app_assoc. reflexivity.
  Qed.

  Lemma mems_ref : forall m, Forall (fun kv => Pgo (snd kv)) m ->
    forall acc seen pre seen1,
    keys_nodup m = true -> forallb (fun kv => wf_json (snd kv)) m = true ->
    (forall k, In k (keys m) -> k <> SD_DIGESTS_KEY -> ~ In k (keys acc)) ->
    u_mems gu m acc seen = Ok (pre, seen1) ->
    exists kept, s_mems gs m (rev seen) = Some (kept, rev seen1) /\ pre = acc ++ kept /\
                 (forall k, In k (keys m) -> k <> SD_DIGESTS_KEY -> In k (keys kept)).
  Proof.
    induction m as [|[k x] m IH]; intros F acc seen pre seen1 ND W DISJ E.
    - cbn in E. injection E as <- <-. exists []. repeat split;
        [rewrite app_nil_r; reflexivity | intros k []].
    - inversion F as [|? ? Px Fm]; subst. cbn [snd] in Px.
      cbn [keys_nodup] in ND. apply andb_true_iff in ND as [NDk ND].
      apply negb_true_iff in NDk. apply obj_has_false in NDk.
      cbn [forallb snd] in W. apply andb_true_iff in W as [Wx W].
      cbn [s_mems].
      apply u_mems_cons_Ok in E as [[-> E] | [N [rv [s2 [G E]]]]].
      + rewrite str_eqb_refl.
        destruct (IH Fm acc seen pre seen1 ND W) as [kept [S [P K]]].
        { intros k0 I. apply DISJ. right. exact I. }
        { exact E. }
        exists kept. repeat split; try assumption.
        intros k0 [<-|I] N0; [contradiction | apply K; assumption].
      + destruct (str_eqb_spec k SD_DIGESTS_KEY) as [C|_]; [contradiction|].
        rewrite (Px _ _ _ Wx G).
        assert (A : ~ In k (keys acc)). { apply DISJ; [left; reflexivity | exact N]. }
        rewrite (keys_insert_absent _ _ _ A) in E.
        destruct (IH Fm (acc ++ [(k, rv)]) s2 pre seen1 ND W) as [kept [S [P K]]].
        { intros k0 I N0. rewrite keys_app, in_app_iff. cbn. intros [C|[C|[]]].
          - revert C. apply DISJ; [right; exact I | exact N0].
          - subst. contradiction. }
        { exact E. }
        rewrite S. exists ((k, rv) :: kept). repeat split.
        * rewrite P, <- app_assoc. reflexivity.
        * intros k0 [<-|I] N0; [left; reflexivity | right; apply K; assumption].
  Qed.

  Lemma digs_ref : forall m ds pre seen R seen',
    (forall k, In k (keys m) -> k <> SD_DIGESTS_KEY -> In k (keys pre)) ->
    u_digs dm jump ds pre seen = Ok (R, seen') ->
    exists l, strings_of ds = Some l /\
              s_ins (tab_of dm) enter m l pre (rev seen) = Some (R, rev seen').
  Proof.
    intros m. induction ds as [|d ds IH]; intros pre seen R seen' K E.
    - cbn in E. injection E as <- <-. exists []. split; reflexivity.
    - apply u_digs_cons_Ok in E
        as [dg [-> [M [[D E] | [s [name [value [t [rv [s2 [D [RS [OH [Jv E]]]]]]]]]]]]]].
      + destruct (IH _ _ _ _ K E) as [l [SO S]]. exists (dg :: l). split.
        * rewrite strings_of_cons, SO. reflexivity.
        * cbn [s_ins]. rewrite mem_str_rev, M, dtab_get_tab_of, D. cbn [option_map].
          rewrite rev_unit in S. exact S.
      + assert (Wv : wf_json value = true). { apply DMWF in D. eapply wf_arr3; exact D. }
        apply J in Jv; [|exact Wv]. rewrite rev_unit in Jv.
        assert (A : ~ In name (keys pre)). { apply obj_has_false. exact OH. }
        rewrite (keys_insert_absent _ _ _ A) in E.
        destruct (IH (pre ++ [(name, rv)]) s2 R seen') as [l [SO S]].
        { intros k I N. rewrite keys_app, in_app_iff. left. apply K; assumption. }
        { exact E. }
        exists (dg :: l). split; [rewrite strings_of_cons, SO; reflexivity|].
        cbn [s_ins]. rewrite mem_str_rev, M, dtab_get_tab_of, D. cbn [option_map fst].
        assert (OM : obj_has name m = false).
        { apply obj_has_false. intros I. apply A. apply K; [exact I|].
          intros ->. rewrite reserved_sd in RS. discriminate. }
        unfold is_reserved_name in RS. rewrite RS, OH, OM. cbn [orb]. rewrite Jv. exact S.
  Qed.
End Refine.

Lemma refines_step : forall dm fuel, dm_wf dm ->
  (forall value seen V seen', wf_json value = true ->
     jump_of dm fuel value seen = Ok (V, seen') ->
     enter_of (tab_of dm) fuel value (rev seen) = Some (V, rev seen')) ->
  forall v, Pgo (unpack dm fuel) (spec_value (tab_of dm) fuel) v.
Proof.
  intros dm fuel DW J.
  assert (ATOM : forall v, is_container v = false -> Pgo (unpack dm fuel) (spec_value (tab_of dm) fuel) v).
  { intros v C seen V seen' W E. rewrite unpack_atom in E by exact C. injection E as <- <-.
    apply spec_atom. exact C. }
  induction v as [| b | n | s | l IH | m IH] using json_ind'; try (apply ATOM; reflexivity).
  - intros seen V seen' W E. rewrite unpack_arr in E.
    change (forallb wf_json l = true) in W.
    destruct (elems_ref dm DW _ _ J _ _ l IH [] seen V seen' W E) as [rs [S ->]].
    rewrite spec_arr, S. reflexivity.
  - intros seen V seen' W E. rewrite unpack_obj in E.
    change (keys_nodup m && forallb (fun kv => wf_json (snd kv)) m = true) in W.
    apply andb_true_iff in W as [ND W].
    inv_bind E. destruct a as [pre seen1].
    destruct (mems_ref _ _ m IH [] seen pre seen1 ND W) as [kept [S [P K]]].
    { intros k _ _ []. }
    { exact Ha. }
    cbn [app] in P. subst kept.
    rewrite spec_obj, S. unfold digests_of.
    destruct (obj_get SD_DIGESTS_KEY m) as [[| | | |ds|]|];
      try (injection E as <- <-; reflexivity).
    destruct (digs_ref dm DW _ _ J m ds pre seen1 V seen' K E) as [l [SO SI]].
    rewrite SO. exact SI.
Qed.

(* (1) the verifier's recursive disclosure processing refines the specification's:
   same claims, and the specification's digest list is the verifier's, reversed *)
Theorem unpack_refines_spec : forall dm fuel v seen V seen',
  wf_json v = true ->
  (forall d x t, dmap_get d dm = Some (x, t) -> wf_json x = true) ->
  unpack dm fuel v seen = Ok (V, seen') ->
  spec_value (tab_of dm) fuel v (rev seen) = Some (V, rev seen').
Proof.
  intros dm fuel. induction fuel as [|f IH]; intros v seen V seen' W DW E.
  - apply (refines_step dm 0 DW); try assumption.
    intros value s V0 s' _ E0. discriminate E0.
  - apply (refines_step dm (S f) DW); try assumption.
    intros value s V0 s' W0 E0. apply IH; assumption.
Qed.
Print Assumptions unpack_refines_spec.

Lemma alg_check_Ok : forall payload,
  match obj_get DIGEST_ALG_KEY payload with
  | Some (JStr a) => if str_eqb a DEFAULT_DIGEST_ALG then Ok tt else Err "Invalid hash algorithm"
  | Some _ => Err "Invalid hash algorithm"
  | None => Ok tt
  end = Ok tt ->
  match obj_get DIGEST_ALG_KEY payload with
  | Some (JStr a) => str_eqb a DEFAULT_DIGEST_ALG
  | Some _ => false
  | None => true
  end = true.
Proof.
  intros payload E. destruct (obj_get DIGEST_ALG_KEY payload) as [[| | |a| |]|]; try discriminate E; try reflexivity.
  destruct (str_eqb a DEFAULT_DIGEST_ALG); [reflexivity | discriminate E].
Qed.

(* (2) C08: whenever the verifier's extract_sd_claims accepts, so does the
   specification, with the same claims *)
Theorem C08_refines_spec : forall dm payload V,
  wf_json (JObj payload) = true ->
  (forall d x t, dmap_get d dm = Some (x, t) -> wf_json x = true) ->
  extract_sd_claims dm payload = Ok V ->
  spec_process payload (tab_of dm) = Some V.
Proof.
  intros dm payload V W DW E. unfold extract_sd_claims in E.
  inv_bind E. destruct a. apply alg_check_Ok in Ha.
  inv_bind E. destruct a as [claims s].
  apply (unpack_refines_spec dm _ _ [] claims s W DW) in Ha0. cbn [rev] in Ha0.
  unfold spec_process. rewrite Ha, tab_of_length, Ha0.
  destruct claims; injection E as <-; reflexivity.
Qed.
Print Assumptions C08_refines_spec.

(* (3) the verifier is never more lenient than the specification *)
Theorem C08_never_more_lenient : forall dm payload,
  wf_json (JObj payload) = true ->
  (forall d x t, dmap_get d dm = Some (x, t) -> wf_json x = true) ->
  spec_process payload (tab_of dm) = None ->
  forall V, extract_sd_claims dm payload <> Ok V.
Proof.
  intros dm payload W DW N V E. apply C08_refines_spec in E; try assumption. congruence.
Qed.
Print Assumptions C08_never_more_lenient.

(* ------------------------------------------------------------------ *)
(* 3. the accumulated digest list; well-formedness of the result        *)


(* [s'] extends [s], and stays duplicate-free when [s] is *)
Definition sext (s s' : list str) : Prop :=
  (exists ext, s' = s ++ ext) /\ (NoDup s -> NoDup s').

Lemma sext_refl : forall s, sext s s.
Proof. intros s. split; [exists []; rewrite app_nil_r; reflexivity | tauto]. Qed.

Lemma sext_trans : forall a b c, sext a b -> sext b c -> sext a c.
Proof.
  intros a b c [[e1 ->] N1] [[e2 ->] N2]. split; [|tauto].
  exists (e1 ++ e2). rewrite app_assoc. reflexivity.
Qed.

Lemma sext_snoc : forall s d, mem_str d s = false -> sext s (s ++ [d]).
Proof.
  intros s d M. split; [exists [d]; reflexivity|]. intros N.
  apply (Permutation_NoDup (Permutation_cons_append s d)). constructor; [|exact N].
  apply mem_str_not_In. exact M.
Qed.

Lemma sext_mem : forall s s' x, sext s s' -> mem_str x s = true -> mem_str x s' = true.
Proof. intros s s' x [[e ->] _] M. rewrite mem_str_app, M. reflexivity. Qed.

Lemma sext_mem_false : forall s s' x, sext s s' -> mem_str x s' = false -> mem_str x s = false.
Proof.
  intros s s' x X M. destruct (mem_str x s) eqn:E; [|reflexivity].
  rewrite (sext_mem _ _ _ X E) in M. discriminate.
Qed.

Lemma mem_snoc : forall s d, mem_str d (s ++ [d]) = true.
Proof. intros. rewrite mem_str_app. cbn. rewrite str_eqb_refl. apply orb_true_r. Qed.

Definition seen_ok (f : json -> list str -> outcome (json * list str)) (x : json) : Prop :=
  forall s r s', f x s = Ok (r, s') -> sext s s'.

Section SeenExt.
  Variable dm : dmap.
  Variable jump go : json -> list str -> outcome (json * list str).
  Hypothesis HJ : forall value, seen_ok jump value.

  (* one accepted step, keeping only what concerns the digest list *)
  Lemma u_elems_cons_next : forall x l' acc seen r,
    seen_ok go x ->
    u_elems dm jump go (x :: l') acc seen = Ok r ->
    exists acc2 seen2, u_elems dm jump go l' acc2 seen2 = Ok r /\ sext seen seen2 /\
      (forall dg, x = JObj [(SD_LIST_PREFIX, JStr dg)] ->
                  mem_str dg seen = false /\ mem_str dg seen2 = true).
  Proof.
    intros x l' acc seen r HG E.
    apply u_elems_cons_Ok in E
      as [[[N N'] [rv [s2 [G E]]]] | [dg [-> [M [[D E] | [s [value [t [rv [s2 [D [Jv E]]]]]]]]]]]].
    - exists (rv :: acc), s2. split; [exact E|]. split; [eapply HG; exact G|].
      intros dg ->. rewrite is_ph_ph in N. discriminate.
    - exists acc, (seen ++ [dg]). split; [exact E|]. split; [apply sext_snoc; exact M|].
      intros dg' C. injection C as <-. split; [exact M | apply mem_snoc].
    - exists (rv :: acc), s2. split; [exact E|]. apply HJ in Jv. split.
      + eapply sext_trans; [apply sext_snoc; exact M | exact Jv].
      + intros dg' C. injection C as <-. split; [exact M|].
        eapply sext_mem; [exact Jv | apply mem_snoc].
  Qed.

  Lemma u_digs_cons_next : forall d ds' pre seen r,
    u_digs dm jump (d :: ds') pre seen = Ok r ->
    exists dg pre2 seen2, d = JStr dg /\ u_digs dm jump ds' pre2 seen2 = Ok r /\
      sext seen seen2 /\ mem_str dg seen = false /\ mem_str dg seen2 = true.
  Proof.
    intros d ds' pre seen r E.
    apply u_digs_cons_Ok in E
      as [dg [-> [M [[D E] | [s [name [value [t [rv [s2 [D [RS [OH [Jv E]]]]]]]]]]]]]].
    - exists dg, pre, (seen ++ [dg]). split; [reflexivity|]. split; [exact E|].
      split; [apply sext_snoc; exact M|]. split; [exact M | apply mem_snoc].
    - apply HJ in Jv. exists dg, (obj_insert name rv pre), s2.
      split; [reflexivity|]. split; [exact E|]. split.
      + eapply sext_trans; [apply sext_snoc; exact M | exact Jv].
      + split; [exact M|]. eapply sext_mem; [exact Jv | apply mem_snoc].
  Qed.

  Lemma u_elems_sext : forall l, Forall (seen_ok go) l ->
    forall acc seen R seen', u_elems dm jump go l acc seen = Ok (R, seen') -> sext seen seen'.
  Proof.
    induction l as [|x l IH]; intros F acc seen R seen' E.
    - cbn in E. injection E as _ <-. apply sext_refl.
    - inversion F as [|? ? Hx Fl]; subst.
      apply (u_elems_cons_next _ _ _ _ _ Hx) in E as [acc2 [seen2 [E [X _]]]].
      eapply sext_trans; [exact X | eapply IH; [exact Fl | exact E]].
  Qed.

  Lemma u_mems_sext : forall m, Forall (fun kv => seen_ok go (snd kv)) m ->
    forall acc seen pre seen', u_mems go m acc seen = Ok (pre, seen') -> sext seen seen'.
  Proof.
    induction m as [|[k x] m IH]; intros F acc seen pre seen' E.
    - cbn in E. injection E as _ <-. apply sext_refl.
    - inversion F as [|? ? Hx Fm]; subst. cbn [snd] in Hx.
      apply u_mems_cons_Ok in E as [[-> E] | [N [rv [s2 [G E]]]]].
      + eapply IH; [exact Fm | exact E].
      + eapply sext_trans; [eapply Hx; exact G | eapply IH; [exact Fm | exact E]].
  Qed.

  Lemma u_digs_sext : forall ds pre seen R seen',
    u_digs dm jump ds pre seen = Ok (R, seen') -> sext seen seen'.
  Proof.
    induction ds as [|d ds IH]; intros pre seen R seen' E.
    - cbn in E. injection E as _ <-. apply sext_refl.
    - apply u_digs_cons_next in E as [dg [pre2 [seen2 [_ [E [X _]]]]]].
      eapply sext_trans; [exact X | eapply IH; exact E].
  Qed.

  (* every digest of an accepted `_sd` list was new and is recorded *)
  Lemma u_digs_seen : forall ds pre seen R seen',
    u_digs dm jump ds pre seen = Ok (R, seen') ->
    forall dg, In (JStr dg) ds -> mem_str dg seen = false /\ mem_str dg seen' = true.
  Proof.
    induction ds as [|d ds IH]; intros pre seen R seen' E dg I; [contradiction|].
    apply u_digs_cons_next in E as [dg0 [pre2 [seen2 [-> [E [X [M M2]]]]]]].
    destruct I as [C|I].
    - injection C as ->. split; [exact M|].
      eapply sext_mem; [eapply u_digs_sext; exact E | exact M2].
    - destruct (IH _ _ _ _ E dg I) as [A B]. split; [|exact B].
      eapply sext_mem_false; [exact X | exact A].
  Qed.

  Lemma u_digs_norepeat : forall a b dg pre seen r,
    u_digs dm jump (a ++ JStr dg :: b) pre seen = Ok r -> ~ In (JStr dg) b.
  Proof.
    induction a as [|x a IH]; intros b dg pre seen [R seen'] E I.
    - cbn [app] in E. apply u_digs_cons_next in E as [dg0 [pre2 [seen2 [C [E [X [M M2]]]]]]].
      injection C as <-. destruct (u_digs_seen _ _ _ _ _ E dg I) as [A _]. congruence.
    - cbn [app] in E. apply u_digs_cons_next in E as [dg0 [pre2 [seen2 [_ [E _]]]]].
      eapply IH; [exact E | exact I].
  Qed.

  Lemma u_elems_seen : forall l, Forall (seen_ok go) l ->
    forall acc seen R seen', u_elems dm jump go l acc seen = Ok (R, seen') ->
    forall dg, In (JObj [(SD_LIST_PREFIX, JStr dg)]) l ->
               mem_str dg seen = false /\ mem_str dg seen' = true.
  Proof.
    induction l as [|x l IH]; intros F acc seen R seen' E dg I; [contradiction|].
    inversion F as [|? ? Hx Fl]; subst.
    apply (u_elems_cons_next _ _ _ _ _ Hx) in E as [acc2 [seen2 [E [X PH]]]].
    destruct I as [C|I].
    - destruct (PH dg C) as [M M2]. split; [exact M|].
      eapply sext_mem; [eapply u_elems_sext; [exact Fl | exact E] | exact M2].
    - destruct (IH Fl _ _ _ _ E dg I) as [A B]. split; [|exact B].
      eapply sext_mem_false; [exact X | exact A].
  Qed.

  Lemma u_elems_norepeat : forall a b dg, Forall (seen_ok go) (a ++ JObj [(SD_LIST_PREFIX, JStr dg)] :: b) ->
    forall acc seen r,
    u_elems dm jump go (a ++ JObj [(SD_LIST_PREFIX, JStr dg)] :: b) acc seen = Ok r ->
    ~ In (JObj [(SD_LIST_PREFIX, JStr dg)]) b.
  Proof.
    induction a as [|x a IH]; intros b dg F acc seen [R seen'] E I; cbn [app] in E, F;
      inversion F as [|? ? Hx Fl]; subst;
      apply (u_elems_cons_next _ _ _ _ _ Hx) in E as [acc2 [seen2 [E [X PH]]]].
    - destruct (PH dg eq_refl) as [_ M2].
      destruct (u_elems_seen _ Fl _ _ _ _ E dg I) as [A _]. congruence.
    - eapply IH; [exact Fl | exact E | exact I].
  Qed.
End SeenExt.

Lemma unpack_seen_ok : forall dm fuel v, seen_ok (unpack dm fuel) v.
Proof.
  intros dm fuel. induction fuel as [|f IHf].
  - assert (HJ : forall value, seen_ok (jump_of dm 0) value).
    { intros value s r s' E. discriminate E. }
    induction v as [| b | n | s | l IH | m IH] using json_ind';
      try (intros s0 r s' E; rewrite unpack_atom in E by reflexivity; injection E as _ <-; apply sext_refl).
    + intros s r s' E. rewrite unpack_arr in E. eapply u_elems_sext; [exact HJ | exact IH | exact E].
    + intros s r s' E. rewrite unpack_obj in E. inv_bind E. destruct a as [pre s1].
      apply (u_mems_sext _ _ IH) in Ha.
      destruct (obj_get SD_DIGESTS_KEY m) as [[| | | |ds|]|];
        try (injection E as _ <-; exact Ha).
      eapply sext_trans; [exact Ha | eapply u_digs_sext; [exact HJ | exact E]].
  - assert (HJ : forall value, seen_ok (jump_of dm (S f)) value).
    { intros value. exact (IHf value). }
    induction v as [| b | n | s | l IH | m IH] using json_ind';
      try (intros s0 r s' E; rewrite unpack_atom in E by reflexivity; injection E as _ <-; apply sext_refl).
    + intros s r s' E. rewrite unpack_arr in E. eapply u_elems_sext; [exact HJ | exact IH | exact E].
    + intros s r s' E. rewrite unpack_obj in E. inv_bind E. destruct a as [pre s1].
      apply (u_mems_sext _ _ IH) in Ha.
      destruct (obj_get SD_DIGESTS_KEY m) as [[| | | |ds|]|];
        try (injection E as _ <-; exact Ha).
      eapply sext_trans; [exact Ha | eapply u_digs_sext; [exact HJ | exact E]].
Qed.

Lemma jump_seen_ok : forall dm fuel v, seen_ok (jump_of dm fuel) v.
Proof.
  intros dm [|f] v; [intros s r s' E; discriminate E | apply unpack_seen_ok].
Qed.

(* Step 4 of the draft, globally: the only way [seen] changes is by appending a
   digest that was checked to be absent, so the list of all digests followed
   (at any depth, including inside disclosed values) never repeats one. *)
Theorem unpack_seen_ext : forall dm fuel v seen V seen',
  unpack dm fuel v seen = Ok (V, seen') ->
  (exists ext, seen' = seen ++ ext) /\ (NoDup seen -> NoDup seen').
Proof. intros dm fuel v seen V seen' E. exact (unpack_seen_ok dm fuel v seen V seen' E). Qed.
Print Assumptions unpack_seen_ext.

(* ---- the result is well formed again ---- *)

Lemma keys_nodup_insert : forall k v m, keys_nodup m = true -> keys_nodup (obj_insert k v m) = true.
Proof.
  intros k v m N. apply keys_nodup_NoDup. apply keys_nodup_NoDup in N.
  destruct (in_dec str_eq_dec k (keys m)) as [I|I].
  - rewrite keys_insert_present by exact I. exact N.
  - rewrite keys_insert_absent by exact I. rewrite keys_app. cbn.
    apply (Permutation_NoDup (Permutation_cons_append (keys m) k)). constructor; assumption.
Qed.

Lemma vals_wf_insert : forall k v m, wf_json v = true ->
  forallb (fun kv => wf_json (snd kv)) m = true ->
  forallb (fun kv => wf_json (snd kv)) (obj_insert k v m) = true.
Proof.
  induction m as [|[k' v'] m IH]; intros Wv W; cbn [obj_insert forallb snd] in *.
  - rewrite Wv. reflexivity.
  - apply andb_true_iff in W as [W1 W2].
    destruct (str_eqb k k'); cbn [forallb snd]; apply andb_true_iff; split; auto.
Qed.

Lemma wf_obj_iff : forall m,
  wf_json (JObj m) = true <->
  keys_nodup m = true /\ forallb (fun kv => wf_json (snd kv)) m = true.
Proof.
  intros m. change (wf_json (JObj m)) with (keys_nodup m && forallb (fun kv => wf_json (snd kv)) m).
  apply andb_true_iff.
Qed.

Lemma wf_insert : forall k v m, wf_json (JObj m) = true -> wf_json v = true ->
  wf_json (JObj (obj_insert k v m)) = true.
Proof.
  intros k v m W Wv. apply wf_obj_iff in W as [N W]. apply wf_obj_iff. split.
  - apply keys_nodup_insert. exact N.
  - apply vals_wf_insert; assumption.
Qed.

Definition wf_ok (f : json -> list str -> outcome (json * list str)) (x : json) : Prop :=
  forall s r s', wf_json x = true -> f x s = Ok (r, s') -> wf_json r = true.

Section UnpackWf.
  Variable dm : dmap.
  Hypothesis DMWF : dm_wf dm.
  Variable jump go : json -> list str -> outcome (json * list str).
  Hypothesis HJ : forall value, wf_ok jump value.

  Lemma u_elems_wf : forall l, Forall (wf_ok go) l ->
    forall acc seen R seen', forallb wf_json l = true ->
    (forall a, In a acc -> wf_json a = true) ->
    u_elems dm jump go l acc seen = Ok (R, seen') -> wf_json R = true.
  Proof.
    induction l as [|x l IH]; intros F acc seen R seen' W A E.
    - cbn in E. injection E as <- _. change (forallb wf_json (rev acc) = true).
      apply forallb_forall. intros a I. apply in_rev in I. apply A. exact I.
    - inversion F as [|? ? Hx Fl]; subst. cbn [forallb] in W. apply andb_true_iff in W as [Wx Wl].
      apply u_elems_cons_Ok in E
        as [[_ [rv [s2 [G E]]]] | [dg [-> [M [[D E] | [s [value [t [rv [s2 [D [Jv E]]]]]]]]]]]].
      + apply (IH Fl _ _ _ _ Wl) in E; [exact E|].
        intros a [<-|I]; [eapply Hx; [exact Wx | exact G] | apply A; exact I].
      + apply (IH Fl _ _ _ _ Wl A) in E. exact E.
      + apply (IH Fl _ _ _ _ Wl) in E; [exact E|].
        intros a [<-|I]; [|apply A; exact I].
        eapply HJ; [|exact Jv]. apply DMWF in D. eapply wf_arr2; exact D.
  Qed.

  Lemma u_mems_wf : forall m, Forall (fun kv => wf_ok go (snd kv)) m ->
    forall acc seen pre seen', forallb (fun kv => wf_json (snd kv)) m = true ->
    wf_json (JObj acc) = true ->
    u_mems go m acc seen = Ok (pre, seen') -> wf_json (JObj pre) = true.
  Proof.
    induction m as [|[k x] m IH]; intros F acc seen pre seen' W A E.
    - cbn in E. injection E as <- _. exact A.
    - inversion F as [|? ? Hx Fm]; subst. cbn [snd] in Hx.
      cbn [forallb snd] in W. apply andb_true_iff in W as [Wx W].
      apply u_mems_cons_Ok in E as [[-> E] | [N [rv [s2 [G E]]]]].
      + eapply IH; [exact Fm | exact W | exact A | exact E].
      + eapply IH; [exact Fm | exact W | | exact E].
        apply wf_insert; [exact A | eapply Hx; [exact Wx | exact G]].
  Qed.

  Lemma u_digs_wf : forall ds pre seen R seen',
    wf_json (JObj pre) = true ->
    u_digs dm jump ds pre seen = Ok (R, seen') -> wf_json R = true.
  Proof.
    induction ds as [|d ds IH]; intros pre seen R seen' A E.
    - cbn in E. injection E as <- _. exact A.
    - apply u_digs_cons_Ok in E
        as [dg [-> [M [[D E] | [s [name [value [t [rv [s2 [D [RS [OH [Jv E]]]]]]]]]]]]]].
      + eapply IH; [exact A | exact E].
      + eapply IH; [|exact E]. apply wf_insert; [exact A|].
        eapply HJ; [|exact Jv]. apply DMWF in D. eapply wf_arr3; exact D.
  Qed.
End UnpackWf.

Lemma unpack_wf_step : forall dm fuel, dm_wf dm ->
  (forall value, wf_ok (jump_of dm fuel) value) -> forall v, wf_ok (unpack dm fuel) v.
Proof.
  intros dm fuel DW HJ.
  induction v as [| b | n | s | l IH | m IH] using json_ind';
    try (intros s0 r s' W E; rewrite unpack_atom in E by reflexivity; injection E as <- _; exact W).
  - intros s r s' W E. rewrite unpack_arr in E. change (forallb wf_json l = true) in W.
    eapply (u_elems_wf dm DW _ _ HJ l IH [] s r s' W); [|exact E]. intros a [].
  - intros s r s' W E. rewrite unpack_obj in E. inv_bind E. destruct a as [pre s1].
    apply wf_obj_iff in W as [_ W].
    apply (u_mems_wf _ m IH [] s pre s1 W eq_refl) in Ha.
    destruct (obj_get SD_DIGESTS_KEY m) as [[| | | |ds|]|];
      try (injection E as <- _; exact Ha).
    eapply (u_digs_wf dm DW _ HJ); [exact Ha | exact E].
Qed.

(* the claims returned by the verifier's processing have pairwise distinct member names *)
Theorem unpack_wf : forall dm fuel v seen V seen',
  wf_json v = true ->
  (forall d x t, dmap_get d dm = Some (x, t) -> wf_json x = true) ->
  unpack dm fuel v seen = Ok (V, seen') -> wf_json V = true.
Proof.
  intros dm fuel. induction fuel as [|f IH]; intros v seen V seen' W DW E.
  - eapply (unpack_wf_step dm 0 DW); [|exact W | exact E].
    intros value s r s' _ E0. discriminate E0.
  - eapply (unpack_wf_step dm (S f) DW); [|exact W | exact E].
    intros value s r s' W0 E0. eapply IH; [exact W0 | exact DW | exact E0].
Qed.
Print Assumptions unpack_wf.

(* (1) in the combined form: same claims, the specification's digest list is the
   verifier's reversed (hence the same membership), and the claims are well formed *)
Theorem unpack_refines_spec_full : forall dm fuel v seen V seen',
  wf_json v = true ->
  (forall d x t, dmap_get d dm = Some (x, t) -> wf_json x = true) ->
  unpack dm fuel v seen = Ok (V, seen') ->
  exists sseen',
    spec_value (tab_of dm) fuel v (rev seen) = Some (V, sseen') /\
    sseen' = rev seen' /\ (forall x, mem_str x sseen' = mem_str x seen') /\
    wf_json V = true.
Proof.
  intros dm fuel v seen V seen' W DW E. exists (rev seen'). split; [|split; [|split]].
  - apply unpack_refines_spec; assumption.
  - reflexivity.
  - intros x. apply mem_str_rev.
  - eapply unpack_wf; [exact W | exact DW | exact E].
Qed.
Print Assumptions unpack_refines_spec_full.

(* contrapositive: where the specification rejects, the verifier does not accept *)
Corollary unpack_not_Ok_of_spec_None : forall dm fuel v seen r,
  wf_json v = true ->
  (forall d x t, dmap_get d dm = Some (x, t) -> wf_json x = true) ->
  spec_value (tab_of dm) fuel v (rev seen) = None ->
  unpack dm fuel v seen <> Ok r.
Proof.
  intros dm fuel v seen [V seen'] W DW N E.
  apply unpack_refines_spec in E; try assumption. congruence.
Qed.

(* ------------------------------------------------------------------ *)
(* 4. the must-reject list of C08, directly from the definition of      *)
(*    [unpack]: no well-formedness premise, all inputs                  *)

Lemma all_seen_ok : forall dm fuel (l : list json), Forall (seen_ok (unpack dm fuel)) l.
Proof. intros. apply Forall_forall. intros x _. apply unpack_seen_ok. Qed.

Lemma all_seen_ok_m : forall dm fuel (m : members), Forall (fun kv => seen_ok (unpack dm fuel) (snd kv)) m.
Proof. intros. apply Forall_forall. intros x _. apply unpack_seen_ok. Qed.

(* ---- (a) a digest met a second time ---- *)

Lemma u_digs_dup_err : forall dm jump dg ds pre seen,
  mem_str dg seen = true ->
  u_digs dm jump (JStr dg :: ds) pre seen = Err "DuplicateDigestError".
Proof. intros dm jump dg ds pre seen M. cbn [u_digs]. rewrite M. reflexivity. Qed.

Lemma u_elems_dup_err : forall dm jump go dg l acc seen,
  mem_str dg seen = true ->
  u_elems dm jump go (JObj [(SD_LIST_PREFIX, JStr dg)] :: l) acc seen = Err "DuplicateDigestError".
Proof.
  intros dm jump go dg l acc seen M. cbn [u_elems obj_get]. rewrite str_eqb_refl.
  cbn [List.length Nat.ltb Nat.leb]. rewrite M. reflexivity.
Qed.

(* the specification rejects in the same two situations *)
Lemma s_ins_dup : forall dm enter m d ds out seen,
  mem_str d seen = true -> s_ins dm enter m (d :: ds) out seen = None.
Proof. intros dm enter m d ds out seen M. cbn [s_ins]. rewrite M. reflexivity. Qed.

Lemma s_elems_dup : forall dm enter go d l seen,
  mem_str d seen = true ->
  s_elems dm enter go (JObj [(SD_LIST_PREFIX, JStr d)] :: l) seen = None.
Proof. intros dm enter go d l seen M. rewrite s_elems_cons, is_ph_ph, M. reflexivity. Qed.

(* a digest already followed (anywhere before) occurs in the `_sd` list of the object *)
Theorem unpack_rejects_seen_sd_digest : forall dm fuel m ds dg seen r,
  obj_get SD_DIGESTS_KEY m = Some (JArr ds) -> In (JStr dg) ds -> mem_str dg seen = true ->
  unpack dm fuel (JObj m) seen <> Ok r.
Proof.
  intros dm fuel m ds dg seen [R seen'] G I M E. rewrite unpack_obj, G in E.
  inv_bind E. destruct a as [pre s1].
  assert (X : sext seen s1). { eapply u_mems_sext; [apply all_seen_ok_m | exact Ha]. }
  destruct (u_digs_seen _ _ (jump_seen_ok dm fuel) _ _ _ _ _ E dg I) as [A _].
  rewrite (sext_mem _ _ _ X M) in A. discriminate.
Qed.
Print Assumptions unpack_rejects_seen_sd_digest.

(* the same digest twice in one `_sd` list *)
Theorem unpack_rejects_repeated_sd_digest : forall dm fuel m a b dg seen r,
  obj_get SD_DIGESTS_KEY m = Some (JArr (a ++ JStr dg :: b)) -> In (JStr dg) b ->
  unpack dm fuel (JObj m) seen <> Ok r.
Proof.
  intros dm fuel m a b dg seen r G I E. rewrite unpack_obj, G in E.
  inv_bind E. destruct a0 as [pre s1].
  exact (u_digs_norepeat _ _ (jump_seen_ok dm fuel) _ _ _ _ _ _ E I).
Qed.
Print Assumptions unpack_rejects_repeated_sd_digest.

(* a digest already followed occurs in a placeholder of the array *)
Theorem unpack_rejects_seen_placeholder : forall dm fuel l dg seen r,
  In (JObj [(SD_LIST_PREFIX, JStr dg)]) l -> mem_str dg seen = true ->
  unpack dm fuel (JArr l) seen <> Ok r.
Proof.
  intros dm fuel l dg seen [R seen'] I M E. rewrite unpack_arr in E.
  destruct (u_elems_seen _ _ _ (jump_seen_ok dm fuel) _ (all_seen_ok dm fuel l) _ _ _ _ E dg I) as [A _].
  congruence.
Qed.
Print Assumptions unpack_rejects_seen_placeholder.

(* the same digest in two placeholders of one array *)
Theorem unpack_rejects_repeated_placeholder : forall dm fuel a b dg seen r,
  In (JObj [(SD_LIST_PREFIX, JStr dg)]) b ->
  unpack dm fuel (JArr (a ++ JObj [(SD_LIST_PREFIX, JStr dg)] :: b)) seen <> Ok r.
Proof.
  intros dm fuel a b dg seen r I E. rewrite unpack_arr in E.
  exact (u_elems_norepeat _ _ _ (jump_seen_ok dm fuel) _ _ _ (all_seen_ok dm fuel _) _ _ _ E I).
Qed.
Print Assumptions unpack_rejects_repeated_placeholder.

(* ---- (b), (d) what an accepted `_sd` list looks like ---- *)

Definition sd_entry_ok (dm : dmap) (has : str -> bool) (d : json) : Prop :=
  exists dg, d = JStr dg /\
    (dmap_get dg dm = None \/
     exists s n v t, dmap_get dg dm = Some (JArr [s; JStr n; v], t) /\
                     is_reserved_name n = false /\ has n = false).

Lemma u_digs_Ok_inv : forall dm jump ds pre seen r,
  u_digs dm jump ds pre seen = Ok r ->
  Forall (sd_entry_ok dm (fun n => obj_has n pre)) ds.
Proof.
  intros dm jump. induction ds as [|d ds IH]; intros pre seen r E; constructor.
  - apply u_digs_cons_Ok in E
      as [dg [-> [M [[D E] | [s [name [value [t [rv [s2 [D [RS [OH [Jv E]]]]]]]]]]]]]];
      exists dg; (split; [reflexivity|]); [left; exact D|].
    right. exists s, name, value, t. repeat split; assumption.
  - apply u_digs_cons_Ok in E
      as [dg [-> [M [[D E] | [s [name [value [t [rv [s2 [D [RS [OH [Jv E]]]]]]]]]]]]]].
    + eapply IH; exact E.
    + apply IH in E. eapply Forall_impl; [|exact E].
      intros d [dg' [-> [N|[s' [n' [v' [t' [D' [R' O']]]]]]]]]; exists dg'; (split; [reflexivity|]);
        [left; exact N|].
      right. exists s', n', v', t'. repeat split; try assumption.
      apply obj_has_false. apply obj_has_false in O'. intros I. apply O'.
      apply In_keys_insert. right. exact I.
Qed.

Lemma u_digs_app_Ok : forall dm jump a rest pre seen r,
  u_digs dm jump (a ++ rest) pre seen = Ok r ->
  exists pre2 seen2, u_digs dm jump rest pre2 seen2 = Ok r.
Proof.
  intros dm jump. induction a as [|x a IH]; intros rest pre seen r E.
  - exists pre, seen. exact E.
  - cbn [app] in E. apply u_digs_cons_Ok in E
      as [dg [-> [M [[D E] | [s [name [value [t [rv [s2 [D [RS [OH [Jv E]]]]]]]]]]]]]];
      eapply IH; exact E.
Qed.

Lemma u_mems_keys : forall go m acc seen pre s1,
  u_mems go m acc seen = Ok (pre, s1) ->
  forall k, In k (keys acc) \/ (In k (keys m) /\ k <> SD_DIGESTS_KEY) -> In k (keys pre).
Proof.
  intros go. induction m as [|[k0 x] m IH]; intros acc seen pre s1 E k I.
  - cbn in E. injection E as <- _. destruct I as [I|[[] _]]. exact I.
  - apply u_mems_cons_Ok in E as [[-> E] | [N [rv [s2 [G E]]]]].
    + eapply IH; [exact E|]. destruct I as [I|[[C|I] N]]; [left; exact I | | right; split; assumption].
      symmetry in C. contradiction.
    + eapply IH; [exact E|]. destruct I as [I|[[C|I] N']].
      * left. apply In_keys_insert. right. exact I.
      * left. apply In_keys_insert. left. symmetry. exact C.
      * right. split; assumption.
Qed.

(* every entry of an accepted `_sd` array is a string; if it names a disclosure,
   that is a three-element array with a string name that is not reserved and
   not a member name of the object *)
Theorem unpack_obj_sd_inv : forall dm fuel m ds seen r,
  obj_get SD_DIGESTS_KEY m = Some (JArr ds) ->
  unpack dm fuel (JObj m) seen = Ok r ->
  Forall (sd_entry_ok dm (fun n => obj_has n m)) ds.
Proof.
  intros dm fuel m ds seen r G E. rewrite unpack_obj, G in E. inv_bind E. destruct a as [pre s1].
  apply u_digs_Ok_inv in E. eapply Forall_impl; [|exact E].
  intros d [dg [-> [N|[s [n [v [t [D [R O]]]]]]]]]; exists dg; (split; [reflexivity|]); [left; exact N|].
  right. exists s, n, v, t. repeat split; try assumption.
  apply obj_has_false. apply obj_has_false in O. intros I. apply O.
  eapply u_mems_keys; [exact Ha|]. right. split; [exact I|].
  intros ->. rewrite reserved_sd in R. discriminate.
Qed.
Print Assumptions unpack_obj_sd_inv.

Lemma u_digs_bad_disclosure_err : forall dm jump dg ds pre seen x t,
  mem_str dg seen = false -> dmap_get dg dm = Some (x, t) ->
  (forall s n v, x <> JArr [s; JStr n; v]) ->
  exists e, u_digs dm jump (JStr dg :: ds) pre seen = Err e.
Proof.
  intros dm jump dg ds pre seen x t M D NS. cbn [u_digs]. rewrite M, D.
  destruct x as [| | | |dl|]; try (eexists; reflexivity).
  destruct dl as [|s [|nm [|value [|w dl]]]]; try (eexists; reflexivity);
    destruct nm; try (eexists; reflexivity).
  exfalso. eapply NS. reflexivity.
Qed.

(* (b) an `_sd`-referenced disclosure that is not [salt, string name, value] *)
Theorem unpack_rejects_bad_object_disclosure : forall dm fuel m ds dg x t seen r,
  obj_get SD_DIGESTS_KEY m = Some (JArr ds) -> In (JStr dg) ds ->
  dmap_get dg dm = Some (x, t) -> (forall s n v, x <> JArr [s; JStr n; v]) ->
  unpack dm fuel (JObj m) seen <> Ok r.
Proof.
  intros dm fuel m ds dg x t seen r G I D NS E.
  pose proof (unpack_obj_sd_inv _ _ _ _ _ _ G E) as F.
  rewrite Forall_forall in F. destruct (F _ I) as [dg' [C [N|[s [n [v [t' [D' _]]]]]]]];
    injection C as <-; rewrite D in *; [discriminate|].
  injection D' as -> _. eapply NS. reflexivity.
Qed.
Print Assumptions unpack_rejects_bad_object_disclosure.

(* an `_sd` array with an entry that is not a string (the specification ignores
   such a list; the verifier is stricter) *)
Theorem unpack_rejects_nonstring_sd_entry : forall dm fuel m ds d seen r,
  obj_get SD_DIGESTS_KEY m = Some (JArr ds) -> In d ds -> (forall dg, d <> JStr dg) ->
  unpack dm fuel (JObj m) seen <> Ok r.
Proof.
  intros dm fuel m ds d seen r G I NS E.
  pose proof (unpack_obj_sd_inv _ _ _ _ _ _ G E) as F.
  rewrite Forall_forall in F. destruct (F _ I) as [dg [C _]]. eapply NS. exact C.
Qed.
Print Assumptions unpack_rejects_nonstring_sd_entry.

Lemma u_digs_reserved_err : forall dm jump dg ds pre seen s n v t,
  mem_str dg seen = false -> dmap_get dg dm = Some (JArr [s; JStr n; v], t) ->
  n = SD_DIGESTS_KEY \/ n = SD_LIST_PREFIX ->
  u_digs dm jump (JStr dg :: ds) pre seen = Err "disclosed claim name is reserved".
Proof.
  intros dm jump dg ds pre seen s n v t M D R. cbn [u_digs]. rewrite M, D.
  replace (is_reserved_name n) with true; [reflexivity|].
  destruct R as [-> | ->]; reflexivity.
Qed.

Lemma u_digs_present_err : forall dm jump dg ds pre seen s n v t,
  mem_str dg seen = false -> dmap_get dg dm = Some (JArr [s; JStr n; v], t) ->
  is_reserved_name n = false -> obj_has n pre = true ->
  u_digs dm jump (JStr dg :: ds) pre seen = Err "DuplicateKeyError".
Proof.
  intros dm jump dg ds pre seen s n v t M D R O. cbn [u_digs]. rewrite M, D, R, O. reflexivity.
Qed.

(* (d) a disclosed name that is `_sd`, `...`, or a member name of the object *)
Theorem unpack_rejects_bad_name : forall dm fuel m ds dg s n v t seen r,
  obj_get SD_DIGESTS_KEY m = Some (JArr ds) -> In (JStr dg) ds ->
  dmap_get dg dm = Some (JArr [s; JStr n; v], t) ->
  n = SD_DIGESTS_KEY \/ n = SD_LIST_PREFIX \/ obj_has n m = true ->
  unpack dm fuel (JObj m) seen <> Ok r.
Proof.
  intros dm fuel m ds dg s n v t seen r G I D B E.
  pose proof (unpack_obj_sd_inv _ _ _ _ _ _ G E) as F.
  rewrite Forall_forall in F. destruct (F _ I) as [dg' [C [N|[s' [n' [v' [t' [D' [R O]]]]]]]]];
    injection C as <-; rewrite D in *; [discriminate|].
  injection D' as _ <- _ _.
  destruct B as [-> | [-> | B]]; [rewrite reserved_sd in R | rewrite reserved_prefix in R | ]; congruence.
Qed.
Print Assumptions unpack_rejects_bad_name.

(* (d) the same name disclosed by two digests of one `_sd` list *)
Theorem unpack_rejects_name_twice : forall dm fuel m a b d1 d2 s1 s2 n v1 v2 t1 t2 seen r,
  obj_get SD_DIGESTS_KEY m = Some (JArr (a ++ JStr d1 :: b)) -> In (JStr d2) b ->
  dmap_get d1 dm = Some (JArr [s1; JStr n; v1], t1) ->
  dmap_get d2 dm = Some (JArr [s2; JStr n; v2], t2) ->
  unpack dm fuel (JObj m) seen <> Ok r.
Proof.
  intros dm fuel m a b d1 d2 s1 s2 n v1 v2 t1 t2 seen r G I D1 D2 E.
  rewrite unpack_obj, G in E. inv_bind E. destruct a0 as [pre sn].
  apply u_digs_app_Ok in E as [pre2 [seen2 E]].
  apply u_digs_cons_Ok in E
    as [dg [C [M [[D E] | [s [name [value [t [rv [s2' [D [RS [OH [Jv E]]]]]]]]]]]]]];
    injection C as <-; rewrite D1 in D; [discriminate|].
  injection D as <- <- <- <-.
  apply u_digs_Ok_inv in E. rewrite Forall_forall in E.
  destruct (E _ I) as [dg' [C [N|[s' [n' [v' [t' [D' [R O]]]]]]]]];
    injection C as <-; rewrite D2 in *; [discriminate|].
  injection D' as _ <- _ _.
  apply obj_has_false in O. apply O. apply In_keys_insert. left. reflexivity.
Qed.
Print Assumptions unpack_rejects_name_twice.

(* ---- (c) what an accepted array looks like ---- *)

Definition ph_entry_ok (dm : dmap) (x : json) : Prop :=
  forall em dgv, x = JObj em -> obj_get SD_LIST_PREFIX em = Some dgv ->
    exists dg, em = [(SD_LIST_PREFIX, JStr dg)] /\
      (dmap_get dg dm = None \/ exists s v t, dmap_get dg dm = Some (JArr [s; v], t)).

Lemma u_elems_Ok_inv : forall dm jump go l acc seen r,
  u_elems dm jump go l acc seen = Ok r -> Forall (ph_entry_ok dm) l.
Proof.
  intros dm jump go. induction l as [|x l IH]; intros acc seen r E; constructor.
  - apply u_elems_cons_Ok in E
      as [[[N N'] [rv [s2 [G E]]]] | [dg [-> [M [[D E] | [s [value [t [rv [s2 [D [Jv E]]]]]]]]]]]];
      intros em dgv C O.
    + rewrite (N' _ C) in O. discriminate.
    + injection C as <-. exists dg. split; [reflexivity | left; exact D].
    + injection C as <-. exists dg. split; [reflexivity | right; exists s, value, t; exact D].
  - apply u_elems_cons_Ok in E
      as [[[N N'] [rv [s2 [G E]]]] | [dg [-> [M [[D E] | [s [value [t [rv [s2 [D [Jv E]]]]]]]]]]]];
      eapply IH; exact E.
Qed.

(* every element of an accepted array that is an object with a `...` member is
   exactly {"...": string}; if the string names a disclosure, that is a
   two-element array *)
Theorem unpack_arr_inv : forall dm fuel l seen r,
  unpack dm fuel (JArr l) seen = Ok r -> Forall (ph_entry_ok dm) l.
Proof. intros dm fuel l seen r E. rewrite unpack_arr in E. eapply u_elems_Ok_inv; exact E. Qed.
Print Assumptions unpack_arr_inv.

Lemma u_elems_bad_disclosure_err : forall dm jump go dg l acc seen x t,
  mem_str dg seen = false -> dmap_get dg dm = Some (x, t) ->
  (forall s v, x <> JArr [s; v]) ->
  exists e, u_elems dm jump go (JObj [(SD_LIST_PREFIX, JStr dg)] :: l) acc seen = Err e.
Proof.
  intros dm jump go dg l acc seen x t M D NS. cbn [u_elems obj_get]. rewrite str_eqb_refl.
  cbn [List.length Nat.ltb Nat.leb]. rewrite M, D.
  destruct x as [| | | |dl|]; try (eexists; reflexivity).
  destruct dl as [|s [|value [|w dl]]]; try (eexists; reflexivity).
  exfalso. eapply NS. reflexivity.
Qed.

(* (c) a `...`-referenced disclosure that is not a two-element array *)
Theorem unpack_rejects_bad_array_disclosure : forall dm fuel l dg x t seen r,
  In (JObj [(SD_LIST_PREFIX, JStr dg)]) l ->
  dmap_get dg dm = Some (x, t) -> (forall s v, x <> JArr [s; v]) ->
  unpack dm fuel (JArr l) seen <> Ok r.
Proof.
  intros dm fuel l dg x t seen r I D NS E. apply unpack_arr_inv in E.
  rewrite Forall_forall in E. destruct (E _ I _ (JStr dg) eq_refl) as [dg' [C [N|[s [v [t' D']]]]]].
  - cbn [obj_get]. rewrite str_eqb_refl. reflexivity.
  - injection C as <-. congruence.
  - injection C as <-. rewrite D in D'. injection D' as -> _. eapply NS. reflexivity.
Qed.
Print Assumptions unpack_rejects_bad_array_disclosure.

(* a placeholder object with further members, or with a non-string digest
   (the specification treats those as ordinary elements; the verifier is stricter) *)
Theorem unpack_rejects_odd_placeholder : forall dm fuel l em dgv seen r,
  In (JObj em) l -> obj_get SD_LIST_PREFIX em = Some dgv ->
  Nat.ltb 1 (List.length em) = true \/ (forall dg, dgv <> JStr dg) ->
  unpack dm fuel (JArr l) seen <> Ok r.
Proof.
  intros dm fuel l em dgv seen r I G B E. apply unpack_arr_inv in E.
  rewrite Forall_forall in E. destruct (E _ I _ _ eq_refl G) as [dg [-> _]].
  destruct B as [B|B]; [discriminate B|].
  cbn [obj_get] in G. rewrite str_eqb_refl in G. injection G as <-. eapply B. reflexivity.
Qed.
Print Assumptions unpack_rejects_odd_placeholder.

(* ---- (e) `_sd_alg` present and not "sha-256" ---- *)

Theorem extract_rejects_bad_alg : forall dm payload a,
  obj_get DIGEST_ALG_KEY payload = Some a -> a <> JStr DEFAULT_DIGEST_ALG ->
  extract_sd_claims dm payload = Err "Invalid hash algorithm".
Proof.
  intros dm payload a G N. unfold extract_sd_claims. rewrite G.
  destruct a as [| | |s| |]; try reflexivity.
  destruct (str_eqb_spec s DEFAULT_DIGEST_ALG) as [->|_]; [exfalso; apply N; reflexivity | reflexivity].
Qed.
Print Assumptions extract_rejects_bad_alg.

Theorem spec_rejects_bad_alg : forall dm payload a,
  obj_get DIGEST_ALG_KEY payload = Some a -> a <> JStr DEFAULT_DIGEST_ALG ->
  spec_process payload dm = None.
Proof.
  intros dm payload a G N. unfold spec_process. rewrite G.
  destruct a as [| | |s| |]; try reflexivity.
  destruct (str_eqb_spec s DEFAULT_DIGEST_ALG) as [->|_]; [exfalso; apply N; reflexivity | reflexivity].
Qed.

(* ------------------------------------------------------------------ *)
(* 5. the well-formedness premise is what the verifier really has       *)

Lemma wf_obj_append : forall l acc,
  wf_json (JObj acc) = true -> (forall kv, In kv l -> wf_json (snd kv) = true) ->
  wf_json (JObj (obj_append acc l)) = true.
Proof.
  unfold obj_append. induction l as [|[k v] l IH]; intros acc A W; cbn [fold_left fst snd]; [exact A|].
  apply IH.
  - apply wf_insert; [exact A|]. apply (W (k, v)). left. reflexivity.
  - intros kv I. apply W. right. exact I.
Qed.

Lemma dedup_wf : forall v, wf_json (dedup v) = true.
Proof.
  induction v as [| b | n | s | l IH | m IH] using json_ind'; try reflexivity.
  - change (forallb wf_json (map dedup l) = true). apply forallb_forall.
    intros x I. apply in_map_iff in I as [y [<- I]]. rewrite Forall_forall in IH. apply IH. exact I.
  - change (wf_json (JObj (obj_append [] (map (fun kv => (fst kv, dedup (snd kv))) m))) = true).
    apply wf_obj_append; [reflexivity|].
    intros kv I. apply in_map_iff in I as [y [<- I]]. cbn [snd].
    rewrite Forall_forall in IH. apply (IH y). exact I.
Qed.

Theorem parse_json_wf : forall text v, parse_json text = Some v -> wf_json v = true.
Proof.
  intros text v E. unfold parse_json in E. destruct (parse_json_raw text) as [raw|]; [|discriminate].
  injection E as <-. apply dedup_wf.
Qed.
Print Assumptions parse_json_wf.

Definition dm_all_wf (dm : dmap) : Prop := Forall (fun e => wf_json (fst (snd e)) = true) dm.

Lemma dm_all_wf_dm_wf : forall dm, dm_all_wf dm -> dm_wf dm.
Proof.
  unfold dm_wf. induction dm as [|[d' [x' t']] dm IH]; intros F d x t G; [discriminate G|].
  inversion F as [|? ? Hx Fl]; subst. cbn [dmap_get] in G.
  destruct (str_eqb d d'); [injection G as <- _; exact Hx | eapply IH; [exact Fl | exact G]].
Qed.

Lemma create_hash_mappings_all_wf : forall o ds acc dm,
  dm_all_wf acc -> create_hash_mappings o ds acc = Ok dm -> dm_all_wf dm.
Proof.
  intros o. induction ds as [|d ds IH]; intros acc dm A E; cbn [create_hash_mappings] in E.
  - injection E as <-. exact A.
  - destruct (base64url_decode_text d) as [text|]; [|discriminate].
    destruct (parse_json text) as [v|] eqn:P; [|discriminate].
    destruct (dmap_get (H o d) acc); [discriminate|].
    eapply IH; [|exact E]. apply Forall_app. split; [exact A|].
    constructor; [|constructor]. cbn [fst snd]. eapply parse_json_wf. exact P.
Qed.

(* every decoded disclosure stored by create_hash_mappings is well formed *)
Theorem create_hash_mappings_wf : forall o ds dm,
  create_hash_mappings o ds [] = Ok dm ->
  forall d x t, dmap_get d dm = Some (x, t) -> wf_json x = true.
Proof.
  intros o ds dm E. apply dm_all_wf_dm_wf. eapply create_hash_mappings_all_wf; [|exact E]. constructor.
Qed.
Print Assumptions create_hash_mappings_wf.

(* the payload returned by jwt_decode is well formed *)
Theorem jwt_decode_wf : forall o token k v now hd m,
  jwt_decode o token k v now = Ok (hd, m) -> wf_json (JObj m) = true.
Proof.
  intros o token k v now hd m E. unfold jwt_decode in E.
  destruct (alg_family (v_alg v)); [|discriminate].
  destruct (negb (family_eqb (kfam k) f)); [discriminate|].
  destruct (rsplit_dot token) as [[sg msg]|]; [|discriminate].
  destruct (rsplit_dot msg) as [[pl h]|]; [|discriminate].
  inv_bind E.
  destruct (negb (str_eqb (hd_alg a) (v_alg v))); [discriminate|].
  destruct (negb (sig_ok o (hd_alg a) k msg sg)); [discriminate|].
  destruct (base64url_decode_text pl) as [text|]; [|discriminate].
  destruct (parse_json_raw text) as [[| | | | |raw]|]; try discriminate.
  pose proof (dedup_wf (JObj raw)) as W.
  destruct (dedup (JObj raw)) as [| | | | |m']; try discriminate.
  inv_bind E. injection E as _ <-. exact W.
Qed.
Print Assumptions jwt_decode_wf.

(* (2) restated for the verifier's entry point: whenever [verify] returns claims,
   they are the claims the specification computes from the signed payload and
   the table of the presented disclosures *)
Theorem verify_refines_spec : forall o input resolver expected_aud expected_nonce fmt now V,
  verify o input resolver expected_aud expected_nonce fmt now = Ok V ->
  exists p dm k alg hd payload,
    parse_sd_jwt fmt input = Ok p /\
    create_hash_mappings o (p_disclosures p) [] = Ok dm /\
    jwt_decode o (p_jwt p) k (issuer_validation alg) now = Ok (hd, payload) /\
    extract_sd_claims dm payload = Ok V /\
    spec_process payload (tab_of dm) = Some V.
Proof.
  intros o input resolver ea en fmt now V E. unfold verify in E.
  inv_bind E. rename a into p, Ha into Hp.
  inv_bind E. rename a into dm, Ha into Hdm.
  inv_bind E. rename a into hd0, Ha into Hhd.
  inv_bind E. rename a into iss, Ha into Hiss.
  inv_bind E. rename a into alg, Ha into Halg.
  inv_bind E. destruct a as [hd payload]. rename Ha into Hdec.
  inv_bind E. rename a into claims, Ha into Hex.
  assert (C : claims = V).
  { destruct ea, en; try discriminate E.
    - inv_bind E. injection E as <-. reflexivity.
    - injection E as <-. reflexivity. }
  subst claims.
  exists p, dm, (resolver iss (hd_json hd0)), alg, hd, payload.
  repeat split; try assumption.
  apply C08_refines_spec; [eapply jwt_decode_wf; exact Hdec | | exact Hex].
  eapply create_hash_mappings_wf. exact Hdm.
Qed.
Print Assumptions verify_refines_spec.

(* ------------------------------------------------------------------ *)
(* Non-vacuity                                                          *)

Definition ex_dm : dmap :=
  [ (lit "D1", (JArr [JStr (lit "salt1"); JStr (lit "given_name"); JStr (lit "Alice")], lit "t1"));
    (lit "D2", (JArr [JStr (lit "salt2"); JObj [(lit "country", JStr (lit "DE"))]], lit "t2")) ].

Definition ex_payload : members :=
  [ (lit "iss", JStr (lit "https://issuer.example"));
    (lit "_sd_alg", JStr (lit "sha-256"));
    (lit "_sd", JArr [JStr (lit "D1"); JStr (lit "decoy")]);
    (lit "nationalities", JArr [JStr (lit "US"); JObj [(lit "...", JStr (lit "D2"))];
                                JObj [(lit "...", JStr (lit "unknown"))]]) ].

Definition ex_claims : json :=
  JObj [ (lit "iss", JStr (lit "https://issuer.example"));
         (lit "nationalities", JArr [JStr (lit "US"); JObj [(lit "country", JStr (lit "DE"))]]);
         (lit "given_name", JStr (lit "Alice")) ].

Example ex_premises :
  wf_json (JObj ex_payload) = true /\
  (forall d x t, dmap_get d ex_dm = Some (x, t) -> wf_json x = true).
Proof.
  split; [vm_compute; reflexivity|].
  apply dm_all_wf_dm_wf. repeat constructor.
Qed.

Example ex_both_accept :
  extract_sd_claims ex_dm ex_payload = Ok ex_claims /\
  spec_process ex_payload (tab_of ex_dm) = Some ex_claims.
Proof. vm_compute. split; reflexivity. Qed.

Example ex_unpack_refines :
  exists V seen',
    unpack ex_dm 3 (JObj ex_payload) [] = Ok (V, seen') /\
    seen' = [lit "D2"; lit "unknown"; lit "D1"; lit "decoy"] /\
    spec_value (tab_of ex_dm) 3 (JObj ex_payload) (rev []) = Some (V, rev seen').
Proof.
  destruct (unpack ex_dm 3 (JObj ex_payload) []) as [[V seen']| | | |] eqn:E;
    try (vm_compute in E; discriminate E).
  exists V, seen'. split; [reflexivity|].
  assert (E2 := E). vm_compute in E2. injection E2 as <- <-.
  split; [reflexivity|]. vm_compute. reflexivity.
Qed.

(* the theorems apply to the example (their premises are satisfiable) *)
Example ex_C08_applies : spec_process ex_payload (tab_of ex_dm) = Some ex_claims.
Proof.
  destruct ex_premises as [W DW].
  apply C08_refines_spec; [exact W | exact DW | vm_compute; reflexivity].
Qed.

(* the verifier is strictly stricter: a non-string entry in `_sd` *)
Example ex_stricter :
  let p := [(lit "_sd", JArr [JNum (lit "1")]); (lit "a", JBool true)] in
  wf_json (JObj p) = true /\
  extract_sd_claims [] p = Err "digest is not a string" /\
  spec_process p (tab_of []) = Some (JObj [(lit "a", JBool true)]).
Proof. vm_compute. repeat split; reflexivity. Qed.

(* both reject: a digest listed twice; a digest in `_sd` and again in a placeholder;
   a disclosure of the wrong shape; a reserved or already present name; a foreign `_sd_alg` *)
Example ex_reject_repeated :
  let p := [(lit "_sd", JArr [JStr (lit "D1"); JStr (lit "D1")])] in
  extract_sd_claims ex_dm p = Err "DuplicateDigestError" /\ spec_process p (tab_of ex_dm) = None.
Proof. vm_compute. split; reflexivity. Qed.

Example ex_reject_cross :
  let p := [(lit "x", JArr [JObj [(lit "...", JStr (lit "D2"))]]);
            (lit "y", JArr [JObj [(lit "...", JStr (lit "D2"))]])] in
  extract_sd_claims ex_dm p = Err "DuplicateDigestError" /\ spec_process p (tab_of ex_dm) = None.
Proof. vm_compute. split; reflexivity. Qed.

Example ex_reject_shape :
  let p1 := [(lit "_sd", JArr [JStr (lit "D2")])] in
  let p2 := [(lit "x", JArr [JObj [(lit "...", JStr (lit "D1"))]])] in
  is_err (extract_sd_claims ex_dm p1) = true /\ spec_process p1 (tab_of ex_dm) = None /\
  is_err (extract_sd_claims ex_dm p2) = true /\ spec_process p2 (tab_of ex_dm) = None.
Proof. vm_compute. repeat split; reflexivity. Qed.

Example ex_reject_name :
  let dm := [(lit "R", (JArr [JStr (lit "s"); JStr (lit "_sd"); JNull], lit "t"));
             (lit "P", (JArr [JStr (lit "s"); JStr (lit "a"); JNull], lit "t"))] in
  let p1 := [(lit "_sd", JArr [JStr (lit "R")])] in
  let p2 := [(lit "_sd", JArr [JStr (lit "P")]); (lit "a", JBool true)] in
  extract_sd_claims dm p1 = Err "disclosed claim name is reserved" /\ spec_process p1 (tab_of dm) = None /\
  extract_sd_claims dm p2 = Err "DuplicateKeyError" /\ spec_process p2 (tab_of dm) = None.
Proof. vm_compute. repeat split; reflexivity. Qed.

Example ex_reject_alg :
  let p := [(lit "_sd_alg", JStr (lit "sha-512"))] in
  extract_sd_claims ex_dm p = Err "Invalid hash algorithm" /\ spec_process p (tab_of ex_dm) = None.
Proof. vm_compute. split; reflexivity. Qed.

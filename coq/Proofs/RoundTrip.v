(* Proofs/RoundTrip.v — C01, the end-to-end round trip: an SD-JWT produced by the
   model issuer (Model/Issuer.v [issue]), presented by the model holder
   (Model/Holder.v [holder_new], [present]) and checked by the model verifier
   (Model/Verifier.v [verify]) is accepted, and the verified claims are the issued
   claims with exactly the unselected selectively-disclosable members / elements
   removed.

   Main theorems (each followed by Print Assumptions; Module Example at the end
   checks every premise on a concrete credential and confirms the runs by vm_compute)
     C01_roundtrip_compact   Compact serialisation, no key binding
     C01_roundtrip_json      JSON serialisation, no key binding
     C01_roundtrip_kb        Compact, holder key in cnf, KB-JWT made and verified
     C01_roundtrip_kb_json   the same in the JSON serialisation
     C01_select_nothing      sel = []: the bare JWT; the always-visible part
     C01_select_all          a selection designating every hidden node gives the
                             user's claims back (jequiv (JObj m))
     C01_no_marker           the result has no _sd / ... member at any depth and no
                             top-level _sd_alg
   Shape of the statements: from [issue ... = Ok (i, r')] there is a digest tree
   D = DObj (ms ++ map embed_member (top_members m hj)) sdl (the tree of
   IssuerBuild.issue_builds; [tree_of] lists what is known about it) such that for
   EVERY selection consistent with flags D
     holder_new accepts the issued text, present returns the JWT followed by the
     texts [text_at dg] of the designated digests (WalkSel.designated_d), in order,
     each the genuine disclosure of that digest, pairwise distinct, and verify
     returns V with  jequiv V (verified_claims (fun dg => mem_str dg desig) D),
   where verified_claims has D = view_d has D without the member _sd_alg.

   Premises (all explicit): [oracle_ok] (H injective; H of an ASCII text is a Rust
   string; signatures verify and contain neither '.' nor '~'), [rng_ok] (normal
   build, pairwise distinct salts, each 22 ASCII characters that need no JSON
   escaping), [claims_ok] (well-formed, strings/names are Rust strings, number
   lexemes are JSON numbers, at most 126 nested containers, no member _sd_alg),
   [jwt_claims_ok] (iss a string, exp an unsigned integer lexeme with
   now <= exp + 60, no aud, sub absent / null / a string, nbf absent, unparsable,
   or <= now + 60), the resolver returns the issuer key; for key binding also
   [holder_jwk_ok], jwk_key o jwk = Some hk, the KB algorithm of the key's family,
   nonce and aud Rust strings, and ASCII signatures.

   The file composes the finished developments
     IssuerBuild   (issue builds a digest tree D)
     JsonRoundtrip / DisclosureCodec (print / parse, base64url round trips)
     UnpackView    (unpack computes view_d)
     WalkSel       (walk returns the designated disclosures)
     VerifierFacts (validate accepts inside the window; verify = parse; verify_parsed)
   bottom-up: string splitting, base64url texts, digest trees (the payload is
   printable), digest maps of issued disclosures, the JWT layer, issue inversion,
   Section Issued (holder_new, present, verify_parsed on the issued credential). *)
From SDJWT Require Import Base.Json Base.JsonFacts Params Codec.Base64 Codec.Utf8 Codec.JsonPrint Codec.JsonParse
  Codec.DisclosureText Model.Common Model.Issuer Model.Holder Model.Jwt Model.Verifier
  Spec.Path Spec.View Proofs.Build.
From SDJWT Require Proofs.IssuerBuild Proofs.UnpackView Proofs.WalkSel Proofs.DisclosureCodec
  Proofs.JsonRoundtrip Proofs.VerifierFacts Proofs.HolderFacts Proofs.JsonLaxFacts.
From Coq Require Import Permutation Lia PeanoNat.

(* ================================================================== *)
(*  0. splitting and joining                                           *)
(* ================================================================== *)

Lemma split_on_aux_free_all : forall sep a cur, ~ In sep a -> split_on_aux sep a cur = [rev cur ++ a].
Proof.
  intros sep. induction a as [|c a IH]; intros cur F; cbn [split_on_aux].
  - rewrite app_nil_r. reflexivity.
  - destruct (N.eqb_spec c sep) as [E|E]; [exfalso; apply F; left; exact E|].
    rewrite IH by (intros C; apply F; right; exact C). cbn [rev]. rewrite <- app_assoc. reflexivity.
Qed.

Lemma split_on_aux_piece : forall sep a rest cur, ~ In sep a ->
  split_on_aux sep (a ++ sep :: rest) cur = (rev cur ++ a) :: split_on_aux sep rest [].
Proof.
  intros sep. induction a as [|c a IH]; intros rest cur F; cbn [split_on_aux app].
  - rewrite N.eqb_refl, app_nil_r. reflexivity.
  - destruct (N.eqb_spec c sep) as [E|E]; [exfalso; apply F; left; exact E|].
    rewrite IH by (intros C; apply F; right; exact C). cbn [rev]. rewrite <- app_assoc. reflexivity.
Qed.

Lemma split_on_piece : forall sep a rest, ~ In sep a ->
  split_on sep (a ++ sep :: rest) = a :: split_on sep rest.
Proof. intros. unfold split_on. rewrite split_on_aux_piece by assumption. reflexivity. Qed.

Lemma split_on_concat : forall sep l, Forall (fun x => ~ In sep x) l ->
  split_on sep (List.concat (map (fun s => s ++ [sep]) l)) = l ++ [[]].
Proof.
  intros sep. induction l as [|x l IH]; intros F; [reflexivity|].
  inversion F as [|? ? Fx Fl]; subst. cbn [map List.concat]. rewrite <- app_assoc. cbn [app].
  rewrite split_on_piece by exact Fx. rewrite IH by exact Fl. reflexivity.
Qed.

(* the Compact serialisation splits back into its pieces *)
Lemma split_tilde_join : forall j ds, ~ In 126 j -> Forall (fun x => ~ In 126 x) ds ->
  split_on 126 (join_with [126] (j :: ds) ++ [126]) = j :: ds ++ [[]].
Proof.
  intros j ds Fj Fd. rewrite HolderFacts.join_tilde_concat.
  rewrite split_on_concat by (constructor; assumption). reflexivity.
Qed.

Lemma split_last_snoc : forall {A} (l : list A) z, split_last (l ++ [z]) = Some (l, z).
Proof.
  induction l as [|x l IH]; intros z; [reflexivity|].
  cbn [app split_last]. rewrite IH. destruct (l ++ [z]) eqn:E; [destruct l; discriminate | reflexivity].
Qed.

Lemma join_with_snoc_empty : forall (sep x : str) (l : list str),
  join_with sep (x :: l ++ [([] : str)]) = join_with sep (x :: l) ++ sep.
Proof.
  intros sep x l. revert x. induction l as [|y l IH]; intros x.
  - cbn [app join_with]. rewrite app_nil_r. reflexivity.
  - cbn [app]. rewrite !HolderFacts.join_with_cons2. rewrite IH. rewrite <- !app_assoc. reflexivity.
Qed.

(* rsplitn(2, '.') splits at the last dot *)
Lemma rsplit_dot_aux_free : forall b best pre, ~ In 46 b -> rsplit_dot_aux b best pre = best.
Proof.
  induction b as [|c b IH]; intros best pre F; [reflexivity|]. cbn [rsplit_dot_aux].
  destruct (N.eqb_spec c 46) as [E|E]; [exfalso; apply F; left; exact E|].
  apply IH. intros C. apply F. right. exact C.
Qed.

Lemma rsplit_dot_aux_last : forall a b best pre, ~ In 46 b ->
  rsplit_dot_aux (a ++ 46 :: b) best pre = Some (b, rev pre ++ a).
Proof.
  induction a as [|c a IH]; intros b best pre F; cbn [app rsplit_dot_aux].
  - cbn [N.eqb Pos.eqb]. rewrite rsplit_dot_aux_free by exact F. rewrite app_nil_r. reflexivity.
  - destruct (N.eqb c 46); rewrite IH by exact F; cbn [rev]; rewrite <- app_assoc; reflexivity.
Qed.

Lemma rsplit_dot_last : forall a b, ~ In 46 b -> rsplit_dot (a ++ 46 :: b) = Some (b, a).
Proof. intros a b F. unfold rsplit_dot. rewrite rsplit_dot_aux_last by exact F. reflexivity. Qed.

(* ================================================================== *)
(*  1. base64url texts                                                 *)
(* ================================================================== *)

Lemma b64url_no_sep : forall t c, JsonRoundtrip.scalar_str t = true ->
  In c (base64url_encode_str t) -> c <> 126 /\ c <> 46.
Proof.
  intros t c S I. unfold base64url_encode_str in I.
  apply JsonRoundtrip.scalar_str_scalars in S.
  destruct (b64_encode_no_sep (utf8_encode t) c (utf8_encode_bytes t S) I) as (A & B & _).
  split; assumption.
Qed.

Lemma b64url_no_tilde : forall t, JsonRoundtrip.scalar_str t = true -> ~ In 126 (base64url_encode_str t).
Proof. intros t S C. destruct (b64url_no_sep t 126 S C) as [A _]. apply A. reflexivity. Qed.

Lemma b64url_no_dot : forall t, JsonRoundtrip.scalar_str t = true -> ~ In 46 (base64url_encode_str t).
Proof. intros t S C. destruct (b64url_no_sep t 46 S C) as [_ A]. apply A. reflexivity. Qed.

(* base64url output is 7-bit ASCII whatever the input *)
Definition ascii (x : str) : Prop := Forall (fun c => c < 128) x.

Lemma b64_char_ascii : forall s, b64_char s < 128.
Proof.
  intros s. unfold b64_char.
  destruct (N.ltb_spec s 26); [lia|]. destruct (N.ltb_spec s 52); [lia|].
  destruct (N.ltb_spec s 62); [lia|]. destruct (N.eqb s 62); lia.
Qed.

Lemma b64_encode_ascii : forall bs, ascii (b64_encode bs).
Proof.
  unfold ascii. induction bs as [| a | a b | a b c0 r IH] using list_ind3.
  - constructor.
  - rewrite b64_encode_1. repeat constructor; apply b64_char_ascii.
  - rewrite b64_encode_2. repeat constructor; apply b64_char_ascii.
  - rewrite b64_encode_3. repeat (constructor; [apply b64_char_ascii|]). exact IH.
Qed.

Lemma ascii_scalar : forall x, ascii x -> JsonRoundtrip.scalar_str x = true.
Proof.
  intros x A. unfold JsonRoundtrip.scalar_str. apply forallb_forall. intros c Ic.
  apply JsonRoundtrip.scalar_ascii. unfold ascii in A. rewrite Forall_forall in A. apply A. exact Ic.
Qed.

(* the printed text of a good value is a Rust String, and decodes back *)
Lemma print_scalar : forall v, JsonRoundtrip.vok JsonRoundtrip.scalar_str v = true ->
  JsonRoundtrip.scalar_str (print v) = true.
Proof. intros v V. unfold print. rewrite JsonRoundtrip.scalar_print_k by exact V. reflexivity. Qed.

Lemma b64_print_decode : forall v, JsonRoundtrip.vok JsonRoundtrip.scalar_str v = true ->
  base64url_decode_text (base64url_encode_str (print v)) = Some (print v).
Proof. intros v V. apply DisclosureCodec.base64url_text_roundtrip. apply print_scalar. exact V. Qed.

Lemma payload_decode_print : forall m,
  JsonRoundtrip.val_ok (JObj m) = true -> wf_json (JObj m) = true ->
  jwt_payload_decode (base64url_encode_str (print (JObj m))) = Ok m.
Proof.
  intros m V W. unfold jwt_payload_decode.
  pose proof V as V'. apply JsonRoundtrip.val_ok_at_spec in V' as [V1 _].
  rewrite b64_print_decode by exact V1.
  rewrite JsonRoundtrip.parse_json_print by assumption. reflexivity.
Qed.

(* ================================================================== *)
(*  2. digest trees: the payload is printable, the view is clean       *)
(* ================================================================== *)

Notation sstr := JsonRoundtrip.scalar_str.
Notation vokS := (JsonRoundtrip.vok JsonRoundtrip.scalar_str).
Notation jnd := JsonRoundtrip.nd.

Lemma sstr_sd_key : sstr SD_DIGESTS_KEY = true. Proof. reflexivity. Qed.
Lemma sstr_sd_prefix : sstr SD_LIST_PREFIX = true. Proof. reflexivity. Qed.

Lemma vok_strs : forall l, forallb vokS (map JStr l) = forallb sstr l.
Proof. induction l as [|x l IH]; [reflexivity|]. cbn [map forallb JsonRoundtrip.vok]. rewrite IH. reflexivity. Qed.

Lemma claims_arr : forall es, claims_of (DArr es) = JArr (map (fun e => claims_of (snd e)) es).
Proof. reflexivity. Qed.
Lemma claims_obj : forall ms sdl,
  claims_of (DObj ms sdl) = JObj (map (fun kv => (fst kv, claims_of (snd (snd kv)))) ms).
Proof. reflexivity. Qed.

Lemma vok_payload : forall d, vokS (claims_of d) = true ->
  (forall dg, In dg (all_digests d) -> sstr dg = true) -> vokS (payload_of d) = true.
Proof.
  induction d as [v|es IH|ms sdl IH] using dtree_ind'; intros V G.
  - exact V.
  - rewrite UnpackView.payload_arr. rewrite claims_arr in V. cbn [JsonRoundtrip.vok] in V |- *.
    rewrite forallb_forall in V. apply forallb_forall. intros x Ix.
    apply in_map_iff in Ix as [e [<- Ie]]. rewrite Forall_forall in IH.
    assert (Ga : forall dg, In dg (UnpackView.edig e ++ all_digests (snd e)) -> sstr dg = true).
    { intros dg I. apply G. rewrite UnpackView.all_digests_arr. apply in_flat_map. exists e. split; assumption. }
    unfold UnpackView.pelem. unfold UnpackView.edig in Ga. destruct (fst e) as [[salt dg]|].
    + unfold placeholder. cbn [JsonRoundtrip.vok forallb fst snd].
      rewrite sstr_sd_prefix, (Ga dg (or_introl eq_refl)). reflexivity.
    + apply (IH e Ie).
      * apply V. apply in_map_iff. exists e. split; [reflexivity | exact Ie].
      * intros dg I. apply Ga. exact I.
  - rewrite UnpackView.payload_obj. rewrite claims_obj in V. cbn [JsonRoundtrip.vok] in V |- *.
    rewrite forallb_forall in V. rewrite forallb_app. apply andb_true_iff. split.
    + destruct sdl as [|s sdl]; [reflexivity|]. unfold sd_member.
      cbn [forallb fst snd JsonRoundtrip.vok]. rewrite sstr_sd_key, vok_strs. cbn [andb]. rewrite andb_true_r.
      apply forallb_forall. intros x Ix. apply G. rewrite UnpackView.digests_obj. apply in_or_app. left. exact Ix.
    + apply forallb_forall. intros x Ix. apply in_flat_map in Ix as [kv [Ikv Ix]].
      rewrite Forall_forall in IH. unfold UnpackView.vispay in Ix.
      destruct (fst (snd kv)); [contradiction|]. destruct Ix as [<-|[]]. cbn [fst snd].
      specialize (V (fst kv, claims_of (snd (snd kv)))). cbn [fst snd] in V.
      assert (Vk : sstr (fst kv) && vokS (claims_of (snd (snd kv))) = true).
      { apply V. apply in_map_iff. exists kv. split; [reflexivity | exact Ikv]. }
      apply andb_true_iff in Vk as [Vk1 Vk2]. rewrite Vk1. cbn [andb].
      apply (IH kv Ikv); [exact Vk2|]. intros dg I. apply G. rewrite UnpackView.digests_obj.
      apply in_or_app. right. eapply UnpackView.childdigs_In; eassumption.
Qed.

(* ---- depth ---- *)
Lemma list_max_map_le : forall {A} (f : A -> nat) l n,
  (forall x, In x l -> (f x <= n)%nat) -> (list_max (map f l) <= n)%nat.
Proof.
  intros A f l n Hf. apply list_max_le. apply Forall_forall. intros k Ik.
  apply in_map_iff in Ik as [x [<- Ix]]. apply Hf. exact Ix.
Qed.

Lemma list_max_map_ge : forall {A} (f : A -> nat) l x, In x l -> (f x <= list_max (map f l))%nat.
Proof.
  intros A f l x Ix. pose proof (proj1 (list_max_le (map f l) _) (Nat.le_refl _)) as F.
  rewrite Forall_forall in F. apply F. apply in_map. exact Ix.
Qed.

Lemma nd_payload : forall d, (jnd (payload_of d) <= S (jnd (claims_of d)))%nat.
Proof.
  induction d as [v|es IH|ms sdl IH] using dtree_ind'.
  - cbn [payload_of claims_of]. lia.
  - rewrite UnpackView.payload_arr, claims_arr. cbn [JsonRoundtrip.nd]. apply le_n_S.
    rewrite !map_map. apply list_max_map_le. intros e Ie. rewrite Forall_forall in IH.
    pose proof (list_max_map_ge (fun e => jnd (claims_of (snd e))) es e Ie) as M. cbn beta in M.
    unfold UnpackView.pelem. destruct (fst e) as [[salt dg]|].
    + cbn. lia.
    + specialize (IH e Ie). lia.
  - rewrite UnpackView.payload_obj, claims_obj. cbn [JsonRoundtrip.nd]. apply le_n_S.
    rewrite !map_map. cbn [snd]. apply list_max_map_le. intros x Ix. apply in_app_or in Ix as [Ix|Ix].
    + destruct sdl as [|s sdl]; [contradiction|]. destruct Ix as [<-|[]]. cbn [snd JsonRoundtrip.nd].
      apply le_n_S. rewrite map_map. cbn [JsonRoundtrip.nd].
      etransitivity; [apply list_max_map_le; intros; apply Nat.le_refl | lia].
    + apply in_flat_map in Ix as [kv [Ikv Ix]]. rewrite Forall_forall in IH.
      pose proof (list_max_map_ge (fun kv : UnpackView.dmem => jnd (claims_of (snd (snd kv)))) ms kv Ikv) as M.
      cbn beta in M. unfold UnpackView.vispay in Ix.
      destruct (fst (snd kv)); [contradiction|]. destruct Ix as [<-|[]]. cbn [snd].
      specialize (IH kv Ikv). cbn beta in IH. unfold UnpackView.msub. etransitivity; [exact IH | apply le_n_S; exact M].
Qed.

(* ---- well-formedness ---- *)
Lemma wf_strs : forall l, forallb wf_json (map JStr l) = true.
Proof. induction l as [|x l IH]; [reflexivity|]. cbn [map forallb wf_json]. exact IH. Qed.

Lemma NoDup_keys_vispay : forall ms, NoDup (map fst ms) -> NoDup (keys (flat_map UnpackView.vispay ms)).
Proof.
  induction ms as [|kv ms IH]; intros N; [constructor|].
  cbn [map] in N. inversion N as [|? ? Nk N']; subst. cbn [flat_map]. rewrite keys_app.
  unfold UnpackView.vispay at 1. destruct (fst (snd kv)); cbn [keys map app fst].
  - apply IH. exact N'.
  - constructor; [|apply IH; exact N']. intros C. apply Nk. apply UnpackView.keys_vispay. exact C.
Qed.

Lemma wf_payload : forall d, shape_ok d -> wf_json (payload_of d) = true.
Proof.
  induction d as [v|es IH|ms sdl IH] using dtree_ind'; intros S.
  - cbn in S |- *. destruct v; try reflexivity; discriminate.
  - rewrite UnpackView.payload_arr. cbn [wf_json]. apply forallb_forall. intros x Ix.
    apply in_map_iff in Ix as [e [<- Ie]]. apply UnpackView.shape_arr in S. rewrite Forall_forall in S, IH.
    unfold UnpackView.pelem. destruct (fst e) as [[salt dg]|]; [reflexivity|]. apply (IH e Ie). apply S. exact Ie.
  - rewrite UnpackView.payload_obj. apply UnpackView.shape_obj in S as (Nd & Nsd & _ & _ & Sk).
    cbn [wf_json]. apply andb_true_iff. split.
    + apply keys_nodup_NoDup. rewrite keys_app.
      assert (Nv := NoDup_keys_vispay ms Nd).
      destruct sdl as [|s sdl]; [exact Nv|]. cbn [sd_member keys map fst app].
      constructor; [|exact Nv]. intros C. apply Nsd. apply UnpackView.keys_vispay. exact C.
    + rewrite forallb_app. apply andb_true_iff. split.
      * destruct sdl as [|s sdl]; [reflexivity|]. cbn [sd_member forallb snd wf_json].
        rewrite (wf_strs (s :: sdl)). reflexivity.
      * apply forallb_forall. intros x Ix. apply in_flat_map in Ix as [kv [Ikv Ix]].
        rewrite Forall_forall in IH, Sk. unfold UnpackView.vispay in Ix.
        destruct (fst (snd kv)); [contradiction|]. destruct Ix as [<-|[]]. cbn [snd].
        apply (IH kv Ikv). apply (Sk kv Ikv).
Qed.

(* ---- the view under "everything" / properties of views ---- *)
Lemma view_all : forall d, view_d (fun _ => true) d = claims_of d.
Proof.
  induction d as [v|es IH|ms sdl IH] using dtree_ind'.
  - reflexivity.
  - rewrite UnpackView.view_arr, claims_arr. f_equal.
    induction IH as [|e es He _ IHes]; [reflexivity|]. cbn [flat_map map]. rewrite IHes.
    unfold UnpackView.velem. rewrite He. destruct (fst e) as [[salt dg]|]; reflexivity.
  - rewrite UnpackView.view_obj, claims_obj. f_equal.
    induction IH as [|kv ms Hkv _ IHms]; [reflexivity|]. cbn [flat_map map]. rewrite IHms.
    unfold UnpackView.vmem, UnpackView.msub. rewrite Hkv. destruct (fst (snd kv)) as [[salt dg]|]; reflexivity.
Qed.

Lemma existsb_false_forall : forall {A} (f : A -> bool) l,
  existsb f l = false <-> (forall x, In x l -> f x = false).
Proof.
  intros A f l. split.
  - intros E x Ix. destruct (f x) eqn:Fx; [|reflexivity].
    assert (C : existsb f l = true) by (apply existsb_exists; exists x; split; assumption). congruence.
  - intros Hf. destruct (existsb f l) eqn:E; [|reflexivity].
    apply existsb_exists in E as [x [Ix Fx]]. rewrite (Hf x Ix) in Fx. discriminate.
Qed.

(* no reserved name (_sd, ...) anywhere in a view of claims that had none *)
Lemma view_no_reserved : forall has d, has_reserved (claims_of d) = false -> has_reserved (view_d has d) = false.
Proof.
  intros has. induction d as [v|es IH|ms sdl IH] using dtree_ind'; intros R.
  - exact R.
  - rewrite UnpackView.view_arr. rewrite claims_arr in R. cbn [has_reserved] in R |- *.
    rewrite existsb_false_forall in R. apply existsb_false_forall. intros x Ix.
    apply in_flat_map in Ix as [e [Ie Ix]]. rewrite Forall_forall in IH.
    assert (Re : has_reserved (claims_of (snd e)) = false).
    { apply R. apply in_map_iff. exists e. split; [reflexivity | exact Ie]. }
    unfold UnpackView.velem in Ix. destruct (fst e) as [[salt dg]|]; [destruct (has dg); [|contradiction]|];
      destruct Ix as [<-|[]]; apply (IH e Ie Re).
  - rewrite UnpackView.view_obj. rewrite claims_obj in R. cbn [has_reserved] in R |- *.
    rewrite existsb_false_forall in R. apply existsb_false_forall. intros x Ix.
    apply in_flat_map in Ix as [kv [Ikv Ix]]. rewrite Forall_forall in IH.
    assert (Rk := R (fst kv, claims_of (snd (snd kv)))). cbn [fst snd] in Rk.
    assert (Rk' : str_eqb (fst kv) SD_DIGESTS_KEY || str_eqb (fst kv) SD_LIST_PREFIX
                  || has_reserved (claims_of (snd (snd kv))) = false).
    { apply Rk. apply in_map_iff. exists kv. split; [reflexivity | exact Ikv]. }
    apply orb_false_iff in Rk' as [Rn Rv].
    unfold UnpackView.vmem, UnpackView.msub in Ix.
    destruct (fst (snd kv)) as [[salt dg]|]; [destruct (has dg); [|contradiction]|];
      destruct Ix as [<-|[]]; cbn [fst snd]; rewrite Rn; cbn [orb]; apply (IH kv Ikv Rv).
Qed.

Lemma keys_vmem : forall has ms k, In k (keys (flat_map (UnpackView.vmem has) ms)) -> In k (map fst ms).
Proof.
  intros has. induction ms as [|kv ms IH]; intros k I; [contradiction|].
  cbn [flat_map] in I. rewrite keys_app in I. cbn [map]. apply in_app_or in I as [I|I]; [|right; apply IH; exact I].
  left. unfold UnpackView.vmem in I.
  destruct (fst (snd kv)) as [[salt dg]|]; [destruct (has dg); [|contradiction]|]; destruct I as [I|[]]; exact I.
Qed.

Lemma NoDup_keys_vmem : forall has ms, NoDup (map fst ms) -> NoDup (keys (flat_map (UnpackView.vmem has) ms)).
Proof.
  intros has. induction ms as [|kv ms IH]; intros N; [constructor|].
  cbn [map] in N. inversion N as [|? ? Nk N']; subst. cbn [flat_map]. rewrite keys_app.
  assert (X : ~ In (fst kv) (keys (flat_map (UnpackView.vmem has) ms))).
  { intros C. apply Nk. eapply keys_vmem. exact C. }
  unfold UnpackView.vmem at 1.
  destruct (fst (snd kv)) as [[salt dg]|]; [destruct (has dg)|]; cbn [keys map app fst];
    try (constructor; [exact X|]); apply IH; exact N'.
Qed.

(* members of an object value *)
Definition vmembers (v : json) : members := match v with JObj m => m | _ => [] end.

(* what the verifier returns for the tree d when it can open [has] *)
Definition verified_claims (has : str -> bool) (d : dtree) : json :=
  JObj (obj_remove DIGEST_ALG_KEY (vmembers (view_d has d))).

Lemma obj_remove_not_in : forall k m, NoDup (keys m) -> ~ In k (keys (obj_remove k m)).
Proof.
  intros k. induction m as [|[k' v] m IH]; intros N; [intros []|].
  cbn [keys map fst] in N. inversion N as [|? ? Nk N']; subst. cbn [obj_remove].
  destruct (str_eqb_spec k k') as [->|Ne]; [exact Nk|].
  cbn [keys map fst]. intros [C|C]; [congruence | exact (IH N' C)].
Qed.

(* C01 "no marker": the result has no member named _sd, no "..." placeholder
   (no member named "..." at all), at any depth, and no top-level _sd_alg *)
Theorem verified_claims_no_marker : forall has ms sdl,
  shape_ok (DObj ms sdl) -> has_reserved (claims_of (DObj ms sdl)) = false ->
  has_reserved (verified_claims has (DObj ms sdl)) = false /\
  obj_get DIGEST_ALG_KEY (vmembers (verified_claims has (DObj ms sdl))) = None.
Proof.
  intros has ms sdl S R. unfold verified_claims. rewrite UnpackView.view_obj. cbn [vmembers].
  apply UnpackView.shape_obj in S as (Nd & _).
  pose proof (NoDup_keys_vmem has ms Nd) as Nv.
  split.
  - pose proof (view_no_reserved has (DObj ms sdl) R) as Rv. rewrite UnpackView.view_obj in Rv.
    cbn [has_reserved] in Rv |- *. rewrite existsb_false_forall in Rv. apply existsb_false_forall.
    intros x Ix. apply Rv. rewrite IssuerBuild.obj_remove_filter in Ix by exact Nv.
    apply filter_In in Ix as [Ix _]. exact Ix.
  - apply obj_get_None_keys. apply obj_remove_not_in. exact Nv.
Qed.

(* ================================================================== *)
(*  3. the digest map built from a list of issued disclosures          *)
(* ================================================================== *)

Notation raw_of_disc := IssuerBuild.raw_of_disc.

Definition entry (e : str * json) : str * (json * str) := (fst e, (snd e, raw_of_disc (snd e))).
Definition dm_of (es : list (str * json)) : dmap := map entry es.
Definition texts_of (es : list (str * json)) : list str := map (fun e => raw_of_disc (snd e)) es.

(* the text of e is the digest pre-image of fst e and decodes to snd e *)
Definition wire_ok (o : oracles) (e : str * json) : Prop :=
  fst e = H o (raw_of_disc (snd e)) /\
  exists text, base64url_decode_text (raw_of_disc (snd e)) = Some text /\ parse_json text = Some (snd e).

Lemma chm_entries : forall o es acc,
  Forall (wire_ok o) es -> NoDup (map fst es) -> (forall e, In e es -> dmap_get (fst e) acc = None) ->
  create_hash_mappings o (texts_of es) acc = Ok (acc ++ dm_of es).
Proof.
  intros o. induction es as [|e es IH]; intros acc F N A.
  - cbn. rewrite app_nil_r. reflexivity.
  - inversion F as [|? ? [Fd (text & Ft & Fp)] F']; subst. cbn [map] in N. inversion N as [|? ? Nk N']; subst.
    cbn [texts_of map create_hash_mappings]. rewrite Ft, Fp, <- Fd, (A e (or_introl eq_refl)).
    fold (texts_of es). rewrite IH; [| exact F' | exact N' |].
    + cbn [dm_of map]. rewrite <- app_assoc. reflexivity.
    + intros e' I'. rewrite UnpackView.dmap_get_app, (A e' (or_intror I')). cbn [dmap_get].
      destruct (str_eqb_spec (fst e') (fst e)) as [E|_]; [|reflexivity].
      exfalso. apply Nk. rewrite <- E. apply in_map. exact I'.
Qed.

Lemma dm_of_get : forall es dg x t, dmap_get dg (dm_of es) = Some (x, t) -> In (dg, x) es /\ t = raw_of_disc x.
Proof.
  induction es as [|[dg' x'] es IH]; intros dg x t E; [discriminate|].
  cbn [dm_of map entry dmap_get fst snd] in E. destruct (str_eqb_spec dg dg') as [->|Ne].
  - inversion E; subst. split; [left; reflexivity | reflexivity].
  - destruct (IH dg x t E) as [A B]. split; [right; exact A | exact B].
Qed.

Lemma dm_of_has : forall es dg, UnpackView.has_of (dm_of es) dg = mem_str dg (map fst es).
Proof.
  intros es dg. unfold UnpackView.has_of. induction es as [|[dg' x'] es IH]; [reflexivity|].
  cbn [dm_of map entry dmap_get fst snd mem_str]. destruct (str_eqb dg dg'); [reflexivity | exact IH].
Qed.

Lemma dm_of_covers : forall es dg, In dg (map fst es) -> WalkSel.in_dm (dm_of es) dg.
Proof.
  intros es dg I. apply mem_str_In in I. rewrite <- dm_of_has in I. unfold UnpackView.has_of in I.
  unfold WalkSel.in_dm. destruct (dmap_get dg (dm_of es)) as [[x t]|]; [eauto | discriminate].
Qed.

Lemma dm_of_length : forall es, List.length (dm_of es) = List.length es.
Proof. intros. unfold dm_of. apply map_length. Qed.

(* ---- an issued disclosure on the wire ---- *)
Definition disc_good (e : str * json) : Prop :=
  exists salt name v,
    snd e = IssuerBuild.disc_json salt name v /\ DisclosureCodec.plain_salt salt = true /\
    match name with Some n => sstr n = true | None => True end /\
    DisclosureCodec.claim_ok v = true /\ wf_json v = true.

Lemma disc_good_text : forall e, disc_good e ->
  sstr (raw_of_disc (snd e)) = true /\ ~ In 126 (raw_of_disc (snd e)) /\
  exists text, base64url_decode_text (raw_of_disc (snd e)) = Some text /\ parse_json text = Some (snd e).
Proof.
  intros e (salt & name & v & E & Ps & Pn & Cv & Wv). rewrite E, IssuerBuild.raw_of_disc_json.
  assert (St : sstr (disclosure_text false salt name v) = true).
  { apply DisclosureCodec.scalar_disclosure_text; try assumption.
    apply JsonRoundtrip.val_ok_at_spec in Cv. tauto. }
  split; [|split].
  - unfold base64url_encode_str. unfold JsonRoundtrip.scalar_str. apply forallb_forall. intros c Ic.
    apply JsonRoundtrip.scalar_ascii.
    pose proof (proj1 (JsonRoundtrip.scalar_str_scalars _) St) as Sc.
    destruct (b64_encode_no_sep _ c (utf8_encode_bytes _ Sc) Ic) as (_ & _ & _ & _ & L). exact L.
  - apply b64url_no_tilde. exact St.
  - exists (disclosure_text false salt name v). split.
    + apply DisclosureCodec.base64url_text_roundtrip. exact St.
    + destruct name as [n|]; cbn [IssuerBuild.disc_json].
      * apply DisclosureCodec.disclosure_codec_some; assumption.
      * apply DisclosureCodec.disclosure_codec_none; assumption.
Qed.

Lemma disc_good_wire : forall o e, fst e = H o (raw_of_disc (snd e)) -> disc_good e -> wire_ok o e.
Proof. intros o e Hd G. destruct (disc_good_text e G) as (_ & _ & T). split; assumption. Qed.

(* every disclosure of a tree whose claims are printable and not too deep, with plain salts *)
Lemma discs_good : forall d,
  vokS (claims_of d) = true -> (forall dg, In dg (all_digests d) -> sstr dg = true) ->
  (jnd (claims_of d) <= 126)%nat -> shape_ok d ->
  (forall e, In e (disclosures_of d) -> DisclosureCodec.plain_salt (IssuerBuild.disc_salt (snd e)) = true) ->
  forall e, In e (disclosures_of d) -> disc_good e.
Proof.
  induction d as [v|es IH|ms sdl IH] using dtree_ind'; intros V G Dp S Ps e Ie.
  - destruct Ie.
  - rewrite WalkSel.disclosures_arr in Ie, Ps. apply in_flat_map in Ie as [x [Ix Ie]].
    rewrite claims_arr in V, Dp. cbn [JsonRoundtrip.vok JsonRoundtrip.nd] in V, Dp.
    rewrite forallb_forall in V. rewrite Forall_forall in IH. apply UnpackView.shape_arr in S.
    rewrite Forall_forall in S.
    assert (Vx : vokS (claims_of (snd x)) = true).
    { apply V. apply in_map_iff. exists x. split; [reflexivity | exact Ix]. }
    assert (Dx : (jnd (claims_of (snd x)) <= 125)%nat).
    { pose proof (list_max_map_ge (fun e => jnd (claims_of (snd e))) es x Ix) as M. cbn beta in M.
      rewrite map_map in Dp. lia. }
    assert (Gx : forall dg, In dg (UnpackView.edig x ++ all_digests (snd x)) -> sstr dg = true).
    { intros dg I. apply G. rewrite UnpackView.all_digests_arr. apply in_flat_map. exists x. split; assumption. }
    assert (Gx' : forall dg, In dg (all_digests (snd x)) -> sstr dg = true).
    { intros dg I. apply Gx. apply in_or_app. right. exact I. }
    assert (Px : forall e', In e' (disclosures_of (snd x) ++ WalkSel.own_disc_e x) ->
                 DisclosureCodec.plain_salt (IssuerBuild.disc_salt (snd e')) = true).
    { intros e' I'. apply Ps. apply in_flat_map. exists x. split; assumption. }
    apply in_app_or in Ie as [Ie|Ie].
    + apply (IH x Ix Vx Gx'); [lia | apply S; exact Ix | | exact Ie].
      intros e' I'. apply Px. apply in_or_app. left. exact I'.
    + unfold WalkSel.own_disc_e in Ie, Px. destruct (fst x) as [[salt dg]|]; [|destruct Ie].
      destruct Ie as [<-|[]]. exists salt, None, (payload_of (snd x)).
      split; [reflexivity|]. split.
      { apply (Px (dg, JArr [JStr salt; payload_of (snd x)])). apply in_or_app. right. left. reflexivity. }
      split; [exact I|]. split.
      * apply JsonRoundtrip.val_ok_at_spec. split; [apply vok_payload; assumption|].
        pose proof (nd_payload (snd x)). cbn. lia.
      * apply wf_payload. apply S. exact Ix.
  - rewrite WalkSel.disclosures_obj in Ie, Ps. apply in_flat_map in Ie as [x [Ix Ie]].
    rewrite claims_obj in V, Dp. cbn [JsonRoundtrip.vok JsonRoundtrip.nd] in V, Dp.
    rewrite forallb_forall in V. rewrite Forall_forall in IH.
    apply UnpackView.shape_obj in S as (_ & _ & _ & Hinc & S). rewrite Forall_forall in S.
    assert (Vx : sstr (fst x) && vokS (claims_of (snd (snd x))) = true).
    { apply (V (fst x, claims_of (snd (snd x)))). apply in_map_iff. exists x. split; [reflexivity | exact Ix]. }
    apply andb_true_iff in Vx as [Vn Vx].
    assert (Dx : (jnd (claims_of (snd (snd x))) <= 125)%nat).
    { pose proof (list_max_map_ge (fun kv : UnpackView.dmem => jnd (claims_of (snd (snd kv)))) ms x Ix) as M.
      cbn beta in M. rewrite map_map in Dp. cbn [snd] in Dp.
      assert (M' : (jnd (claims_of (snd (snd x))) <=
                    list_max (map (fun x0 : str * (option (str * str) * dtree) => jnd (claims_of (snd (snd x0)))) ms))%nat)
        by exact M.
      lia. }
    assert (Gx' : forall dg, In dg (all_digests (snd (snd x))) -> sstr dg = true).
    { intros dg I. apply G. rewrite UnpackView.digests_obj. apply in_or_app. right.
      eapply UnpackView.childdigs_In; eassumption. }
    assert (Px : forall e', In e' (disclosures_of (snd (snd x)) ++ WalkSel.own_disc_m x) ->
                 DisclosureCodec.plain_salt (IssuerBuild.disc_salt (snd e')) = true).
    { intros e' I'. apply Ps. apply in_flat_map. exists x. split; assumption. }
    apply in_app_or in Ie as [Ie|Ie].
    + apply (IH x Ix Vx Gx'); [lia | apply S; exact Ix | | exact Ie].
      intros e' I'. apply Px. apply in_or_app. left. exact I'.
    + unfold WalkSel.own_disc_m in Ie, Px. destruct (fst (snd x)) as [[salt dg]|]; [|destruct Ie].
      destruct Ie as [<-|[]]. exists salt, (Some (fst x)), (payload_of (snd (snd x))).
      split; [reflexivity|]. split.
      { apply (Px (dg, JArr [JStr salt; JStr (fst x); payload_of (snd (snd x))])). apply in_or_app. right. left. reflexivity. }
      split; [exact Vn|]. split.
      * apply JsonRoundtrip.val_ok_at_spec. split; [apply vok_payload; assumption|].
        pose proof (nd_payload (snd (snd x))). cbn. lia.
      * apply wf_payload. apply (S x Ix).
Qed.

(* every hidden node has a disclosure *)
Lemma hidden_has_disclosure : forall d dg, In dg (WalkSel.hidden_digests d) -> In dg (map fst (disclosures_of d)).
Proof.
  induction d as [v|es IH|ms sdl IH] using dtree_ind'; intros dg I.
  - destruct I.
  - cbn [WalkSel.hidden_digests] in I. apply in_flat_map in I as [e [Ie I]].
    rewrite WalkSel.disclosures_arr, WalkSel.map_flat_map. apply in_flat_map. exists e. split; [exact Ie|].
    rewrite map_app. apply in_or_app. apply in_app_or in I as [I|I].
    + right. unfold WalkSel.own_d in I. unfold WalkSel.own_disc_e.
      destruct (fst e) as [[salt dg']|]; [|destruct I]. destruct I as [<-|[]]. left. reflexivity.
    + left. rewrite Forall_forall in IH. apply (IH e Ie). exact I.
  - cbn [WalkSel.hidden_digests] in I. apply in_flat_map in I as [kv [Ikv I]].
    rewrite WalkSel.disclosures_obj, WalkSel.map_flat_map. apply in_flat_map. exists kv. split; [exact Ikv|].
    rewrite map_app. apply in_or_app. apply in_app_or in I as [I|I].
    + right. unfold WalkSel.own_d in I. unfold WalkSel.own_disc_m.
      destruct (fst (snd kv)) as [[salt dg']|]; [|destruct I]. destruct I as [<-|[]]. left. reflexivity.
    + left. rewrite Forall_forall in IH. apply (IH kv Ikv). exact I.
Qed.

(* the two copies of [genuine] are the same predicate *)
Lemma genuine_same : forall dm d, WalkSel.genuine dm d -> UnpackView.genuine dm d.
Proof. intros dm d G. exact G. Qed.

(* ================================================================== *)
(*  4. the JWT layer                                                   *)
(* ================================================================== *)

Definition alg_header (alg : str) : json := JObj [(lit "alg", JStr alg)].
Definition hdr_of (alg : str) : header := {| hd_alg := alg; hd_typ := None; hd_json := alg_header alg |}.

(* decode_header_and_get_sign_algorithm on the first segment *)
Definition seg_alg (hb : str) : option str :=
  match base64url_decode_text hb with
  | Some text =>
      match parse_json text with
      | Some (JObj m) => match obj_get (lit "alg") m with Some (JStr a) => Some a | _ => None end
      | _ => None
      end
  | None => None
  end.

Lemma header_sign_alg_jwt : forall hb plb sg, ~ In 46 hb -> ~ In 46 plb ->
  header_sign_alg ((hb ++ 46 :: plb) ++ 46 :: sg) = seg_alg hb.
Proof.
  intros hb plb sg Fh Fp. unfold header_sign_alg. rewrite <- app_assoc.
  change ((46 :: plb) ++ 46 :: sg) with (46 :: (plb ++ 46 :: sg)).
  rewrite split_on_piece by exact Fh. rewrite split_on_piece by exact Fp. reflexivity.
Qed.

Lemma split_dot_jwt : forall hb plb sg, ~ In 46 hb -> ~ In 46 plb ->
  split_on 46 ((hb ++ 46 :: plb) ++ 46 :: sg) = hb :: plb :: split_on 46 sg.
Proof.
  intros hb plb sg Fh Fp. rewrite <- app_assoc.
  change ((46 :: plb) ++ 46 :: sg) with (46 :: (plb ++ 46 :: sg)).
  rewrite split_on_piece by exact Fh. rewrite split_on_piece by exact Fp. reflexivity.
Qed.

Lemma alg_names_ind : forall (P : str -> Prop), Forall P alg_names ->
  forall alg, mem_str alg alg_names = true -> P alg.
Proof. intros P F alg M. apply mem_str_In in M. rewrite Forall_forall in F. apply F. exact M. Qed.

Lemma alg_header_facts : forall alg, mem_str alg alg_names = true ->
  sstr alg = true /\
  header_from_encoded (base64url_encode_str (print (alg_header alg))) = Ok (hdr_of alg) /\
  seg_alg (base64url_encode_str (print (alg_header alg))) = Some alg.
Proof.
  apply alg_names_ind. unfold alg_names.
  repeat (apply Forall_cons; [split; [|split]; vm_compute; reflexivity|]). apply Forall_nil.
Qed.

Lemma alg_family_names : forall a f, alg_family a = Some f -> mem_str a alg_names = true.
Proof.
  intros a f E. unfold alg_family in E.
  destruct (mem_str a [lit "HS256"; lit "HS384"; lit "HS512"]) eqn:E1.
  { apply mem_str_In in E1. cbn [In] in E1. repeat (destruct E1 as [<-|E1]; [reflexivity|]). destruct E1. }
  destruct (mem_str a [lit "ES256"; lit "ES384"]) eqn:E2.
  { apply mem_str_In in E2. cbn [In] in E2. repeat (destruct E2 as [<-|E2]; [reflexivity|]). destruct E2. }
  destruct (mem_str a [lit "RS256"; lit "RS384"; lit "RS512"; lit "PS256"; lit "PS384"; lit "PS512"]) eqn:E3.
  { apply mem_str_In in E3. cbn [In] in E3. repeat (destruct E3 as [<-|E3]; [reflexivity|]). destruct E3. }
  destruct (str_eqb_spec a (lit "EdDSA")) as [->|]; [reflexivity | discriminate].
Qed.

Lemma alg_header_vok : forall alg, sstr alg = true -> vokS (alg_header alg) = true.
Proof. intros alg S. unfold alg_header. cbn [JsonRoundtrip.vok forallb fst snd]. rewrite S. reflexivity. Qed.

Lemma jwt_encode_inv : forall o alg k payload hdr jwt,
  jwt_encode o None alg k payload = Ok (hdr, jwt) ->
  alg_family alg = Some (kfam k) /\ hdr = alg_header alg /\
  let msg := base64url_encode_str (print (alg_header alg)) ++ 46 :: base64url_encode_str (print payload) in
  jwt = msg ++ 46 :: sign o alg k msg.
Proof.
  intros o alg k payload hdr jwt E. unfold jwt_encode in E.
  destruct (alg_family alg) as [f|] eqn:Ef; [|discriminate].
  destruct (family_eqb (kfam k) f) eqn:Ek; [|discriminate]. cbn [negb] in E.
  apply VerifierFacts.family_eqb_eq in Ek. subst f. inversion E; subst. cbn [app].
  split; [reflexivity|]. split; reflexivity.
Qed.

Lemma decode_header_jwt : forall hb plb sg, ~ In 46 plb -> ~ In 46 sg ->
  decode_header ((hb ++ 46 :: plb) ++ 46 :: sg) = header_from_encoded hb.
Proof.
  intros hb plb sg Fp Fs. unfold decode_header.
  rewrite rsplit_dot_last by exact Fs. rewrite rsplit_dot_last by exact Fp. reflexivity.
Qed.

Lemma jwt_decode_jwt : forall o k v now hb plb sg hd text raw m,
  alg_family (v_alg v) = Some (kfam k) -> ~ In 46 plb -> ~ In 46 sg ->
  header_from_encoded hb = Ok hd -> hd_alg hd = v_alg v ->
  sig_ok o (hd_alg hd) k (hb ++ 46 :: plb) sg = true ->
  base64url_decode_text plb = Some text -> parse_json_raw text = Some (JObj raw) ->
  dedup (JObj raw) = JObj m -> validate v raw m now = Ok tt ->
  jwt_decode o ((hb ++ 46 :: plb) ++ 46 :: sg) k v now = Ok (hd, m).
Proof.
  intros o k v now hb plb sg hd text raw m Ef Fp Fs Eh Ea Es Et Er Ed Ev. unfold jwt_decode.
  rewrite Ef. rewrite (proj2 (VerifierFacts.family_eqb_eq (kfam k) (kfam k)) eq_refl). cbn [negb].
  rewrite rsplit_dot_last by exact Fs. rewrite rsplit_dot_last by exact Fp.
  rewrite Eh. cbn [bind]. rewrite Ea at 1. rewrite str_eqb_refl. cbn [negb].
  rewrite Es. cbn [negb]. rewrite Et, Er, Ed, Ev. reflexivity.
Qed.

Lemma count_key_nodup : forall k m, NoDup (keys m) -> (count_key k m <= 1)%nat.
Proof.
  intros k. induction m as [|[k' v] m IH]; intros N; [cbn; lia|].
  cbn [keys map fst] in N. inversion N as [|? ? Nk N']; subst. cbn [count_key].
  destruct (str_eqb_spec k k') as [->|Ne]; [|specialize (IH N'); lia].
  assert (Z : count_key k' m = O).
  { clear - Nk. induction m as [|[k2 v2] m IH]; [reflexivity|]. cbn [count_key].
    destruct (str_eqb_spec k' k2) as [->|_]; [exfalso; apply Nk; left; reflexivity|].
    apply IH. intros C. apply Nk. right. exact C. }
  rewrite Z. lia.
Qed.

(* ================================================================== *)
(*  5. what issue produced                                             *)
(* ================================================================== *)

Notation top_members := IssuerBuild.top_members.
Notation rest_of := IssuerBuild.rest_of.
Notation always_of := IssuerBuild.always_of.
Notation embed_member := IssuerBuild.embed_member.

Lemma issue_jwt_form : forall o alg ikey m s hj decoy fmt r i r',
  issue o alg ikey (JObj m) s hj decoy fmt r = Ok (i, r') ->
  jwt_encode o None alg ikey (is_payload i) = Ok (is_header i, is_jwt i) /\
  serialize_issued fmt (is_jwt i) (is_disclosures i) = Ok (is_serialized i).
Proof.
  intros o alg ikey m s hj decoy fmt r i r' E. unfold issue in E.
  apply bind_Ok in E as [s' [_ E]].
  destruct (has_reserved (JObj m)); [discriminate|].
  destruct (pull_always ALWAYS_REVEALED m []) as [always rest].
  apply bind_Ok in E as [[body st] [_ E]]. cbv beta iota in E.
  destruct body as [| | | | |b]; try discriminate E.
  apply bind_Ok in E as [[header jwt] [Ej E]]. cbv beta iota in E.
  apply bind_Ok in E as [ser [Es E]]. inversion E; subst. cbn [is_payload is_header is_jwt is_disclosures is_serialized].
  split; assumption.
Qed.

(* the tree of an issued credential, with everything later stages need *)
Definition issued_tree (o : oracles) (m : members) (hj : option json) (r : rng) (i : issued)
           (ms : list (str * (option (str * str) * dtree))) (sdl : list str) : Prop :=
  let d := DObj ms sdl in
  has_reserved (JObj m) = false /\
  claims_of d = JObj (rest_of m) /\ shape_ok d /\ digests_ok o d /\
  is_payload i = JObj ((sd_member sdl ++ IssuerBuild.obj_vis ms) ++ top_members m hj) /\
  is_disclosures i = texts_of (disclosures_of d) /\
  NoDup (all_digests d) /\ NoDup (map fst (disclosures_of d)) /\
  (forall e, In e (disclosures_of d) -> fst e = H o (raw_of_disc (snd e))) /\
  (forall e, In e (disclosures_of d) -> In (IssuerBuild.disc_salt (snd e)) (r_salts r)) /\
  (forall dg, In dg (all_digests d) -> exists x, ascii x /\ dg = H o x).

Lemma issue_tree : forall o alg ikey m s hj decoy fmt r i r',
  (forall a b, H o a = H o b -> a = b) ->
  issue o alg ikey (JObj m) s hj decoy fmt r = Ok (i, r') ->
  r_queue r = None -> wf_json (JObj m) = true -> ~ In DIGEST_ALG_KEY (keys m) ->
  (hj <> None -> ~ In CNF_KEY (keys m)) ->
  NoDup (r_salts r) -> (forall x, In x (r_salts r) -> IssuerBuild.salt_ok x) ->
  exists s' ms sdl,
    finalize_input s = Ok s' /\ flags (DObj ms sdl) = marks s' (JObj (rest_of m)) /\
    issued_tree o m hj r i ms sdl.
Proof.
  intros o alg ikey m s hj decoy fmt r i r' Hinj E Q W NA NC ND OK.
  destruct (IssuerBuild.issue_builds_seg _ _ _ _ _ _ _ _ _ _ _ E Q W NA NC)
    as (s' & ms & sdl & dp & st' & Fs & R & Fd & Cd & Sd & Dd & Gd & -> & Ep & Ed).
  exists s', ms, sdl. split; [exact Fs|]. split; [exact Fd|].
  pose proof (IssuerBuild.seg_nodup o Hinj _ _ _ _ _ Gd ND OK) as Nall.
  destruct Gd as (Di & _ & Fok & (used & U & Pu) & A). cbn [i_rng i_disclosures app] in Di, U.
  unfold issued_tree. cbv zeta.
  split; [exact R|]. split; [exact Cd|]. split; [exact Sd|]. split; [exact Dd|]. split; [exact Ep|].
  split. { rewrite Ed, Di, map_map. reflexivity. }
  split; [exact Nall|].
  split. { eapply WalkSel.NoDup_app_l. eapply Permutation_NoDup; [exact A | exact Nall]. }
  rewrite Forall_forall in Fok.
  split. { intros e Ie. apply (Fok e Ie). }
  split.
  { intros e Ie. rewrite U. apply in_or_app. left. eapply Permutation_in; [apply Permutation_sym; exact Pu|].
    apply in_or_app. left. apply in_map_iff. exists e. split; [reflexivity | exact Ie]. }
  intros dg Idg. pose proof (Permutation_in _ A Idg) as I2. apply in_app_or in I2 as [I2|I2].
  - apply in_map_iff in I2 as [e [<- Ie]]. destruct (Fok e Ie) as [Fdg (rest & Fr)].
    exists (raw_of_disc (snd e)). split; [|exact Fdg]. rewrite Fr. apply b64_encode_ascii.
  - apply in_map_iff in I2 as [x [<- Ix]]. exists x. split; [|reflexivity].
    apply (OK x). rewrite U. apply in_or_app. left. eapply Permutation_in; [apply Permutation_sym; exact Pu|].
    apply in_or_app. right. exact Ix.
Qed.

(* ================================================================== *)
(*  6. generic pieces: parsing Compact texts, jequiv and obj_remove    *)
(* ================================================================== *)

Lemma split_on_join : forall sep x l, Forall (fun y => ~ In sep y) (x :: l) ->
  split_on sep (join_with [sep] (x :: l)) = x :: l.
Proof.
  intros sep x l. revert x. induction l as [|y l IH]; intros x F; inversion F as [|? ? Fx Fl]; subst.
  - cbn [join_with]. unfold split_on. rewrite split_on_aux_free_all by exact Fx. reflexivity.
  - rewrite HolderFacts.join_with_cons2. cbn [app]. rewrite split_on_piece by exact Fx.
    rewrite IH by exact Fl. reflexivity.
Qed.

Definition jwt3 (hb plb sg : str) : str := (hb ++ 46 :: plb) ++ 46 :: sg.

Lemma jwt3_tilde_free : forall hb plb sg, ~ In 126 hb -> ~ In 126 plb -> ~ In 126 sg -> ~ In 126 (jwt3 hb plb sg).
Proof.
  intros hb plb sg A B C I. unfold jwt3 in I. apply in_app_or in I as [I|I].
  - apply in_app_or in I as [I|I]; [exact (A I)|]. destruct I as [I|I]; [discriminate | exact (B I)].
  - destruct I as [I|I]; [discriminate | exact (C I)].
Qed.

(* parse_compact_sd_jwt on jwt~d1~...~dn~kb *)
Lemma parse_compact_text : forall (hb plb sg : str) (ds : list str) (kb : str) pl,
  ~ In 126 hb -> ~ In 126 plb -> ~ In 126 sg -> Forall (fun x => ~ In 126 x) ds -> ~ In 126 kb ->
  ~ In 46 hb -> ~ In 46 plb -> jwt_payload_decode plb = Ok pl ->
  parse_compact (join_with [126] (jwt3 hb plb sg :: ds ++ [kb])) =
  Ok {| p_fmt := Compact; p_jwt := jwt3 hb plb sg; p_payload := pl; p_disclosures := ds;
        p_kb := Some kb; p_sign_alg := seg_alg hb; p_json := None |}.
Proof.
  intros hb plb sg ds kb pl T1 T2 T3 Td Tk D1 D2 Ep. unfold parse_compact.
  rewrite split_on_join.
  - rewrite split_last_snoc. unfold jwt3 at 1. rewrite split_dot_jwt by assumption.
    rewrite Ep. cbn [bind]. unfold jwt3. rewrite header_sign_alg_jwt by assumption. reflexivity.
  - constructor; [apply jwt3_tilde_free; assumption|]. apply Forall_app. split; [exact Td|].
    constructor; [exact Tk | constructor].
Qed.

Lemma Permutation_filter' : forall {A} (f : A -> bool) l l', Permutation l l' -> Permutation (filter f l) (filter f l').
Proof.
  intros A f l l' P. induction P as [|x l l' P IH|x y l|l l' l'' P1 IH1 P2 IH2]; cbn [filter].
  - constructor.
  - destruct (f x); [constructor|]; exact IH.
  - destruct (f x), (f y); try apply Permutation_refl. apply perm_swap.
  - eapply Permutation_trans; eassumption.
Qed.

Lemma jequiv_remove : forall k m1 m2, jequiv (JObj m1) (JObj m2) -> NoDup (keys m2) ->
  jequiv (JObj (obj_remove k m1)) (JObj (obj_remove k m2)).
Proof.
  intros k m1 m2 J N2. inversion J as [| | | | |? ? m2' P F]; subst.
  assert (N2' : NoDup (keys m2')).
  { eapply Permutation_NoDup; [apply Permutation_map; exact P | exact N2]. }
  assert (K : keys m1 = keys m2') by (apply UnpackView.mrel_keys; exact F).
  assert (N1 : NoDup (keys m1)) by (rewrite K; exact N2').
  rewrite (IssuerBuild.obj_remove_filter k m1 N1), (IssuerBuild.obj_remove_filter k m2 N2).
  eapply JE_obj; [apply Permutation_filter'; exact P|].
  clear - F. induction F as [|a b l l' [Hk Hv] F IH]; cbn [filter]; [constructor|].
  rewrite Hk. destruct (negb (str_eqb k (fst b))); [constructor; [split; assumption | exact IH] | exact IH].
Qed.

Lemma claims_leaf : forall d, is_container (claims_of d) = false -> payload_of d = claims_of d.
Proof. intros [v|es|ms sdl] C; [reflexivity | discriminate C | discriminate C]. Qed.

Lemma numeric_claim_ext : forall k a b, obj_get k a = obj_get k b -> numeric_claim k a = numeric_claim k b.
Proof. intros k a b E. unfold numeric_claim. rewrite E. reflexivity. Qed.

Lemma numeric_claim_container : forall k a v t, obj_get k a = Some v -> numeric_claim k a = Ok t -> is_container v = false.
Proof. intros k a v t E N. unfold numeric_claim in N. rewrite E in N. destruct v; try reflexivity; discriminate N. Qed.

(* the holder and the presentation text, Compact format, no key binding *)
Lemma holder_new_compact : forall o input p dm,
  parse_compact input = Ok p -> create_hash_mappings o (p_disclosures p) [] = Ok dm ->
  holder_new o input Compact =
  Ok {| h_fmt := Compact; h_jwt := p_jwt p; h_payload := p_payload p; h_dmap := dm;
        h_json := p_json p; h_in_disclosures := p_disclosures p; h_in_kb := p_kb p;
        h_hs := []; h_kb_header := []; h_kb_payload := []; h_kb := [] |}.
Proof. intros o input p dm Ep Ed. unfold holder_new. cbn [parse_sd_jwt]. rewrite Ep. cbn [bind]. rewrite Ed. reflexivity. Qed.

Lemma present_compact_no_kb : forall o h sel now hs,
  h_fmt h = Compact -> walk (h_dmap h) (JObj sel) (JObj (h_payload h)) = Ok hs ->
  snd (present o h sel no_kb now) = Ok (join_with [126] (h_jwt h :: hs) ++ [126]).
Proof.
  intros o h sel now hs Ef Ew. unfold present. rewrite Ew. cbn [no_kb kb_nonce kb_aud kb_key].
  rewrite Ef. cbn [snd]. rewrite join_with_snoc_empty. reflexivity.
Qed.

(* ---- the JSON serialisation ---- *)
Definition sdjwt_json (pr pl sg : str) (ds : list str) (kbv : json) : json :=
  JObj [(lit "protected", JStr pr); (lit "payload", JStr pl); (lit "signature", JStr sg);
        (lit "disclosures", JArr (json_strs ds)); (lit "kb_jwt", kbv)].

Lemma all_strings_json_strs : forall ds, all_strings (json_strs ds) = Some ds.
Proof. induction ds as [|d ds IH]; [reflexivity|]. cbn [json_strs map all_strings]. fold (json_strs ds). rewrite IH. reflexivity. Qed.

Lemma nums_ok_strs : forall ds, forallb (JsonRoundtrip.vok JsonRoundtrip.any_str) (json_strs ds) = true.
Proof. induction ds as [|d ds IH]; [reflexivity|]. cbn [json_strs map forallb JsonRoundtrip.vok]. exact IH. Qed.

Lemma nd_strs : forall ds, list_max (map JsonRoundtrip.nd (json_strs ds)) = O.
Proof. induction ds as [|d ds IH]; [reflexivity|]. cbn [json_strs map JsonRoundtrip.nd]. unfold list_max in *. cbn [fold_right]. exact IH. Qed.

Lemma jwt3_assoc : forall hb plb sg : str, hb ++ [46] ++ plb ++ [46] ++ sg = jwt3 hb plb sg.
Proof. intros. unfold jwt3. rewrite <- app_assoc. reflexivity. Qed.

Lemma sdjwt_json_parse : forall pr pl sg ds kbv, (kbv = JNull \/ exists kb, kbv = JStr kb) ->
  parse_json_raw (print (sdjwt_json pr pl sg ds kbv)) = Some (sdjwt_json pr pl sg ds kbv).
Proof.
  intros pr pl sg ds kbv K. apply JsonRoundtrip.parse_json_raw_print_k.
  - unfold JsonRoundtrip.nums_ok, sdjwt_json. cbn [JsonRoundtrip.vok forallb fst snd JsonRoundtrip.any_str andb].
    rewrite nums_ok_strs. destruct K as [->|[kb ->]]; reflexivity.
  - unfold sdjwt_json. cbn [JsonRoundtrip.nd map snd]. rewrite nd_strs.
    destruct K as [->|[kb ->]]; cbn; unfold MAX_DEPTH; lia.
Qed.

(* parse_json_sd_jwt on the object the issuer / holder prints *)
Lemma parse_json_form_text : forall (hb plb sg : str) (ds : list str) kbv kbo pl,
  ((kbv = JNull /\ kbo = None) \/ (exists kb, kbv = JStr kb /\ kbo = Some kb)) ->
  ~ In 46 hb -> ~ In 46 plb -> jwt_payload_decode plb = Ok pl ->
  parse_json_form (print (sdjwt_json hb plb sg ds kbv)) =
  Ok {| p_fmt := JSONFmt; p_jwt := jwt3 hb plb sg; p_payload := pl; p_disclosures := ds;
        p_kb := kbo; p_sign_alg := seg_alg hb; p_json := Some (hb, plb, sg) |}.
Proof.
  intros hb plb sg ds kbv kbo pl K D1 D2 Ep.
  assert (K' : kbv = JNull \/ exists kb, kbv = JStr kb)
    by (destruct K as [[-> _]|(kb & -> & _)]; [left; reflexivity | right; eexists; reflexivity]).
  rewrite (JsonLaxFacts.parse_json_form_of_raw _ _ (sdjwt_json_parse hb plb sg ds kbv K')).
  unfold parse_json_form_strict. rewrite sdjwt_json_parse by exact K'.
  unfold sdjwt_json. cbv beta iota zeta.
  set (raw := [(lit "protected", JStr hb); (lit "payload", JStr plb); (lit "signature", JStr sg);
               (lit "disclosures", JArr (json_strs ds)); (lit "kb_jwt", kbv)]).
  assert (E1 : existsb (fun k => Nat.ltb 1 (count_key k raw))
                 [lit "protected"; lit "payload"; lit "signature"; lit "disclosures"; lit "kb_jwt"] = false)
    by reflexivity.
  rewrite E1.
  change (obj_get (lit "protected") raw) with (Some (JStr hb)).
  change (obj_get (lit "payload") raw) with (Some (JStr plb)).
  change (obj_get (lit "signature") raw) with (Some (JStr sg)).
  change (obj_get (lit "disclosures") raw) with (Some (JArr (json_strs ds))).
  change (obj_get (lit "kb_jwt") raw) with (Some kbv).
  cbv beta iota. rewrite all_strings_json_strs.
  destruct K as [[-> ->]|(kb & -> & ->)]; cbv beta iota; rewrite Ep; cbn [bind];
    rewrite jwt3_assoc; unfold jwt3; rewrite header_sign_alg_jwt by assumption; reflexivity.
Qed.

Lemma holder_new_json : forall o input p dm,
  parse_json_form input = Ok p -> create_hash_mappings o (p_disclosures p) [] = Ok dm ->
  holder_new o input JSONFmt =
  Ok {| h_fmt := JSONFmt; h_jwt := p_jwt p; h_payload := p_payload p; h_dmap := dm;
        h_json := p_json p; h_in_disclosures := p_disclosures p; h_in_kb := p_kb p;
        h_hs := []; h_kb_header := []; h_kb_payload := []; h_kb := [] |}.
Proof. intros o input p dm Ep Ed. unfold holder_new. cbn [parse_sd_jwt]. rewrite Ep. cbn [bind]. rewrite Ed. reflexivity. Qed.

Lemma present_json_no_kb : forall o h sel now hs pr pl sg,
  h_fmt h = JSONFmt -> h_json h = Some (pr, pl, sg) -> h_in_kb h = None ->
  walk (h_dmap h) (JObj sel) (JObj (h_payload h)) = Ok hs ->
  snd (present o h sel no_kb now) = Ok (print (sdjwt_json pr pl sg hs JNull)).
Proof.
  intros o h sel now hs pr pl sg Ef Ej Ek Ew. unfold present. rewrite Ew. cbn [no_kb kb_nonce kb_aud kb_key].
  rewrite Ef, Ej, Ek. reflexivity.
Qed.

(* ---- the decimal numeral of a natural number is a JSON number ---- *)
Lemma size_nat_bound : forall n, n < 2 ^ N.of_nat (N.size_nat n).
Proof.
  destruct n as [|p]; [reflexivity|]. cbn [N.size_nat].
  induction p as [p IH|p IH|]; cbn [Pos.size_nat].
  - rewrite Nat2N.inj_succ, N.pow_succ_r'. change (N.pos p~1) with (2 * N.pos p + 1). lia.
  - rewrite Nat2N.inj_succ, N.pow_succ_r'. change (N.pos p~0) with (2 * N.pos p). lia.
  - reflexivity.
Qed.

Lemma dec_digits_ok : forall fuel n acc, n < 2 ^ N.of_nat fuel -> (1 <= fuel)%nat ->
  exists c ds, dec_digits fuel n acc = c :: ds ++ acc /\ is_digit c = true /\ forallb is_digit ds = true /\
               (c = 48 -> n = 0).
Proof.
  induction fuel as [|f IH]; intros n acc B F; [lia|]. cbn [dec_digits].
  assert (Dd : is_digit (48 + n mod 10) = true).
  { unfold is_digit. pose proof (N.mod_upper_bound n 10). apply andb_true_iff. split; [apply N.leb_le | apply N.leb_le]; lia. }
  destruct (N.eqb_spec (n / 10) 0) as [Eq|Nq].
  - exists (48 + n mod 10), []. split; [reflexivity|]. split; [exact Dd|]. split; [reflexivity|].
    intros C. rewrite (N.div_mod n 10) by lia. lia.
  - rewrite Nat2N.inj_succ, N.pow_succ_r' in B.
    assert (Bq : n / 10 < 2 ^ N.of_nat f).
    { apply N.div_lt_upper_bound; lia. }
    assert (Ff : (1 <= f)%nat).
    { destruct f; [|lia]. cbn in Bq. lia. }
    destruct (IH (n / 10) (48 + n mod 10 :: acc) Bq Ff) as (c & ds & E & Dc & Dds & Z).
    exists c, (ds ++ [48 + n mod 10]). split; [rewrite E, <- app_assoc; reflexivity|].
    split; [exact Dc|]. split; [rewrite forallb_app, Dds; cbn [forallb]; rewrite Dd; reflexivity|].
    intros C. exfalso. apply Nq. apply Z. exact C.
Qed.

Lemma take_digits_all : forall ds, forallb is_digit ds = true -> take_digits ds = (ds, []).
Proof.
  induction ds as [|d ds IH]; intros F; [reflexivity|]. cbn [forallb] in F. apply andb_true_iff in F as [Fd F].
  cbn [take_digits]. rewrite Fd, (IH F). reflexivity.
Qed.

Lemma num_ok_N_to_dec : forall n, JsonRoundtrip.num_ok (N_to_dec n) = true.
Proof.
  intros n. unfold N_to_dec.
  destruct (dec_digits_ok (S (N.size_nat n)) n []) as (c & ds & E & Dc & Dds & Z).
  { rewrite Nat2N.inj_succ, N.pow_succ_r'. pose proof (size_nat_bound n). lia. }
  { lia. }
  rewrite E, app_nil_r. destruct (N.eqb_spec c 48) as [C48|C48].
  - specialize (Z C48). subst n c. change (dec_digits (S (N.size_nat 0)) 0 []) with [48] in E.
    injection E as E'. destruct ds; [reflexivity | discriminate E'].
  - unfold JsonRoundtrip.num_ok. rewrite JsonRoundtrip.parse_number_pn. unfold JsonRoundtrip.pn.
    rewrite JsonRoundtrip.num_sign_eq.
    assert (C45 : N.eqb c 45 = false).
    { apply N.eqb_neq. apply JsonRoundtrip.digit_bounds in Dc. lia. }
    rewrite C45. cbn [JsonRoundtrip.num_int]. rewrite (proj2 (N.eqb_neq c 48) C48), Dc, (take_digits_all ds Dds).
    reflexivity.
Qed.

(* ---- the key-binding JWT ---- *)
Definition kb_header (alg : str) : json := JObj [(lit "typ", JStr KB_JWT_TYP_HEADER); (lit "alg", JStr alg)].
Definition kb_hdr_of (alg : str) : header :=
  {| hd_alg := alg; hd_typ := Some KB_JWT_TYP_HEADER; hd_json := kb_header alg |}.

Lemma kb_header_facts : forall alg, mem_str alg alg_names = true ->
  header_from_encoded (base64url_encode_str (print (kb_header alg))) = Ok (kb_hdr_of alg) /\
  seg_alg (base64url_encode_str (print (kb_header alg))) = Some alg.
Proof.
  apply alg_names_ind. unfold alg_names.
  repeat (apply Forall_cons; [split; vm_compute; reflexivity|]). apply Forall_nil.
Qed.

Lemma kb_header_vok : forall alg, sstr alg = true -> vokS (kb_header alg) = true.
Proof. intros alg S. unfold kb_header. cbn [JsonRoundtrip.vok forallb fst snd]. rewrite S. reflexivity. Qed.

Definition kb_payload (nonce aud : str) (now : N) (sdh : str) : members :=
  [(lit "nonce", JStr nonce); (lit "aud", JStr aud); (lit "iat", JNum (N_to_dec now)); (KB_DIGEST_KEY, JStr sdh)].

Lemma kb_payload_vok : forall nonce aud now sdh, sstr nonce = true -> sstr aud = true -> sstr sdh = true ->
  vokS (JObj (kb_payload nonce aud now sdh)) = true.
Proof.
  intros nonce aud now sdh S1 S2 S3. unfold kb_payload. cbn [JsonRoundtrip.vok forallb fst snd].
  rewrite S1, S2, S3, num_ok_N_to_dec. reflexivity.
Qed.

Lemma validate_kb_payload : forall alg nonce aud now' sdh now,
  validate (kb_validation alg aud) (kb_payload nonce aud now' sdh) (kb_payload nonce aud now' sdh) now = Ok tt.
Proof.
  intros alg nonce aud now' sdh now. unfold validate. set (kbp := kb_payload nonce aud now' sdh).
  assert (E1 : existsb (fun k => Nat.ltb 1 (count_key k kbp)) [lit "exp"; lit "nbf"; lit "sub"; lit "iss"; lit "aud"] = false)
    by reflexivity.
  rewrite E1. change (obj_get (lit "sub") kbp) with (@None json).
  unfold numeric_claim, aud_claim.
  change (obj_get (lit "exp") kbp) with (@None json). change (obj_get (lit "nbf") kbp) with (@None json).
  change (obj_get (lit "aud") kbp) with (Some (JStr aud)).
  cbn [bind kb_validation v_required_exp v_required_aud v_validate_nbf v_aud andb negb mem_str].
  rewrite str_eqb_refl. reflexivity.
Qed.

Lemma jwt_encode_kb : forall o alg hk payload, alg_family alg = Some (kfam hk) ->
  let msg := base64url_encode_str (print (kb_header alg)) ++ 46 :: base64url_encode_str (print payload) in
  jwt_encode o (Some KB_JWT_TYP_HEADER) alg hk payload = Ok (kb_header alg, msg ++ 46 :: sign o alg hk msg).
Proof.
  intros o alg hk payload Ef. unfold jwt_encode. rewrite Ef.
  rewrite (proj2 (VerifierFacts.family_eqb_eq (kfam hk) (kfam hk)) eq_refl). reflexivity.
Qed.

(* ---- the side conditions on the user's input (C01's quantifier) ---- *)

(* the holder key's JSON, when given: well formed, printable, no reserved name,
   and the user's claims have no member named cnf *)
Definition holder_jwk_ok (m : members) (hj : option json) : Prop :=
  forall jwk, hj = Some jwk ->
    wf_json jwk = true /\ has_reserved jwk = false /\ ~ In CNF_KEY (keys m) /\
    JsonRoundtrip.val_ok_at 125 jwk = true.

Section Issued.
  Variable o : oracles.
  Variable m : members.
  Variable hj : option json.
  Variable r : rng.
  Variable i : issued.
  Variable ms : list (str * (option (str * str) * dtree)).
  Variable sdl : list str.
  Hypothesis IT : issued_tree o m hj r i ms sdl.
  Hypothesis W : wf_json (JObj m) = true.
  Hypothesis NA : ~ In DIGEST_ALG_KEY (keys m).
  Hypothesis HJ : holder_jwk_ok m hj.
  (* printable strings and names, JSON numbers, at most 126 nested containers *)
  Hypothesis Vm : DisclosureCodec.claim_ok (JObj m) = true.
  Hypothesis Hscal : forall x, ascii x -> sstr (H o x) = true.
  Hypothesis Psalt : forall x, In x (r_salts r) -> DisclosureCodec.plain_salt x = true.

  Let D := DObj (ms ++ map embed_member (top_members m hj)) sdl.
  Let P3 := (sd_member sdl ++ IssuerBuild.obj_vis ms) ++ top_members m hj.

  Lemma HJ' : forall jwk, hj = Some jwk -> wf_json jwk = true /\ has_reserved jwk = false /\ ~ In CNF_KEY (keys m).
  Proof. intros jwk E. destruct (HJ jwk E) as (A & B & C & _). auto. Qed.

  Lemma D_payload : payload_of D = JObj P3.
  Proof. apply IssuerBuild.top_payload. Qed.
  Lemma D_is_payload : is_payload i = payload_of D.
  Proof. rewrite D_payload. apply IT. Qed.
  Lemma D_shape : shape_ok D.
  Proof. destruct IT as (R & Cd & Sd & _). apply IssuerBuild.top_shape; try assumption. exact HJ'. Qed.
  Lemma D_claims : claims_of D = JObj (rest_of m ++ top_members m hj).
  Proof. apply IssuerBuild.top_claims. apply IT. Qed.
  Lemma D_discs : disclosures_of D = disclosures_of (DObj ms sdl).
  Proof. apply IssuerBuild.top_disclosures. Qed.
  Lemma D_all : all_digests D = all_digests (DObj ms sdl).
  Proof. apply IssuerBuild.top_all_digests. Qed.
  Lemma D_digests_ok : digests_ok o D.
  Proof. apply IssuerBuild.top_digests_ok. apply IT. Qed.
  Lemma D_nodup : NoDup (all_digests D).
  Proof. rewrite D_all. apply IT. Qed.
  Lemma D_nodup_discs : NoDup (map fst (disclosures_of D)).
  Proof. rewrite D_discs. apply IT. Qed.
  Lemma D_texts : is_disclosures i = texts_of (disclosures_of D).
  Proof. rewrite D_discs. apply IT. Qed.
  Lemma D_wf : wf_dtree D.
  Proof. split; [exact D_shape | exact D_nodup]. Qed.

  Lemma D_digests_scalar : forall dg, In dg (all_digests D) -> sstr dg = true.
  Proof.
    intros dg I. rewrite D_all in I. destruct IT as (_ & _ & _ & _ & _ & _ & _ & _ & _ & _ & Hx).
    destruct (Hx dg I) as [x [Ax ->]]. apply Hscal. exact Ax.
  Qed.

  Lemma m_member_ok : forall kv, In kv m ->
    sstr (fst kv) = true /\ vokS (snd kv) = true /\ (jnd (snd kv) <= 125)%nat.
  Proof.
    intros kv I. pose proof Vm as Vm0. apply JsonRoundtrip.val_ok_at_spec in Vm0 as [V Dp]. cbn [JsonRoundtrip.vok JsonRoundtrip.nd] in V, Dp.
    rewrite forallb_forall in V. specialize (V kv I). apply andb_true_iff in V as [V1 V2].
    pose proof (list_max_map_ge (fun kv : str * json => jnd (snd kv)) m kv I) as M. cbn beta in M.
    repeat split; try assumption. unfold MAX_DEPTH in Dp. lia.
  Qed.

  Lemma claims_member_ok : forall kv, In kv (rest_of m ++ top_members m hj) ->
    sstr (fst kv) = true /\ vokS (snd kv) = true /\ (jnd (snd kv) <= 125)%nat.
  Proof.
    intros kv I. apply in_app_or in I as [I|I].
    - apply IssuerBuild.In_drop_members in I as [I _]. apply m_member_ok. exact I.
    - unfold IssuerBuild.top_members in I. apply in_app_or in I as [I|I].
      + destruct I as [<-|[]]. cbn. repeat split; lia.
      + apply in_app_or in I as [I|I].
        * apply IssuerBuild.In_get_members in I as [_ I]. apply m_member_ok. exact I.
        * unfold IssuerBuild.cnf_members in I. destruct hj as [jwk|] eqn:Ehj; [|destruct I].
          destruct I as [<-|[]]. destruct (HJ jwk eq_refl) as (_ & _ & _ & Vj).
          apply JsonRoundtrip.val_ok_at_spec in Vj as [Vj Dj].
          cbn [fst snd JsonRoundtrip.vok JsonRoundtrip.nd forallb map list_max].
          rewrite Vj. repeat split; try reflexivity. unfold list_max. cbn [fold_right]. rewrite Nat.max_0_r. lia.
  Qed.

  Lemma D_vok : vokS (claims_of D) = true.
  Proof.
    rewrite D_claims. cbn [JsonRoundtrip.vok]. apply forallb_forall. intros kv I.
    destruct (claims_member_ok kv I) as (A & B & _). rewrite A, B. reflexivity.
  Qed.

  Lemma D_nd : (jnd (claims_of D) <= 126)%nat.
  Proof.
    rewrite D_claims. cbn [JsonRoundtrip.nd]. apply le_n_S. apply list_max_map_le.
    intros kv I. apply (claims_member_ok kv I).
  Qed.

  Lemma P3_val_ok : JsonRoundtrip.val_ok (JObj P3) = true.
  Proof.
    rewrite <- D_payload. apply JsonRoundtrip.val_ok_at_spec. split.
    - apply vok_payload; [exact D_vok | exact D_digests_scalar].
    - pose proof (nd_payload D). pose proof D_nd. unfold MAX_DEPTH. lia.
  Qed.

  Lemma P3_wf : wf_json (JObj P3) = true.
  Proof. rewrite <- D_payload. apply wf_payload. exact D_shape. Qed.

  Lemma P3_nodup : NoDup (keys P3).
  Proof. pose proof P3_wf as X. cbn [wf_json] in X. apply andb_true_iff in X as [X _]. apply keys_nodup_NoDup. exact X. Qed.

  Lemma D_discs_good : forall e, In e (disclosures_of D) -> disc_good e.
  Proof.
    apply discs_good; [exact D_vok | exact D_digests_scalar | exact D_nd | exact D_shape |].
    intros e Ie. rewrite D_discs in Ie. apply Psalt.
    destruct IT as (_ & _ & _ & _ & _ & _ & _ & _ & _ & Hs & _). apply Hs. exact Ie.
  Qed.

  Lemma D_discs_wire : forall e, In e (disclosures_of D) -> wire_ok o e.
  Proof.
    intros e Ie. apply disc_good_wire; [|apply D_discs_good; exact Ie].
    rewrite D_discs in Ie. destruct IT as (_ & _ & _ & _ & _ & _ & _ & _ & Hd & _). apply Hd. exact Ie.
  Qed.

  (* ---- digest maps made of disclosures of D ---- *)
  Lemma sub_wire : forall es, incl es (disclosures_of D) -> Forall (wire_ok o) es.
  Proof. intros es I. apply Forall_forall. intros e Ie. apply D_discs_wire. apply I. exact Ie. Qed.

  Lemma sub_chm : forall es, incl es (disclosures_of D) -> NoDup (map fst es) ->
    create_hash_mappings o (texts_of es) [] = Ok (dm_of es).
  Proof.
    intros es I N. rewrite chm_entries; [reflexivity | apply sub_wire; exact I | exact N | reflexivity].
  Qed.

  Lemma sub_genuine : forall es, incl es (disclosures_of D) -> WalkSel.genuine (dm_of es) D.
  Proof.
    intros es I. apply WalkSel.genuine_of_disclosures; [exact D_shape | exact D_nodup | exact D_nodup_discs|].
    intros dg x t E. apply dm_of_get in E as [E _]. apply I. exact E.
  Qed.

  Lemma sub_tilde_free : forall es, incl es (disclosures_of D) -> Forall (fun x => ~ In 126 x) (texts_of es).
  Proof.
    intros es I. apply Forall_forall. intros x Ix. apply in_map_iff in Ix as [e [<- Ie]].
    destruct (disc_good_text e (D_discs_good e (I e Ie))) as (_ & T & _). exact T.
  Qed.

  (* ---- looking members up in the payload ---- *)
  Lemma keys_obj_vis_rest : forall k, In k (keys (IssuerBuild.obj_vis ms)) -> In k (keys (rest_of m)).
  Proof.
    intros k I. apply IssuerBuild.In_keys_obj_vis in I.
    destruct IT as (_ & Cd & _). rewrite (IssuerBuild.top_keys_ms m ms sdl Cd) in I. exact I.
  Qed.

  Lemma P3_get_top : forall k, k <> SD_DIGESTS_KEY -> ~ In k (keys (rest_of m)) ->
    obj_get k P3 = obj_get k (top_members m hj).
  Proof.
    intros k N1 N2. unfold P3. rewrite !WalkSel.obj_get_app.
    rewrite WalkSel.obj_get_sd_member_other by exact N1.
    replace (obj_get k (IssuerBuild.obj_vis ms)) with (@None json); [reflexivity|].
    symmetry. apply obj_get_None_keys. intros C. apply N2. apply keys_obj_vis_rest. exact C.
  Qed.

  Lemma get_get_members : forall k ks mm, In k ks -> NoDup ks ->
    obj_get k (IssuerBuild.get_members mm ks) = obj_get k mm.
  Proof.
    intros k ks mm. induction ks as [|k' ks IH]; intros I N; [destruct I|].
    inversion N as [|? ? Nk N']; subst. unfold IssuerBuild.get_members. cbn [flat_map].
    fold (IssuerBuild.get_members mm ks). rewrite WalkSel.obj_get_app.
    destruct (str_eqb_spec k k') as [->|Ne].
    - destruct (obj_get k' mm) as [v|] eqn:G; cbn [obj_get]; [rewrite str_eqb_refl; reflexivity|].
      apply obj_get_None_keys. intros C. apply in_map_iff in C as (kv & Ek & C).
      apply IssuerBuild.In_get_members in C as [C _]. rewrite Ek in C. contradiction.
    - destruct I as [I|I]; [congruence|].
      destruct (obj_get k' mm) as [v|]; cbn [obj_get]; [destruct (str_eqb_spec k k'); [contradiction|]|];
        apply IH; assumption.
  Qed.

  Lemma P3_get_always : forall k, In k ALWAYS_REVEALED -> obj_get k P3 = obj_get k m.
  Proof.
    intros k I. rewrite P3_get_top.
    - unfold IssuerBuild.top_members. cbn [app obj_get].
      destruct (str_eqb_spec k DIGEST_ALG_KEY) as [->|_].
      { exfalso. revert I. apply mem_str_not_In. reflexivity. }
      rewrite WalkSel.obj_get_app. unfold IssuerBuild.always_of.
      rewrite get_get_members by (assumption || exact IssuerBuild.NoDup_ALWAYS).
      destruct (obj_get k m) as [v|] eqn:G; [reflexivity|].
      unfold IssuerBuild.cnf_members. destruct hj; [|reflexivity]. cbn [obj_get].
      destruct (str_eqb_spec k CNF_KEY) as [->|_]; [|reflexivity].
      exfalso. revert I. apply mem_str_not_In. reflexivity.
    - intros ->. revert I. apply mem_str_not_In. reflexivity.
    - intros C. apply IssuerBuild.In_keys_rest in C as [_ C]. contradiction.
  Qed.

  Lemma P3_get_alg : obj_get DIGEST_ALG_KEY P3 = Some (JStr DEFAULT_DIGEST_ALG).
  Proof.
    rewrite P3_get_top.
    - reflexivity.
    - apply str_eqb_neq. reflexivity.
    - intros C. apply IssuerBuild.In_keys_rest in C as [C _]. contradiction.
  Qed.

  (* a member that is not one of the issuer's own: absent, or the payload of the
     subtree of the user's member of that name *)
  Lemma P3_get_user : forall k, ~ In k (keys (top_members m hj)) -> k <> SD_DIGESTS_KEY ->
    obj_get k P3 = None \/
    exists sub, obj_get k P3 = Some (payload_of sub) /\ obj_get k m = Some (claims_of sub).
  Proof.
    intros k N1 N2. unfold P3. rewrite !WalkSel.obj_get_app.
    rewrite WalkSel.obj_get_sd_member_other by exact N2.
    destruct (obj_get k (IssuerBuild.obj_vis ms)) as [v|] eqn:G.
    - right. apply obj_get_In in G. unfold IssuerBuild.obj_vis in G. apply in_flat_map in G as [kv [Ikv G]].
      destruct (fst (snd kv)); [destruct G|]. destruct G as [G|[]]. inversion G; subst k v.
      exists (snd (snd kv)). split; [reflexivity|].
      destruct IT as (_ & Cd & _). rewrite claims_obj in Cd. inversion Cd as [Cd'].
      assert (Ir : In (fst kv, claims_of (snd (snd kv))) (rest_of m)).
      { rewrite <- Cd'. apply in_map_iff. exists kv. split; [reflexivity | exact Ikv]. }
      apply IssuerBuild.In_drop_members in Ir as [Im _].
      assert (Nm : NoDup (keys m)).
      { cbn [wf_json] in W. apply andb_true_iff in W as [W1 _]. apply keys_nodup_NoDup. exact W1. }
      destruct (obj_get (fst kv) m) as [v'|] eqn:G'.
      + apply obj_get_In in G'. f_equal. symmetry.
        eapply (WalkSel.NoDup_fst_functional m (fst kv)); eassumption.
      + exfalso. apply obj_get_None_keys in G'. apply G'. apply in_map_iff.
        exists (fst kv, claims_of (snd (snd kv))). split; [reflexivity | exact Im].
    - left. apply obj_get_None_keys. exact N1.
  Qed.

(* ================================================================== *)
(*  7. the round trip (still inside Section Issued)                    *)
(* ================================================================== *)

  Variable alg : str.
  Variable ikey : key.
  Hypothesis Hjwt : jwt_encode o None alg ikey (is_payload i) = Ok (is_header i, is_jwt i).
  (* the signature oracle verifies what it signed, and signatures are base64url-like *)
  Hypothesis sig_correct : forall a k msg, sig_ok o a k msg (sign o a k msg) = true.
  Hypothesis sig_free : forall a k msg, ~ In 46 (sign o a k msg) /\ ~ In 126 (sign o a k msg).
  Variable resolver : str -> json -> key.
  Variable now : N.
  Variable issv : str.
  Variable e : N.
  (* what the JWT layer needs of the user's claims *)
  Hypothesis Hiss : obj_get (lit "iss") m = Some (JStr issv).
  Hypothesis Hres : resolver issv (alg_header alg) = ikey.
  Hypothesis Hexp : numeric_claim (lit "exp") m = Ok (Parsed e).
  Hypothesis He : now <= e + LEEWAY.
  Hypothesis Haud : obj_get (lit "aud") m = None.
  Hypothesis Hsub : obj_get (lit "sub") m = None \/ obj_get (lit "sub") m = Some JNull \/
                    exists s, obj_get (lit "sub") m = Some (JStr s).
  Hypothesis Hnbf : exists t, numeric_claim (lit "nbf") m = Ok t /\ forall n, t = Parsed n -> n <= now + LEEWAY.

  Let hb := base64url_encode_str (print (alg_header alg)).
  Let plb := base64url_encode_str (print (JObj P3)).
  Let sg := sign o alg ikey (hb ++ 46 :: plb).

  Lemma alg_known : alg_family alg = Some (kfam ikey) /\ mem_str alg alg_names = true.
  Proof.
    destruct (jwt_encode_inv _ _ _ _ _ _ Hjwt) as (A & _). split; [exact A|]. eapply alg_family_names. exact A.
  Qed.

  Lemma jwt_eq : is_jwt i = jwt3 hb plb sg.
  Proof.
    destruct (jwt_encode_inv _ _ _ _ _ _ Hjwt) as (_ & _ & E). cbv zeta in E. rewrite E.
    destruct IT as (_ & _ & _ & _ & Ep & _). rewrite Ep. reflexivity.
  Qed.

  Lemma hb_scalar : sstr (print (alg_header alg)) = true.
  Proof.
    apply print_scalar. apply alg_header_vok. destruct alg_known as [_ M].
    apply (alg_header_facts alg M).
  Qed.
  Lemma plb_scalar : sstr (print (JObj P3)) = true.
  Proof. apply print_scalar. pose proof P3_val_ok as V. apply JsonRoundtrip.val_ok_at_spec in V. exact (proj1 V). Qed.

  Lemma plb_decode : jwt_payload_decode plb = Ok P3.
  Proof. apply payload_decode_print; [exact P3_val_ok | exact P3_wf]. Qed.

  Lemma not_top_key : forall k, ~ In k ALWAYS_REVEALED -> k <> DIGEST_ALG_KEY -> k <> CNF_KEY ->
    ~ In k (keys (top_members m hj)).
  Proof.
    intros k N1 N2 N3 C. unfold IssuerBuild.top_members in C. rewrite !keys_app in C.
    apply in_app_or in C as [C|C]; [destruct C as [C|[]]; apply N2; symmetry; exact C|].
    apply in_app_or in C as [C|C].
    - apply IssuerBuild.In_keys_always in C as [C _]. contradiction.
    - unfold IssuerBuild.cnf_members in C. destruct hj; [|destruct C]. destruct C as [C|[]]. apply N3. symmetry. exact C.
  Qed.

  Lemma user_key : forall k, mem_str k [lit "aud"; lit "sub"; lit "nbf"] = true ->
    ~ In k (keys (top_members m hj)) /\ k <> SD_DIGESTS_KEY.
  Proof.
    intros k M. apply mem_str_In in M. cbn [In] in M.
    destruct M as [<-|[<-|[<-|[]]]]; (split; [apply not_top_key|]);
      try (apply mem_str_not_In; reflexivity); apply str_eqb_neq; reflexivity.
  Qed.

  (* a leaf-valued user member keeps its value in the payload, or is hidden *)
  Lemma P3_get_leaf : forall k, mem_str k [lit "aud"; lit "sub"; lit "nbf"] = true ->
    obj_get k P3 = None \/
    (obj_get k P3 = obj_get k m) \/
    (exists v, obj_get k m = Some v /\ is_container v = true).
  Proof.
    intros k M. destruct (user_key k M) as [N1 N2].
    destruct (P3_get_user k N1 N2) as [G|(sub & G1 & G2)]; [left; exact G|].
    destruct (is_container (claims_of sub)) eqn:C.
    - right. right. exists (claims_of sub). split; assumption.
    - right. left. rewrite G1, G2, (claims_leaf sub C). reflexivity.
  Qed.

  Lemma validate_P3 : validate (issuer_validation alg) P3 P3 now = Ok tt.
  Proof.
    apply (VerifierFacts.validate_in_window alg P3 P3 now e).
    - intros k _. apply count_key_nodup. exact P3_nodup.
    - destruct (P3_get_leaf (lit "sub") eq_refl) as [G|[G|(v & G & C)]].
      + left. exact G.
      + rewrite G. exact Hsub.
      + exfalso. destruct Hsub as [S|[S|[s S]]]; rewrite S in G; try discriminate; inversion G; subst v; discriminate C.
    - rewrite <- Hexp. apply numeric_claim_ext. apply P3_get_always. right. right. left. reflexivity.
    - unfold LEEWAY in *. lia.
    - destruct Hnbf as (t & Nt & Lt).
      destruct (P3_get_leaf (lit "nbf") eq_refl) as [G|[G|(v & G & C)]].
      + left. unfold numeric_claim. rewrite G. reflexivity.
      + rewrite (numeric_claim_ext _ _ _ G), Nt.
        destruct t as [n| |]; [right; right; exists n; split; [reflexivity | apply Lt; reflexivity] | right; left; reflexivity | left; reflexivity].
      + exfalso. rewrite (numeric_claim_container _ _ _ _ G Nt) in C. discriminate.
    - intros x. unfold aud_claim.
      destruct (P3_get_leaf (lit "aud") eq_refl) as [G|[G|(v & G & C)]].
      + rewrite G. discriminate.
      + rewrite G, Haud. discriminate.
      + rewrite Haud in G. discriminate.
  Qed.

  (* what any parse of a presentation of the issued JWT with disclosures [es] looks like *)
  Definition parsed_of (p : parsed) (es : list (str * json)) : Prop :=
    p_jwt p = is_jwt i /\ p_payload p = P3 /\ p_disclosures p = texts_of es /\ p_sign_alg p = Some alg.

  (* the issuer-signed JWT passes the JWT layer; the claims are unpacked *)
  Lemma verify_parsed_issued : forall p es ea en,
    incl es (disclosures_of D) -> NoDup (map fst es) -> parsed_of p es ->
    exists mV,
      jequiv (JObj mV) (view_d (fun dg => mem_str dg (map fst es)) D) /\
      VerifierFacts.verify_parsed o p resolver ea en now =
      match ea, en with
      | Some a, Some n => do _ <- verify_key_binding o p P3 a n now; Ok (JObj (obj_remove DIGEST_ALG_KEY mV))
      | None, None => Ok (JObj (obj_remove DIGEST_ALG_KEY mV))
      | _, _ => Err "Either both expected_aud and expected_nonce must be provided or both must be None"
      end.
  Proof.
    intros p es ea en Ies Nes (Ej & Ep & Ed & Ea).
    destruct alg_known as [Af Am]. destruct (alg_header_facts alg Am) as (_ & Hh & _).
    destruct (sig_free alg ikey (hb ++ 46 :: plb)) as [Sd _]. fold sg in Sd.
    pose proof (b64url_no_dot _ plb_scalar) as Pd. fold plb in Pd.
    (* the claims *)
    pose proof (sub_genuine es Ies) as Gw. apply genuine_same in Gw.
    destruct (UnpackView.unpack_view_top D (dm_of es) D_wf Gw) as (V & seen' & EV & JV).
    rewrite (UnpackView.jequiv_view_d_ext (UnpackView.has_of (dm_of es)) (fun dg => mem_str dg (map fst es)) D D_shape) in JV
      by (intros dg _; apply dm_of_has).
    assert (exists mV, V = JObj mV) as [mV ->].
    { unfold D in JV. rewrite UnpackView.view_obj in JV. inversion JV; subst. eexists; reflexivity. }
    exists mV. split; [exact JV|].
    unfold VerifierFacts.verify_parsed. rewrite Ed, (sub_chm es Ies Nes). cbn [bind].
    rewrite Ej, jwt_eq. unfold jwt3. rewrite decode_header_jwt by assumption.
    change (header_from_encoded hb = Ok (hdr_of alg)) in Hh. rewrite Hh. cbn [bind].
    rewrite Ep, (P3_get_always (lit "iss")) by (left; reflexivity). rewrite Hiss. cbn [bind].
    rewrite Ea, Am. cbn [bind hdr_of hd_json]. rewrite Hres.
    rewrite (jwt_decode_jwt o ikey (issuer_validation alg) now hb plb sg (hdr_of alg) (print (JObj P3)) P3 P3);
      try assumption; try reflexivity.
    - cbn [bind]. unfold extract_sd_claims. rewrite P3_get_alg. rewrite str_eqb_refl. cbn [bind].
      rewrite <- D_payload, EV. cbn [bind]. reflexivity.
    - apply sig_correct.
    - apply b64_print_decode. pose proof P3_val_ok as X. apply JsonRoundtrip.val_ok_at_spec in X. exact (proj1 X).
    - apply JsonRoundtrip.parse_json_raw_print_k.
      + eapply JsonRoundtrip.vok_nums_ok. pose proof P3_val_ok as X. apply JsonRoundtrip.val_ok_at_spec in X. apply X.
      + pose proof P3_val_ok as X. apply JsonRoundtrip.val_ok_at_spec in X. apply X.
    - apply JsonRoundtrip.dedup_wf. exact P3_wf.
    - exact validate_P3.
  Qed.

  (* ---- parsing a Compact text made of the issued JWT and disclosures [es] ---- *)
  Lemma parse_issued_compact : forall es (kb : str), incl es (disclosures_of D) -> ~ In 126 kb ->
    exists p, parse_compact (join_with [126] (is_jwt i :: texts_of es ++ [kb])) = Ok p /\
              parsed_of p es /\ p_kb p = Some kb /\ p_fmt p = Compact /\ p_json p = None.
  Proof.
    intros es kb Ies Tk. destruct alg_known as [_ Am]. destruct (alg_header_facts alg Am) as (_ & _ & Hs).
    destruct (sig_free alg ikey (hb ++ 46 :: plb)) as [_ St]. fold sg in St.
    rewrite jwt_eq. rewrite (parse_compact_text hb plb sg (texts_of es) kb P3).
    - eexists. split; [reflexivity|]. cbn [p_jwt p_payload p_disclosures p_sign_alg p_kb p_fmt p_json].
      split; [|repeat split]. unfold parsed_of. cbn [p_jwt p_payload p_disclosures p_sign_alg].
      rewrite jwt_eq. repeat split. exact Hs.
    - apply b64url_no_tilde. exact hb_scalar.
    - apply b64url_no_tilde. exact plb_scalar.
    - exact St.
    - apply sub_tilde_free. exact Ies.
    - exact Tk.
    - apply b64url_no_dot. exact hb_scalar.
    - apply b64url_no_dot. exact plb_scalar.
    - exact plb_decode.
  Qed.

  (* ---- the holder ---- *)
  Definition dm_full : dmap := dm_of (disclosures_of D).

  Lemma holder_new_issued :
    is_serialized i = join_with [126] (is_jwt i :: is_disclosures i) ++ [126] ->
    exists h, holder_new o (is_serialized i) Compact = Ok h /\
              h_fmt h = Compact /\ h_jwt h = is_jwt i /\ h_payload h = P3 /\ h_dmap h = dm_full /\
              h_json h = None /\ h_in_kb h = Some [].
  Proof.
    intros Hser. rewrite Hser, D_texts, <- join_with_snoc_empty.
    destruct (parse_issued_compact (disclosures_of D) [] (incl_refl _)) as (p & Ep & (Pj & Pp & Pd & Pa) & Pk & Pf & Pn);
      [intros []|].
    assert (Ec : create_hash_mappings o (p_disclosures p) [] = Ok dm_full).
    { rewrite Pd. apply sub_chm; [apply incl_refl | exact D_nodup_discs]. }
    pose proof (holder_new_compact o _ p dm_full Ep Ec) as Eh.
    eexists. split; [exact Eh|]. cbn [h_fmt h_jwt h_payload h_dmap h_json h_in_kb]. repeat split; assumption.
  Qed.

  Lemma dm_full_genuine : WalkSel.genuine dm_full D.
  Proof. apply sub_genuine. apply incl_refl. Qed.

  Lemma dm_full_covers : forall l, incl l (WalkSel.hidden_digests D) -> WalkSel.covers dm_full l.
  Proof. intros l I dg Hdg. apply dm_of_covers. apply hidden_has_disclosure. apply I. exact Hdg. Qed.

  (* the decoded disclosure / the text filed under a digest *)
  Definition disclosure_at (dg : str) : json :=
    match dmap_get dg dm_full with Some (x, _) => x | None => JNull end.
  Definition text_at (dg : str) : str := raw_of_disc (disclosure_at dg).
  Definition entries_at (l : list str) : list (str * json) := map (fun dg => (dg, disclosure_at dg)) l.

  Lemma entries_at_fst : forall l, map fst (entries_at l) = l.
  Proof. intros l. unfold entries_at. rewrite map_map. cbn [fst]. apply map_id. Qed.

  Lemma entries_at_texts : forall l, texts_of (entries_at l) = map text_at l.
  Proof. intros l. unfold texts_of, entries_at. rewrite map_map. reflexivity. Qed.

  Lemma entries_at_incl : forall l, incl l (WalkSel.hidden_digests D) -> incl (entries_at l) (disclosures_of D).
  Proof.
    intros l I e0 Ie. apply in_map_iff in Ie as [dg [<- Idg]].
    destruct (dm_full_covers l I dg Idg) as (x & t & G). unfold disclosure_at. rewrite G.
    apply dm_of_get in G as [G _]. exact G.
  Qed.

  Lemma raw_of_text_at : forall l, incl l (WalkSel.hidden_digests D) -> map (WalkSel.raw_of dm_full) l = map text_at l.
  Proof.
    intros l I. apply map_ext_in. intros dg Idg. destruct (dm_full_covers l I dg Idg) as (x & t & G).
    unfold WalkSel.raw_of, text_at, disclosure_at. rewrite G. apply dm_of_get in G as [_ G]. exact G.
  Qed.

  Section Selection.
    Variable sel : members.
    Hypothesis Hcons : consistent (JObj sel) (flags D) = true.
    Let desig := WalkSel.designated_d (JObj sel) D.

    Lemma desig_hidden : incl desig (WalkSel.hidden_digests D).
    Proof. apply WalkSel.designated_incl_hidden. Qed.

    Lemma desig_nodup : NoDup desig.
    Proof.
      apply (WalkSel.designated_nodup (JObj sel) D dm_full); [exact D_shape | exact D_nodup | exact dm_full_genuine | exact Hcons|].
      apply dm_full_covers. exact desig_hidden.
    Qed.

    Lemma walk_issued : walk dm_full (JObj sel) (JObj P3) = Ok (map text_at desig).
    Proof.
      rewrite <- D_payload. rewrite WalkSel.walk_designated; [| exact D_shape | exact dm_full_genuine | exact Hcons |].
      - fold desig. rewrite raw_of_text_at by exact desig_hidden. reflexivity.
      - apply dm_full_covers. exact desig_hidden.
    Qed.

    Lemma present_selected : forall h now',
      h_fmt h = Compact -> h_jwt h = is_jwt i -> h_payload h = P3 -> h_dmap h = dm_full ->
      snd (present o h sel no_kb now') = Ok (join_with [126] (is_jwt i :: map text_at desig) ++ [126]).
    Proof.
      intros h now' Hf Hj Hp Hd. rewrite <- Hj. apply present_compact_no_kb; [exact Hf|].
      rewrite Hp, Hd. exact walk_issued.
    Qed.

    Lemma verify_presented :
      exists V, verify o (join_with [126] (is_jwt i :: map text_at desig) ++ [126]) resolver None None Compact now = Ok V /\
                jequiv V (verified_claims (fun dg => mem_str dg desig) D).
    Proof.
      rewrite VerifierFacts.verify_is_parse_then_verify_parsed. cbn [parse_sd_jwt].
      rewrite <- join_with_snoc_empty, <- entries_at_texts.
      pose proof (entries_at_incl desig desig_hidden) as Ies.
      destruct (parse_issued_compact (entries_at desig) [] Ies) as (p & Ep & Pof & _); [intros []|].
      rewrite Ep. cbn [bind].
      destruct (verify_parsed_issued p (entries_at desig) None None Ies) as (mV & JV & EV); [| exact Pof |].
      { rewrite entries_at_fst. exact desig_nodup. }
      rewrite EV. eexists. split; [reflexivity|]. rewrite entries_at_fst in JV.
      unfold verified_claims. unfold D in JV |- *. rewrite UnpackView.view_obj in JV |- *. cbn [vmembers].
      apply jequiv_remove; [exact JV|]. apply NoDup_keys_vmem.
      pose proof D_shape as S. apply UnpackView.shape_obj in S as (S & _). exact S.
    Qed.
  End Selection.

  (* C01, Compact format, no key binding — in terms of the issued tree *)
  Lemma roundtrip_compact_core : forall sel now',
    is_serialized i = join_with [126] (is_jwt i :: is_disclosures i) ++ [126] ->
    consistent (JObj sel) (flags D) = true ->
    let desig := WalkSel.designated_d (JObj sel) D in
    exists h V,
      holder_new o (is_serialized i) Compact = Ok h /\
      snd (present o h sel no_kb now') = Ok (join_with [126] (is_jwt i :: map text_at desig) ++ [126]) /\
      (forall dg, In dg desig -> In (dg, disclosure_at dg) (disclosures_of D)) /\
      NoDup desig /\
      verify o (join_with [126] (is_jwt i :: map text_at desig) ++ [126]) resolver None None Compact now = Ok V /\
      jequiv V (verified_claims (fun dg => mem_str dg desig) D).
  Proof.
    intros sel now' Hser Hcons desig.
    destruct (holder_new_issued Hser) as (h & Eh & Hf & Hj & Hp & Hd & _).
    destruct (verify_presented sel Hcons) as (V & EV & JV).
    exists h, V. split; [exact Eh|]. split; [apply present_selected; assumption|].
    split.
    { intros dg Idg. apply (entries_at_incl desig (desig_hidden sel)).
      apply in_map_iff. exists dg. split; [reflexivity | exact Idg]. }
    split; [apply desig_nodup; exact Hcons|]. split; assumption.
  Qed.

  (* ---- the same for the JSON serialisation ---- *)
  Lemma parse_issued_json : forall es,
    exists p, parse_json_form (print (sdjwt_json hb plb sg (texts_of es) JNull)) = Ok p /\
              parsed_of p es /\ p_kb p = None /\ p_fmt p = JSONFmt /\ p_json p = Some (hb, plb, sg).
  Proof.
    intros es. destruct alg_known as [_ Am]. destruct (alg_header_facts alg Am) as (_ & _ & Hs).
    rewrite (parse_json_form_text hb plb sg (texts_of es) JNull None P3).
    - eexists. split; [reflexivity|]. cbn [p_kb p_fmt p_json]. split; [|repeat split].
      unfold parsed_of. cbn [p_jwt p_payload p_disclosures p_sign_alg]. rewrite jwt_eq. repeat split. exact Hs.
    - left. split; reflexivity.
    - apply b64url_no_dot. exact hb_scalar.
    - apply b64url_no_dot. exact plb_scalar.
    - exact plb_decode.
  Qed.

  Lemma serialized_json :
    serialize_issued JSONFmt (is_jwt i) (is_disclosures i) = Ok (is_serialized i) ->
    is_serialized i = print (sdjwt_json hb plb sg (is_disclosures i) JNull).
  Proof.
    intros E. rewrite jwt_eq in E. unfold serialize_issued, jwt3 in E.
    rewrite split_dot_jwt in E by (apply b64url_no_dot; first [exact hb_scalar | exact plb_scalar]).
    destruct (sig_free alg ikey (hb ++ 46 :: plb)) as [Sd _]. fold sg in Sd.
    unfold split_on in E. rewrite split_on_aux_free_all in E by exact Sd. cbn [rev app] in E.
    injection E as E. symmetry. exact E.
  Qed.

  Lemma holder_new_issued_json :
    serialize_issued JSONFmt (is_jwt i) (is_disclosures i) = Ok (is_serialized i) ->
    exists h, holder_new o (is_serialized i) JSONFmt = Ok h /\
              h_fmt h = JSONFmt /\ h_jwt h = is_jwt i /\ h_payload h = P3 /\ h_dmap h = dm_full /\
              h_json h = Some (hb, plb, sg) /\ h_in_kb h = None.
  Proof.
    intros Hser. rewrite (serialized_json Hser), D_texts.
    destruct (parse_issued_json (disclosures_of D)) as (p & Ep & (Pj & Pp & Pd & Pa) & Pk & Pf & Pn).
    assert (Ec : create_hash_mappings o (p_disclosures p) [] = Ok dm_full).
    { rewrite Pd. apply sub_chm; [apply incl_refl | exact D_nodup_discs]. }
    pose proof (holder_new_json o _ p dm_full Ep Ec) as Eh.
    eexists. split; [exact Eh|]. cbn [h_fmt h_jwt h_payload h_dmap h_json h_in_kb]. repeat split; assumption.
  Qed.

  Lemma roundtrip_json_core : forall sel now',
    serialize_issued JSONFmt (is_jwt i) (is_disclosures i) = Ok (is_serialized i) ->
    consistent (JObj sel) (flags D) = true ->
    let desig := WalkSel.designated_d (JObj sel) D in
    let pres := print (sdjwt_json hb plb sg (map text_at desig) JNull) in
    exists h V,
      holder_new o (is_serialized i) JSONFmt = Ok h /\
      snd (present o h sel no_kb now') = Ok pres /\
      (forall dg, In dg desig -> In (dg, disclosure_at dg) (disclosures_of D)) /\
      NoDup desig /\
      verify o pres resolver None None JSONFmt now = Ok V /\
      jequiv V (verified_claims (fun dg => mem_str dg desig) D).
  Proof.
    intros sel now' Hser Hcons desig pres.
    destruct (holder_new_issued_json Hser) as (h & Eh & Hf & Hj & Hp & Hd & Hjs & Hk).
    pose proof (desig_hidden sel) as Ihid. fold desig in Ihid.
    pose proof (entries_at_incl desig Ihid) as Ies.
    exists h.
    destruct (parse_issued_json (entries_at desig)) as (p & Ep & Pof & _).
    destruct (verify_parsed_issued p (entries_at desig) None None Ies) as (mV & JV & EV); [| exact Pof |].
    { rewrite entries_at_fst. apply desig_nodup. exact Hcons. }
    exists (JObj (obj_remove DIGEST_ALG_KEY mV)).
    split; [exact Eh|]. split.
    { apply present_json_no_kb; try assumption. rewrite Hp, Hd. apply walk_issued. exact Hcons. }
    split.
    { intros dg Idg. apply Ies. apply in_map_iff. exists dg. split; [reflexivity | exact Idg]. }
    split; [apply desig_nodup; exact Hcons|]. split.
    - rewrite VerifierFacts.verify_is_parse_then_verify_parsed. cbn [parse_sd_jwt]. unfold pres.
      rewrite <- entries_at_texts, Ep. cbn [bind]. exact EV.
    - rewrite entries_at_fst in JV. unfold verified_claims. unfold D in JV |- *.
      rewrite UnpackView.view_obj in JV |- *. cbn [vmembers].
      apply jequiv_remove; [exact JV|]. apply NoDup_keys_vmem.
      pose proof D_shape as S. apply UnpackView.shape_obj in S as (S & _). exact S.
  Qed.

  (* ---- key binding (Compact) ---- *)
  Lemma ascii_app : forall a b, ascii a -> ascii b -> ascii (a ++ b).
  Proof. intros a b A B. unfold ascii in *. apply Forall_app. split; assumption. Qed.

  Lemma ascii_join : forall x l, ascii x -> Forall ascii l -> ascii (join_with [126] (x :: l) ++ [126]).
  Proof.
    intros x l. revert x. induction l as [|y l IH]; intros x Ax Al.
    - cbn [join_with]. apply ascii_app; [exact Ax | repeat constructor].
    - inversion Al as [|? ? Ay Al']; subst. rewrite HolderFacts.join_with_cons2, <- !app_assoc.
      apply ascii_app; [exact Ax|]. apply ascii_app; [repeat constructor|]. apply IH; assumption.
  Qed.

  Lemma sub_ascii : forall es, incl es (disclosures_of D) -> Forall ascii (texts_of es).
  Proof.
    intros es I. apply Forall_forall. intros x Ix. apply in_map_iff in Ix as [e0 [<- Ie]].
    destruct (D_discs_good e0 (I e0 Ie)) as (salt & name & v & Es & _). rewrite Es, IssuerBuild.raw_of_disc_json.
    apply b64_encode_ascii.
  Qed.

  Lemma parse_issued_json_kb : forall es (kbs : str),
    exists p, parse_json_form (print (sdjwt_json hb plb sg (texts_of es) (JStr kbs))) = Ok p /\
              parsed_of p es /\ p_kb p = Some kbs.
  Proof.
    intros es kbs. destruct alg_known as [_ Am]. destruct (alg_header_facts alg Am) as (_ & _ & Hs).
    rewrite (parse_json_form_text hb plb sg (texts_of es) (JStr kbs) (Some kbs) P3).
    - eexists. split; [reflexivity|]. cbn [p_kb]. split; [|reflexivity].
      unfold parsed_of. cbn [p_jwt p_payload p_disclosures p_sign_alg]. rewrite jwt_eq. repeat split. exact Hs.
    - right. exists kbs. split; reflexivity.
    - apply b64url_no_dot. exact hb_scalar.
    - apply b64url_no_dot. exact plb_scalar.
    - exact plb_decode.
  Qed.

  Section KB.
    Variable jwk : json.
    Hypothesis Hhj : hj = Some jwk.
    Variable hk : key.
    Hypothesis Hjk : jwk_key o jwk = Some hk.
    Variables nonce aud : str.
    Hypothesis Snonce : sstr nonce = true.
    Hypothesis Saud : sstr aud = true.
    Variable kalg : option str.
    Let kba : str := match kalg with Some x => x | None => DEFAULT_SIGNING_ALG end.
    Hypothesis Hkfam : alg_family kba = Some (kfam hk).
    Hypothesis sig_ascii : forall a k msg, ascii (sign o a k msg).
    Let args : kb_args := {| kb_nonce := Some nonce; kb_aud := Some aud; kb_key := Some hk; kb_alg := kalg |}.

    Lemma P3_get_cnf : obj_get CNF_KEY P3 = Some (JObj [(JWK_KEY, jwk)]).
    Proof.
      destruct (HJ jwk Hhj) as (_ & _ & Nc & _).
      rewrite P3_get_top.
      - rewrite Hhj. unfold IssuerBuild.top_members. rewrite !WalkSel.obj_get_app.
        change (obj_get CNF_KEY [(DIGEST_ALG_KEY, JStr DEFAULT_DIGEST_ALG)]) with (@None json).
        replace (obj_get CNF_KEY (always_of m)) with (@None json); [reflexivity|].
        symmetry. apply obj_get_None_keys. intros C. apply IssuerBuild.In_keys_always in C as [_ C]. contradiction.
      - apply str_eqb_neq. reflexivity.
      - intros C. apply IssuerBuild.In_keys_rest in C as [C _]. contradiction.
    Qed.

    Lemma jwt_ascii : ascii (is_jwt i).
    Proof.
      rewrite jwt_eq. unfold jwt3. apply ascii_app; [apply ascii_app|].
      - apply b64_encode_ascii.
      - constructor; [reflexivity | apply b64_encode_ascii].
      - constructor; [reflexivity | apply sig_ascii].
    Qed.

    Section KBSel.
      Variable sel : members.
      Variable now' : N.
      Hypothesis Hcons : consistent (JObj sel) (flags D) = true.
      Let desig := WalkSel.designated_d (JObj sel) D.
      Let hs := map text_at desig.
      Let sdh := sd_hash_of o (is_jwt i) hs.
      Let kbp := kb_payload nonce aud now' sdh.
      Let khb := base64url_encode_str (print (kb_header kba)).
      Let kpl := base64url_encode_str (print (JObj kbp)).
      Let ksg := sign o kba hk (khb ++ 46 :: kpl).
      Let kb := jwt3 khb kpl ksg.

      Lemma kba_known : mem_str kba alg_names = true.
      Proof. eapply alg_family_names. exact Hkfam. Qed.

      Lemma Ies_desig : incl (entries_at desig) (disclosures_of D).
      Proof. apply entries_at_incl. apply desig_hidden. Qed.

      Lemma sdh_scalar : sstr sdh = true.
      Proof.
        unfold sdh, sd_hash_of. apply Hscal. apply ascii_join; [exact jwt_ascii|].
        unfold hs. rewrite <- entries_at_texts. apply sub_ascii. exact Ies_desig.
      Qed.

      Lemma kbp_vok : vokS (JObj kbp) = true.
      Proof. apply kb_payload_vok; [exact Snonce | exact Saud | exact sdh_scalar]. Qed.

      Lemma khb_scalar : sstr (print (kb_header kba)) = true.
      Proof.
        apply print_scalar. apply kb_header_vok. destruct (alg_header_facts kba kba_known) as (S & _). exact S.
      Qed.
      Lemma kpl_scalar : sstr (print (JObj kbp)) = true.
      Proof. apply print_scalar. exact kbp_vok. Qed.

      Lemma kb_tilde_free : ~ In 126 kb.
      Proof.
        apply jwt3_tilde_free.
        - apply b64url_no_tilde. exact khb_scalar.
        - apply b64url_no_tilde. exact kpl_scalar.
        - apply sig_free.
      Qed.

      Lemma present_selected_kb : forall h,
        h_fmt h = Compact -> h_jwt h = is_jwt i -> h_payload h = P3 -> h_dmap h = dm_full ->
        snd (present o h sel args now') = Ok (join_with [126] (is_jwt i :: hs ++ [kb])).
      Proof.
        intros h Hf Hj Hp Hd. unfold present. rewrite Hp, Hd, (walk_issued sel Hcons).
        cbn [args kb_nonce kb_aud kb_key kb_alg].
        pose proof (jwt_encode_kb o kba hk (JObj kbp) Hkfam) as Ek. cbv zeta in Ek.
        fold desig. fold hs. rewrite Hj. fold sdh.
        change (jwt_encode o (Some KB_JWT_TYP_HEADER) kba hk (JObj kbp) = Ok (kb_header kba, kb)) in Ek.
        change [(lit "nonce", JStr nonce); (lit "aud", JStr aud); (lit "iat", JNum (N_to_dec now')); (KB_DIGEST_KEY, JStr sdh)]
          with kbp.
        change (match kalg with Some x => x | None => DEFAULT_SIGNING_ALG end) with kba.
        rewrite Ek. cbn [snd]. rewrite Hf. reflexivity.
      Qed.

      Lemma verify_kb_ok : forall p,
        parsed_of p (entries_at desig) -> p_kb p = Some kb ->
        verify_key_binding o p P3 aud nonce now = Ok tt.
      Proof.
        intros p (Pj & Pp & Pd & Pa) Pk. unfold verify_key_binding. rewrite Pk.
        pose proof (b64url_no_dot _ khb_scalar) as Dh. pose proof (b64url_no_dot _ kpl_scalar) as Dp.
        destruct (sig_free kba hk (khb ++ 46 :: kpl)) as [Ds _].
        destruct (kb_header_facts kba kba_known) as (Hh & Hs).
        assert (Ehs : header_sign_alg kb = Some kba).
        { unfold kb, jwt3. rewrite header_sign_alg_jwt by assumption. exact Hs. }
        rewrite Ehs. change kb with ((khb ++ 46 :: kpl) ++ 46 :: ksg).
        rewrite P3_get_cnf. cbn [obj_get]. rewrite str_eqb_refl. rewrite Hjk. rewrite kba_known. cbn [negb].
        rewrite (jwt_decode_jwt o hk (kb_validation kba aud) now khb kpl ksg (kb_hdr_of kba) (print (JObj kbp)) kbp kbp);
          try assumption; try reflexivity.
        - cbn [bind kb_hdr_of hd_typ]. rewrite str_eqb_refl. cbn [negb].
          change (obj_get (lit "nonce") kbp) with (Some (JStr nonce)). cbv beta iota. rewrite str_eqb_refl. cbn [negb].
          change (obj_get KB_DIGEST_KEY kbp) with (Some (JStr sdh)). cbv beta iota.
          rewrite Pj, Pd, entries_at_texts. fold hs. fold sdh. rewrite str_eqb_refl. reflexivity.
        - apply sig_correct.
        - apply b64_print_decode. exact kbp_vok.
        - apply JsonRoundtrip.parse_json_raw_print_k.
          + eapply JsonRoundtrip.vok_nums_ok. exact kbp_vok.
          + cbn. unfold MAX_DEPTH. lia.
        - apply validate_kb_payload.
      Qed.

      Lemma roundtrip_kb_core :
        is_serialized i = join_with [126] (is_jwt i :: is_disclosures i) ++ [126] ->
        exists h V,
          holder_new o (is_serialized i) Compact = Ok h /\
          snd (present o h sel args now') = Ok (join_with [126] (is_jwt i :: hs ++ [kb])) /\
          (forall dg, In dg desig -> In (dg, disclosure_at dg) (disclosures_of D)) /\
          NoDup desig /\
          verify o (join_with [126] (is_jwt i :: hs ++ [kb])) resolver (Some aud) (Some nonce) Compact now = Ok V /\
          jequiv V (verified_claims (fun dg => mem_str dg desig) D).
      Proof.
        intros Hser.
        destruct (holder_new_issued Hser) as (h & Eh & Hf & Hj & Hp & Hd & _).
        pose proof Ies_desig as Ies.
        destruct (parse_issued_compact (entries_at desig) kb Ies kb_tilde_free) as (p & Ep & Pof & Pk & _).
        destruct (verify_parsed_issued p (entries_at desig) (Some aud) (Some nonce) Ies) as (mV & JV & EV); [| exact Pof |].
        { rewrite entries_at_fst. apply desig_nodup. exact Hcons. }
        exists h, (JObj (obj_remove DIGEST_ALG_KEY mV)).
        split; [exact Eh|]. split; [apply present_selected_kb; assumption|].
        split.
        { intros dg Idg. apply Ies. apply in_map_iff. exists dg. split; [reflexivity | exact Idg]. }
        split; [apply desig_nodup; exact Hcons|]. split.
        - rewrite VerifierFacts.verify_is_parse_then_verify_parsed. cbn [parse_sd_jwt]. unfold hs.
          rewrite <- entries_at_texts, Ep. cbn [bind]. rewrite EV, (verify_kb_ok p Pof Pk). reflexivity.
        - rewrite entries_at_fst in JV. unfold verified_claims. unfold D in JV |- *.
          rewrite UnpackView.view_obj in JV |- *. cbn [vmembers].
          apply jequiv_remove; [exact JV|]. apply NoDup_keys_vmem.
          pose proof D_shape as S. apply UnpackView.shape_obj in S as (S & _). exact S.
      Qed.

      (* ---- key binding, JSON serialisation ---- *)
      Lemma kb_nonempty : exists c rest, kb = c :: rest.
      Proof. unfold kb, jwt3. destruct (khb ++ 46 :: kpl) as [|c l]; [eexists; eexists; reflexivity|]. exists c. eexists. reflexivity. Qed.

      Lemma present_selected_kb_json : forall h,
        h_fmt h = JSONFmt -> h_jwt h = is_jwt i -> h_payload h = P3 -> h_dmap h = dm_full ->
        h_json h = Some (hb, plb, sg) ->
        snd (present o h sel args now') = Ok (print (sdjwt_json hb plb sg hs (JStr kb))).
      Proof.
        intros h Hf Hj Hp Hd Hjs. unfold present. rewrite Hp, Hd, (walk_issued sel Hcons).
        cbn [args kb_nonce kb_aud kb_key kb_alg].
        pose proof (jwt_encode_kb o kba hk (JObj kbp) Hkfam) as Ek. cbv zeta in Ek.
        fold desig. fold hs. rewrite Hj. fold sdh.
        change (jwt_encode o (Some KB_JWT_TYP_HEADER) kba hk (JObj kbp) = Ok (kb_header kba, kb)) in Ek.
        change [(lit "nonce", JStr nonce); (lit "aud", JStr aud); (lit "iat", JNum (N_to_dec now')); (KB_DIGEST_KEY, JStr sdh)]
          with kbp.
        change (match kalg with Some x => x | None => DEFAULT_SIGNING_ALG end) with kba.
        rewrite Ek. cbn [snd]. rewrite Hf, Hjs. destruct kb_nonempty as (c & rest & Ekb). rewrite Ekb. reflexivity.
      Qed.

      Lemma roundtrip_kb_json_core :
        serialize_issued JSONFmt (is_jwt i) (is_disclosures i) = Ok (is_serialized i) ->
        let pres := print (sdjwt_json hb plb sg hs (JStr kb)) in
        exists h V,
          holder_new o (is_serialized i) JSONFmt = Ok h /\
          snd (present o h sel args now') = Ok pres /\
          (forall dg, In dg desig -> In (dg, disclosure_at dg) (disclosures_of D)) /\
          NoDup desig /\
          verify o pres resolver (Some aud) (Some nonce) JSONFmt now = Ok V /\
          jequiv V (verified_claims (fun dg => mem_str dg desig) D).
      Proof.
        intros Hser pres.
        destruct (holder_new_issued_json Hser) as (h & Eh & Hf & Hj & Hp & Hd & Hjs & _).
        pose proof Ies_desig as Ies.
        destruct (parse_issued_json_kb (entries_at desig) kb) as (p & Ep & Pof & Pk).
        destruct (verify_parsed_issued p (entries_at desig) (Some aud) (Some nonce) Ies) as (mV & JV & EV); [| exact Pof |].
        { rewrite entries_at_fst. apply desig_nodup. exact Hcons. }
        exists h, (JObj (obj_remove DIGEST_ALG_KEY mV)).
        split; [exact Eh|]. split; [apply present_selected_kb_json; assumption|].
        split.
        { intros dg Idg. apply Ies. apply in_map_iff. exists dg. split; [reflexivity | exact Idg]. }
        split; [apply desig_nodup; exact Hcons|]. split.
        - rewrite VerifierFacts.verify_is_parse_then_verify_parsed. cbn [parse_sd_jwt]. unfold pres, hs.
          rewrite <- entries_at_texts, Ep. cbn [bind]. rewrite EV, (verify_kb_ok p Pof Pk). reflexivity.
        - rewrite entries_at_fst in JV. unfold verified_claims. unfold D in JV |- *.
          rewrite UnpackView.view_obj in JV |- *. cbn [vmembers].
          apply jequiv_remove; [exact JV|]. apply NoDup_keys_vmem.
          pose proof D_shape as S. apply UnpackView.shape_obj in S as (S & _). exact S.
      Qed.
    End KBSel.
  End KB.
End Issued.

(* ================================================================== *)
(*  8. C01 for the Compact format without key binding                  *)
(* ================================================================== *)

(* view_d consults [has] only at the digests of hidden nodes *)
Lemma view_d_ext_hidden : forall has1 has2 d,
  (forall dg, In dg (WalkSel.hidden_digests d) -> has1 dg = has2 dg) -> view_d has1 d = view_d has2 d.
Proof.
  intros has1 has2. induction d as [v|es IH|ms sdl IH] using dtree_ind'; intros Hh.
  - reflexivity.
  - rewrite !UnpackView.view_arr. f_equal. apply UnpackView.flat_map_ext_in. intros x Ix.
    rewrite Forall_forall in IH.
    assert (Hx : forall dg, In dg (WalkSel.own_d (fst x) ++ WalkSel.hidden_digests (snd x)) -> has1 dg = has2 dg).
    { intros dg I. apply Hh. cbn [WalkSel.hidden_digests]. apply in_flat_map. exists x. split; assumption. }
    unfold UnpackView.velem. rewrite (IH x Ix) by (intros dg I; apply Hx; apply in_or_app; right; exact I).
    destruct (fst x) as [[salt dg]|]; [|reflexivity]. rewrite (Hx dg) by (left; reflexivity). reflexivity.
  - rewrite !UnpackView.view_obj. f_equal. apply UnpackView.flat_map_ext_in. intros x Ix.
    rewrite Forall_forall in IH.
    assert (Hx : forall dg, In dg (WalkSel.own_d (fst (snd x)) ++ WalkSel.hidden_digests (snd (snd x))) -> has1 dg = has2 dg).
    { intros dg I. apply Hh. cbn [WalkSel.hidden_digests]. apply in_flat_map. exists x. split; assumption. }
    unfold UnpackView.vmem, UnpackView.msub.
    rewrite (IH x Ix) by (intros dg I; apply Hx; apply in_or_app; right; exact I).
    destruct (fst (snd x)) as [[salt dg]|]; [|reflexivity]. rewrite (Hx dg) by (left; reflexivity). reflexivity.
Qed.

Lemma claims_no_reserved : forall m hj,
  wf_json (JObj m) = true -> has_reserved (JObj m) = false -> holder_jwk_ok m hj ->
  has_reserved (JObj (rest_of m ++ top_members m hj)) = false.
Proof.
  intros m hj W R HJ. cbn [has_reserved] in R |- *. rewrite existsb_false_forall in R.
  apply existsb_false_forall. intros kv I. apply in_app_or in I as [I|I].
  - apply R. apply IssuerBuild.In_drop_members in I as [I _]. exact I.
  - assert (HJ2 : forall jwk, hj = Some jwk -> wf_json jwk = true /\ has_reserved jwk = false /\ ~ In CNF_KEY (keys m)).
    { intros jwk E. destruct (HJ jwk E) as (A & B & C & _). auto. }
    assert (R' : has_reserved (JObj m) = false) by (cbn [has_reserved]; apply existsb_false_forall; exact R).
    destruct (IssuerBuild.top_members_ok m hj [] [] W R' HJ2 kv I) as (_ & Rv & N1 & N2).
    apply str_eqb_neq in N1, N2. rewrite N1, N2, Rv. reflexivity.
Qed.

Lemma obj_remove_mid : forall k v a b, ~ In k (keys a) -> obj_remove k (a ++ (k, v) :: b) = a ++ b.
Proof.
  intros k v. induction a as [|[k' v'] a IH]; intros b N; cbn [app obj_remove].
  - rewrite str_eqb_refl. reflexivity.
  - destruct (str_eqb_spec k k') as [->|_]; [exfalso; apply N; left; reflexivity|].
    rewrite IH by (intros C; apply N; right; exact C). reflexivity.
Qed.

(* The premises on the oracles, the randomness and the user's claims. *)
Definition oracle_ok (o : oracles) : Prop :=
  (forall a b, H o a = H o b -> a = b) /\                        (* collision resistance, idealised *)
  (forall x, ascii x -> sstr (H o x) = true) /\                   (* digests of ASCII texts are Rust strings *)
  (forall a k msg, sig_ok o a k msg (sign o a k msg) = true) /\   (* signatures verify *)
  (forall a k msg, ~ In 46 (sign o a k msg) /\ ~ In 126 (sign o a k msg)).   (* and contain neither . nor ~ *)

Definition rng_ok (r : rng) : Prop :=
  r_queue r = None /\ NoDup (r_salts r) /\
  forall x, In x (r_salts r) -> IssuerBuild.salt_ok x /\ DisclosureCodec.plain_salt x = true.

Definition claims_ok (m : members) : Prop :=
  wf_json (JObj m) = true /\ DisclosureCodec.claim_ok (JObj m) = true /\ ~ In DIGEST_ALG_KEY (keys m).

(* what the JWT layer (jsonwebtoken's validate) needs of the user's claims at time [now] *)
Definition jwt_claims_ok (m : members) (now : N) (issv : str) : Prop :=
  obj_get (lit "iss") m = Some (JStr issv) /\
  (exists e, numeric_claim (lit "exp") m = Ok (Parsed e) /\ now <= e + LEEWAY) /\
  obj_get (lit "aud") m = None /\
  (obj_get (lit "sub") m = None \/ obj_get (lit "sub") m = Some JNull \/
   exists s, obj_get (lit "sub") m = Some (JStr s)) /\
  (exists t, numeric_claim (lit "nbf") m = Ok t /\ forall n, t = Parsed n -> n <= now + LEEWAY).

(* the digest tree of an issued credential (the D of IssuerBuild.issue_builds) *)
Definition tree_of (o : oracles) (s : strategy) (m : members) (hj : option json) (i : issued)
           (ms : list (str * (option (str * str) * dtree))) (sdl : list str) : Prop :=
  let D := DObj (ms ++ map embed_member (top_members m hj)) sdl in
  (exists s', finalize_input s = Ok s' /\ flags (DObj ms sdl) = marks s' (JObj (rest_of m))) /\
  claims_of (DObj ms sdl) = JObj (rest_of m) /\
  is_payload i = payload_of D /\ shape_ok D /\ digests_ok o D /\ NoDup (all_digests D) /\
  is_disclosures i = map (fun e => raw_of_disc (snd e)) (disclosures_of D) /\
  claims_of D = JObj (rest_of m ++ top_members m hj) /\
  has_reserved (claims_of D) = false.

Theorem C01_roundtrip_compact : forall o alg ikey m s decoy r i r' resolver now issv,
  oracle_ok o -> rng_ok r -> claims_ok m -> jwt_claims_ok m now issv ->
  resolver issv (alg_header alg) = ikey ->
  issue o alg ikey (JObj m) s None decoy Compact r = Ok (i, r') ->
  exists ms sdl,
    tree_of o s m None i ms sdl /\
    let D := DObj (ms ++ map embed_member (top_members m None)) sdl in
    forall sel now', consistent (JObj sel) (flags D) = true ->
      let desig := WalkSel.designated_d (JObj sel) D in
      let pres := join_with [126] (is_jwt i :: map (text_at m None ms sdl) desig) ++ [126] in
      exists h V,
        holder_new o (is_serialized i) Compact = Ok h /\
        snd (present o h sel no_kb now') = Ok pres /\
        (forall dg, In dg desig -> In (dg, disclosure_at m None ms sdl dg) (disclosures_of D)) /\
        NoDup desig /\
        verify o pres resolver None None Compact now = Ok V /\
        jequiv V (verified_claims (fun dg => mem_str dg desig) D).
Proof.
  intros o alg ikey m s decoy r i r' resolver now issv
    (Hinj & Hscal & Hsig & Hfree) (Q & ND & OK) (W & Vm & NA) (Hiss & (e & Hexp & He) & Haud & Hsub & Hnbf) Hres E.
  assert (HJ : holder_jwk_ok m None) by (intros jwk C; discriminate C).
  destruct (issue_tree o alg ikey m s None decoy Compact r i r' Hinj E Q W NA) as (s' & ms & sdl & Fs & Fl & IT);
    [intros C; exfalso; apply C; reflexivity | exact ND | intros x Ix; apply (OK x Ix) |].
  destruct (issue_jwt_form _ _ _ _ _ _ _ _ _ _ _ E) as (Hjwt & Hser). cbn [serialize_issued] in Hser.
  injection Hser as Hser'. symmetry in Hser'.
  assert (Ps : forall x, In x (r_salts r) -> DisclosureCodec.plain_salt x = true) by (intros x Ix; apply (OK x Ix)).
  exists ms, sdl. split.
  - unfold tree_of. cbv zeta.
    split; [exists s'; split; assumption|].
    split; [apply IT|].
    split; [apply (D_is_payload o m None r i ms sdl IT)|].
    split; [apply (D_shape o m None r i ms sdl IT W NA HJ)|].
    split; [apply (D_digests_ok o m None r i ms sdl IT)|].
    split; [apply (D_nodup o m None r i ms sdl IT)|].
    split; [apply (D_texts o m None r i ms sdl IT)|].
    split; [apply (D_claims o m None r i ms sdl IT)|].
    rewrite (D_claims o m None r i ms sdl IT). apply claims_no_reserved; [exact W | apply IT | exact HJ].
  - cbv zeta. intros sel now' Hcons.
    apply (roundtrip_compact_core o m None r i ms sdl IT W NA HJ Vm Hscal Ps alg ikey Hjwt Hsig Hfree
             resolver now issv e Hiss Hres Hexp He Haud Hsub Hnbf sel now' Hser' Hcons).
Qed.
Print Assumptions C01_roundtrip_compact.

(* ---- corollaries: select nothing / select everything / no marker ---- *)

Lemma jequiv_perm : forall m1 m2, Permutation m1 m2 -> jequiv (JObj m1) (JObj m2).
Proof.
  intros m1 m2 P. eapply JE_obj; [apply Permutation_sym; exact P|].
  clear P. induction m1 as [|kv m1 IH]; constructor; [split; [reflexivity | apply UnpackView.jequiv_refl] | exact IH].
Qed.

Lemma filter_split_perm : forall {A} (f : A -> bool) l,
  Permutation l (filter f l ++ filter (fun x => negb (f x)) l).
Proof.
  intros A f. induction l as [|x l IH]; [constructor|]. cbn [filter]. destruct (f x); cbn [negb app].
  - constructor. exact IH.
  - apply Permutation_cons_app. exact IH.
Qed.

Lemma In_get_members_iff : forall m ks kv, NoDup (keys m) ->
  (In kv (IssuerBuild.get_members m ks) <-> In (fst kv) ks /\ In kv m).
Proof.
  intros m ks kv N. split; [apply IssuerBuild.In_get_members|]. intros [Ik Im].
  unfold IssuerBuild.get_members. apply in_flat_map. exists (fst kv). split; [exact Ik|].
  destruct (obj_get (fst kv) m) as [v|] eqn:G.
  - apply obj_get_In in G. left. destruct kv as [k x]. cbn [fst] in *. f_equal.
    eapply (WalkSel.NoDup_fst_functional m k); eassumption.
  - exfalso. apply obj_get_None_keys in G. apply G. apply in_map. exact Im.
Qed.

(* the user's claims, reordered: the members other than iss/iat/exp, then those *)
Lemma rest_always_perm : forall m, NoDup (keys m) -> Permutation m (rest_of m ++ always_of m).
Proof.
  intros m N. eapply Permutation_trans; [apply (filter_split_perm (fun kv => negb (mem_str (fst kv) ALWAYS_REVEALED)))|].
  apply Permutation_app; [apply Permutation_refl|].
  apply NoDup_Permutation.
  - apply NoDup_filter. eapply NoDup_map_inv. exact N.
  - eapply NoDup_map_inv. apply IssuerBuild.NoDup_keys_get_members. exact IssuerBuild.NoDup_ALWAYS.
  - intros kv. unfold IssuerBuild.always_of. rewrite (In_get_members_iff m ALWAYS_REVEALED kv N).
    rewrite filter_In, negb_involutive, mem_str_In. tauto.
Qed.

(* opening every hidden node gives the issued claims back *)
Lemma verified_all : forall has ms sdl,
  (forall dg, In dg (WalkSel.hidden_digests (DObj ms sdl)) -> has dg = true) ->
  verified_claims has (DObj ms sdl) = JObj (obj_remove DIGEST_ALG_KEY (vmembers (claims_of (DObj ms sdl)))).
Proof.
  intros has ms sdl Hh. unfold verified_claims.
  rewrite (view_d_ext_hidden has (fun _ => true) (DObj ms sdl) Hh), view_all. reflexivity.
Qed.

(* the names occurring in a value are preserved by jequiv *)
Lemma Forall2_In_l : forall {A B} (R : A -> B -> Prop) l1 l2 x, Forall2 R l1 l2 -> In x l1 -> exists y, In y l2 /\ R x y.
Proof.
  intros A B R l1 l2 x F. induction F as [|a b l1 l2 Rab F IH]; intros I; [destruct I|].
  destruct I as [<-|I]; [exists b; split; [left; reflexivity | exact Rab]|].
  destruct (IH I) as (y & Iy & Ry). exists y. split; [right; exact Iy | exact Ry].
Qed.

Lemma has_reserved_jequiv : forall a b, jequiv a b -> has_reserved b = false -> has_reserved a = false.
Proof.
  induction a as [|b0|n|s0|l IH|m0 IH] using json_ind'; intros b J R; inversion J; subst; try reflexivity.
  - cbn [has_reserved] in R |- *. rewrite existsb_false_forall in R. apply existsb_false_forall.
    intros x Ix. rewrite Forall_forall in IH.
    match goal with F : Forall2 jequiv _ _ |- _ => destruct (Forall2_In_l _ _ _ x F Ix) as (y & Iy & Jy) end.
    apply (IH x Ix y Jy). apply R. exact Iy.
  - cbn [has_reserved] in R |- *. rewrite existsb_false_forall in R. apply existsb_false_forall.
    intros x Ix. rewrite Forall_forall in IH.
    match goal with F : Forall2 _ m0 _ |- _ => destruct (Forall2_In_l _ _ _ x F Ix) as (y & Iy & Ek & Jy) end.
    match goal with P : Permutation _ _ |- _ => apply (Permutation_in _ (Permutation_sym P)) in Iy end.
    specialize (R y Iy). apply orb_false_iff in R as [Rn Rv]. rewrite Ek, Rn. cbn [orb].
    apply (IH x Ix (snd y) Jy Rv).
Qed.

Lemma jequiv_keys_perm : forall m1 m2, jequiv (JObj m1) (JObj m2) -> Permutation (keys m1) (keys m2).
Proof.
  intros m1 m2 J. inversion J as [| | | | |? ? m2' P F]; subst.
  rewrite (UnpackView.mrel_keys m1 m2' F). apply Permutation_sym. apply Permutation_map. exact P.
Qed.

(* C01 "no marker": whatever the verifier returned (it is jequiv to verified_claims)
   has no member named _sd or ... at any depth and no top-level _sd_alg *)
Theorem C01_no_marker : forall V has ms sdl,
  shape_ok (DObj ms sdl) -> has_reserved (claims_of (DObj ms sdl)) = false ->
  jequiv V (verified_claims has (DObj ms sdl)) ->
  has_reserved V = false /\ obj_get DIGEST_ALG_KEY (vmembers V) = None.
Proof.
  intros V has ms sdl S R J. destruct (verified_claims_no_marker has ms sdl S R) as [A B]. split.
  - eapply has_reserved_jequiv; eassumption.
  - unfold verified_claims in J, B. cbn [vmembers] in B. inversion J as [| | | | |m1 ? m2' P F]; subst.
    cbn [vmembers]. apply obj_get_None_keys. intros C. apply obj_get_None_keys in B. apply B.
    eapply Permutation_in; [apply jequiv_keys_perm; exact J | exact C].
Qed.
Print Assumptions C01_no_marker.

(* selecting nothing: the presentation is the bare JWT and the verified claims are
   the always-visible part of the issued claims *)
Corollary C01_select_nothing : forall o alg ikey m s decoy r i r' resolver now issv now',
  oracle_ok o -> rng_ok r -> claims_ok m -> jwt_claims_ok m now issv ->
  resolver issv (alg_header alg) = ikey ->
  issue o alg ikey (JObj m) s None decoy Compact r = Ok (i, r') ->
  exists ms sdl,
    tree_of o s m None i ms sdl /\
    let D := DObj (ms ++ map embed_member (top_members m None)) sdl in
    exists h V,
      holder_new o (is_serialized i) Compact = Ok h /\
      snd (present o h [] no_kb now') = Ok (is_jwt i ++ [126]) /\
      verify o (is_jwt i ++ [126]) resolver None None Compact now = Ok V /\
      jequiv V (verified_claims (fun _ => false) D).
Proof.
  intros o alg ikey m s decoy r i r' resolver now issv now' Ho Hr Hm Hj Hres E.
  destruct (C01_roundtrip_compact o alg ikey m s decoy r i r' resolver now issv Ho Hr Hm Hj Hres E)
    as (ms & sdl & T & RT).
  exists ms, sdl. split; [exact T|]. cbv zeta in RT |- *.
  destruct (RT [] now' eq_refl) as (h & V & A1 & A2 & _ & _ & A3 & A4).
  rewrite WalkSel.designated_d_empty_obj in A2, A3, A4. cbn [map join_with] in A2, A3.
  exists h, V. repeat split; assumption.
Qed.

(* selecting everything: the verified claims are the user's claims (up to member order) *)
Corollary C01_select_all : forall o alg ikey m s decoy r i r' resolver now issv,
  oracle_ok o -> rng_ok r -> claims_ok m -> jwt_claims_ok m now issv ->
  resolver issv (alg_header alg) = ikey ->
  issue o alg ikey (JObj m) s None decoy Compact r = Ok (i, r') ->
  exists ms sdl,
    tree_of o s m None i ms sdl /\
    let D := DObj (ms ++ map embed_member (top_members m None)) sdl in
    forall sel now', consistent (JObj sel) (flags D) = true ->
      incl (WalkSel.hidden_digests D) (WalkSel.designated_d (JObj sel) D) ->
      exists h pres V,
        holder_new o (is_serialized i) Compact = Ok h /\
        snd (present o h sel no_kb now') = Ok pres /\
        verify o pres resolver None None Compact now = Ok V /\
        jequiv V (JObj (rest_of m ++ always_of m)) /\ jequiv V (JObj m).
Proof.
  intros o alg ikey m s decoy r i r' resolver now issv Ho Hr Hm Hj Hres E.
  destruct (C01_roundtrip_compact o alg ikey m s decoy r i r' resolver now issv Ho Hr Hm Hj Hres E)
    as (ms & sdl & T & RT).
  exists ms, sdl. split; [exact T|]. cbv zeta in RT |- *. intros sel now' Hc Hall.
  destruct (RT sel now' Hc) as (h & V & A1 & A2 & _ & _ & A3 & A4).
  exists h. eexists. exists V. split; [exact A1|]. split; [exact A2|]. split; [exact A3|].
  destruct T as (_ & Cd & _ & _ & _ & _ & _ & Ec & _). destruct Hm as (W & _ & NA).
  rewrite verified_all in A4 by (intros dg I; apply mem_str_In; apply Hall; exact I).
  rewrite Ec in A4. cbn [vmembers] in A4. unfold IssuerBuild.top_members in A4. cbn [app] in A4.
  rewrite obj_remove_mid in A4.
  2:{ intros C. apply IssuerBuild.In_keys_rest in C as [C _]. contradiction. }
  cbn [IssuerBuild.cnf_members] in A4. rewrite app_nil_r in A4. split; [exact A4|].
  eapply UnpackView.jequiv_trans; [exact A4|]. apply jequiv_perm. apply Permutation_sym. apply rest_always_perm.
  cbn [wf_json] in W. apply andb_true_iff in W as [W1 _]. apply keys_nodup_NoDup. exact W1.
Qed.
Print Assumptions C01_select_nothing.
Print Assumptions C01_select_all.

(* ================================================================== *)
(*  9. C01 for the JSON serialisation (no key binding)                 *)
(* ================================================================== *)

(* the three segments of the issuer-signed JWT *)
Definition seg_header (alg : str) : str := base64url_encode_str (print (alg_header alg)).
Definition seg_payload (i : issued) : str := base64url_encode_str (print (is_payload i)).
Definition seg_sig (o : oracles) (alg : str) (ikey : key) (i : issued) : str :=
  sign o alg ikey (seg_header alg ++ 46 :: seg_payload i).

Theorem C01_roundtrip_json : forall o alg ikey m s decoy r i r' resolver now issv,
  oracle_ok o -> rng_ok r -> claims_ok m -> jwt_claims_ok m now issv ->
  resolver issv (alg_header alg) = ikey ->
  issue o alg ikey (JObj m) s None decoy JSONFmt r = Ok (i, r') ->
  exists ms sdl,
    tree_of o s m None i ms sdl /\
    let D := DObj (ms ++ map embed_member (top_members m None)) sdl in
    let pr := seg_header alg in let pl := seg_payload i in let sg := seg_sig o alg ikey i in
    is_jwt i = jwt3 pr pl sg /\
    is_serialized i = print (sdjwt_json pr pl sg (is_disclosures i) JNull) /\
    forall sel now', consistent (JObj sel) (flags D) = true ->
      let desig := WalkSel.designated_d (JObj sel) D in
      let pres := print (sdjwt_json pr pl sg (map (text_at m None ms sdl) desig) JNull) in
      exists h V,
        holder_new o (is_serialized i) JSONFmt = Ok h /\
        snd (present o h sel no_kb now') = Ok pres /\
        (forall dg, In dg desig -> In (dg, disclosure_at m None ms sdl dg) (disclosures_of D)) /\
        NoDup desig /\
        verify o pres resolver None None JSONFmt now = Ok V /\
        jequiv V (verified_claims (fun dg => mem_str dg desig) D).
Proof.
  intros o alg ikey m s decoy r i r' resolver now issv
    (Hinj & Hscal & Hsig & Hfree) (Q & ND & OK) (W & Vm & NA) (Hiss & (e & Hexp & He) & Haud & Hsub & Hnbf) Hres E.
  assert (HJ : holder_jwk_ok m None) by (intros jwk C; discriminate C).
  destruct (issue_tree o alg ikey m s None decoy JSONFmt r i r' Hinj E Q W NA) as (s' & ms & sdl & Fs & Fl & IT);
    [intros C; exfalso; apply C; reflexivity | exact ND | intros x Ix; apply (OK x Ix) |].
  destruct (issue_jwt_form _ _ _ _ _ _ _ _ _ _ _ E) as (Hjwt & Hser).
  assert (Ps : forall x, In x (r_salts r) -> DisclosureCodec.plain_salt x = true) by (intros x Ix; apply (OK x Ix)).
  assert (Ep : is_payload i = JObj ((sd_member sdl ++ IssuerBuild.obj_vis ms) ++ top_members m None)) by apply IT.
  exists ms, sdl. split.
  - unfold tree_of. cbv zeta.
    split; [exists s'; split; assumption|].
    split; [apply IT|].
    split; [apply (D_is_payload o m None r i ms sdl IT)|].
    split; [apply (D_shape o m None r i ms sdl IT W NA HJ)|].
    split; [apply (D_digests_ok o m None r i ms sdl IT)|].
    split; [apply (D_nodup o m None r i ms sdl IT)|].
    split; [apply (D_texts o m None r i ms sdl IT)|].
    split; [apply (D_claims o m None r i ms sdl IT)|].
    rewrite (D_claims o m None r i ms sdl IT). apply claims_no_reserved; [exact W | apply IT | exact HJ].
  - cbv zeta. unfold seg_sig, seg_payload, seg_header. rewrite Ep.
    split; [apply (jwt_eq o m None r i ms sdl IT alg ikey Hjwt)|].
    split.
    { eapply serialized_json; eassumption. }
    intros sel now' Hcons.
    apply (roundtrip_json_core o m None r i ms sdl IT W NA HJ Vm Hscal Ps alg ikey Hjwt Hsig Hfree
             resolver now issv e Hiss Hres Hexp He Haud Hsub Hnbf sel now' Hser Hcons).
Qed.
Print Assumptions C01_roundtrip_json.

(* ================================================================== *)
(*  10. C01 with key binding (Compact)                                 *)
(* ================================================================== *)

(* the KB-JWT the holder makes: header {typ: kb+jwt, alg}, payload nonce / aud / iat / sd_hash *)
Definition kb_jwt_text (o : oracles) (kba : str) (hk : key) (nonce aud : str) (now' : N) (sdh : str) : str :=
  let khb := base64url_encode_str (print (kb_header kba)) in
  let kpl := base64url_encode_str (print (JObj (kb_payload nonce aud now' sdh))) in
  jwt3 khb kpl (sign o kba hk (khb ++ 46 :: kpl)).

Definition kb_alg_of (kalg : option str) : str := match kalg with Some x => x | None => DEFAULT_SIGNING_ALG end.

Theorem C01_roundtrip_kb : forall o alg ikey m s decoy r i r' resolver now issv jwk hk nonce aud kalg,
  oracle_ok o -> (forall a k msg, ascii (sign o a k msg)) ->
  rng_ok r -> claims_ok m -> jwt_claims_ok m now issv ->
  resolver issv (alg_header alg) = ikey ->
  (* the holder key: its JSON form is a clean value, it is the key the oracle reads from it,
     and the KB algorithm is one of its family *)
  holder_jwk_ok m (Some jwk) -> jwk_key o jwk = Some hk ->
  alg_family (kb_alg_of kalg) = Some (kfam hk) ->
  sstr nonce = true -> sstr aud = true ->
  issue o alg ikey (JObj m) s (Some jwk) decoy Compact r = Ok (i, r') ->
  exists ms sdl,
    tree_of o s m (Some jwk) i ms sdl /\
    let D := DObj (ms ++ map embed_member (top_members m (Some jwk))) sdl in
    forall sel now', consistent (JObj sel) (flags D) = true ->
      let desig := WalkSel.designated_d (JObj sel) D in
      let hs := map (text_at m (Some jwk) ms sdl) desig in
      let kb := kb_jwt_text o (kb_alg_of kalg) hk nonce aud now' (sd_hash_of o (is_jwt i) hs) in
      let pres := join_with [126] (is_jwt i :: hs ++ [kb]) in
      exists h V,
        holder_new o (is_serialized i) Compact = Ok h /\
        snd (present o h sel {| kb_nonce := Some nonce; kb_aud := Some aud; kb_key := Some hk; kb_alg := kalg |} now')
          = Ok pres /\
        (forall dg, In dg desig -> In (dg, disclosure_at m (Some jwk) ms sdl dg) (disclosures_of D)) /\
        NoDup desig /\
        verify o pres resolver (Some aud) (Some nonce) Compact now = Ok V /\
        jequiv V (verified_claims (fun dg => mem_str dg desig) D).
Proof.
  intros o alg ikey m s decoy r i r' resolver now issv jwk hk nonce aud kalg
    (Hinj & Hscal & Hsig & Hfree) Hasc (Q & ND & OK) (W & Vm & NA) (Hiss & (e & Hexp & He) & Haud & Hsub & Hnbf)
    Hres HJ Hjk Hkf Sn Sa E.
  assert (NC : Some jwk <> None -> ~ In CNF_KEY (keys m)).
  { intros _. destruct (HJ jwk eq_refl) as (_ & _ & C & _). exact C. }
  destruct (issue_tree o alg ikey m s (Some jwk) decoy Compact r i r' Hinj E Q W NA NC) as (s' & ms & sdl & Fs & Fl & IT);
    [exact ND | intros x Ix; apply (OK x Ix) |].
  destruct (issue_jwt_form _ _ _ _ _ _ _ _ _ _ _ E) as (Hjwt & Hser). cbn [serialize_issued] in Hser.
  injection Hser as Hser'. symmetry in Hser'.
  assert (Ps : forall x, In x (r_salts r) -> DisclosureCodec.plain_salt x = true) by (intros x Ix; apply (OK x Ix)).
  exists ms, sdl. split.
  - unfold tree_of. cbv zeta.
    split; [exists s'; split; assumption|].
    split; [apply IT|].
    split; [apply (D_is_payload o m (Some jwk) r i ms sdl IT)|].
    split; [apply (D_shape o m (Some jwk) r i ms sdl IT W NA HJ)|].
    split; [apply (D_digests_ok o m (Some jwk) r i ms sdl IT)|].
    split; [apply (D_nodup o m (Some jwk) r i ms sdl IT)|].
    split; [apply (D_texts o m (Some jwk) r i ms sdl IT)|].
    split; [apply (D_claims o m (Some jwk) r i ms sdl IT)|].
    rewrite (D_claims o m (Some jwk) r i ms sdl IT). apply claims_no_reserved; [exact W | apply IT | exact HJ].
  - cbv zeta. intros sel now' Hcons.
    assert (Ep : is_payload i = JObj ((sd_member sdl ++ IssuerBuild.obj_vis ms) ++ top_members m (Some jwk))) by apply IT.
    unfold kb_jwt_text, kb_alg_of in *.
    exact (roundtrip_kb_core o m (Some jwk) r i ms sdl IT W NA HJ Vm Hscal Ps alg ikey Hjwt Hsig Hfree
             resolver now issv e Hiss Hres Hexp He Haud Hsub Hnbf jwk eq_refl hk Hjk nonce aud Sn Sa kalg Hkf Hasc
             sel now' Hcons Hser').
Qed.
Print Assumptions C01_roundtrip_kb.

(* ================================================================== *)
(*  11. C01 with key binding, JSON serialisation                       *)
(* ================================================================== *)

Theorem C01_roundtrip_kb_json : forall o alg ikey m s decoy r i r' resolver now issv jwk hk nonce aud kalg,
  oracle_ok o -> (forall a k msg, ascii (sign o a k msg)) ->
  rng_ok r -> claims_ok m -> jwt_claims_ok m now issv ->
  resolver issv (alg_header alg) = ikey ->
  holder_jwk_ok m (Some jwk) -> jwk_key o jwk = Some hk ->
  alg_family (kb_alg_of kalg) = Some (kfam hk) ->
  sstr nonce = true -> sstr aud = true ->
  issue o alg ikey (JObj m) s (Some jwk) decoy JSONFmt r = Ok (i, r') ->
  exists ms sdl,
    tree_of o s m (Some jwk) i ms sdl /\
    let D := DObj (ms ++ map embed_member (top_members m (Some jwk))) sdl in
    let pr := seg_header alg in let pl := seg_payload i in let sg := seg_sig o alg ikey i in
    is_jwt i = jwt3 pr pl sg /\
    forall sel now', consistent (JObj sel) (flags D) = true ->
      let desig := WalkSel.designated_d (JObj sel) D in
      let hs := map (text_at m (Some jwk) ms sdl) desig in
      let kb := kb_jwt_text o (kb_alg_of kalg) hk nonce aud now' (sd_hash_of o (is_jwt i) hs) in
      let pres := print (sdjwt_json pr pl sg hs (JStr kb)) in
      exists h V,
        holder_new o (is_serialized i) JSONFmt = Ok h /\
        snd (present o h sel {| kb_nonce := Some nonce; kb_aud := Some aud; kb_key := Some hk; kb_alg := kalg |} now')
          = Ok pres /\
        (forall dg, In dg desig -> In (dg, disclosure_at m (Some jwk) ms sdl dg) (disclosures_of D)) /\
        NoDup desig /\
        verify o pres resolver (Some aud) (Some nonce) JSONFmt now = Ok V /\
        jequiv V (verified_claims (fun dg => mem_str dg desig) D).
Proof.
  intros o alg ikey m s decoy r i r' resolver now issv jwk hk nonce aud kalg
    (Hinj & Hscal & Hsig & Hfree) Hasc (Q & ND & OK) (W & Vm & NA) (Hiss & (e & Hexp & He) & Haud & Hsub & Hnbf)
    Hres HJ Hjk Hkf Sn Sa E.
  assert (NC : Some jwk <> None -> ~ In CNF_KEY (keys m)).
  { intros _. destruct (HJ jwk eq_refl) as (_ & _ & C & _). exact C. }
  destruct (issue_tree o alg ikey m s (Some jwk) decoy JSONFmt r i r' Hinj E Q W NA NC) as (s' & ms & sdl & Fs & Fl & IT);
    [exact ND | intros x Ix; apply (OK x Ix) |].
  destruct (issue_jwt_form _ _ _ _ _ _ _ _ _ _ _ E) as (Hjwt & Hser).
  assert (Ps : forall x, In x (r_salts r) -> DisclosureCodec.plain_salt x = true) by (intros x Ix; apply (OK x Ix)).
  assert (Ep : is_payload i = JObj ((sd_member sdl ++ IssuerBuild.obj_vis ms) ++ top_members m (Some jwk))) by apply IT.
  exists ms, sdl. split.
  - unfold tree_of. cbv zeta.
    split; [exists s'; split; assumption|].
    split; [apply IT|].
    split; [apply (D_is_payload o m (Some jwk) r i ms sdl IT)|].
    split; [apply (D_shape o m (Some jwk) r i ms sdl IT W NA HJ)|].
    split; [apply (D_digests_ok o m (Some jwk) r i ms sdl IT)|].
    split; [apply (D_nodup o m (Some jwk) r i ms sdl IT)|].
    split; [apply (D_texts o m (Some jwk) r i ms sdl IT)|].
    split; [apply (D_claims o m (Some jwk) r i ms sdl IT)|].
    rewrite (D_claims o m (Some jwk) r i ms sdl IT). apply claims_no_reserved; [exact W | apply IT | exact HJ].
  - cbv zeta. unfold seg_sig, seg_payload, seg_header. rewrite Ep.
    split; [apply (jwt_eq o m (Some jwk) r i ms sdl IT alg ikey Hjwt)|].
    intros sel now' Hcons. unfold kb_jwt_text, kb_alg_of in *.
    exact (roundtrip_kb_json_core o m (Some jwk) r i ms sdl IT W NA HJ Vm Hscal Ps alg ikey Hjwt Hsig Hfree
             resolver now issv e Hiss Hres Hexp He Haud Hsub Hnbf jwk eq_refl hk Hjk nonce aud Sn Sa kalg Hkf Hasc
             sel now' Hcons Hser).
Qed.
Print Assumptions C01_roundtrip_kb_json.

(* ------------------------------------------------------------------ *)
(* Non-vacuity: a concrete credential (nested object, array, AllLevels,
   decoys on), a toy oracle with H = identity (injective) and the constant
   signature "x"; all premises are checked and the run is confirmed by
   vm_compute.                                                         *)
Module Example.
  Definition toy : oracles :=
    {| H := fun s => s; sig_ok := fun _ _ _ s => str_eqb s [120]; sign := fun _ _ _ => [120];
       jwk_key := fun _ => None |}.

  Lemma toy_ok : oracle_ok toy.
  Proof.
    split; [|split; [|split]].
    - intros a b E. exact E.
    - intros x A. apply ascii_scalar. exact A.
    - reflexivity.
    - intros a k msg. split; cbn; intros [C|[]]; discriminate C.
  Qed.

  Definition mk_salt (n : N) : str := lit "saltsaltsaltsaltsalt0" ++ [48 + n].
  Definition ex_r : rng :=
    {| r_queue := None; r_salts := map mk_salt [0; 1; 2; 3; 4; 5; 6; 7; 8; 9]; r_counts := [1%nat; 1%nat] |}.

  Lemma ex_r_ok : rng_ok ex_r.
  Proof.
    split; [reflexivity|]. split.
    - apply IssuerBuild.Examples.nodupb_NoDup. vm_compute. reflexivity.
    - intros x Ix. cbn in Ix.
      repeat (destruct Ix as [<-|Ix]; [split; [split; [reflexivity | repeat constructor] | reflexivity]|]).
      destruct Ix.
  Qed.

  Definition ex_m : members :=
    [(lit "iss", JStr (lit "https://issuer"));
     (lit "name", JStr (lit "Al"));
     (lit "exp", JNum (lit "100"));
     (lit "addr", JObj [(lit "city", JStr (lit "X")); (lit "zip", JStr (lit "1"))]);
     (lit "tags", JArr [JStr (lit "a"); JStr (lit "b")])].

  Lemma ex_m_ok : claims_ok ex_m.
  Proof.
    split; [reflexivity|]. split; [reflexivity|].
    apply mem_str_not_In. reflexivity.
  Qed.

  Lemma ex_m_jwt : jwt_claims_ok ex_m 120 (lit "https://issuer").
  Proof.
    split; [reflexivity|]. split; [exists 100; split; [reflexivity | vm_compute; discriminate]|].
    split; [reflexivity|]. split; [left; reflexivity|].
    exists NotPresent. split; [reflexivity | intros n C; discriminate C].
  Qed.

  Definition ex_key : key := {| kid := 1; kfam := FHmac |}.
  Definition ex_alg : str := lit "HS256".
  Definition ex_resolver : str -> json -> key := fun _ _ => ex_key.
  Definition ex_run := issue toy ex_alg ex_key (JObj ex_m) AllLevels None true Compact ex_r.
  Definition ex_dummy : issued :=
    {| is_header := JNull; is_payload := JNull; is_disclosures := []; is_jwt := []; is_serialized := [] |}.
  Definition ex_i : issued := match ex_run with Ok (i, _) => i | _ => ex_dummy end.
  Definition ex_r' : rng := match ex_run with Ok (_, r') => r' | _ => ex_r end.

  Lemma ex_issue : issue toy ex_alg ex_key (JObj ex_m) AllLevels None true Compact ex_r = Ok (ex_i, ex_r').
  Proof. vm_compute. reflexivity. Qed.

  (* select name, addr.city and the first tag *)
  Definition ex_sel : members :=
    [(lit "name", JBool true);
     (lit "addr", JObj [(lit "city", JBool true)]);
     (lit "tags", JArr [JBool true; JBool false])].

  (* the theorem applies: its premises hold *)
  Lemma ex_theorem :
    exists ms sdl,
      tree_of toy AllLevels ex_m None ex_i ms sdl /\
      let D := DObj (ms ++ map embed_member (top_members ex_m None)) sdl in
      forall sel now', consistent (JObj sel) (flags D) = true ->
        let desig := WalkSel.designated_d (JObj sel) D in
        let pres := join_with [126] (is_jwt ex_i :: map (text_at ex_m None ms sdl) desig) ++ [126] in
        exists h V,
          holder_new toy (is_serialized ex_i) Compact = Ok h /\
          snd (present toy h sel no_kb now') = Ok pres /\
          (forall dg, In dg desig -> In (dg, disclosure_at ex_m None ms sdl dg) (disclosures_of D)) /\
          NoDup desig /\
          verify toy pres ex_resolver None None Compact 120 = Ok V /\
          jequiv V (verified_claims (fun dg => mem_str dg desig) D).
  Proof.
    exact (C01_roundtrip_compact toy ex_alg ex_key ex_m AllLevels true ex_r ex_i ex_r' ex_resolver 120
             (lit "https://issuer") toy_ok ex_r_ok ex_m_ok ex_m_jwt eq_refl ex_issue).
  Qed.

  (* the selection is consistent with the issuer's marking, and the concrete run *)
  Definition ex_holder : holder :=
    match holder_new toy (is_serialized ex_i) Compact with Ok h => h | _ =>
      {| h_fmt := Compact; h_jwt := []; h_payload := []; h_dmap := []; h_json := None; h_in_disclosures := [];
         h_in_kb := None; h_hs := []; h_kb_header := []; h_kb_payload := []; h_kb := [] |} end.
  Definition ex_pres : str := match snd (present toy ex_holder ex_sel no_kb 5) with Ok t => t | _ => [] end.

  Example ex_run_confirmed :
    consistent (JObj ex_sel) (marks AllLevels (JObj (rest_of ex_m))) = true /\
    is_ok (holder_new toy (is_serialized ex_i) Compact) = true /\
    is_ok (snd (present toy ex_holder ex_sel no_kb 5)) = true /\
    List.length (split_on 126 ex_pres) = 7%nat /\      (* jwt; name, city, addr, tags[0], tags; empty kb *)
    verify toy ex_pres ex_resolver None None Compact 120 =
      Ok (JObj [(lit "iss", JStr (lit "https://issuer"));
                (lit "exp", JNum (lit "100"));
                (lit "addr", JObj [(lit "city", JStr (lit "X"))]);
                (lit "tags", JArr [JStr (lit "a")]);
                (lit "name", JStr (lit "Al"))]).   (* member order: that of the sorted _sd digests *)
  Proof. vm_compute. repeat split; reflexivity. Qed.

  (* the same credential in the JSON serialisation *)
  Definition exj_run := issue toy ex_alg ex_key (JObj ex_m) AllLevels None true JSONFmt ex_r.
  Definition exj_i : issued := match exj_run with Ok (i, _) => i | _ => ex_dummy end.
  Definition exj_r' : rng := match exj_run with Ok (_, r') => r' | _ => ex_r end.
  Lemma exj_issue : issue toy ex_alg ex_key (JObj ex_m) AllLevels None true JSONFmt ex_r = Ok (exj_i, exj_r').
  Proof. vm_compute. reflexivity. Qed.

  Lemma exj_theorem : exists ms sdl, tree_of toy AllLevels ex_m None exj_i ms sdl.
  Proof.
    destruct (C01_roundtrip_json toy ex_alg ex_key ex_m AllLevels true ex_r exj_i exj_r' ex_resolver 120
                (lit "https://issuer") toy_ok ex_r_ok ex_m_ok ex_m_jwt eq_refl exj_issue) as (ms & sdl & T & _).
    exists ms, sdl. exact T.
  Qed.

  Definition exj_holder : holder :=
    match holder_new toy (is_serialized exj_i) JSONFmt with Ok h => h | _ => ex_holder end.
  Definition exj_pres : str := match snd (present toy exj_holder ex_sel no_kb 5) with Ok t => t | _ => [] end.

  Example exj_run_confirmed :
    is_ok (holder_new toy (is_serialized exj_i) JSONFmt) = true /\
    is_ok (snd (present toy exj_holder ex_sel no_kb 5)) = true /\
    verify toy exj_pres ex_resolver None None JSONFmt 120 =
      Ok (JObj [(lit "iss", JStr (lit "https://issuer"));
                (lit "exp", JNum (lit "100"));
                (lit "addr", JObj [(lit "city", JStr (lit "X"))]);
                (lit "tags", JArr [JStr (lit "a")]);
                (lit "name", JStr (lit "Al"))]).
  Proof. vm_compute. repeat split; reflexivity. Qed.

  (* key binding: the holder key's JSON form and the toy oracle reading it *)
  Definition ex_jwk : json := JObj [(lit "kty", JStr (lit "oct")); (lit "k", JStr (lit "AAAA"))].
  Definition ex_hk : key := {| kid := 2; kfam := FHmac |}.
  Definition toy_kb : oracles :=
    {| H := fun s => s; sig_ok := fun _ _ _ s => str_eqb s [120]; sign := fun _ _ _ => [120];
       jwk_key := fun j => if json_eqb j ex_jwk then Some ex_hk else None |}.

  Lemma toy_kb_ok : oracle_ok toy_kb /\ (forall a k msg, ascii (sign toy_kb a k msg)).
  Proof.
    split; [split; [|split; [|split]]|].
    - intros a b E. exact E.
    - intros x A. apply ascii_scalar. exact A.
    - reflexivity.
    - intros a k msg. split; cbn; intros [C|[]]; discriminate C.
    - intros a k msg. repeat constructor.
  Qed.

  Definition exk_run := issue toy_kb ex_alg ex_key (JObj ex_m) AllLevels (Some ex_jwk) true Compact ex_r.
  Definition exk_i : issued := match exk_run with Ok (i, _) => i | _ => ex_dummy end.
  Definition exk_r' : rng := match exk_run with Ok (_, r') => r' | _ => ex_r end.
  Lemma exk_issue : issue toy_kb ex_alg ex_key (JObj ex_m) AllLevels (Some ex_jwk) true Compact ex_r = Ok (exk_i, exk_r').
  Proof. vm_compute. reflexivity. Qed.

  Lemma ex_jwk_ok : holder_jwk_ok ex_m (Some ex_jwk).
  Proof.
    intros jwk E. inversion E; subst jwk. split; [reflexivity|]. split; [reflexivity|].
    split; [apply mem_str_not_In; reflexivity | reflexivity].
  Qed.

  Definition ex_args : kb_args :=
    {| kb_nonce := Some (lit "n-1"); kb_aud := Some (lit "https://verifier"); kb_key := Some ex_hk;
       kb_alg := Some (lit "HS256") |}.

  Lemma exk_theorem : exists ms sdl, tree_of toy_kb AllLevels ex_m (Some ex_jwk) exk_i ms sdl.
  Proof.
    destruct toy_kb_ok as [A B].
    destruct (C01_roundtrip_kb toy_kb ex_alg ex_key ex_m AllLevels true ex_r exk_i exk_r' ex_resolver 120
                (lit "https://issuer") ex_jwk ex_hk (lit "n-1") (lit "https://verifier") (Some (lit "HS256"))
                A B ex_r_ok ex_m_ok ex_m_jwt eq_refl ex_jwk_ok eq_refl eq_refl eq_refl eq_refl exk_issue)
      as (ms & sdl & T & _).
    exists ms, sdl. exact T.
  Qed.

  Definition exk_holder : holder :=
    match holder_new toy_kb (is_serialized exk_i) Compact with Ok h => h | _ => ex_holder end.
  Definition exk_pres : str := match snd (present toy_kb exk_holder ex_sel ex_args 7) with Ok t => t | _ => [] end.

  Example exk_run_confirmed :
    is_ok (holder_new toy_kb (is_serialized exk_i) Compact) = true /\
    is_ok (snd (present toy_kb exk_holder ex_sel ex_args 7)) = true /\
    verify toy_kb exk_pres ex_resolver (Some (lit "https://verifier")) (Some (lit "n-1")) Compact 120 =
      Ok (JObj [(lit "iss", JStr (lit "https://issuer"));
                (lit "exp", JNum (lit "100"));
                (lit "cnf", JObj [(lit "jwk", ex_jwk)]);
                (lit "addr", JObj [(lit "city", JStr (lit "X"))]);
                (lit "tags", JArr [JStr (lit "a")]);
                (lit "name", JStr (lit "Al"))]) /\
    (* a wrong nonce is refused *)
    is_err (verify toy_kb exk_pres ex_resolver (Some (lit "https://verifier")) (Some (lit "n-2")) Compact 120) = true.
  Proof. vm_compute. repeat split; reflexivity. Qed.

  (* key binding in the JSON serialisation *)
  Definition exkj_run := issue toy_kb ex_alg ex_key (JObj ex_m) AllLevels (Some ex_jwk) true JSONFmt ex_r.
  Definition exkj_i : issued := match exkj_run with Ok (i, _) => i | _ => ex_dummy end.
  Definition exkj_r' : rng := match exkj_run with Ok (_, r') => r' | _ => ex_r end.
  Lemma exkj_issue : issue toy_kb ex_alg ex_key (JObj ex_m) AllLevels (Some ex_jwk) true JSONFmt ex_r = Ok (exkj_i, exkj_r').
  Proof. vm_compute. reflexivity. Qed.

  Lemma exkj_theorem : exists ms sdl, tree_of toy_kb AllLevels ex_m (Some ex_jwk) exkj_i ms sdl.
  Proof.
    destruct toy_kb_ok as [A B].
    destruct (C01_roundtrip_kb_json toy_kb ex_alg ex_key ex_m AllLevels true ex_r exkj_i exkj_r' ex_resolver 120
                (lit "https://issuer") ex_jwk ex_hk (lit "n-1") (lit "https://verifier") (Some (lit "HS256"))
                A B ex_r_ok ex_m_ok ex_m_jwt eq_refl ex_jwk_ok eq_refl eq_refl eq_refl eq_refl exkj_issue)
      as (ms & sdl & T & _).
    exists ms, sdl. exact T.
  Qed.

  Definition exkj_holder : holder :=
    match holder_new toy_kb (is_serialized exkj_i) JSONFmt with Ok h => h | _ => ex_holder end.
  Definition exkj_pres : str := match snd (present toy_kb exkj_holder ex_sel ex_args 7) with Ok t => t | _ => [] end.

  Example exkj_run_confirmed :
    is_ok (holder_new toy_kb (is_serialized exkj_i) JSONFmt) = true /\
    is_ok (snd (present toy_kb exkj_holder ex_sel ex_args 7)) = true /\
    verify toy_kb exkj_pres ex_resolver (Some (lit "https://verifier")) (Some (lit "n-1")) JSONFmt 120 =
      Ok (JObj [(lit "iss", JStr (lit "https://issuer"));
                (lit "exp", JNum (lit "100"));
                (lit "cnf", JObj [(lit "jwk", ex_jwk)]);
                (lit "addr", JObj [(lit "city", JStr (lit "X"))]);
                (lit "tags", JArr [JStr (lit "a")]);
                (lit "name", JStr (lit "Al"))]).
  Proof. vm_compute. repeat split; reflexivity. Qed.

  (* the two corollaries on the concrete credential: select nothing / everything *)
  Definition ex_sel_all : members :=
    [(lit "name", JBool true);
     (lit "addr", JObj [(lit "city", JBool true); (lit "zip", JBool true)]);
     (lit "tags", JArr [JBool true; JBool true])].
  Definition ex_pres_none : str := match snd (present toy ex_holder [] no_kb 5) with Ok t => t | _ => [] end.
  Definition ex_pres_all : str := match snd (present toy ex_holder ex_sel_all no_kb 5) with Ok t => t | _ => [] end.

  Example ex_select_nothing_and_all :
    ex_pres_none = is_jwt ex_i ++ [126] /\
    verify toy ex_pres_none ex_resolver None None Compact 120 =
      Ok (JObj [(lit "iss", JStr (lit "https://issuer")); (lit "exp", JNum (lit "100"))]) /\
    consistent (JObj ex_sel_all) (marks AllLevels (JObj (rest_of ex_m))) = true /\
    match verify toy ex_pres_all ex_resolver None None Compact 120 with
    | Ok V => json_equivb V (JObj ex_m)
    | _ => false
    end = true.
  Proof. vm_compute. repeat split; reflexivity. Qed.

  (* sharpness of jwt_claims_ok: a visible top-level aud makes the verifier refuse every
     presentation (jsonwebtoken is configured without an expected audience), and a
     credential outside its window is refused *)
  Definition ex_m_aud : members := ex_m ++ [(lit "aud", JStr (lit "x"))].
  Definition exa_i : issued :=
    match issue toy ex_alg ex_key (JObj ex_m_aud) NoSDClaims None false Compact ex_r with Ok (i, _) => i | _ => ex_dummy end.
  Example ex_visible_aud_refused :
    is_ok (issue toy ex_alg ex_key (JObj ex_m_aud) NoSDClaims None false Compact ex_r) = true /\
    verify toy (is_serialized exa_i) ex_resolver None None Compact 120 = Err "InvalidAudience" /\
    verify toy ex_pres ex_resolver None None Compact 161 = Err "ExpiredSignature".
  Proof. vm_compute. repeat split; reflexivity. Qed.
End Example.

(* Proofs/MockRoundTrip.v — C16, last clause: in the deterministic-salt ("mock")
   build — r_queue r = Some q, disclosure salts are popped from the queue q, the
   disclosure text gets Python-style spacing (disclosure_text true ...) — holder
   and verifier still recover the original claims exactly.

   Nothing existing is edited: the parts of IssuerBuild / RoundTrip that depend on
   the text form of a disclosure are redone here, generically in [mock : bool]
   where that is free (Section Gen), and for the mock build where the issuer's
   state matters (Section BuildM).

   Part A (issuer)
     raw_of_disc_gen mock / raw_of_disc_mock     the base64url text of a decoded disclosure
     digests_ok_gen mock / digests_ok_mock       Build.digests_ok for the spaced text
                                                 (both reduce to the old definitions at false, by conversion)
     create_sd_claims_builds_mock                the mock analogue of IssuerBuild.create_sd_claims_builds,
                                                 with the consumed queue prefix = the salts in creation order
     build_digests_nodup_mock, issue_builds_mock, issue_digests_nodup_mock
   Part B (round trip)
     Section Gen / Issued                        RoundTrip's Section Issued, for either text form
     C16_roundtrip_mock, C16_roundtrip_mock_json the round trip in the mock build (Compact / JSON)
     C16_values_recovered                        a selection designating every hidden node returns JObj m
     C16_spec_level_mock, C16_values_recovered_spec
                                                 the same at the level of the specifications (Spec/View.v):
                                                 the explicit selection SpecLevel.sel_mems m returns JObj m
   Module ExampleMock: a queue of 5 salts, claims containing comma, colon, bracket, double quote and backslash, AllLevels,
   decoys off; every premise is checked and the run is confirmed by vm_compute. *)
From SDJWT Require Import Base.Json Base.JsonFacts Params Codec.Base64 Codec.Utf8 Codec.JsonPrint Codec.JsonParse
  Codec.DisclosureText Model.Common Model.Issuer Model.Holder Model.Jwt Model.Verifier
  Spec.Path Spec.View Proofs.Build.
From SDJWT Require Import Proofs.IssuerBuild Proofs.RoundTrip.
From SDJWT Require Proofs.UnpackView Proofs.WalkSel Proofs.DisclosureCodec
  Proofs.JsonRoundtrip Proofs.VerifierFacts Proofs.HolderFacts Proofs.PathFacts Proofs.SpecLevel.
From Coq Require Import Permutation Lia PeanoNat.

(* ================================================================== *)
(*  A.1 the text of a decoded disclosure, for either build             *)
(* ================================================================== *)

Definition raw_of_disc_gen (mock : bool) (j : json) : str :=
  match j with
  | JArr (JStr salt :: rest) =>
      match rest with
      | [] => []
      | x :: r2 =>
          match r2 with
          | [] => base64url_encode_str (disclosure_text mock salt None x)
          | y :: r3 =>
              match r3 with
              | [] => match x with
                      | JStr n => base64url_encode_str (disclosure_text mock salt (Some n) y)
                      | _ => []
                      end
              | _ :: _ => []
              end
          end
      end
  | _ => []
  end.

Definition raw_of_disc_mock : json -> str := raw_of_disc_gen true.

Lemma raw_of_disc_gen_false : forall j, raw_of_disc_gen false j = raw_of_disc j.
Proof. reflexivity. Qed.

Lemma raw_of_disc_gen_json : forall mock salt name v,
  raw_of_disc_gen mock (disc_json salt name v) = base64url_encode_str (disclosure_text mock salt name v).
Proof. intros mock salt [n|] v; reflexivity. Qed.

Lemma disclosure_text_prefix_gen : forall mock salt name v,
  exists rest, disclosure_text mock salt name v = [91; 34] ++ salt ++ rest.
Proof. intros mock salt [n|] v; unfold disclosure_text; eexists; reflexivity. Qed.

(* Build.digests_ok with the text form as a parameter *)
Definition digests_ok_gen (mock : bool) : oracles -> dtree -> Prop :=
  fix digests_ok (o : oracles) (d : dtree) {struct d} : Prop :=
  match d with
  | DLeaf _ => True
  | DArr es =>
      (fix go (es : list (option (str * str) * dtree)) : Prop :=
         match es with
         | [] => True
         | e :: es' =>
             match fst e with
             | Some (salt, dg) => dg = H o (base64url_encode_str (disclosure_text mock salt None (payload_of (snd e))))
             | None => True
             end /\ digests_ok o (snd e) /\ go es'
         end) es
  | DObj ms _ =>
      (fix go (ms : list (str * (option (str * str) * dtree))) : Prop :=
         match ms with
         | [] => True
         | kv :: ms' =>
             match fst (snd kv) with
             | Some (salt, dg) =>
                 dg = H o (base64url_encode_str (disclosure_text mock salt (Some (fst kv)) (payload_of (snd (snd kv)))))
             | None => True
             end /\ digests_ok o (snd (snd kv)) /\ go ms'
         end) ms
  end.

Definition digests_ok_mock : oracles -> dtree -> Prop := digests_ok_gen true.

(* at [false] this is Build.digests_ok, by conversion *)
Lemma digests_ok_gen_false : forall o d, digests_ok_gen false o d = digests_ok o d.
Proof. reflexivity. Qed.

Definition arr_dg_ok_g (mock : bool) (o : oracles) (e : option (str * str) * dtree) : Prop :=
  match fst e with
  | Some (salt, dg) => dg = H o (base64url_encode_str (disclosure_text mock salt None (payload_of (snd e))))
  | None => True
  end.

Definition obj_dg_ok_g (mock : bool) (o : oracles) (kv : str * (option (str * str) * dtree)) : Prop :=
  match fst (snd kv) with
  | Some (salt, dg) =>
      dg = H o (base64url_encode_str (disclosure_text mock salt (Some (fst kv)) (payload_of (snd (snd kv)))))
  | None => True
  end.

Lemma digests_arr_cons_g : forall mock o e es,
  digests_ok_gen mock o (DArr (e :: es)) <->
  arr_dg_ok_g mock o e /\ digests_ok_gen mock o (snd e) /\ digests_ok_gen mock o (DArr es).
Proof. intros. apply iff_refl. Qed.

Lemma digests_obj_cons_g : forall mock o kv ms sdl sdl',
  digests_ok_gen mock o (DObj (kv :: ms) sdl) <->
  obj_dg_ok_g mock o kv /\ digests_ok_gen mock o (snd (snd kv)) /\ digests_ok_gen mock o (DObj ms sdl').
Proof. intros. apply iff_refl. Qed.

Lemma digests_obj_iff_g : forall mock o ms sdl,
  digests_ok_gen mock o (DObj ms sdl) <->
  Forall (fun kv => obj_dg_ok_g mock o kv /\ digests_ok_gen mock o (snd (snd kv))) ms.
Proof.
  intros mock o ms sdl. induction ms as [|kv ms IH].
  - split; intros _; [constructor | exact I].
  - rewrite (digests_obj_cons_g mock o kv ms sdl sdl), IH. split.
    + intros (A & B & C). constructor; [split|]; assumption.
    + intros F. inversion F as [|? ? [A B] C]; subst. repeat split; assumption.
Qed.

Lemma digests_arr_iff_g : forall mock o es,
  digests_ok_gen mock o (DArr es) <->
  Forall (fun e => arr_dg_ok_g mock o e /\ digests_ok_gen mock o (snd e)) es.
Proof.
  intros mock o es. induction es as [|e es IH].
  - split; intros _; [constructor | exact I].
  - rewrite digests_arr_cons_g, IH. split.
    + intros (A & B & C). constructor; [split|]; assumption.
    + intros F. inversion F as [|? ? [A B] C]; subst. repeat split; assumption.
Qed.

Lemma digests_embed_g : forall mock o v, digests_ok_gen mock o (embed v).
Proof.
  intros mock o. induction v as [| b | n | s0 | l IHl | m IHm] using json_ind'; try exact I.
  - rewrite embed_arr. apply digests_arr_iff_g.
    induction IHl as [|x l Hx Hl IH]; [constructor|]. cbn [map]. constructor; [|exact IH].
    split; [exact I | exact Hx].
  - rewrite embed_obj. apply digests_obj_iff_g.
    induction IHm as [|[k x] m Hx Hm IH]; [constructor|]. cbn [map]. constructor; [|exact IH].
    split; [exact I | exact Hx].
Qed.

Lemma top_digests_ok_g : forall mock o m holder_jwk ms sdl,
  digests_ok_gen mock o (DObj ms sdl) ->
  digests_ok_gen mock o (DObj (ms ++ map embed_member (top_members m holder_jwk)) sdl).
Proof.
  intros mock o m hj ms sdl Dg. apply digests_obj_iff_g. apply digests_obj_iff_g in Dg.
  apply Forall_app. split; [exact Dg|].
  apply Forall_forall. intros kv' I'. apply in_map_iff in I' as (kv & <- & _).
  split; [exact I | apply digests_embed_g].
Qed.

(* ================================================================== *)
(*  A.2 state segments in the deterministic-salt build                 *)
(* ================================================================== *)

Section BuildM.
Variable o : oracles.
Variable decoy : bool.

Definition disc_ok_m (e : str * json) : Prop :=
  fst e = H o (raw_of_disc_mock (snd e)) /\
  exists rest, raw_of_disc_mock (snd e) = base64url_encode_str ([91; 34] ++ disc_salt (snd e) ++ rest).

(* what happened between two issuer states of the mock build: the disclosures
   pushed — their salts are, in creation order, the prefix popped off the queue —
   the decoy pre-images drawn from the random stream (none when decoys are off),
   and a list [alld] that is, up to order, the digests created *)
Definition segm (st st' : ist) (discs : list (str * json)) (dp alld : list str) : Prop :=
  i_disclosures st' = i_disclosures st ++ map (fun e => (raw_of_disc_mock (snd e), fst e)) discs /\
  (exists q', r_queue (i_rng st) = Some (map (fun e => disc_salt (snd e)) discs ++ q') /\
              r_queue (i_rng st') = Some q') /\
  Forall disc_ok_m discs /\
  (exists used, r_salts (i_rng st) = used ++ r_salts (i_rng st') /\ Permutation used dp) /\
  Permutation alld (map fst discs ++ map (H o) dp) /\
  (decoy = false -> dp = []).

Lemma segm_queue : forall st st' discs dp alld, segm st st' discs dp alld -> exists q', r_queue (i_rng st') = Some q'.
Proof. intros st st' discs dp alld (_ & (q' & _ & Q) & _). exists q'. exact Q. Qed.

Lemma segm_refl : forall st q, r_queue (i_rng st) = Some q -> segm st st [] [] [].
Proof.
  intros st q Q. unfold segm. cbn [map app]. rewrite app_nil_r. repeat split.
  - exists q. split; exact Q.
  - constructor.
  - exists []. split; reflexivity.
  - reflexivity.
Qed.

Lemma segm_trans : forall st st1 st2 d1 d2 dp1 dp2 a1 a2,
  segm st st1 d1 dp1 a1 -> segm st1 st2 d2 dp2 a2 -> segm st st2 (d1 ++ d2) (dp1 ++ dp2) (a1 ++ a2).
Proof.
  intros st st1 st2 d1 d2 dp1 dp2 a1 a2
    (D1 & (q1 & Qa & Qb) & F1 & (u1 & U1 & P1) & A1 & N1) (D2 & (q2 & Qc & Qd) & F2 & (u2 & U2 & P2) & A2 & N2).
  unfold segm. split; [|split; [|split; [|split; [|split]]]].
  - rewrite D2, D1, map_app, app_assoc. reflexivity.
  - exists q2. split; [|exact Qd]. rewrite Qb in Qc. injection Qc as ->.
    rewrite Qa, map_app, app_assoc. reflexivity.
  - apply Forall_app. split; assumption.
  - exists (u1 ++ u2). split.
    + rewrite U1, U2, app_assoc. reflexivity.
    + apply Permutation_app; assumption.
  - rewrite !map_app. rewrite A1, A2. apply perm_4.
  - intros E. rewrite (N1 E), (N2 E). reflexivity.
Qed.

Lemma segm_perm : forall st st' discs dp alld alld',
  Permutation alld' alld -> segm st st' discs dp alld -> segm st st' discs dp alld'.
Proof.
  intros st st' discs dp alld alld' Pm (D & Q & F & U & A & N). unfold segm. repeat split; try assumption.
  rewrite Pm. exact A.
Qed.

Lemma segm_new_disclosure : forall name v st h st' q,
  r_queue (i_rng st) = Some q ->
  new_disclosure o name v st = Ok (h, st') ->
  exists salt, h = H o (base64url_encode_str (disclosure_text true salt name v)) /\
               segm st st' [(h, disc_json salt name v)] [] [h].
Proof.
  intros name v st h st' q Q E. unfold new_disclosure in E.
  unfold draw_disclosure_salt, is_mock in E. rewrite Q in E.
  destruct q as [|salt q]; cbn in E; [discriminate|].
  injection E as <- <-. exists salt. split; [reflexivity|].
  unfold segm. cbn [i_disclosures i_rng r_queue r_salts map fst snd app].
  unfold raw_of_disc_mock. rewrite raw_of_disc_gen_json, disc_salt_json. repeat split.
  - exists q. split; [exact Q | reflexivity].
  - constructor; [|constructor]. unfold disc_ok_m, raw_of_disc_mock. cbn [fst snd].
    rewrite raw_of_disc_gen_json, disc_salt_json.
    split; [reflexivity|]. destruct (disclosure_text_prefix_gen true salt name v) as [rest' R].
    exists rest'. rewrite R. reflexivity.
  - exists []. split; reflexivity.
  - reflexivity.
Qed.

Lemma segm_draw_count : forall st n st' q,
  r_queue (i_rng st) = Some q -> draw_count st = Ok (n, st') -> segm st st' [] [] [].
Proof.
  intros st n st' q Q E. unfold draw_count in E. destruct (r_counts (i_rng st)) as [|c rest]; [discriminate|].
  injection E as <- <-. unfold segm. cbn [i_disclosures i_rng r_queue r_salts map app].
  rewrite app_nil_r. repeat split.
  - exists q. split; exact Q.
  - constructor.
  - exists []. split; reflexivity.
  - reflexivity.
Qed.

Lemma segm_decoys : forall n st ds st' q,
  decoy = true -> r_queue (i_rng st) = Some q -> decoys o n st = Ok (ds, st') ->
  exists dpn, ds = map (H o) dpn /\ segm st st' [] dpn ds.
Proof.
  intros n st ds st' q Dc. revert st ds st' q.
  induction n as [|n IH]; intros st ds st' q Q E.
  - cbn in E. injection E as <- <-. exists []. split; [reflexivity | eapply segm_refl; exact Q].
  - cbn [decoys] in E. inv_bind E. destruct a as [salt st1]. inv_bind E. destruct a as [ds' st2].
    injection E as <- <-.
    unfold draw_salt in Ha. destruct (r_salts (i_rng st)) as [|x rest] eqn:S; [discriminate|].
    injection Ha as -> <-.
    eapply IH in Ha0; [|cbn [i_rng r_queue]; exact Q].
    destruct Ha0 as (dpn & -> & (D & (q' & Qa & Qb) & F & (u & U & P) & A & N)).
    cbn [i_disclosures i_rng r_queue r_salts map app] in *.
    exists (salt :: dpn). split; [reflexivity|]. unfold segm. cbn [map app].
    split; [|split; [|split; [|split; [|split]]]].
    + exact D.
    + exists q'. split; [exact Qa | exact Qb].
    + constructor.
    + exists (salt :: u). split; [rewrite S, U; reflexivity|]. apply perm_skip. exact P.
    + reflexivity.
    + intros C. rewrite C in Dc. discriminate Dc.
Qed.

(* ------------------------------------------------------------------ *)
(* the issuer builds a digest tree                                     *)

Definition Pm (v : json) : Prop := forall s st out st' q,
  wf_json v = true -> has_reserved v = false -> r_queue (i_rng st) = Some q ->
  create_sd_claims o decoy v s st = Ok (out, st') ->
  exists d dp, out = payload_of d /\ flags d = marks s v /\ claims_of d = v /\ shape_ok d /\ digests_ok_mock o d /\
               segm st st' (disclosures_of d) dp (all_digests d).

Lemma Pm_leaf : forall v, is_container v = false -> Pm v.
Proof.
  intros v C s st out st' q _ _ Q E.
  assert (E' : Ok (v, st) = Ok (out, st')) by (destruct v; try discriminate C; exact E).
  injection E' as <- <-. exists (DLeaf v), [].
  split; [reflexivity|]. split; [destruct v; try discriminate C; reflexivity|].
  split; [reflexivity|]. split; [exact C|]. split; [exact I|].
  eapply segm_refl. exact Q.
Qed.

Lemma arr_loop_builds_m : forall l, Forall Pm l -> forall s idx acc st out st' q,
  forallb wf_json l = true -> existsb has_reserved l = false -> r_queue (i_rng st) = Some q ->
  arr_loop o decoy s l idx acc st = Ok (out, st') ->
  exists es dp, out = JArr (rev acc ++ arr_payload es) /\
    map (fun e => (hid (fst e), flags (snd e))) es = marks_arr s l idx /\
    map (fun e => claims_of (snd e)) es = l /\
    shape_ok (DArr es) /\ digests_ok_mock o (DArr es) /\
    segm st st' (disclosures_of (DArr es)) dp (all_digests (DArr es)).
Proof.
  induction 1 as [|x l Px Pl IH]; intros s idx acc st out st' q W R Q E.
  - cbn in E. injection E as <- <-. exists [], []. cbn [arr_payload map]. rewrite app_nil_r.
    split; [reflexivity|]. split; [reflexivity|]. split; [reflexivity|]. split; [exact I|]. split; [exact I|].
    eapply segm_refl. exact Q.
  - rewrite arr_loop_cons in E. cbn [forallb existsb] in W, R.
    apply andb_true_iff in W as [W1 W2]. apply orb_false_iff in R as [R1 R2].
    inv_bind E. destruct a as [sub st1]. cbv beta iota in E.
    eapply Px in Ha; try eassumption.
    destruct Ha as (dx & dpx & -> & Fx & Cx & Sx & Dx & Gx).
    destruct (segm_queue _ _ _ _ _ Gx) as [q1 Q1].
    destruct (sd_for_key s (index_key idx)) eqn:K.
    + inv_bind E. destruct a as [h st2]. cbv beta iota in E.
      destruct (segm_new_disclosure _ _ _ _ _ _ Q1 Ha) as (salt & Hh & Gh).
      destruct (segm_queue _ _ _ _ _ Gh) as [q2 Q2].
      destruct (IH _ _ _ _ _ _ _ W2 R2 Q2 E) as (es & dp & -> & Fe & Ce & Se & De & Ge).
      exists ((Some (salt, h), dx) :: es), (dpx ++ dp).
      split; [|split; [|split; [|split; [|split]]]].
      * cbn [rev arr_payload map fst snd]. rewrite <- app_assoc. reflexivity.
      * cbn [map fst snd hid]. rewrite Fe, Fx.
        change (marks_arr s (x :: l) idx) with
          ((sd_for_key s (index_key idx), marks (next_level s (index_key idx)) x) :: marks_arr s l (idx + 1)).
        rewrite K. reflexivity.
      * cbn [map snd]. rewrite Cx, Ce. reflexivity.
      * apply shape_arr_iff. constructor; [exact Sx | apply shape_arr_iff; exact Se].
      * apply digests_arr_cons_g. split; [exact Hh | split; assumption].
      * rewrite disclosures_arr_cons, all_digests_arr_cons. cbn [fst snd].
        pose proof (segm_trans _ _ _ _ _ _ _ _ _ (segm_trans _ _ _ _ _ _ _ _ _ Gx Gh) Ge) as G.
        rewrite app_nil_r in G. eapply segm_perm; [|exact G].
        apply Permutation_app_tail. apply Permutation_app_comm.
    + destruct (IH _ _ _ _ _ _ _ W2 R2 Q1 E) as (es & dp & -> & Fe & Ce & Se & De & Ge).
      exists ((None, dx) :: es), (dpx ++ dp).
      split; [|split; [|split; [|split; [|split]]]].
      * cbn [rev arr_payload map fst snd]. rewrite <- app_assoc. reflexivity.
      * cbn [map fst snd hid]. rewrite Fe, Fx.
        change (marks_arr s (x :: l) idx) with
          ((sd_for_key s (index_key idx), marks (next_level s (index_key idx)) x) :: marks_arr s l (idx + 1)).
        rewrite K. reflexivity.
      * cbn [map snd]. rewrite Cx, Ce. reflexivity.
      * apply shape_arr_iff. constructor; [exact Sx | apply shape_arr_iff; exact Se].
      * apply digests_arr_cons_g. split; [exact I | split; assumption].
      * rewrite disclosures_arr_cons, all_digests_arr_cons. cbn [fst snd app]. rewrite app_nil_r.
        apply (segm_trans _ _ _ _ _ _ _ _ _ Gx Ge).
Qed.

Lemma obj_finish_builds_m : forall vis sd st out st' q,
  r_queue (i_rng st) = Some q ->
  obj_finish o decoy ((SD_DIGESTS_KEY, JNull) :: vis) sd st = Ok (out, st') ->
  exists sdl hd dp, out = JObj (sd_member sdl ++ vis) /\ Permutation sdl (sd ++ hd) /\ segm st st' [] dp hd.
Proof.
  intros vis sd st out st' q Q E. unfold obj_finish in E.
  apply bind_Ok in E as [[sd2 st2] [E1 E]]. cbv beta iota in E.
  assert (X : exists hd dp, sd2 = sd ++ hd /\ segm st st2 [] dp hd).
  { destruct decoy eqn:Dc.
    - apply bind_Ok in E1 as [[n st1] [Ec E1]]. cbv beta iota in E1.
      apply bind_Ok in E1 as [[ds st3] [Ed E1]]. cbv beta iota in E1.
      injection E1 as <- <-.
      pose proof (segm_draw_count _ _ _ _ Q Ec) as G1.
      destruct (segm_queue _ _ _ _ _ G1) as [q1 Q1].
      destruct (segm_decoys _ _ _ _ _ Dc Q1 Ed) as (dpn & -> & G2).
      exists (map (H o) dpn), dpn. split; [reflexivity|].
      exact (segm_trans _ _ _ _ _ _ _ _ _ G1 G2).
    - injection E1 as <- <-. exists [], []. split; [rewrite app_nil_r; reflexivity | eapply segm_refl; exact Q]. }
  destruct X as (hd & dp & -> & G).
  exists (sort_strs (sd ++ hd)), hd, dp. split; [|split; [apply perm_sort_strs | ]].
  - destruct (sd ++ hd) as [|x l] eqn:S.
    + cbn [obj_remove] in E. rewrite str_eqb_refl in E. injection E as <- <-. reflexivity.
    + cbn [obj_insert] in E. rewrite str_eqb_refl in E. injection E as <- <-.
      rewrite sd_member_not_nil by apply sort_strs_cons_not_nil. reflexivity.
  - destruct (sd ++ hd) as [|x l] eqn:S.
    + injection E as _ <-. exact G.
    + injection E as _ <-. exact G.
Qed.

Lemma obj_loop_builds_m : forall m, Forall (fun kv => Pm (snd kv)) m -> forall s vis sd st out st' q,
  NoDup (keys m) ->
  (forall k, In k (keys m) -> ~ In k (keys vis) /\ k <> SD_DIGESTS_KEY) ->
  (forall kv, In kv m -> wf_json (snd kv) = true /\ has_reserved (snd kv) = false) ->
  r_queue (i_rng st) = Some q ->
  obj_loop o decoy s m ((SD_DIGESTS_KEY, JNull) :: vis) sd st = Ok (out, st') ->
  exists ms sdl hd dp,
    out = JObj (sd_member sdl ++ vis ++ obj_vis ms) /\
    Permutation sdl (sd ++ own_digests ms ++ hd) /\
    map (fun kv => (fst kv, (hid (fst (snd kv)), flags (snd (snd kv))))) ms = marks_obj s m /\
    map (fun kv => (fst kv, claims_of (snd (snd kv)))) ms = m /\
    Forall (fun kv => shape_ok (snd (snd kv))) ms /\
    digests_ok_mock o (DObj ms []) /\
    segm st st' (disclosures_of (DObj ms [])) dp (own_digests ms ++ kids_all ms ++ hd).
Proof.
  induction 1 as [|[k x] m Px Pm0 IH]; intros s vis sd st out st' q ND KV WR Q E.
  - change (obj_loop o decoy s [] ((SD_DIGESTS_KEY, JNull) :: vis) sd st)
      with (obj_finish o decoy ((SD_DIGESTS_KEY, JNull) :: vis) sd st) in E.
    destruct (obj_finish_builds_m _ _ _ _ _ _ Q E) as (sdl & hd & dp & -> & Pms & G).
    exists [], sdl, hd, dp. cbn [obj_vis flat_map own_digests kids_all app map]. rewrite app_nil_r.
    split; [reflexivity|]. split; [exact Pms|]. split; [reflexivity|]. split; [reflexivity|].
    split; [constructor|]. split; [exact I|]. exact G.
  - rewrite obj_loop_cons in E. cbn [snd] in Px.
    unfold keys in ND, KV. cbn [map fst] in ND, KV. inversion ND as [|? ? Nk ND']; subst.
    destruct (WR (k, x) (or_introl eq_refl)) as [Wx Rx]. cbn [snd] in Wx, Rx.
    assert (WR' : forall kv, In kv m -> wf_json (snd kv) = true /\ has_reserved (snd kv) = false).
    { intros kv I'. apply WR. right. exact I'. }
    destruct (KV k (or_introl eq_refl)) as [Kvis Ksd].
    apply bind_Ok in E as [[sub st1] [Ex E]]. cbv beta iota in E.
    eapply Px in Ex; try eassumption.
    destruct Ex as (dx & dpx & -> & Fx & Cx & Sx & Dx & Gx).
    destruct (segm_queue _ _ _ _ _ Gx) as [q1 Q1].
    destruct (sd_for_key s k) eqn:K.
    + apply bind_Ok in E as [[h st2] [Eh E]]. cbv beta iota in E.
      destruct (segm_new_disclosure _ _ _ _ _ _ Q1 Eh) as (salt & Hh & Gh).
      destruct (segm_queue _ _ _ _ _ Gh) as [q2 Q2].
      assert (KV' : forall k', In k' (keys m) -> ~ In k' (keys vis) /\ k' <> SD_DIGESTS_KEY).
      { intros k' I'. apply KV. right. exact I'. }
      destruct (IH _ _ _ _ _ _ _ ND' KV' WR' Q2 E) as (ms & sdl & hd & dp & -> & Pms & Fm & Cm & Sm & Dm & Gm).
      exists ((k, (Some (salt, h), dx)) :: ms), sdl, hd, (dpx ++ dp).
      split; [|split; [|split; [|split; [|split; [|split]]]]].
      * reflexivity.
      * rewrite <- app_assoc in Pms. exact Pms.
      * cbn [map fst snd hid]. rewrite Fm, Fx.
        change (marks_obj s ((k, x) :: m)) with ((k, (sd_for_key s k, marks (next_level s k) x)) :: marks_obj s m).
        rewrite K. reflexivity.
      * cbn [map fst snd]. rewrite Cx, Cm. reflexivity.
      * constructor; assumption.
      * apply (digests_obj_cons_g true o _ _ [] []). split; [exact Hh | split; assumption].
      * rewrite (disclosures_obj_cons _ _ [] []). cbn [fst snd].
        pose proof (segm_trans _ _ _ _ _ _ _ _ _ (segm_trans _ _ _ _ _ _ _ _ _ Gx Gh) Gm) as G.
        rewrite app_nil_r in G. eapply segm_perm; [|exact G].
        cbn [own_digests kids_all flat_map fst snd]. rewrite <- !app_assoc.
        apply (Permutation_app_swap_app (h :: own_digests ms) (all_digests dx)).
    + assert (Ins : obj_insert k (payload_of dx) ((SD_DIGESTS_KEY, JNull) :: vis)
                    = (SD_DIGESTS_KEY, JNull) :: (vis ++ [(k, payload_of dx)])).
      { cbn [obj_insert]. destruct (str_eqb_spec k SD_DIGESTS_KEY) as [X|X]; [contradiction|].
        f_equal. apply keys_insert_absent. exact Kvis. }
      rewrite Ins in E.
      assert (KV' : forall k', In k' (keys m) -> ~ In k' (keys (vis ++ [(k, payload_of dx)])) /\ k' <> SD_DIGESTS_KEY).
      { intros k' I'. destruct (KV k' (or_intror I')) as [A B]. split; [|exact B].
        rewrite keys_app. intros C. apply in_app_or in C as [C|C]; [contradiction|].
        cbn in C. destruct C as [C|[]]. subst k'. contradiction. }
      destruct (IH _ _ _ _ _ _ _ ND' KV' WR' Q1 E) as (ms & sdl & hd & dp & -> & Pms & Fm & Cm & Sm & Dm & Gm).
      exists ((k, (None, dx)) :: ms), sdl, hd, (dpx ++ dp).
      split; [|split; [|split; [|split; [|split; [|split]]]]].
      * cbn [obj_vis flat_map fst snd app]. rewrite <- app_assoc. reflexivity.
      * exact Pms.
      * cbn [map fst snd hid]. rewrite Fm, Fx.
        change (marks_obj s ((k, x) :: m)) with ((k, (sd_for_key s k, marks (next_level s k) x)) :: marks_obj s m).
        rewrite K. reflexivity.
      * cbn [map fst snd]. rewrite Cx, Cm. reflexivity.
      * constructor; assumption.
      * apply (digests_obj_cons_g true o _ _ [] []). split; [exact I | split; assumption].
      * rewrite (disclosures_obj_cons _ _ [] []). cbn [fst snd]. rewrite app_nil_r.
        pose proof (segm_trans _ _ _ _ _ _ _ _ _ Gx Gm) as G.
        eapply segm_perm; [|exact G].
        cbn [own_digests kids_all flat_map fst snd app]. rewrite <- !app_assoc.
        apply Permutation_app_swap_app.
Qed.

Lemma create_sd_claims_Pm : forall v, Pm v.
Proof.
  induction v as [| b | n | s0 | l IHl | m IHm] using json_ind'; try (apply Pm_leaf; reflexivity).
  - intros s st out st' q W R Q E. rewrite csc_arr in E. cbn [wf_json has_reserved] in W, R.
    destruct (arr_loop_builds_m l IHl _ _ _ _ _ _ _ W R Q E) as (es & dp & -> & Fe & Ce & Se & De & Ge).
    exists (DArr es), dp. split; [reflexivity|]. split; [|split; [|split; [|split]]]; try assumption.
    + rewrite marks_arr_eq, <- Fe. reflexivity.
    + cbn [claims_of]. rewrite Ce. reflexivity.
  - intros s st out st' q W R Q E. rewrite csc_obj in E. cbn [wf_json] in W.
    apply andb_true_iff in W as [W1 W2]. apply keys_nodup_NoDup in W1.
    pose proof (has_reserved_obj m R) as RO.
    assert (WR : forall kv, In kv m -> wf_json (snd kv) = true /\ has_reserved (snd kv) = false).
    { intros kv I'. split; [|apply RO; exact I'].
      rewrite forallb_forall in W2. apply W2. exact I'. }
    assert (KV : forall k, In k (keys m) -> ~ In k (keys []) /\ k <> SD_DIGESTS_KEY).
    { intros k I'. split; [intros []|]. unfold keys in I'. apply in_map_iff in I' as (kv & <- & I').
      destruct (RO kv I') as (A & _ & _). exact A. }
    destruct (obj_loop_builds_m m IHm _ _ _ _ _ _ _ W1 KV WR Q E)
      as (ms & sdl & hd & dp & -> & Pms & Fm & Cm & Sm & Dm & Gm).
    cbn [app] in Pms, Gm |- *.
    assert (Km : map fst ms = keys m).
    { unfold keys. rewrite <- Cm at 1. rewrite map_map. reflexivity. }
    exists (DObj ms sdl), dp. split; [reflexivity|]. split; [|split; [|split; [|split]]].
    + rewrite marks_obj_eq, <- Fm. reflexivity.
    + cbn [claims_of]. rewrite Cm. reflexivity.
    + rewrite shape_obj_eq, Km. split; [exact W1|]. split; [|split; [|split]].
      * intros C. unfold keys in C. apply in_map_iff in C as (kv & Ek & I').
        destruct (RO kv I') as (A & _ & _). contradiction.
      * intros C. unfold keys in C. apply in_map_iff in C as (kv & Ek & I').
        destruct (RO kv I') as (_ & B & _). contradiction.
      * intros x Ix. eapply Permutation_in; [apply Permutation_sym; exact Pms|]. apply in_or_app. left. exact Ix.
      * apply obj_kids_shape_iff. exact Sm.
    + exact Dm.
    + change (disclosures_of (DObj ms sdl)) with (disclosures_of (DObj ms [])).
      rewrite all_digests_obj_eq. eapply segm_perm; [|exact Gm].
      rewrite Pms. rewrite <- app_assoc. apply Permutation_app_head. apply Permutation_app_comm.
Qed.

End BuildM.

(* ------------------------------------------------------------------ *)
(* Theorem A1: create_sd_claims in the mock build                      *)

Theorem create_sd_claims_builds_mock : forall o decoy v s st out st' q,
  wf_json v = true -> has_reserved v = false -> r_queue (i_rng st) = Some q ->
  create_sd_claims o decoy v s st = Ok (out, st') ->
  exists d, out = payload_of d /\ flags d = marks s v /\ claims_of d = v /\ shape_ok d /\ digests_ok_mock o d /\
            i_disclosures st' =
              i_disclosures st ++ map (fun e => (raw_of_disc_mock (snd e), fst e)) (disclosures_of d) /\
            (* the salts are the consumed prefix of the queue, in creation order *)
            exists q', q = map (fun e => disc_salt (snd e)) (disclosures_of d) ++ q' /\
                       r_queue (i_rng st') = Some q'.
Proof.
  intros o decoy v s st out st' q W R Q E.
  destruct (create_sd_claims_Pm o decoy v s st out st' q W R Q E)
    as (d & dp & A1 & A2 & A3 & A4 & A5 & (D & (q' & Qa & Qb) & _)).
  exists d. repeat (split; [assumption|]). exists q'. split; [|exact Qb].
  rewrite Q in Qa. injection Qa as ->. reflexivity.
Qed.
Print Assumptions create_sd_claims_builds_mock.

(* ------------------------------------------------------------------ *)
(* no digest occurs twice                                              *)

Lemma NoDup_app_r' : forall {A} (a b : list A), NoDup (a ++ b) -> NoDup b.
Proof. intros A a b N. induction a as [|x a IH]; [exact N|]. cbn in N. inversion N; subst. apply IH. assumption. Qed.

Lemma NoDup_app_l' : forall {A} (a b : list A), NoDup (a ++ b) -> NoDup a.
Proof.
  intros A a b N. induction a as [|x a IH]; [constructor|]. cbn in N. inversion N as [|? ? Nx N']; subst.
  constructor; [|apply IH; exact N']. intros C. apply Nx. apply in_or_app. left. exact C.
Qed.

(* the randomness of a mock run: the queue holds pairwise distinct 22-character
   ASCII salts; when decoys are on, the random stream (used for decoy pre-images
   only) is of the same kind and disjoint from the queue *)
Definition mock_salts_ok (decoy : bool) (q : list str) (stream : list str) : Prop :=
  NoDup q /\ (forall x, In x q -> salt_ok x) /\
  (decoy = true -> NoDup stream /\ forall x, In x stream -> salt_ok x /\ ~ In x q).

Section NodupM.
Variable o : oracles.
Hypothesis H_inj : forall a b, H o a = H o b -> a = b.

Lemma segm_nodup : forall decoy st st' discs dp alld q,
  segm o decoy st st' discs dp alld ->
  r_queue (i_rng st) = Some q -> mock_salts_ok decoy q (r_salts (i_rng st)) ->
  NoDup alld.
Proof.
  intros decoy st st' discs dp alld q (_ & (q' & Qa & _) & F & (used & U & Pu) & A & Nd) Q (NDq & OKq & Dec).
  rewrite Q in Qa. injection Qa as ->.
  set (S := map (fun e => disc_salt (snd e)) discs) in *.
  assert (NDS : NoDup S) by (eapply NoDup_app_l'; exact NDq).
  assert (ND2 : NoDup (S ++ dp) /\ forall x, In x (S ++ dp) -> salt_ok x).
  { destruct decoy.
    - destruct (Dec eq_refl) as [NDs OKs]. rewrite U in NDs, OKs.
      assert (NDu : NoDup used) by (eapply NoDup_app_l'; exact NDs).
      pose proof (Permutation_NoDup Pu NDu) as NDdp.
      assert (Idp : forall x, In x dp -> In x (used ++ r_salts (i_rng st'))).
      { intros x Ix. apply in_or_app. left. eapply Permutation_in; [apply Permutation_sym; exact Pu | exact Ix]. }
      split.
      + apply NoDup_app_intro; [exact NDS | exact NDdp |].
        intros x Ix C. destruct (OKs x (Idp x C)) as [_ Nq]. apply Nq. apply in_or_app. left. exact Ix.
      + intros x Ix. apply in_app_or in Ix as [Ix|Ix].
        * apply OKq. apply in_or_app. left. exact Ix.
        * apply (OKs x (Idp x Ix)).
    - rewrite (Nd eq_refl), app_nil_r. split; [exact NDS|].
      intros x Ix. apply OKq. apply in_or_app. left. exact Ix. }
  destruct ND2 as [ND2 OK2].
  eapply Permutation_NoDup; [apply Permutation_sym; exact A|].
  assert (M : map fst discs = map (H o) (map (fun e => raw_of_disc_mock (snd e)) discs)).
  { rewrite map_map. apply map_ext_in. intros e Ie. rewrite Forall_forall in F. apply (F e Ie). }
  rewrite M, <- map_app. apply NoDup_map_injective; [exact H_inj|].
  apply (nodup_transfer (fun e => raw_of_disc_mock (snd e)) (fun e => disc_salt (snd e))); [| |exact ND2].
  - intros x y Ix Iy E. rewrite Forall_forall in F.
    destruct (F x Ix) as [_ [rx Rx]]. destruct (F y Iy) as [_ [ry Ry]].
    cbv beta in E. rewrite Rx, Ry in E. apply raw_salt_inj in E; [exact E| |].
    + apply OK2. apply in_or_app. left. apply in_map_iff. exists x. split; [reflexivity | exact Ix].
    + apply OK2. apply in_or_app. left. apply in_map_iff. exists y. split; [reflexivity | exact Iy].
  - intros x Ix C. rewrite Forall_forall in F. destruct (F x Ix) as [_ [rx Rx]].
    assert (Ox : salt_ok (disc_salt (snd x))).
    { apply OK2. apply in_or_app. left. apply in_map_iff. exists x. split; [reflexivity | exact Ix]. }
    pose proof (raw_long _ rx Ox) as L. rewrite <- Rx in L.
    assert (Oc : salt_ok (raw_of_disc_mock (snd x))) by (apply OK2; apply in_or_app; right; exact C).
    destruct Oc as [Lc _]. lia.
Qed.

Theorem build_digests_nodup_mock : forall decoy v s st out st' q,
  wf_json v = true -> has_reserved v = false -> r_queue (i_rng st) = Some q ->
  mock_salts_ok decoy q (r_salts (i_rng st)) ->
  create_sd_claims o decoy v s st = Ok (out, st') ->
  exists d, out = payload_of d /\ flags d = marks s v /\ claims_of d = v /\ shape_ok d /\ digests_ok_mock o d /\
            i_disclosures st' =
              i_disclosures st ++ map (fun e => (raw_of_disc_mock (snd e), fst e)) (disclosures_of d) /\
            (exists q', q = map (fun e => disc_salt (snd e)) (disclosures_of d) ++ q' /\
                        r_queue (i_rng st') = Some q') /\
            NoDup (all_digests d).
Proof.
  intros decoy v s st out st' q W R Q OK E.
  destruct (create_sd_claims_Pm o decoy v s st out st' q W R Q E) as (d & dp & A1 & A2 & A3 & A4 & A5 & G).
  pose proof (segm_nodup _ _ _ _ _ _ _ G Q OK) as N. destruct G as (D & (q' & Qa & Qb) & _).
  exists d. repeat (split; [assumption|]). split; [|exact N].
  exists q'. split; [|exact Qb]. rewrite Q in Qa. injection Qa as ->. reflexivity.
Qed.

End NodupM.
Print Assumptions build_digests_nodup_mock.

(* ------------------------------------------------------------------ *)
(* the top level: issue in the mock build                              *)

Lemma issue_builds_seg_mock : forall o alg ikey m s holder_jwk decoy fmt r i r' q,
  issue o alg ikey (JObj m) s holder_jwk decoy fmt r = Ok (i, r') ->
  r_queue r = Some q -> wf_json (JObj m) = true -> ~ In DIGEST_ALG_KEY (keys m) ->
  (holder_jwk <> None -> ~ In CNF_KEY (keys m)) ->
  exists s' ms sdl dp st',
    finalize_input s = Ok s' /\ has_reserved (JObj m) = false /\
    flags (DObj ms sdl) = marks s' (JObj (rest_of m)) /\ claims_of (DObj ms sdl) = JObj (rest_of m) /\
    shape_ok (DObj ms sdl) /\ digests_ok_mock o (DObj ms sdl) /\
    segm o decoy {| i_rng := r; i_disclosures := [] |} st' (disclosures_of (DObj ms sdl)) dp (all_digests (DObj ms sdl)) /\
    r' = i_rng st' /\
    is_payload i = JObj ((sd_member sdl ++ obj_vis ms) ++ top_members m holder_jwk) /\
    is_disclosures i = map fst (i_disclosures st').
Proof.
  intros o alg ikey m s holder_jwk decoy fmt r i r' q E Q W NA NC. unfold issue in E.
  apply bind_Ok in E as [s' [Fs E]].
  destruct (has_reserved (JObj m)) eqn:R; [discriminate|].
  assert (NDm : NoDup (keys m)).
  { cbn [wf_json] in W. apply andb_true_iff in W as [W1 _]. apply keys_nodup_NoDup. exact W1. }
  rewrite (pull_always_spec ALWAYS_REVEALED m [] NoDup_ALWAYS NDm) in E by (intros k _ []).
  cbn [app] in E. fold (always_of m) (rest_of m) in E. cbv beta iota in E.
  apply bind_Ok in E as [[body st'] [Ec E]]. cbv beta iota in E.
  assert (Wr : wf_json (JObj (rest_of m)) = true) by (apply wf_json_filter; exact W).
  assert (Rr : has_reserved (JObj (rest_of m)) = false) by (apply has_reserved_filter; exact R).
  destruct (create_sd_claims_Pm o decoy (JObj (rest_of m)) s' {| i_rng := r; i_disclosures := [] |} body st' q Wr Rr Q Ec)
    as (d & dp & -> & Fd & Cd & Sd & Dd & Gd).
  destruct d as [v | es | ms sdl].
  - cbn [claims_of] in Cd. subst v. discriminate Sd.
  - discriminate Cd.
  - rewrite payload_obj_eq in E. cbv beta iota in E.
    apply bind_Ok in E as [[header jwt] [Ej E]]. cbv beta iota in E.
    apply bind_Ok in E as [ser [Es E]]. injection E as <- <-.
    exists s', ms, sdl, dp, st'.
    split; [exact Fs|]. split; [reflexivity|]. split; [exact Fd|]. split; [exact Cd|].
    split; [exact Sd|]. split; [exact Dd|]. split; [exact Gd|].
    split; [reflexivity|]. split; [|reflexivity]. cbn [is_payload]. f_equal.
    apply top_assemble; [exact NA | exact NC |].
    intros k I'. rewrite keys_app in I'. apply in_app_or in I' as [I'|I'].
    + left. destruct sdl; [contradiction|]. cbn in I'. destruct I' as [<-|[]]. reflexivity.
    + right. apply In_keys_obj_vis in I'. rewrite (top_keys_ms m ms sdl Cd) in I'. exact I'.
Qed.

(* Theorem A2: unless the queue runs out (then the outcome is
   Panic "utils.rs: SALTS is empty", NoPanic.issue_returns), issue in the mock
   build emits payload_of D and the spaced texts of the disclosures of D, made
   with the consumed prefix of the queue in creation order *)
Theorem issue_builds_mock : forall o alg ikey m s holder_jwk decoy fmt r i r' q,
  issue o alg ikey (JObj m) s holder_jwk decoy fmt r = Ok (i, r') ->
  r_queue r = Some q -> wf_json (JObj m) = true -> ~ In DIGEST_ALG_KEY (keys m) ->
  (forall jwk, holder_jwk = Some jwk ->
     wf_json jwk = true /\ has_reserved jwk = false /\ ~ In CNF_KEY (keys m)) ->
  exists s' ms sdl,
    finalize_input s = Ok s' /\
    flags (DObj ms sdl) = marks s' (JObj (rest_of m)) /\
    claims_of (DObj ms sdl) = JObj (rest_of m) /\
    let D := DObj (ms ++ map embed_member (top_members m holder_jwk)) sdl in
    is_payload i = payload_of D /\ shape_ok D /\ digests_ok_mock o D /\
    is_disclosures i = map (fun e => raw_of_disc_mock (snd e)) (disclosures_of D) /\
    claims_of D = JObj (rest_of m ++ top_members m holder_jwk) /\
    disclosures_of D = disclosures_of (DObj ms sdl) /\
    all_digests D = all_digests (DObj ms sdl) /\
    exists q', q = map (fun e => disc_salt (snd e)) (disclosures_of D) ++ q' /\ r_queue r' = Some q'.
Proof.
  intros o alg ikey m s holder_jwk decoy fmt r i r' q E Q W NA HJ.
  assert (NC : holder_jwk <> None -> ~ In CNF_KEY (keys m)).
  { intros N. destruct holder_jwk as [jwk|]; [|contradiction]. apply (HJ jwk eq_refl). }
  destruct (issue_builds_seg_mock _ _ _ _ _ _ _ _ _ _ _ _ E Q W NA NC)
    as (s' & ms & sdl & dp & st' & Fs & R & Fd & Cd & Sd & Dd & Gd & -> & Ep & Ed).
  exists s', ms, sdl. split; [exact Fs|]. split; [exact Fd|]. split; [exact Cd|]. cbv zeta.
  split; [rewrite top_payload; exact Ep|].
  split; [apply top_shape; assumption|].
  split; [apply top_digests_ok_g; exact Dd|].
  split.
  { rewrite top_disclosures, Ed. destruct Gd as (Di & _). rewrite Di. cbn [i_disclosures app].
    rewrite map_map. reflexivity. }
  split; [apply top_claims; exact Cd|].
  split; [apply top_disclosures|]. split; [apply top_all_digests|].
  rewrite top_disclosures. destruct Gd as (_ & (q' & Qa & Qb) & _). cbn [i_rng] in Qa.
  exists q'. split; [|exact Qb]. rewrite Q in Qa. injection Qa as ->. reflexivity.
Qed.
Print Assumptions issue_builds_mock.

Theorem issue_digests_nodup_mock : forall o alg ikey m s holder_jwk decoy fmt r i r' q,
  (forall a b, H o a = H o b -> a = b) ->
  issue o alg ikey (JObj m) s holder_jwk decoy fmt r = Ok (i, r') ->
  r_queue r = Some q -> wf_json (JObj m) = true -> ~ In DIGEST_ALG_KEY (keys m) ->
  (holder_jwk <> None -> ~ In CNF_KEY (keys m)) ->
  mock_salts_ok decoy q (r_salts r) ->
  exists s' ms sdl,
    finalize_input s = Ok s' /\
    flags (DObj ms sdl) = marks s' (JObj (rest_of m)) /\
    claims_of (DObj ms sdl) = JObj (rest_of m) /\
    is_payload i = payload_of (DObj (ms ++ map embed_member (top_members m holder_jwk)) sdl) /\
    NoDup (all_digests (DObj (ms ++ map embed_member (top_members m holder_jwk)) sdl)).
Proof.
  intros o alg ikey m s holder_jwk decoy fmt r i r' q Hinj E Q W NA NC OK.
  destruct (issue_builds_seg_mock _ _ _ _ _ _ _ _ _ _ _ _ E Q W NA NC)
    as (s' & ms & sdl & dp & st' & Fs & R & Fd & Cd & Sd & Dd & Gd & -> & Ep & Ed).
  exists s', ms, sdl. split; [exact Fs|]. split; [exact Fd|]. split; [exact Cd|].
  split; [rewrite top_payload; exact Ep|].
  rewrite top_all_digests. apply (segm_nodup o Hinj _ _ _ _ _ _ _ Gd Q OK).
Qed.
Print Assumptions issue_digests_nodup_mock.

(* ================================================================== *)
(*  B. the round trip, for either text form                            *)
(* ================================================================== *)

Section Gen.
Variable mock : bool.
Local Notation rawg := (raw_of_disc_gen mock).

(* ---- the digest map built from a list of issued disclosures (RoundTrip section 3) ---- *)

Definition entry (e : str * json) : str * (json * str) := (fst e, (snd e, rawg (snd e))).
Definition dm_of (es : list (str * json)) : dmap := map entry es.
Definition texts_of (es : list (str * json)) : list str := map (fun e => rawg (snd e)) es.

(* the text of e is the digest pre-image of fst e and decodes to snd e *)
Definition wire_ok (o : oracles) (e : str * json) : Prop :=
  fst e = H o (rawg (snd e)) /\
  exists text, base64url_decode_text (rawg (snd e)) = Some text /\ parse_json text = Some (snd e).

Lemma chm_entries : forall o es acc,
  Forall (wire_ok o) es -> NoDup (map fst es) -> (forall e, In e es -> dmap_get (fst e) acc = None) ->
  create_hash_mappings o (texts_of es) acc = Ok (acc ++ dm_of es).
Proof.
  intros o. induction es as [|e es IH]; intros acc F N A.
  - cbn. rewrite app_nil_r. reflexivity.
  - inversion F as [|? ? [Fd (text & Ft & Fp)] F']; subst. cbn [map] in N. inversion N as [|? ? Nk N']; subst.
    cbn [texts_of map create_hash_mappings]. rewrite Ft, Fp, <- Fd, (A e (or_introl eq_refl)).
    fold (texts_of es). rewrite IH; [| exact F' | exact N' |].
    + cbn [dm_of map]. rewrite <- app_assoc. reflexivity.
    + intros e' I'. rewrite UnpackView.dmap_get_app, (A e' (or_intror I')). cbn [dmap_get].
      destruct (str_eqb_spec (fst e') (fst e)) as [E|_]; [|reflexivity].
      exfalso. apply Nk. rewrite <- E. apply in_map. exact I'.
Qed.

Lemma dm_of_get : forall es dg x t, dmap_get dg (dm_of es) = Some (x, t) -> In (dg, x) es /\ t = rawg x.
Proof.
  induction es as [|[dg' x'] es IH]; intros dg x t E; [discriminate|].
  cbn [dm_of map entry dmap_get fst snd] in E. destruct (str_eqb_spec dg dg') as [->|Ne].
  - inversion E; subst. split; [left; reflexivity | reflexivity].
  - destruct (IH dg x t E) as [A B]. split; [right; exact A | exact B].
Qed.

Lemma dm_of_has : forall es dg, UnpackView.has_of (dm_of es) dg = mem_str dg (map fst es).
Proof.
  intros es dg. unfold UnpackView.has_of. induction es as [|[dg' x'] es IH]; [reflexivity|].
  cbn [dm_of map entry dmap_get fst snd mem_str]. destruct (str_eqb dg dg'); [reflexivity | exact IH].
Qed.

Lemma dm_of_covers : forall es dg, In dg (map fst es) -> WalkSel.in_dm (dm_of es) dg.
Proof.
  intros es dg I. apply mem_str_In in I. rewrite <- dm_of_has in I. unfold UnpackView.has_of in I.
  unfold WalkSel.in_dm. destruct (dmap_get dg (dm_of es)) as [[x t]|]; [eauto | discriminate].
Qed.

Lemma dm_of_length : forall es, List.length (dm_of es) = List.length es.
Proof. intros. unfold dm_of. apply map_length. Qed.

(* ---- an issued disclosure on the wire: the codec law holds for both text forms ---- *)
Lemma disc_good_text : forall e, disc_good e ->
  sstr (rawg (snd e)) = true /\ ~ In 126 (rawg (snd e)) /\ ascii (rawg (snd e)) /\
  exists text, base64url_decode_text (rawg (snd e)) = Some text /\ parse_json text = Some (snd e).
Proof.
  intros e (salt & name & v & E & Ps & Pn & Cv & Wv). rewrite E, raw_of_disc_gen_json.
  assert (St : sstr (disclosure_text mock salt name v) = true).
  { apply DisclosureCodec.scalar_disclosure_text; try assumption.
    apply JsonRoundtrip.val_ok_at_spec in Cv. tauto. }
  split; [|split; [|split]].
  - unfold base64url_encode_str. unfold JsonRoundtrip.scalar_str. apply forallb_forall. intros c Ic.
    apply JsonRoundtrip.scalar_ascii.
    pose proof (proj1 (JsonRoundtrip.scalar_str_scalars _) St) as Sc.
    destruct (b64_encode_no_sep _ c (utf8_encode_bytes _ Sc) Ic) as (_ & _ & _ & _ & L). exact L.
  - apply b64url_no_tilde. exact St.
  - apply b64_encode_ascii.
  - exists (disclosure_text mock salt name v). split.
    + apply DisclosureCodec.base64url_text_roundtrip. exact St.
    + destruct name as [n|]; cbn [IssuerBuild.disc_json].
      * apply DisclosureCodec.disclosure_codec_some; assumption.
      * apply DisclosureCodec.disclosure_codec_none; assumption.
Qed.

Lemma disc_good_wire : forall o e, fst e = H o (rawg (snd e)) -> disc_good e -> wire_ok o e.
Proof. intros o e Hd G. destruct (disc_good_text e G) as (_ & _ & _ & T). split; assumption. Qed.

(* the tree of an issued credential, with everything later stages need
   (RoundTrip.issued_tree for the text form [mock]; the salts are plain) *)
Definition issued_tree_g (o : oracles) (m : members) (hj : option json) (i : issued)
           (ms : list (str * (option (str * str) * dtree))) (sdl : list str) : Prop :=
  let d := DObj ms sdl in
  has_reserved (JObj m) = false /\
  claims_of d = JObj (rest_of m) /\ shape_ok d /\ digests_ok_gen mock o d /\
  is_payload i = JObj ((sd_member sdl ++ IssuerBuild.obj_vis ms) ++ top_members m hj) /\
  is_disclosures i = texts_of (disclosures_of d) /\
  NoDup (all_digests d) /\ NoDup (map fst (disclosures_of d)) /\
  (forall e, In e (disclosures_of d) -> fst e = H o (rawg (snd e))) /\
  (forall e, In e (disclosures_of d) -> DisclosureCodec.plain_salt (IssuerBuild.disc_salt (snd e)) = true) /\
  (forall dg, In dg (all_digests d) -> exists x, ascii x /\ dg = H o x).

Section Issued.
  Variable o : oracles.
  Variable m : members.
  Variable hj : option json.
  Variable i : issued.
  Variable ms : list (str * (option (str * str) * dtree)).
  Variable sdl : list str.
  Hypothesis IT : issued_tree_g o m hj i ms sdl.
  Hypothesis W : wf_json (JObj m) = true.
  Hypothesis NA : ~ In DIGEST_ALG_KEY (keys m).
  Hypothesis HJ : holder_jwk_ok m hj.
  (* printable strings and names, JSON numbers, at most 126 nested containers *)
  Hypothesis Vm : DisclosureCodec.claim_ok (JObj m) = true.
  Hypothesis Hscal : forall x, ascii x -> sstr (H o x) = true.

  Let D := DObj (ms ++ map embed_member (top_members m hj)) sdl.
  Let P3 := (sd_member sdl ++ IssuerBuild.obj_vis ms) ++ top_members m hj.

  Lemma HJ' : forall jwk, hj = Some jwk -> wf_json jwk = true /\ has_reserved jwk = false /\ ~ In CNF_KEY (keys m).
  Proof. intros jwk E. destruct (HJ jwk E) as (A & B & C & _). auto. Qed.

  Lemma D_payload : payload_of D = JObj P3.
  Proof. apply IssuerBuild.top_payload. Qed.
  Lemma D_is_payload : is_payload i = payload_of D.
  Proof. rewrite D_payload. apply IT. Qed.
  Lemma D_shape : shape_ok D.
  Proof. destruct IT as (R & Cd & Sd & _). apply IssuerBuild.top_shape; try assumption. exact HJ'. Qed.
  Lemma D_claims : claims_of D = JObj (rest_of m ++ top_members m hj).
  Proof. apply IssuerBuild.top_claims. apply IT. Qed.
  Lemma D_discs : disclosures_of D = disclosures_of (DObj ms sdl).
  Proof. apply IssuerBuild.top_disclosures. Qed.
  Lemma D_all : all_digests D = all_digests (DObj ms sdl).
  Proof. apply IssuerBuild.top_all_digests. Qed.
  Lemma D_digests_ok : digests_ok_gen mock o D.
  Proof. apply top_digests_ok_g. apply IT. Qed.
  Lemma D_nodup : NoDup (all_digests D).
  Proof. rewrite D_all. apply IT. Qed.
  Lemma D_nodup_discs : NoDup (map fst (disclosures_of D)).
  Proof. rewrite D_discs. apply IT. Qed.
  Lemma D_texts : is_disclosures i = texts_of (disclosures_of D).
  Proof. rewrite D_discs. apply IT. Qed.
  Lemma D_wf : wf_dtree D.
  Proof. split; [exact D_shape | exact D_nodup]. Qed.

  Lemma D_digests_scalar : forall dg, In dg (all_digests D) -> sstr dg = true.
  Proof.
    intros dg I. rewrite D_all in I. destruct IT as (_ & _ & _ & _ & _ & _ & _ & _ & _ & _ & Hx).
    destruct (Hx dg I) as [x [Ax ->]]. apply Hscal. exact Ax.
  Qed.

  Lemma m_member_ok : forall kv, In kv m ->
    sstr (fst kv) = true /\ vokS (snd kv) = true /\ (jnd (snd kv) <= 125)%nat.
  Proof.
    intros kv I. pose proof Vm as Vm0. apply JsonRoundtrip.val_ok_at_spec in Vm0 as [V Dp]. cbn [JsonRoundtrip.vok JsonRoundtrip.nd] in V, Dp.
    rewrite forallb_forall in V. specialize (V kv I). apply andb_true_iff in V as [V1 V2].
    pose proof (list_max_map_ge (fun kv : str * json => jnd (snd kv)) m kv I) as M. cbn beta in M.
    repeat split; try assumption. unfold MAX_DEPTH in Dp. lia.
  Qed.

  Lemma claims_member_ok : forall kv, In kv (rest_of m ++ top_members m hj) ->
    sstr (fst kv) = true /\ vokS (snd kv) = true /\ (jnd (snd kv) <= 125)%nat.
  Proof.
    intros kv I. apply in_app_or in I as [I|I].
    - apply IssuerBuild.In_drop_members in I as [I _]. apply m_member_ok. exact I.
    - unfold IssuerBuild.top_members in I. apply in_app_or in I as [I|I].
      + destruct I as [<-|[]]. cbn. repeat split; lia.
      + apply in_app_or in I as [I|I].
        * apply IssuerBuild.In_get_members in I as [_ I]. apply m_member_ok. exact I.
        * unfold IssuerBuild.cnf_members in I. destruct hj as [jwk|] eqn:Ehj; [|destruct I].
          destruct I as [<-|[]]. destruct (HJ jwk eq_refl) as (_ & _ & _ & Vj).
          apply JsonRoundtrip.val_ok_at_spec in Vj as [Vj Dj].
          cbn [fst snd JsonRoundtrip.vok JsonRoundtrip.nd forallb map list_max].
          rewrite Vj. repeat split; try reflexivity. unfold list_max. cbn [fold_right]. rewrite Nat.max_0_r. lia.
  Qed.

  Lemma D_vok : vokS (claims_of D) = true.
  Proof.
    rewrite D_claims. cbn [JsonRoundtrip.vok]. apply forallb_forall. intros kv I.
    destruct (claims_member_ok kv I) as (A & B & _). rewrite A, B. reflexivity.
  Qed.

  Lemma D_nd : (jnd (claims_of D) <= 126)%nat.
  Proof.
    rewrite D_claims. cbn [JsonRoundtrip.nd]. apply le_n_S. apply list_max_map_le.
    intros kv I. apply (claims_member_ok kv I).
  Qed.

  Lemma P3_val_ok : JsonRoundtrip.val_ok (JObj P3) = true.
  Proof.
    rewrite <- D_payload. apply JsonRoundtrip.val_ok_at_spec. split.
    - apply vok_payload; [exact D_vok | exact D_digests_scalar].
    - pose proof (nd_payload D). pose proof D_nd. unfold MAX_DEPTH. lia.
  Qed.

  Lemma P3_wf : wf_json (JObj P3) = true.
  Proof. rewrite <- D_payload. apply wf_payload. exact D_shape. Qed.

  Lemma P3_nodup : NoDup (keys P3).
  Proof. pose proof P3_wf as X. cbn [wf_json] in X. apply andb_true_iff in X as [X _]. apply keys_nodup_NoDup. exact X. Qed.

  Lemma D_discs_good : forall e, In e (disclosures_of D) -> disc_good e.
  Proof.
    apply discs_good; [exact D_vok | exact D_digests_scalar | exact D_nd | exact D_shape |].
    intros e Ie. rewrite D_discs in Ie.
    destruct IT as (_ & _ & _ & _ & _ & _ & _ & _ & _ & Hs & _). apply Hs. exact Ie.
  Qed.

  Lemma D_discs_wire : forall e, In e (disclosures_of D) -> wire_ok o e.
  Proof.
    intros e Ie. apply disc_good_wire; [|apply D_discs_good; exact Ie].
    rewrite D_discs in Ie. destruct IT as (_ & _ & _ & _ & _ & _ & _ & _ & Hd & _). apply Hd. exact Ie.
  Qed.

  (* ---- digest maps made of disclosures of D ---- *)
  Lemma sub_wire : forall es, incl es (disclosures_of D) -> Forall (wire_ok o) es.
  Proof. intros es I. apply Forall_forall. intros e Ie. apply D_discs_wire. apply I. exact Ie. Qed.

  Lemma sub_chm : forall es, incl es (disclosures_of D) -> NoDup (map fst es) ->
    create_hash_mappings o (texts_of es) [] = Ok (dm_of es).
  Proof.
    intros es I N. rewrite chm_entries; [reflexivity | apply sub_wire; exact I | exact N | reflexivity].
  Qed.

  Lemma sub_genuine : forall es, incl es (disclosures_of D) -> WalkSel.genuine (dm_of es) D.
  Proof.
    intros es I. apply WalkSel.genuine_of_disclosures; [exact D_shape | exact D_nodup | exact D_nodup_discs|].
    intros dg x t E. apply dm_of_get in E as [E _]. apply I. exact E.
  Qed.

  Lemma sub_tilde_free : forall es, incl es (disclosures_of D) -> Forall (fun x => ~ In 126 x) (texts_of es).
  Proof.
    intros es I. apply Forall_forall. intros x Ix. apply in_map_iff in Ix as [e [<- Ie]].
    destruct (disc_good_text e (D_discs_good e (I e Ie))) as (_ & T & _). exact T.
  Qed.

  (* ---- looking members up in the payload ---- *)
  Lemma keys_obj_vis_rest : forall k, In k (keys (IssuerBuild.obj_vis ms)) -> In k (keys (rest_of m)).
  Proof.
    intros k I. apply IssuerBuild.In_keys_obj_vis in I.
    destruct IT as (_ & Cd & _). rewrite (IssuerBuild.top_keys_ms m ms sdl Cd) in I. exact I.
  Qed.

  Lemma P3_get_top : forall k, k <> SD_DIGESTS_KEY -> ~ In k (keys (rest_of m)) ->
    obj_get k P3 = obj_get k (top_members m hj).
  Proof.
    intros k N1 N2. unfold P3. rewrite !WalkSel.obj_get_app.
    rewrite WalkSel.obj_get_sd_member_other by exact N1.
    replace (obj_get k (IssuerBuild.obj_vis ms)) with (@None json); [reflexivity|].
    symmetry. apply obj_get_None_keys. intros C. apply N2. apply keys_obj_vis_rest. exact C.
  Qed.

  Lemma get_get_members : forall k ks mm, In k ks -> NoDup ks ->
    obj_get k (IssuerBuild.get_members mm ks) = obj_get k mm.
  Proof.
    intros k ks mm. induction ks as [|k' ks IH]; intros I N; [destruct I|].
    inversion N as [|? ? Nk N']; subst. unfold IssuerBuild.get_members. cbn [flat_map].
    fold (IssuerBuild.get_members mm ks). rewrite WalkSel.obj_get_app.
    destruct (str_eqb_spec k k') as [->|Ne].
    - destruct (obj_get k' mm) as [v|] eqn:G; cbn [obj_get]; [rewrite str_eqb_refl; reflexivity|].
      apply obj_get_None_keys. intros C. apply in_map_iff in C as (kv & Ek & C).
      apply IssuerBuild.In_get_members in C as [C _]. rewrite Ek in C. contradiction.
    - destruct I as [I|I]; [congruence|].
      destruct (obj_get k' mm) as [v|]; cbn [obj_get]; [destruct (str_eqb_spec k k'); [contradiction|]|];
        apply IH; assumption.
  Qed.

  Lemma P3_get_always : forall k, In k ALWAYS_REVEALED -> obj_get k P3 = obj_get k m.
  Proof.
    intros k I. rewrite P3_get_top.
    - unfold IssuerBuild.top_members. cbn [app obj_get].
      destruct (str_eqb_spec k DIGEST_ALG_KEY) as [->|_].
      { exfalso. revert I. apply mem_str_not_In. reflexivity. }
      rewrite WalkSel.obj_get_app. unfold IssuerBuild.always_of.
      rewrite get_get_members by (assumption || exact IssuerBuild.NoDup_ALWAYS).
      destruct (obj_get k m) as [v|] eqn:G; [reflexivity|].
      unfold IssuerBuild.cnf_members. destruct hj; [|reflexivity]. cbn [obj_get].
      destruct (str_eqb_spec k CNF_KEY) as [->|_]; [|reflexivity].
      exfalso. revert I. apply mem_str_not_In. reflexivity.
    - intros ->. revert I. apply mem_str_not_In. reflexivity.
    - intros C. apply IssuerBuild.In_keys_rest in C as [_ C]. contradiction.
  Qed.

  Lemma P3_get_alg : obj_get DIGEST_ALG_KEY P3 = Some (JStr DEFAULT_DIGEST_ALG).
  Proof.
    rewrite P3_get_top.
    - reflexivity.
    - apply str_eqb_neq. reflexivity.
    - intros C. apply IssuerBuild.In_keys_rest in C as [C _]. contradiction.
  Qed.

  (* a member that is not one of the issuer's own: absent, or the payload of the
     subtree of the user's member of that name *)
  Lemma P3_get_user : forall k, ~ In k (keys (top_members m hj)) -> k <> SD_DIGESTS_KEY ->
    obj_get k P3 = None \/
    exists sub, obj_get k P3 = Some (payload_of sub) /\ obj_get k m = Some (claims_of sub).
  Proof.
    intros k N1 N2. unfold P3. rewrite !WalkSel.obj_get_app.
    rewrite WalkSel.obj_get_sd_member_other by exact N2.
    destruct (obj_get k (IssuerBuild.obj_vis ms)) as [v|] eqn:G.
    - right. apply obj_get_In in G. unfold IssuerBuild.obj_vis in G. apply in_flat_map in G as [kv [Ikv G]].
      destruct (fst (snd kv)); [destruct G|]. destruct G as [G|[]]. inversion G; subst k v.
      exists (snd (snd kv)). split; [reflexivity|].
      destruct IT as (_ & Cd & _). rewrite claims_obj in Cd. inversion Cd as [Cd'].
      assert (Ir : In (fst kv, claims_of (snd (snd kv))) (rest_of m)).
      { rewrite <- Cd'. apply in_map_iff. exists kv. split; [reflexivity | exact Ikv]. }
      apply IssuerBuild.In_drop_members in Ir as [Im _].
      assert (Nm : NoDup (keys m)).
      { cbn [wf_json] in W. apply andb_true_iff in W as [W1 _]. apply keys_nodup_NoDup. exact W1. }
      destruct (obj_get (fst kv) m) as [v'|] eqn:G'.
      + apply obj_get_In in G'. f_equal. symmetry.
        eapply (WalkSel.NoDup_fst_functional m (fst kv)); eassumption.
      + exfalso. apply obj_get_None_keys in G'. apply G'. apply in_map_iff.
        exists (fst kv, claims_of (snd (snd kv))). split; [reflexivity | exact Im].
    - left. apply obj_get_None_keys. exact N1.
  Qed.

(* ================================================================== *)
(*  7. the round trip (still inside Section Issued)                    *)
(* ================================================================== *)

  Variable alg : str.
  Variable ikey : key.
  Hypothesis Hjwt : jwt_encode o None alg ikey (is_payload i) = Ok (is_header i, is_jwt i).
  (* the signature oracle verifies what it signed, and signatures are base64url-like *)
  Hypothesis sig_correct : forall a k msg, sig_ok o a k msg (sign o a k msg) = true.
  Hypothesis sig_free : forall a k msg, ~ In 46 (sign o a k msg) /\ ~ In 126 (sign o a k msg).
  Variable resolver : str -> json -> key.
  Variable now : N.
  Variable issv : str.
  Variable e : N.
  (* what the JWT layer needs of the user's claims *)
  Hypothesis Hiss : obj_get (lit "iss") m = Some (JStr issv).
  Hypothesis Hres : resolver issv (alg_header alg) = ikey.
  Hypothesis Hexp : numeric_claim (lit "exp") m = Ok (Parsed e).
  Hypothesis He : now <= e + LEEWAY.
  Hypothesis Haud : obj_get (lit "aud") m = None.
  Hypothesis Hsub : obj_get (lit "sub") m = None \/ obj_get (lit "sub") m = Some JNull \/
                    exists s, obj_get (lit "sub") m = Some (JStr s).
  Hypothesis Hnbf : exists t, numeric_claim (lit "nbf") m = Ok t /\ forall n, t = Parsed n -> n <= now + LEEWAY.

  Let hb := base64url_encode_str (print (alg_header alg)).
  Let plb := base64url_encode_str (print (JObj P3)).
  Let sg := sign o alg ikey (hb ++ 46 :: plb).

  Lemma alg_known : alg_family alg = Some (kfam ikey) /\ mem_str alg alg_names = true.
  Proof.
    destruct (jwt_encode_inv _ _ _ _ _ _ Hjwt) as (A & _). split; [exact A|]. eapply alg_family_names. exact A.
  Qed.

  Lemma jwt_eq : is_jwt i = jwt3 hb plb sg.
  Proof.
    destruct (jwt_encode_inv _ _ _ _ _ _ Hjwt) as (_ & _ & E). cbv zeta in E. rewrite E.
    destruct IT as (_ & _ & _ & _ & Ep & _). rewrite Ep. reflexivity.
  Qed.

  Lemma hb_scalar : sstr (print (alg_header alg)) = true.
  Proof.
    apply print_scalar. apply alg_header_vok. destruct alg_known as [_ M].
    apply (alg_header_facts alg M).
  Qed.
  Lemma plb_scalar : sstr (print (JObj P3)) = true.
  Proof. apply print_scalar. pose proof P3_val_ok as V. apply JsonRoundtrip.val_ok_at_spec in V. exact (proj1 V). Qed.

  Lemma plb_decode : jwt_payload_decode plb = Ok P3.
  Proof. apply payload_decode_print; [exact P3_val_ok | exact P3_wf]. Qed.

  Lemma not_top_key : forall k, ~ In k ALWAYS_REVEALED -> k <> DIGEST_ALG_KEY -> k <> CNF_KEY ->
    ~ In k (keys (top_members m hj)).
  Proof.
    intros k N1 N2 N3 C. unfold IssuerBuild.top_members in C. rewrite !keys_app in C.
    apply in_app_or in C as [C|C]; [destruct C as [C|[]]; apply N2; symmetry; exact C|].
    apply in_app_or in C as [C|C].
    - apply IssuerBuild.In_keys_always in C as [C _]. contradiction.
    - unfold IssuerBuild.cnf_members in C. destruct hj; [|destruct C]. destruct C as [C|[]]. apply N3. symmetry. exact C.
  Qed.

  Lemma user_key : forall k, mem_str k [lit "aud"; lit "sub"; lit "nbf"] = true ->
    ~ In k (keys (top_members m hj)) /\ k <> SD_DIGESTS_KEY.
  Proof.
    intros k M. apply mem_str_In in M. cbn [In] in M.
    destruct M as [<-|[<-|[<-|[]]]]; (split; [apply not_top_key|]);
      try (apply mem_str_not_In; reflexivity); apply str_eqb_neq; reflexivity.
  Qed.

  (* a leaf-valued user member keeps its value in the payload, or is hidden *)
  Lemma P3_get_leaf : forall k, mem_str k [lit "aud"; lit "sub"; lit "nbf"] = true ->
    obj_get k P3 = None \/
    (obj_get k P3 = obj_get k m) \/
    (exists v, obj_get k m = Some v /\ is_container v = true).
  Proof.
    intros k M. destruct (user_key k M) as [N1 N2].
    destruct (P3_get_user k N1 N2) as [G|(sub & G1 & G2)]; [left; exact G|].
    destruct (is_container (claims_of sub)) eqn:C.
    - right. right. exists (claims_of sub). split; assumption.
    - right. left. rewrite G1, G2, (claims_leaf sub C). reflexivity.
  Qed.

  Lemma validate_P3 : validate (issuer_validation alg) P3 P3 now = Ok tt.
  Proof.
    apply (VerifierFacts.validate_in_window alg P3 P3 now e).
    - intros k _. apply count_key_nodup. exact P3_nodup.
    - destruct (P3_get_leaf (lit "sub") eq_refl) as [G|[G|(v & G & C)]].
      + left. exact G.
      + rewrite G. exact Hsub.
      + exfalso. destruct Hsub as [S|[S|[s S]]]; rewrite S in G; try discriminate; inversion G; subst v; discriminate C.
    - rewrite <- Hexp. apply numeric_claim_ext. apply P3_get_always. right. right. left. reflexivity.
    - unfold LEEWAY in *. lia.
    - destruct Hnbf as (t & Nt & Lt).
      destruct (P3_get_leaf (lit "nbf") eq_refl) as [G|[G|(v & G & C)]].
      + left. unfold numeric_claim. rewrite G. reflexivity.
      + rewrite (numeric_claim_ext _ _ _ G), Nt.
        destruct t as [n| |]; [right; right; exists n; split; [reflexivity | apply Lt; reflexivity] | right; left; reflexivity | left; reflexivity].
      + exfalso. rewrite (numeric_claim_container _ _ _ _ G Nt) in C. discriminate.
    - intros x. unfold aud_claim.
      destruct (P3_get_leaf (lit "aud") eq_refl) as [G|[G|(v & G & C)]].
      + rewrite G. discriminate.
      + rewrite G, Haud. discriminate.
      + rewrite Haud in G. discriminate.
  Qed.

  (* what any parse of a presentation of the issued JWT with disclosures [es] looks like *)
  Definition parsed_of (p : parsed) (es : list (str * json)) : Prop :=
    p_jwt p = is_jwt i /\ p_payload p = P3 /\ p_disclosures p = texts_of es /\ p_sign_alg p = Some alg.

  (* the issuer-signed JWT passes the JWT layer; the claims are unpacked *)
  Lemma verify_parsed_issued : forall p es ea en,
    incl es (disclosures_of D) -> NoDup (map fst es) -> parsed_of p es ->
    exists mV,
      jequiv (JObj mV) (view_d (fun dg => mem_str dg (map fst es)) D) /\
      VerifierFacts.verify_parsed o p resolver ea en now =
      match ea, en with
      | Some a, Some n => do _ <- verify_key_binding o p P3 a n now; Ok (JObj (obj_remove DIGEST_ALG_KEY mV))
      | None, None => Ok (JObj (obj_remove DIGEST_ALG_KEY mV))
      | _, _ => Err "Either both expected_aud and expected_nonce must be provided or both must be None"
      end.
  Proof.
    intros p es ea en Ies Nes (Ej & Ep & Ed & Ea).
    destruct alg_known as [Af Am]. destruct (alg_header_facts alg Am) as (_ & Hh & _).
    destruct (sig_free alg ikey (hb ++ 46 :: plb)) as [Sd _]. fold sg in Sd.
    pose proof (b64url_no_dot _ plb_scalar) as Pd. fold plb in Pd.
    (* the claims *)
    pose proof (sub_genuine es Ies) as Gw. apply genuine_same in Gw.
    destruct (UnpackView.unpack_view_top D (dm_of es) D_wf Gw) as (V & seen' & EV & JV).
    rewrite (UnpackView.jequiv_view_d_ext (UnpackView.has_of (dm_of es)) (fun dg => mem_str dg (map fst es)) D D_shape) in JV
      by (intros dg _; apply dm_of_has).
    assert (exists mV, V = JObj mV) as [mV ->].
    { unfold D in JV. rewrite UnpackView.view_obj in JV. inversion JV; subst. eexists; reflexivity. }
    exists mV. split; [exact JV|].
    unfold VerifierFacts.verify_parsed. rewrite Ed, (sub_chm es Ies Nes). cbn [bind].
    rewrite Ej, jwt_eq. unfold jwt3. rewrite decode_header_jwt by assumption.
    change (header_from_encoded hb = Ok (hdr_of alg)) in Hh. rewrite Hh. cbn [bind].
    rewrite Ep, (P3_get_always (lit "iss")) by (left; reflexivity). rewrite Hiss. cbn [bind].
    rewrite Ea, Am. cbn [bind hdr_of hd_json]. rewrite Hres.
    rewrite (jwt_decode_jwt o ikey (issuer_validation alg) now hb plb sg (hdr_of alg) (print (JObj P3)) P3 P3);
      try assumption; try reflexivity.
    - cbn [bind]. unfold extract_sd_claims. rewrite P3_get_alg. rewrite str_eqb_refl. cbn [bind].
      rewrite <- D_payload, EV. cbn [bind]. reflexivity.
    - apply sig_correct.
    - apply b64_print_decode. pose proof P3_val_ok as X. apply JsonRoundtrip.val_ok_at_spec in X. exact (proj1 X).
    - apply JsonRoundtrip.parse_json_raw_print_k.
      + eapply JsonRoundtrip.vok_nums_ok. pose proof P3_val_ok as X. apply JsonRoundtrip.val_ok_at_spec in X. apply X.
      + pose proof P3_val_ok as X. apply JsonRoundtrip.val_ok_at_spec in X. apply X.
    - apply JsonRoundtrip.dedup_wf. exact P3_wf.
    - exact validate_P3.
  Qed.

  (* ---- parsing a Compact text made of the issued JWT and disclosures [es] ---- *)
  Lemma parse_issued_compact : forall es (kb : str), incl es (disclosures_of D) -> ~ In 126 kb ->
    exists p, parse_compact (join_with [126] (is_jwt i :: texts_of es ++ [kb])) = Ok p /\
              parsed_of p es /\ p_kb p = Some kb /\ p_fmt p = Compact /\ p_json p = None.
  Proof.
    intros es kb Ies Tk. destruct alg_known as [_ Am]. destruct (alg_header_facts alg Am) as (_ & _ & Hs).
    destruct (sig_free alg ikey (hb ++ 46 :: plb)) as [_ St]. fold sg in St.
    rewrite jwt_eq. rewrite (parse_compact_text hb plb sg (texts_of es) kb P3).
    - eexists. split; [reflexivity|]. cbn [p_jwt p_payload p_disclosures p_sign_alg p_kb p_fmt p_json].
      split; [|repeat split]. unfold parsed_of. cbn [p_jwt p_payload p_disclosures p_sign_alg].
      rewrite jwt_eq. repeat split. exact Hs.
    - apply b64url_no_tilde. exact hb_scalar.
    - apply b64url_no_tilde. exact plb_scalar.
    - exact St.
    - apply sub_tilde_free. exact Ies.
    - exact Tk.
    - apply b64url_no_dot. exact hb_scalar.
    - apply b64url_no_dot. exact plb_scalar.
    - exact plb_decode.
  Qed.

  (* ---- the holder ---- *)
  Definition dm_full : dmap := dm_of (disclosures_of D).

  Lemma holder_new_issued :
    is_serialized i = join_with [126] (is_jwt i :: is_disclosures i) ++ [126] ->
    exists h, holder_new o (is_serialized i) Compact = Ok h /\
              h_fmt h = Compact /\ h_jwt h = is_jwt i /\ h_payload h = P3 /\ h_dmap h = dm_full /\
              h_json h = None /\ h_in_kb h = Some [].
  Proof.
    intros Hser. rewrite Hser, D_texts, <- join_with_snoc_empty.
    destruct (parse_issued_compact (disclosures_of D) [] (incl_refl _)) as (p & Ep & (Pj & Pp & Pd & Pa) & Pk & Pf & Pn);
      [intros []|].
    assert (Ec : create_hash_mappings o (p_disclosures p) [] = Ok dm_full).
    { rewrite Pd. apply sub_chm; [apply incl_refl | exact D_nodup_discs]. }
    pose proof (holder_new_compact o _ p dm_full Ep Ec) as Eh.
    eexists. split; [exact Eh|]. cbn [h_fmt h_jwt h_payload h_dmap h_json h_in_kb]. repeat split; assumption.
  Qed.

  Lemma dm_full_genuine : WalkSel.genuine dm_full D.
  Proof. apply sub_genuine. apply incl_refl. Qed.

  Lemma dm_full_covers : forall l, incl l (WalkSel.hidden_digests D) -> WalkSel.covers dm_full l.
  Proof. intros l I dg Hdg. apply dm_of_covers. apply hidden_has_disclosure. apply I. exact Hdg. Qed.

  (* the decoded disclosure / the text filed under a digest *)
  Definition disclosure_at_g (dg : str) : json :=
    match dmap_get dg dm_full with Some (x, _) => x | None => JNull end.
  Definition text_at_g (dg : str) : str := rawg (disclosure_at_g dg).
  Definition entries_at (l : list str) : list (str * json) := map (fun dg => (dg, disclosure_at_g dg)) l.

  Lemma entries_at_fst : forall l, map fst (entries_at l) = l.
  Proof. intros l. unfold entries_at. rewrite map_map. cbn [fst]. apply map_id. Qed.

  Lemma entries_at_texts : forall l, texts_of (entries_at l) = map text_at_g l.
  Proof. intros l. unfold texts_of, entries_at. rewrite map_map. reflexivity. Qed.

  Lemma entries_at_incl : forall l, incl l (WalkSel.hidden_digests D) -> incl (entries_at l) (disclosures_of D).
  Proof.
    intros l I e0 Ie. apply in_map_iff in Ie as [dg [<- Idg]].
    destruct (dm_full_covers l I dg Idg) as (x & t & G). unfold disclosure_at_g. rewrite G.
    apply dm_of_get in G as [G _]. exact G.
  Qed.

  Lemma raw_of_text_at : forall l, incl l (WalkSel.hidden_digests D) -> map (WalkSel.raw_of dm_full) l = map text_at_g l.
  Proof.
    intros l I. apply map_ext_in. intros dg Idg. destruct (dm_full_covers l I dg Idg) as (x & t & G).
    unfold WalkSel.raw_of, text_at_g, disclosure_at_g. rewrite G. apply dm_of_get in G as [_ G]. exact G.
  Qed.

  Section Selection.
    Variable sel : members.
    Hypothesis Hcons : consistent (JObj sel) (flags D) = true.
    Let desig := WalkSel.designated_d (JObj sel) D.

    Lemma desig_hidden : incl desig (WalkSel.hidden_digests D).
    Proof. apply WalkSel.designated_incl_hidden. Qed.

    Lemma desig_nodup : NoDup desig.
    Proof.
      apply (WalkSel.designated_nodup (JObj sel) D dm_full); [exact D_shape | exact D_nodup | exact dm_full_genuine | exact Hcons|].
      apply dm_full_covers. exact desig_hidden.
    Qed.

    Lemma walk_issued : walk dm_full (JObj sel) (JObj P3) = Ok (map text_at_g desig).
    Proof.
      rewrite <- D_payload. rewrite WalkSel.walk_designated; [| exact D_shape | exact dm_full_genuine | exact Hcons |].
      - fold desig. rewrite raw_of_text_at by exact desig_hidden. reflexivity.
      - apply dm_full_covers. exact desig_hidden.
    Qed.

    Lemma present_selected : forall h now',
      h_fmt h = Compact -> h_jwt h = is_jwt i -> h_payload h = P3 -> h_dmap h = dm_full ->
      snd (present o h sel no_kb now') = Ok (join_with [126] (is_jwt i :: map text_at_g desig) ++ [126]).
    Proof.
      intros h now' Hf Hj Hp Hd. rewrite <- Hj. apply present_compact_no_kb; [exact Hf|].
      rewrite Hp, Hd. exact walk_issued.
    Qed.

    Lemma verify_presented :
      exists V, verify o (join_with [126] (is_jwt i :: map text_at_g desig) ++ [126]) resolver None None Compact now = Ok V /\
                jequiv V (verified_claims (fun dg => mem_str dg desig) D).
    Proof.
      rewrite VerifierFacts.verify_is_parse_then_verify_parsed. cbn [parse_sd_jwt].
      rewrite <- join_with_snoc_empty, <- entries_at_texts.
      pose proof (entries_at_incl desig desig_hidden) as Ies.
      destruct (parse_issued_compact (entries_at desig) [] Ies) as (p & Ep & Pof & _); [intros []|].
      rewrite Ep. cbn [bind].
      destruct (verify_parsed_issued p (entries_at desig) None None Ies) as (mV & JV & EV); [| exact Pof |].
      { rewrite entries_at_fst. exact desig_nodup. }
      rewrite EV. eexists. split; [reflexivity|]. rewrite entries_at_fst in JV.
      unfold verified_claims. unfold D in JV |- *. rewrite UnpackView.view_obj in JV |- *. cbn [vmembers].
      apply jequiv_remove; [exact JV|]. apply NoDup_keys_vmem.
      pose proof D_shape as S. apply UnpackView.shape_obj in S as (S & _). exact S.
    Qed.
  End Selection.

  (* C01, Compact format, no key binding — in terms of the issued tree *)
  Lemma roundtrip_compact_core : forall sel now',
    is_serialized i = join_with [126] (is_jwt i :: is_disclosures i) ++ [126] ->
    consistent (JObj sel) (flags D) = true ->
    let desig := WalkSel.designated_d (JObj sel) D in
    exists h V,
      holder_new o (is_serialized i) Compact = Ok h /\
      snd (present o h sel no_kb now') = Ok (join_with [126] (is_jwt i :: map text_at_g desig) ++ [126]) /\
      (forall dg, In dg desig -> In (dg, disclosure_at_g dg) (disclosures_of D)) /\
      NoDup desig /\
      verify o (join_with [126] (is_jwt i :: map text_at_g desig) ++ [126]) resolver None None Compact now = Ok V /\
      jequiv V (verified_claims (fun dg => mem_str dg desig) D).
  Proof.
    intros sel now' Hser Hcons desig.
    destruct (holder_new_issued Hser) as (h & Eh & Hf & Hj & Hp & Hd & _).
    destruct (verify_presented sel Hcons) as (V & EV & JV).
    exists h, V. split; [exact Eh|]. split; [apply present_selected; assumption|].
    split.
    { intros dg Idg. apply (entries_at_incl desig (desig_hidden sel)).
      apply in_map_iff. exists dg. split; [reflexivity | exact Idg]. }
    split; [apply desig_nodup; exact Hcons|]. split; assumption.
  Qed.

  (* ---- the same for the JSON serialisation ---- *)
  Lemma parse_issued_json : forall es,
    exists p, parse_json_form (print (sdjwt_json hb plb sg (texts_of es) JNull)) = Ok p /\
              parsed_of p es /\ p_kb p = None /\ p_fmt p = JSONFmt /\ p_json p = Some (hb, plb, sg).
  Proof.
    intros es. destruct alg_known as [_ Am]. destruct (alg_header_facts alg Am) as (_ & _ & Hs).
    rewrite (parse_json_form_text hb plb sg (texts_of es) JNull None P3).
    - eexists. split; [reflexivity|]. cbn [p_kb p_fmt p_json]. split; [|repeat split].
      unfold parsed_of. cbn [p_jwt p_payload p_disclosures p_sign_alg]. rewrite jwt_eq. repeat split. exact Hs.
    - left. split; reflexivity.
    - apply b64url_no_dot. exact hb_scalar.
    - apply b64url_no_dot. exact plb_scalar.
    - exact plb_decode.
  Qed.

  Lemma serialized_json :
    serialize_issued JSONFmt (is_jwt i) (is_disclosures i) = Ok (is_serialized i) ->
    is_serialized i = print (sdjwt_json hb plb sg (is_disclosures i) JNull).
  Proof.
    intros E. rewrite jwt_eq in E. unfold serialize_issued, jwt3 in E.
    rewrite split_dot_jwt in E by (apply b64url_no_dot; first [exact hb_scalar | exact plb_scalar]).
    destruct (sig_free alg ikey (hb ++ 46 :: plb)) as [Sd _]. fold sg in Sd.
    unfold split_on in E. rewrite split_on_aux_free_all in E by exact Sd. cbn [rev app] in E.
    injection E as E. symmetry. exact E.
  Qed.

  Lemma holder_new_issued_json :
    serialize_issued JSONFmt (is_jwt i) (is_disclosures i) = Ok (is_serialized i) ->
    exists h, holder_new o (is_serialized i) JSONFmt = Ok h /\
              h_fmt h = JSONFmt /\ h_jwt h = is_jwt i /\ h_payload h = P3 /\ h_dmap h = dm_full /\
              h_json h = Some (hb, plb, sg) /\ h_in_kb h = None.
  Proof.
    intros Hser. rewrite (serialized_json Hser), D_texts.
    destruct (parse_issued_json (disclosures_of D)) as (p & Ep & (Pj & Pp & Pd & Pa) & Pk & Pf & Pn).
    assert (Ec : create_hash_mappings o (p_disclosures p) [] = Ok dm_full).
    { rewrite Pd. apply sub_chm; [apply incl_refl | exact D_nodup_discs]. }
    pose proof (holder_new_json o _ p dm_full Ep Ec) as Eh.
    eexists. split; [exact Eh|]. cbn [h_fmt h_jwt h_payload h_dmap h_json h_in_kb]. repeat split; assumption.
  Qed.

  Lemma roundtrip_json_core : forall sel now',
    serialize_issued JSONFmt (is_jwt i) (is_disclosures i) = Ok (is_serialized i) ->
    consistent (JObj sel) (flags D) = true ->
    let desig := WalkSel.designated_d (JObj sel) D in
    let pres := print (sdjwt_json hb plb sg (map text_at_g desig) JNull) in
    exists h V,
      holder_new o (is_serialized i) JSONFmt = Ok h /\
      snd (present o h sel no_kb now') = Ok pres /\
      (forall dg, In dg desig -> In (dg, disclosure_at_g dg) (disclosures_of D)) /\
      NoDup desig /\
      verify o pres resolver None None JSONFmt now = Ok V /\
      jequiv V (verified_claims (fun dg => mem_str dg desig) D).
  Proof.
    intros sel now' Hser Hcons desig pres.
    destruct (holder_new_issued_json Hser) as (h & Eh & Hf & Hj & Hp & Hd & Hjs & Hk).
    pose proof (desig_hidden sel) as Ihid. fold desig in Ihid.
    pose proof (entries_at_incl desig Ihid) as Ies.
    exists h.
    destruct (parse_issued_json (entries_at desig)) as (p & Ep & Pof & _).
    destruct (verify_parsed_issued p (entries_at desig) None None Ies) as (mV & JV & EV); [| exact Pof |].
    { rewrite entries_at_fst. apply desig_nodup. exact Hcons. }
    exists (JObj (obj_remove DIGEST_ALG_KEY mV)).
    split; [exact Eh|]. split.
    { apply present_json_no_kb; try assumption. rewrite Hp, Hd. apply walk_issued. exact Hcons. }
    split.
    { intros dg Idg. apply Ies. apply in_map_iff. exists dg. split; [reflexivity | exact Idg]. }
    split; [apply desig_nodup; exact Hcons|]. split.
    - rewrite VerifierFacts.verify_is_parse_then_verify_parsed. cbn [parse_sd_jwt]. unfold pres.
      rewrite <- entries_at_texts, Ep. cbn [bind]. exact EV.
    - rewrite entries_at_fst in JV. unfold verified_claims. unfold D in JV |- *.
      rewrite UnpackView.view_obj in JV |- *. cbn [vmembers].
      apply jequiv_remove; [exact JV|]. apply NoDup_keys_vmem.
      pose proof D_shape as S. apply UnpackView.shape_obj in S as (S & _). exact S.
  Qed.

End Issued.
End Gen.

(* Section Gen at [false] covers the normal build: RoundTrip's issued_tree gives issued_tree_g false *)
Lemma issued_tree_g_false : forall o m hj r i ms sdl,
  RoundTrip.issued_tree o m hj r i ms sdl ->
  (forall x, In x (r_salts r) -> DisclosureCodec.plain_salt x = true) ->
  issued_tree_g false o m hj i ms sdl.
Proof.
  intros o m hj r i ms sdl (A1 & A2 & A3 & A4 & A5 & A6 & A7 & A8 & A9 & A10 & A11) Ps.
  unfold issued_tree_g. cbv zeta.
  split; [exact A1|]. split; [exact A2|]. split; [exact A3|]. split; [exact A4|]. split; [exact A5|].
  split; [exact A6|]. split; [exact A7|]. split; [exact A8|]. split; [exact A9|].
  split; [|exact A11]. intros e Ie. apply Ps. apply A10. exact Ie.
Qed.

(* ================================================================== *)
(*  C. C16: the round trip in the deterministic-salt build             *)
(* ================================================================== *)

(* The randomness of a mock run (the analogue of RoundTrip.rng_ok): the SALTS
   queue q holds pairwise distinct salts, each 22 ASCII characters that need no
   JSON escaping; the random stream is used for decoy pre-images only, so it is
   constrained only when decoys are on: pairwise distinct 22-character ASCII
   strings, none of them in the queue. *)
Definition rng_ok_mock (decoy : bool) (r : rng) (q : list str) : Prop :=
  r_queue r = Some q /\ NoDup q /\
  (forall x, In x q -> IssuerBuild.salt_ok x /\ DisclosureCodec.plain_salt x = true) /\
  (decoy = true -> NoDup (r_salts r) /\ forall x, In x (r_salts r) -> IssuerBuild.salt_ok x /\ ~ In x q).

Lemma rng_ok_mock_salts : forall decoy r q, rng_ok_mock decoy r q -> mock_salts_ok decoy q (r_salts r).
Proof.
  intros decoy r q (_ & N & OK & Dec). split; [exact N|]. split; [intros x Ix; apply (OK x Ix) | exact Dec].
Qed.

Definition consumed (q : list str) (d : dtree) (r' : rng) : Prop :=
  exists q', q = map (fun e => IssuerBuild.disc_salt (snd e)) (disclosures_of d) ++ q' /\ r_queue r' = Some q'.

Lemma issue_tree_mock : forall o alg ikey m s hj decoy fmt r i r' q,
  (forall a b, H o a = H o b -> a = b) ->
  issue o alg ikey (JObj m) s hj decoy fmt r = Ok (i, r') ->
  rng_ok_mock decoy r q -> wf_json (JObj m) = true -> ~ In DIGEST_ALG_KEY (keys m) ->
  (hj <> None -> ~ In CNF_KEY (keys m)) ->
  exists s' ms sdl,
    finalize_input s = Ok s' /\ flags (DObj ms sdl) = marks s' (JObj (rest_of m)) /\
    issued_tree_g true o m hj i ms sdl /\ consumed q (DObj ms sdl) r'.
Proof.
  intros o alg ikey m s hj decoy fmt r i r' q Hinj E Hr W NA NC.
  pose proof (rng_ok_mock_salts _ _ _ Hr) as MS. destruct Hr as (Q & NDq & OKq & Dec).
  destruct (issue_builds_seg_mock _ _ _ _ _ _ _ _ _ _ _ _ E Q W NA NC)
    as (s' & ms & sdl & dp & st' & Fs & R & Fd & Cd & Sd & Dd & Gd & -> & Ep & Ed).
  exists s', ms, sdl. split; [exact Fs|]. split; [exact Fd|].
  pose proof (segm_nodup o Hinj _ _ _ _ _ _ _ Gd Q MS) as Nall.
  destruct Gd as (Di & (q' & Qa & Qb) & Fok & (used & U & Pu) & A & Nd). cbn [i_rng i_disclosures app] in Di, U, Qa.
  rewrite Q in Qa. injection Qa as Eq.
  split; [|exists q'; split; assumption].
  unfold issued_tree_g. cbv zeta.
  split; [exact R|]. split; [exact Cd|]. split; [exact Sd|]. split; [exact Dd|]. split; [exact Ep|].
  split. { rewrite Ed, Di, map_map. reflexivity. }
  split; [exact Nall|].
  split. { eapply WalkSel.NoDup_app_l. eapply Permutation_NoDup; [exact A | exact Nall]. }
  rewrite Forall_forall in Fok.
  split. { intros e Ie. apply (Fok e Ie). }
  split.
  { intros e Ie. apply OKq. rewrite Eq. apply in_or_app. left. apply in_map_iff. exists e. split; [reflexivity | exact Ie]. }
  intros dg Idg. pose proof (Permutation_in _ A Idg) as I2. apply in_app_or in I2 as [I2|I2].
  - apply in_map_iff in I2 as [e [<- Ie]]. destruct (Fok e Ie) as [Fdg (rest & Fr)].
    exists (raw_of_disc_mock (snd e)). split; [|exact Fdg]. rewrite Fr. apply b64_encode_ascii.
  - apply in_map_iff in I2 as [x [<- Ix]]. exists x. split; [|reflexivity].
    destruct decoy.
    + destruct (Dec eq_refl) as [_ OKs]. apply (OKs x). rewrite U. apply in_or_app. left.
      eapply Permutation_in; [apply Permutation_sym; exact Pu | exact Ix].
    + rewrite (Nd eq_refl) in Ix. destruct Ix.
Qed.

(* the digest tree of a credential issued in the mock build (RoundTrip.tree_of with the
   spaced texts, plus: the salts are the consumed queue prefix, in creation order) *)
Definition tree_of_mock (o : oracles) (s : strategy) (m : members) (hj : option json) (q : list str)
           (i : issued) (r' : rng) (ms : list (str * (option (str * str) * dtree))) (sdl : list str) : Prop :=
  let D := DObj (ms ++ map embed_member (top_members m hj)) sdl in
  (exists s', finalize_input s = Ok s' /\ flags (DObj ms sdl) = marks s' (JObj (rest_of m))) /\
  claims_of (DObj ms sdl) = JObj (rest_of m) /\
  is_payload i = payload_of D /\ shape_ok D /\ digests_ok_mock o D /\ NoDup (all_digests D) /\
  is_disclosures i = map (fun e => raw_of_disc_mock (snd e)) (disclosures_of D) /\
  claims_of D = JObj (rest_of m ++ top_members m hj) /\
  has_reserved (claims_of D) = false /\
  consumed q D r'.

Lemma tree_of_mock_intro : forall o s s' m hj q i r' ms sdl,
  finalize_input s = Ok s' -> flags (DObj ms sdl) = marks s' (JObj (rest_of m)) ->
  issued_tree_g true o m hj i ms sdl -> consumed q (DObj ms sdl) r' ->
  wf_json (JObj m) = true -> ~ In DIGEST_ALG_KEY (keys m) -> holder_jwk_ok m hj ->
  tree_of_mock o s m hj q i r' ms sdl.
Proof.
  intros o s s' m hj q i r' ms sdl Fs Fl IT Cq W NA HJ. unfold tree_of_mock. cbv zeta.
  split; [exists s'; split; assumption|].
  split; [apply IT|].
  split; [apply (D_is_payload true o m hj i ms sdl IT)|].
  split; [apply (D_shape true o m hj i ms sdl IT W NA HJ)|].
  split; [apply (D_digests_ok true o m hj i ms sdl IT)|].
  split; [apply (D_nodup true o m hj i ms sdl IT)|].
  split; [apply (D_texts true o m hj i ms sdl IT)|].
  split; [apply (D_claims true o m hj i ms sdl IT)|].
  split.
  - rewrite (D_claims true o m hj i ms sdl IT). apply claims_no_reserved; [exact W | apply IT | exact HJ].
  - unfold consumed in *. rewrite IssuerBuild.top_disclosures. exact Cq.
Qed.

(* C16, Compact serialisation: the premises of RoundTrip.C01_roundtrip_compact with rng_ok
   replaced by rng_ok_mock. *)
Theorem C16_roundtrip_mock : forall o alg ikey m s decoy r q i r' resolver now issv,
  oracle_ok o -> rng_ok_mock decoy r q -> claims_ok m -> jwt_claims_ok m now issv ->
  resolver issv (alg_header alg) = ikey ->
  issue o alg ikey (JObj m) s None decoy Compact r = Ok (i, r') ->
  exists ms sdl,
    tree_of_mock o s m None q i r' ms sdl /\
    let D := DObj (ms ++ map embed_member (top_members m None)) sdl in
    forall sel now', consistent (JObj sel) (flags D) = true ->
      let desig := WalkSel.designated_d (JObj sel) D in
      let pres := join_with [126] (is_jwt i :: map (text_at_g true m None ms sdl) desig) ++ [126] in
      exists h V,
        holder_new o (is_serialized i) Compact = Ok h /\
        snd (present o h sel no_kb now') = Ok pres /\
        (forall dg, In dg desig -> In (dg, disclosure_at_g true m None ms sdl dg) (disclosures_of D)) /\
        NoDup desig /\
        verify o pres resolver None None Compact now = Ok V /\
        jequiv V (verified_claims (fun dg => mem_str dg desig) D).
Proof.
  intros o alg ikey m s decoy r q i r' resolver now issv
    (Hinj & Hscal & Hsig & Hfree) Hr (W & Vm & NA) (Hiss & (e & Hexp & He) & Haud & Hsub & Hnbf) Hres E.
  assert (HJ : holder_jwk_ok m None) by (intros jwk C; discriminate C).
  destruct (issue_tree_mock o alg ikey m s None decoy Compact r i r' q Hinj E Hr W NA)
    as (s' & ms & sdl & Fs & Fl & IT & Cq); [intros C; exfalso; apply C; reflexivity|].
  destruct (issue_jwt_form _ _ _ _ _ _ _ _ _ _ _ E) as (Hjwt & Hser). cbn [serialize_issued] in Hser.
  injection Hser as Hser'. symmetry in Hser'.
  exists ms, sdl. split.
  - eapply tree_of_mock_intro; eassumption.
  - cbv zeta. intros sel now' Hcons.
    apply (roundtrip_compact_core true o m None i ms sdl IT W NA HJ Vm Hscal alg ikey Hjwt Hsig Hfree
             resolver now issv e Hiss Hres Hexp He Haud Hsub Hnbf sel now' Hser' Hcons).
Qed.
Print Assumptions C16_roundtrip_mock.

(* the same for the JSON serialisation *)
Theorem C16_roundtrip_mock_json : forall o alg ikey m s decoy r q i r' resolver now issv,
  oracle_ok o -> rng_ok_mock decoy r q -> claims_ok m -> jwt_claims_ok m now issv ->
  resolver issv (alg_header alg) = ikey ->
  issue o alg ikey (JObj m) s None decoy JSONFmt r = Ok (i, r') ->
  exists ms sdl,
    tree_of_mock o s m None q i r' ms sdl /\
    let D := DObj (ms ++ map embed_member (top_members m None)) sdl in
    let pr := seg_header alg in let pl := seg_payload i in let sg := seg_sig o alg ikey i in
    is_jwt i = jwt3 pr pl sg /\
    is_serialized i = print (sdjwt_json pr pl sg (is_disclosures i) JNull) /\
    forall sel now', consistent (JObj sel) (flags D) = true ->
      let desig := WalkSel.designated_d (JObj sel) D in
      let pres := print (sdjwt_json pr pl sg (map (text_at_g true m None ms sdl) desig) JNull) in
      exists h V,
        holder_new o (is_serialized i) JSONFmt = Ok h /\
        snd (present o h sel no_kb now') = Ok pres /\
        (forall dg, In dg desig -> In (dg, disclosure_at_g true m None ms sdl dg) (disclosures_of D)) /\
        NoDup desig /\
        verify o pres resolver None None JSONFmt now = Ok V /\
        jequiv V (verified_claims (fun dg => mem_str dg desig) D).
Proof.
  intros o alg ikey m s decoy r q i r' resolver now issv
    (Hinj & Hscal & Hsig & Hfree) Hr (W & Vm & NA) (Hiss & (e & Hexp & He) & Haud & Hsub & Hnbf) Hres E.
  assert (HJ : holder_jwk_ok m None) by (intros jwk C; discriminate C).
  destruct (issue_tree_mock o alg ikey m s None decoy JSONFmt r i r' q Hinj E Hr W NA)
    as (s' & ms & sdl & Fs & Fl & IT & Cq); [intros C; exfalso; apply C; reflexivity|].
  destruct (issue_jwt_form _ _ _ _ _ _ _ _ _ _ _ E) as (Hjwt & Hser).
  assert (Ep : is_payload i = JObj ((sd_member sdl ++ IssuerBuild.obj_vis ms) ++ top_members m None)) by apply IT.
  exists ms, sdl. split.
  - eapply tree_of_mock_intro; eassumption.
  - cbv zeta. unfold seg_sig, seg_payload, seg_header. rewrite Ep.
    split; [apply (jwt_eq true o m None i ms sdl IT alg ikey Hjwt)|].
    split.
    { eapply serialized_json; eassumption. }
    intros sel now' Hcons.
    apply (roundtrip_json_core true o m None i ms sdl IT W NA HJ Vm Hscal alg ikey Hjwt Hsig Hfree
             resolver now issv e Hiss Hres Hexp He Haud Hsub Hnbf sel now' Hser Hcons).
Qed.
Print Assumptions C16_roundtrip_mock_json.

(* C16, last clause: a selection that designates every hidden node gives the user's
   claims back, up to member order (the analogue of RoundTrip.C01_select_all) *)
Corollary C16_values_recovered : forall o alg ikey m s decoy r q i r' resolver now issv,
  oracle_ok o -> rng_ok_mock decoy r q -> claims_ok m -> jwt_claims_ok m now issv ->
  resolver issv (alg_header alg) = ikey ->
  issue o alg ikey (JObj m) s None decoy Compact r = Ok (i, r') ->
  exists ms sdl,
    tree_of_mock o s m None q i r' ms sdl /\
    let D := DObj (ms ++ map embed_member (top_members m None)) sdl in
    forall sel now', consistent (JObj sel) (flags D) = true ->
      incl (WalkSel.hidden_digests D) (WalkSel.designated_d (JObj sel) D) ->
      exists h pres V,
        holder_new o (is_serialized i) Compact = Ok h /\
        snd (present o h sel no_kb now') = Ok pres /\
        verify o pres resolver None None Compact now = Ok V /\
        jequiv V (JObj (rest_of m ++ always_of m)) /\ jequiv V (JObj m).
Proof.
  intros o alg ikey m s decoy r q i r' resolver now issv Ho Hr Hm Hj Hres E.
  destruct (C16_roundtrip_mock o alg ikey m s decoy r q i r' resolver now issv Ho Hr Hm Hj Hres E)
    as (ms & sdl & T & RT).
  exists ms, sdl. split; [exact T|]. cbv zeta in RT |- *. intros sel now' Hc Hall.
  destruct (RT sel now' Hc) as (h & V & A1 & A2 & _ & _ & A3 & A4).
  exists h. eexists. exists V. split; [exact A1|]. split; [exact A2|]. split; [exact A3|].
  destruct T as (_ & Cd & _ & _ & _ & _ & _ & Ec & _). destruct Hm as (W & _ & NA).
  rewrite verified_all in A4 by (intros dg I; apply mem_str_In; apply Hall; exact I).
  rewrite Ec in A4. cbn [vmembers] in A4. unfold IssuerBuild.top_members in A4. cbn [app] in A4.
  rewrite obj_remove_mid in A4.
  2:{ intros C. apply IssuerBuild.In_keys_rest in C as [C _]. contradiction. }
  cbn [IssuerBuild.cnf_members] in A4. rewrite app_nil_r in A4. split; [exact A4|].
  eapply UnpackView.jequiv_trans; [exact A4|]. apply jequiv_perm. apply Permutation_sym. apply rest_always_perm.
  cbn [wf_json] in W. apply andb_true_iff in W as [W1 _]. apply keys_nodup_NoDup. exact W1.
Qed.
Print Assumptions C16_values_recovered.

(* ---- at the level of the specifications (Spec/View.v), as SpecLevel.C01_spec_level ---- *)
Theorem C16_spec_level_mock : forall o alg ikey m s decoy r q i r' resolver now issv,
  oracle_ok o -> rng_ok_mock decoy r q -> claims_ok m -> jwt_claims_ok m now issv ->
  PathFacts.names_nobracket (JObj m) = true ->
  resolver issv (alg_header alg) = ikey ->
  issue o alg ikey (JObj m) s None decoy Compact r = Ok (i, r') ->
  let t := annotate_spec s (JObj m) in
  forall sel now', consistent (JObj sel) t = true ->
    let expected := view_of t (designated (JObj sel) t []) in
    exists h pres V,
      holder_new o (is_serialized i) Compact = Ok h /\
      snd (present o h sel no_kb now') = Ok pres /\
      verify o pres resolver None None Compact now = Ok V /\
      jequiv V expected.
Proof.
  intros o alg ikey m s decoy r q i r' resolver now issv Ho Hr Hm Hj Nb Hres E t sel now' Hc expected.
  assert (HJ : holder_jwk_ok m None) by (intros jwk C; discriminate C).
  destruct Ho as (Hinj & Hscal & Hsig & Hfree). destruct Hm as (W & Vm & NA).
  destruct Hj as (Hiss & (e & Hexp & He) & Haud & Hsub & Hnbf).
  destruct (issue_tree_mock o alg ikey m s None decoy Compact r i r' q Hinj E Hr W NA)
    as (s' & ms & sdl & Fs & Fl & IT & Cq); [intros C; exfalso; apply C; reflexivity|].
  destruct (issue_jwt_form _ _ _ _ _ _ _ _ _ _ _ E) as (Hjwt & Hser). cbn [serialize_issued] in Hser.
  injection Hser as Hser'. symmetry in Hser'.
  pose proof (D_shape true o m None i ms sdl IT W NA HJ) as ShD.
  assert (Nm : NoDup (keys m)).
  { cbn [wf_json] in W. apply andb_true_iff in W as [W1 _]. apply keys_nodup_NoDup. exact W1. }
  assert (Nh : NoDup (WalkSel.hidden_digests (DObj (ms ++ map embed_member (top_members m None)) sdl))).
  { eapply Permutation_NoDup; [apply SpecLevel.disclosures_hidden_perm|].
    apply (D_nodup_discs true o m None i ms sdl IT). }
  destruct (SpecLevel.designated_top s s' m None ms sdl Fs Fl Nm Nb ShD sel Hc) as [HcD _].
  destruct (roundtrip_compact_core true o m None i ms sdl IT W NA HJ Vm Hscal alg ikey Hjwt Hsig Hfree
              resolver now issv e Hiss Hres Hexp He Haud Hsub Hnbf sel now' Hser' HcD)
    as (h & V & A1 & A2 & _ & _ & A3 & A4).
  exists h. eexists. exists V. split; [exact A1|]. split; [exact A2|]. split; [exact A3|].
  eapply UnpackView.jequiv_trans; [exact A4|].
  pose proof (SpecLevel.verified_designated s s' m None ms sdl Fs Fl Nm Nb NA ShD sel Nh Hc) as J.
  cbn [IssuerBuild.cnf_members] in J. rewrite app_nil_r in J. unfold view_of in J.
  rewrite SpecLevel.view_annot_obj in J. exact J.
Qed.
Print Assumptions C16_spec_level_mock.

(* the explicit selection that selects everything returns the user's claims *)
Corollary C16_values_recovered_spec : forall o alg ikey m s decoy r q i r' resolver now issv,
  oracle_ok o -> rng_ok_mock decoy r q -> claims_ok m -> jwt_claims_ok m now issv ->
  PathFacts.names_nobracket (JObj m) = true ->
  resolver issv (alg_header alg) = ikey ->
  issue o alg ikey (JObj m) s None decoy Compact r = Ok (i, r') ->
  forall now', exists h pres V,
    holder_new o (is_serialized i) Compact = Ok h /\
    snd (present o h (SpecLevel.sel_mems m) no_kb now') = Ok pres /\
    verify o pres resolver None None Compact now = Ok V /\
    jequiv V (JObj m).
Proof.
  intros o alg ikey m s decoy r q i r' resolver now issv Ho Hr Hm Hj Nb Hres E now'.
  destruct (SpecLevel.select_all_expected s m (proj1 Hm)) as (A & B & C).
  destruct (C16_spec_level_mock o alg ikey m s decoy r q i r' resolver now issv Ho Hr Hm Hj Nb Hres E
              (SpecLevel.sel_mems m) now' B) as (h & pres & V & X1 & X2 & X3 & X4).
  exists h, pres, V. rewrite C in X4. repeat split; assumption.
Qed.
Print Assumptions C16_values_recovered_spec.

(* ------------------------------------------------------------------ *)
(* Non-vacuity: a queue of 5 salts, claims whose strings (and one member name)
   contain comma, colon, bracket, double quote and backslash, AllLevels, decoys
   off, a toy oracle with H = identity (injective) and the constant signature
   "x".  Every premise is checked, the theorems are applied, and the run is
   confirmed by vm_compute: the verifier returns the original claims.     *)
Module ExampleMock.
  Definition toy : oracles := RoundTrip.Example.toy.
  Definition toy_ok : oracle_ok toy := RoundTrip.Example.toy_ok.

  Definition mk_salt (n : N) : str := lit "saltsaltsaltsaltsalt0" ++ [48 + n].
  Definition ex_q : list str := map mk_salt [0; 1; 2; 3; 4].
  (* the random stream is empty: with decoys off it is never read *)
  Definition ex_r : rng := {| r_queue := Some ex_q; r_salts := []; r_counts := [] |}.

  Lemma ex_r_ok : rng_ok_mock false ex_r ex_q.
  Proof.
    split; [reflexivity|]. split; [|split].
    - apply IssuerBuild.Examples.nodupb_NoDup. vm_compute. reflexivity.
    - intros x Ix. cbn in Ix.
      repeat (destruct Ix as [<-|Ix]; [split; [split; [reflexivity | repeat constructor] | reflexivity]|]).
      destruct Ix.
    - intros C. discriminate C.
  Qed.

  Definition s_note : str := lit "a,b: [c] ""q"" \ end".
  Definition s_city : str := lit "X,Y: [Z]".
  Definition s_tag : str := lit "p:""q"",\[".
  Definition n_odd : str := lit "we,ird: [""k\".

  Definition ex_m : members :=
    [(lit "iss", JStr (lit "https://issuer"));
     (lit "note", JStr s_note);
     (lit "exp", JNum (lit "100"));
     (lit "addr", JObj [(n_odd, JStr s_city)]);
     (lit "tags", JArr [JStr s_tag])].

  Lemma ex_m_ok : claims_ok ex_m.
  Proof.
    split; [reflexivity|]. split; [reflexivity|].
    apply mem_str_not_In. reflexivity.
  Qed.

  Lemma ex_m_jwt : jwt_claims_ok ex_m 120 (lit "https://issuer").
  Proof.
    split; [reflexivity|]. split; [exists 100; split; [reflexivity | vm_compute; discriminate]|].
    split; [reflexivity|]. split; [left; reflexivity|].
    exists NotPresent. split; [reflexivity | intros n C; discriminate C].
  Qed.

  Lemma ex_m_names : PathFacts.names_nobracket (JObj ex_m) = true.
  Proof. reflexivity. Qed.

  Definition ex_key : key := {| kid := 1; kfam := FHmac |}.
  Definition ex_alg : str := lit "HS256".
  Definition ex_resolver : str -> json -> key := fun _ _ => ex_key.
  Definition ex_run := issue toy ex_alg ex_key (JObj ex_m) AllLevels None false Compact ex_r.
  Definition ex_dummy : issued :=
    {| is_header := JNull; is_payload := JNull; is_disclosures := []; is_jwt := []; is_serialized := [] |}.
  Definition ex_i : issued := match ex_run with Ok (i, _) => i | _ => ex_dummy end.
  Definition ex_r' : rng := match ex_run with Ok (_, r') => r' | _ => ex_r end.

  Lemma ex_issue : issue toy ex_alg ex_key (JObj ex_m) AllLevels None false Compact ex_r = Ok (ex_i, ex_r').
  Proof. vm_compute. reflexivity. Qed.

  (* the whole queue is consumed: five disclosures (note, addr.<n_odd>, addr, tags[0], tags),
     and their texts are the spaced ones: the first is literally
        ["saltsaltsaltsaltsalt00", "note", "a,b: [c] \"q\" \\ end"]
     (nothing is inserted inside a string), the third has a space after the colon of "_sd" *)
  Example ex_issued_shape :
    r_queue ex_r' = Some [] /\ List.length (is_disclosures ex_i) = 5%nat /\
    option_map base64url_decode_text (nth_error (is_disclosures ex_i) 0) =
      Some (Some (lit "[""saltsaltsaltsaltsalt00"", ""note"", ""a,b: [c] \""q\"" \\ end""]")) /\
    value_text true (JObj [(SD_DIGESTS_KEY, JArr [JStr (lit "d1"); JStr (lit "d2")])]) = lit "{""_sd"": [""d1"", ""d2""]}" /\
    value_text false (JObj [(SD_DIGESTS_KEY, JArr [JStr (lit "d1"); JStr (lit "d2")])]) = lit "{""_sd"":[""d1"",""d2""]}" /\
    is_disclosures ex_i <>
      match issue toy ex_alg ex_key (JObj ex_m) AllLevels None false Compact
                  {| r_queue := None; r_salts := ex_q; r_counts := [] |} with
      | Ok (i, _) => is_disclosures i | _ => [] end.
  Proof. vm_compute. repeat split; try reflexivity. intros C. discriminate C. Qed.

  (* issue_builds_mock applies *)
  Lemma ex_issue_builds :
    exists s' ms sdl,
      finalize_input AllLevels = Ok s' /\
      flags (DObj ms sdl) = marks s' (JObj (rest_of ex_m)) /\
      claims_of (DObj ms sdl) = JObj (rest_of ex_m) /\
      let D := DObj (ms ++ map embed_member (top_members ex_m None)) sdl in
      is_payload ex_i = payload_of D /\ shape_ok D /\ digests_ok_mock toy D /\
      is_disclosures ex_i = map (fun e => raw_of_disc_mock (snd e)) (disclosures_of D) /\
      claims_of D = JObj (rest_of ex_m ++ top_members ex_m None) /\
      disclosures_of D = disclosures_of (DObj ms sdl) /\
      all_digests D = all_digests (DObj ms sdl) /\
      exists q', ex_q = map (fun e => disc_salt (snd e)) (disclosures_of D) ++ q' /\ r_queue ex_r' = Some q'.
  Proof.
    apply (issue_builds_mock toy ex_alg ex_key ex_m AllLevels None false Compact ex_r ex_i ex_r' ex_q ex_issue eq_refl).
    - reflexivity.
    - apply mem_str_not_In. reflexivity.
    - intros jwk C. discriminate C.
  Qed.

  (* the round-trip theorem applies: its premises hold *)
  Lemma ex_theorem :
    exists ms sdl,
      tree_of_mock toy AllLevels ex_m None ex_q ex_i ex_r' ms sdl /\
      let D := DObj (ms ++ map embed_member (top_members ex_m None)) sdl in
      forall sel now', consistent (JObj sel) (flags D) = true ->
        let desig := WalkSel.designated_d (JObj sel) D in
        let pres := join_with [126] (is_jwt ex_i :: map (text_at_g true ex_m None ms sdl) desig) ++ [126] in
        exists h V,
          holder_new toy (is_serialized ex_i) Compact = Ok h /\
          snd (present toy h sel no_kb now') = Ok pres /\
          (forall dg, In dg desig -> In (dg, disclosure_at_g true ex_m None ms sdl dg) (disclosures_of D)) /\
          NoDup desig /\
          verify toy pres ex_resolver None None Compact 120 = Ok V /\
          jequiv V (verified_claims (fun dg => mem_str dg desig) D).
  Proof.
    exact (C16_roundtrip_mock toy ex_alg ex_key ex_m AllLevels false ex_r ex_q ex_i ex_r' ex_resolver 120
             (lit "https://issuer") toy_ok ex_r_ok ex_m_ok ex_m_jwt eq_refl ex_issue).
  Qed.

  (* ... and so does the corollary with the explicit select-everything selection *)
  Lemma ex_values_recovered : forall now', exists h pres V,
    holder_new toy (is_serialized ex_i) Compact = Ok h /\
    snd (present toy h (SpecLevel.sel_mems ex_m) no_kb now') = Ok pres /\
    verify toy pres ex_resolver None None Compact 120 = Ok V /\
    jequiv V (JObj ex_m).
  Proof.
    exact (C16_values_recovered_spec toy ex_alg ex_key ex_m AllLevels false ex_r ex_q ex_i ex_r' ex_resolver 120
             (lit "https://issuer") toy_ok ex_r_ok ex_m_ok ex_m_jwt ex_m_names eq_refl ex_issue).
  Qed.

  (* the concrete run: holder accepts, presents everything, the verifier returns the
     original claims — every string exactly as issued *)
  Definition ex_holder : holder :=
    match holder_new toy (is_serialized ex_i) Compact with Ok h => h | _ => RoundTrip.Example.ex_holder end.
  Definition ex_sel_all : members := SpecLevel.sel_mems ex_m.
  Definition ex_pres : str := match snd (present toy ex_holder ex_sel_all no_kb 5) with Ok t => t | _ => [] end.
  Definition ex_V : json := match verify toy ex_pres ex_resolver None None Compact 120 with Ok V => V | _ => JNull end.

  Example ex_run_confirmed :
    is_ok (holder_new toy (is_serialized ex_i) Compact) = true /\
    is_ok (snd (present toy ex_holder ex_sel_all no_kb 5)) = true /\
    List.length (split_on 126 ex_pres) = 7%nat /\       (* jwt; five disclosures; empty kb *)
    is_ok (verify toy ex_pres ex_resolver None None Compact 120) = true /\
    json_equivb ex_V (JObj ex_m) = true /\
    obj_get (lit "note") (vmembers ex_V) = Some (JStr s_note) /\
    obj_get (lit "addr") (vmembers ex_V) = Some (JObj [(n_odd, JStr s_city)]) /\
    obj_get (lit "tags") (vmembers ex_V) = Some (JArr [JStr s_tag]).
  Proof. vm_compute. repeat split; reflexivity. Qed.

  (* a partial selection (only the note): the other hidden members stay hidden *)
  Definition ex_pres_note : str :=
    match snd (present toy ex_holder [(lit "note", JBool true)] no_kb 5) with Ok t => t | _ => [] end.
  Example ex_partial :
    verify toy ex_pres_note ex_resolver None None Compact 120 =
      Ok (JObj [(lit "iss", JStr (lit "https://issuer")); (lit "exp", JNum (lit "100")); (lit "note", JStr s_note)]).
  Proof. vm_compute. reflexivity. Qed.

  (* sharpness: a queue that is too short panics at the documented site *)
  Example ex_queue_too_short :
    issue toy ex_alg ex_key (JObj ex_m) AllLevels None false Compact
      {| r_queue := Some (map mk_salt [0; 1; 2; 3]); r_salts := []; r_counts := [] |}
    = Panic "utils.rs: SALTS is empty".
  Proof. vm_compute. reflexivity. Qed.

  (* decoys on: the stream is read for the decoy pre-images; rng_ok_mock true asks that it be
     disjoint from the queue, and the round trip still returns the claims *)
  Definition exd_r : rng :=
    {| r_queue := Some ex_q; r_salts := map mk_salt [5; 6; 7; 8; 9]; r_counts := [1%nat; 2%nat] |}.
  Lemma exd_r_ok : rng_ok_mock true exd_r ex_q.
  Proof.
    split; [reflexivity|]. split; [|split].
    - apply IssuerBuild.Examples.nodupb_NoDup. vm_compute. reflexivity.
    - intros x Ix. cbn in Ix.
      repeat (destruct Ix as [<-|Ix]; [split; [split; [reflexivity | repeat constructor] | reflexivity]|]).
      destruct Ix.
    - intros _. split; [apply IssuerBuild.Examples.nodupb_NoDup; vm_compute; reflexivity|].
      intros x Ix. cbn in Ix.
      repeat (destruct Ix as [<-|Ix];
              [split; [split; [reflexivity | repeat constructor] | apply mem_str_not_In; vm_compute; reflexivity]|]).
      destruct Ix.
  Qed.
  Definition exd_run := issue toy ex_alg ex_key (JObj ex_m) AllLevels None true Compact exd_r.
  Definition exd_i : issued := match exd_run with Ok (i, _) => i | _ => ex_dummy end.
  Definition exd_r' : rng := match exd_run with Ok (_, r') => r' | _ => exd_r end.
  Lemma exd_issue : issue toy ex_alg ex_key (JObj ex_m) AllLevels None true Compact exd_r = Ok (exd_i, exd_r').
  Proof. vm_compute. reflexivity. Qed.
  Lemma exd_values_recovered : forall now', exists h pres V,
    holder_new toy (is_serialized exd_i) Compact = Ok h /\
    snd (present toy h (SpecLevel.sel_mems ex_m) no_kb now') = Ok pres /\
    verify toy pres ex_resolver None None Compact 120 = Ok V /\
    jequiv V (JObj ex_m).
  Proof.
    exact (C16_values_recovered_spec toy ex_alg ex_key ex_m AllLevels true exd_r ex_q exd_i exd_r' ex_resolver 120
             (lit "https://issuer") toy_ok exd_r_ok ex_m_ok ex_m_jwt ex_m_names eq_refl exd_issue).
  Qed.
  Definition exd_holder : holder :=
    match holder_new toy (is_serialized exd_i) Compact with Ok h => h | _ => RoundTrip.Example.ex_holder end.
  Definition exd_pres : str := match snd (present toy exd_holder ex_sel_all no_kb 5) with Ok t => t | _ => [] end.
  Example exd_run_confirmed :
    r_queue exd_r' = Some [] /\ List.length (r_salts exd_r') = 2%nat /\
    match verify toy exd_pres ex_resolver None None Compact 120 with
    | Ok V => json_equivb V (JObj ex_m) | _ => false end = true.
  Proof. vm_compute. repeat split; reflexivity. Qed.
End ExampleMock.

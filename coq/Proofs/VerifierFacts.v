(* Proofs/VerifierFacts.v — "acceptance implies ..." theorems about the model
   verifier (Model/Verifier.v), obtained by inverting its definition, and the
   reserved-name check of the issuer (C13).
   Auxiliary inversion lemmas come first; the main theorems (C02, C09, C04, C10,
   C13; C11 is in Proofs/HolderFacts.v) are last, each followed by
   Print Assumptions and a non-vacuity example. *)
From SDJWT Require Import Base.Json Base.JsonFacts Params Codec.JsonParse
  Model.Common Model.Issuer Model.Holder Model.Jwt Model.Verifier Proofs.HolderFacts.
From Coq Require Import Lia PeanoNat.

(* ------------------------------------------------------------------ *)
(* small generic facts                                                 *)

Lemma family_eqb_eq : forall a b, family_eqb a b = true <-> a = b.
Proof. intros [] []; cbn; split; intros E; try reflexivity; discriminate. Qed.

Lemma outcome_sim_eq_refl : forall {A} (x : outcome A), outcome_sim eq x x.
Proof. intros A []; cbn; auto. Qed.

Lemma outcome_sim_bind : forall {A B} (x : outcome A) (f g : A -> outcome B),
  (forall a, outcome_sim eq (f a) (g a)) -> outcome_sim eq (bind x f) (bind x g).
Proof. intros A B [] f g E; cbn; auto. Qed.

Lemma bind_ext : forall {A B} (x : outcome A) (f g : A -> outcome B),
  (forall a, f a = g a) -> bind x f = bind x g.
Proof. intros A B [] f g E; cbn; auto. Qed.

Lemma is_err_bind : forall {A B} (x : outcome A) (f : A -> outcome B),
  is_err x = false -> (forall a, is_err (f a) = false) -> is_err (bind x f) = false.
Proof. intros A B [] f Hx Hf; cbn in *; auto. Qed.

(* ------------------------------------------------------------------ *)
(* Model/Jwt.v: inversion of header_from_encoded, validate, jwt_decode   *)

Lemma header_from_encoded_inv : forall hb hd,
  header_from_encoded hb = Ok hd ->
  exists text raw m,
    base64url_decode_text hb = Some text /\ parse_json_raw text = Some (JObj raw) /\
    dedup (JObj raw) = JObj m /\
    obj_get (lit "alg") m = Some (JStr (hd_alg hd)) /\
    mem_str (hd_alg hd) alg_names = true /\
    opt_string_field (lit "typ") m = Some (hd_typ hd) /\
    hd_json hd = JObj m.
Proof.
  intros hb hd E. unfold header_from_encoded in E.
  destruct (base64url_decode_text hb) as [text|] eqn:B; [|discriminate].
  destruct (parse_json_raw text) as [[| | | |l|raw]|] eqn:P; try discriminate.
  match type of E with (if ?c then _ else _) = _ => destruct c end; [discriminate|].
  cbv zeta in E.
  remember (match dedup (JObj raw) with JObj m => m | _ => [] end) as m eqn:Hm.
  assert (D : dedup (JObj raw) = JObj m) by (subst m; reflexivity).
  exists text, raw, m.
  assert (G : (if negb (forallb (fun x : option (option str) => match x with Some _ => true | None => false end)
                   (map (fun k => opt_string_field k m)
                      [lit "cty"; lit "jku"; lit "kid"; lit "x5u"; lit "x5t"; lit "x5t#S256"]))
                  || negb match obj_get (lit "x5c") m with
                          | None | Some JNull => true
                          | Some (JArr l) => match all_strings l with Some _ => true | None => false end
                          | Some _ => false
                          end
               then Err "header: ill-typed field"
               else match opt_string_field (lit "typ") m, obj_get (lit "alg") m with
                    | Some typ, Some (JStr a) =>
                        if mem_str a alg_names then Ok {| hd_alg := a; hd_typ := typ; hd_json := JObj m |}
                        else Err "header: unknown alg"
                    | _, _ => Err "header: typ / alg"
                    end) = Ok hd).
  { destruct (obj_get (lit "jwk") m) as [[]|]; try discriminate; exact E. }
  clear E.
  match type of G with (if ?c then _ else _) = _ => destruct c end; [discriminate|].
  destruct (opt_string_field (lit "typ") m) as [typ|] eqn:T; [|discriminate].
  destruct (obj_get (lit "alg") m) as [[| | |a| |]|] eqn:A; try discriminate.
  destruct (mem_str a alg_names) eqn:M; [|discriminate].
  inversion G; subst hd; cbn [hd_alg hd_typ hd_json].
  repeat split; auto.
Qed.

Definition spec_claims : list str := [lit "exp"; lit "nbf"; lit "sub"; lit "iss"; lit "aud"].

(* what validate checks with the issuer-side settings *)
Lemma validate_issuer_inv : forall alg raw m now,
  validate (issuer_validation alg) raw m now = Ok tt ->
  existsb (fun k => Nat.ltb 1 (count_key k raw)) spec_claims = false /\
  (exists e, numeric_claim (lit "exp") m = Ok (Parsed e) /\ N.ltb e (now - LEEWAY) = false) /\
  (forall n, numeric_claim (lit "nbf") m = Ok (Parsed n) -> N.ltb (now + LEEWAY) n = false) /\
  (forall x, aud_claim m <> Parsed x).
Proof.
  intros alg raw m now E. unfold validate in E. fold spec_claims in E.
  destruct (existsb _ spec_claims); [discriminate|].
  split; [reflexivity|].
  assert (G : (do exp <- numeric_claim (lit "exp") m;
               do nbf <- numeric_claim (lit "nbf") m;
               if true && negb (match exp with Parsed _ => true | _ => false end) then Err "MissingRequiredClaim exp"
               else if false && negb (match aud_claim m with Parsed _ => true | _ => false end) then Err "MissingRequiredClaim aud"
               else if match exp with Parsed e => N.ltb e (now - LEEWAY) | _ => false end then Err "ExpiredSignature"
               else if true && match nbf with Parsed n => N.ltb (now + LEEWAY) n | _ => false end then Err "ImmatureSignature"
               else match aud_claim m, @None (list str) with
                    | Parsed _, None => Err "InvalidAudience"
                    | Parsed (AudSingle a), Some ok => if mem_str a ok then Ok tt else Err "InvalidAudience"
                    | Parsed (AudMultiple l), Some ok => if existsb (fun a => mem_str a ok) l then Ok tt else Err "InvalidAudience"
                    | _, _ => Ok tt
                    end) = Ok tt).
  { destruct (obj_get (lit "sub") m) as [[]|]; try discriminate; exact E. }
  clear E.
  apply bind_Ok in G as [exp [Hexp G]]. apply bind_Ok in G as [nbf [Hnbf G]].
  destruct exp as [e| |]; cbn [andb negb] in G; try discriminate.
  destruct (N.ltb e (now - LEEWAY)) eqn:L1; [discriminate|].
  split; [exists e; split; [exact Hexp | exact L1]|].
  split.
  - intros n Hn. rewrite Hn in Hnbf. inversion Hnbf; subst nbf.
    destruct (N.ltb (now + LEEWAY) n); [discriminate | reflexivity].
  - intros x Hx. rewrite Hx in G.
    destruct x; destruct nbf as [n| |]; cbn [andb] in G; try (destruct (N.ltb (now + LEEWAY) n)); discriminate G.
Qed.

(* a credential inside its validity window is not rejected by validate *)
Lemma validate_in_window : forall alg raw m now e,
  (forall k, In k spec_claims -> (count_key k raw <= 1)%nat) ->
  (obj_get (lit "sub") m = None \/ obj_get (lit "sub") m = Some JNull \/ exists s, obj_get (lit "sub") m = Some (JStr s)) ->
  numeric_claim (lit "exp") m = Ok (Parsed e) -> now - LEEWAY <= e ->
  (numeric_claim (lit "nbf") m = Ok NotPresent \/ numeric_claim (lit "nbf") m = Ok FailedToParse \/
   exists n, numeric_claim (lit "nbf") m = Ok (Parsed n) /\ n <= now + LEEWAY) ->
  (forall x, aud_claim m <> Parsed x) ->
  validate (issuer_validation alg) raw m now = Ok tt.
Proof.
  intros alg raw m now e Hc Hsub Hexp He Hnbf Haud. unfold validate. fold spec_claims.
  assert (X : existsb (fun k => Nat.ltb 1 (count_key k raw)) spec_claims = false).
  { destruct (existsb _ spec_claims) eqn:X; [|reflexivity]. apply existsb_exists in X as [k [I L]].
    apply Nat.ltb_lt in L. specialize (Hc k I). lia. }
  rewrite X.
  assert (L1 : N.ltb e (now - LEEWAY) = false) by (apply N.ltb_ge; exact He).
  assert (G : forall nbf, numeric_claim (lit "nbf") m = Ok nbf ->
              match nbf with Parsed n => N.ltb (now + LEEWAY) n | _ => false end = false).
  { intros nbf Hn. destruct Hnbf as [Hn2|[Hn2|[n [Hn2 Ln]]]]; rewrite Hn2 in Hn; inversion Hn; subst; try reflexivity.
    apply N.ltb_ge. exact Ln. }
  assert (A : match aud_claim m with Parsed _ => true | _ => false end = false).
  { destruct (aud_claim m) eqn:A; try reflexivity. exfalso. eapply Haud. reflexivity. }
  assert (K : (do exp <- numeric_claim (lit "exp") m;
               do nbf <- numeric_claim (lit "nbf") m;
               if true && negb (match exp with Parsed _ => true | _ => false end) then Err "MissingRequiredClaim exp"
               else if false && negb (match aud_claim m with Parsed _ => true | _ => false end) then Err "MissingRequiredClaim aud"
               else if match exp with Parsed e => N.ltb e (now - LEEWAY) | _ => false end then Err "ExpiredSignature"
               else if true && match nbf with Parsed n => N.ltb (now + LEEWAY) n | _ => false end then Err "ImmatureSignature"
               else match aud_claim m, @None (list str) with
                    | Parsed _, None => Err "InvalidAudience"
                    | Parsed (AudSingle a), Some ok => if mem_str a ok then Ok tt else Err "InvalidAudience"
                    | Parsed (AudMultiple l), Some ok => if existsb (fun a => mem_str a ok) l then Ok tt else Err "InvalidAudience"
                    | _, _ => Ok tt
                    end) = Ok tt).
  { rewrite Hexp. cbn [bind andb negb]. rewrite L1.
    destruct (numeric_claim (lit "nbf") m) as [nbf| | | |] eqn:Hn;
      try (exfalso; destruct Hnbf as [Hn2|[Hn2|[n [Hn2 _]]]]; discriminate Hn2).
    cbn [bind]. rewrite (G nbf eq_refl). cbn [andb].
    destruct (aud_claim m); try reflexivity. discriminate A. }
  destruct Hsub as [S|[S|[s S]]]; rewrite S; exact K.
Qed.

(* what validate checks with the key-binding settings *)
Lemma validate_kb_inv : forall alg a raw m now,
  validate (kb_validation alg a) raw m now = Ok tt ->
  (aud_claim m = Parsed (AudSingle a) \/ exists l, aud_claim m = Parsed (AudMultiple l) /\ In a l) /\
  (forall e, numeric_claim (lit "exp") m = Ok (Parsed e) -> N.ltb e (now - LEEWAY) = false).
Proof.
  intros alg a raw m now E. unfold validate in E. fold spec_claims in E.
  destruct (existsb _ spec_claims); [discriminate|].
  assert (G : (do exp <- numeric_claim (lit "exp") m;
               do nbf <- numeric_claim (lit "nbf") m;
               if false && negb (match exp with Parsed _ => true | _ => false end) then Err "MissingRequiredClaim exp"
               else if true && negb (match aud_claim m with Parsed _ => true | _ => false end) then Err "MissingRequiredClaim aud"
               else if match exp with Parsed e => N.ltb e (now - LEEWAY) | _ => false end then Err "ExpiredSignature"
               else if false && match nbf with Parsed n => N.ltb (now + LEEWAY) n | _ => false end then Err "ImmatureSignature"
               else match aud_claim m, Some [a] with
                    | Parsed _, None => Err "InvalidAudience"
                    | Parsed (AudSingle a), Some ok => if mem_str a ok then Ok tt else Err "InvalidAudience"
                    | Parsed (AudMultiple l), Some ok => if existsb (fun a => mem_str a ok) l then Ok tt else Err "InvalidAudience"
                    | _, _ => Ok tt
                    end) = Ok tt).
  { destruct (obj_get (lit "sub") m) as [[]|]; try discriminate; exact E. }
  clear E.
  apply bind_Ok in G as [exp [Hexp G]]. apply bind_Ok in G as [nbf [Hnbf G]].
  cbn [andb] in G.
  destruct (aud_claim m) as [au| |] eqn:A; cbn [negb] in G; try discriminate.
  assert (X : match exp with Parsed e => N.ltb e (now - LEEWAY) | _ => false end = false).
  { destruct (match exp with Parsed e => N.ltb e (now - LEEWAY) | _ => false end); [discriminate | reflexivity]. }
  rewrite X in G. split.
  - destruct au as [s|l].
    + left. destruct (mem_str s [a]) eqn:M; [|discriminate]. apply mem_str_In in M.
      destruct M as [M|[]]. subst. reflexivity.
    + right. exists l. split; [reflexivity|].
      destruct (existsb (fun a0 => mem_str a0 [a]) l) eqn:M; [|discriminate].
      apply existsb_exists in M as [x [I M]]. apply mem_str_In in M. destruct M as [M|[]]. subst. exact I.
  - intros e He. rewrite He in Hexp. inversion Hexp; subst exp. exact X.
Qed.

Lemma jwt_decode_inv : forall o token k v now hd m,
  jwt_decode o token k v now = Ok (hd, m) ->
  exists sg msg pl hb raw,
    rsplit_dot token = Some (sg, msg) /\ rsplit_dot msg = Some (pl, hb) /\
    header_from_encoded hb = Ok hd /\
    hd_alg hd = v_alg v /\ alg_family (v_alg v) = Some (kfam k) /\
    sig_ok o (hd_alg hd) k msg sg = true /\
    (exists text, base64url_decode_text pl = Some text /\ parse_json_raw text = Some (JObj raw)) /\
    dedup (JObj raw) = JObj m /\
    validate v raw m now = Ok tt.
Proof.
  intros o token k v now hd m E. unfold jwt_decode in E.
  destruct (alg_family (v_alg v)) as [f|] eqn:F; [|discriminate].
  destruct (family_eqb (kfam k) f) eqn:Fk; cbn [negb] in E; [|discriminate].
  apply family_eqb_eq in Fk. subst f.
  destruct (rsplit_dot token) as [[sg msg]|] eqn:R1; [|discriminate].
  destruct (rsplit_dot msg) as [[pl hb]|] eqn:R2; [|discriminate].
  apply bind_Ok in E as [hd' [Hh E]].
  destruct (str_eqb (hd_alg hd') (v_alg v)) eqn:A; cbn [negb] in E; [|discriminate].
  destruct (sig_ok o (hd_alg hd') k msg sg) eqn:S; cbn [negb] in E; [|discriminate].
  destruct (base64url_decode_text pl) as [text|] eqn:B; [|discriminate].
  destruct (parse_json_raw text) as [[| | | | |raw]|] eqn:P; try discriminate.
  destruct (dedup (JObj raw)) as [| | | | |m'] eqn:D; try discriminate.
  apply bind_Ok in E as [u [Hv E]]. destruct u. inversion E; subst hd' m'.
  apply str_eqb_eq in A.
  exists sg, msg, pl, hb, raw. repeat split; auto. exists text. split; auto.
Qed.

(* ------------------------------------------------------------------ *)
(* Model/Verifier.v: inversion of verify_key_binding and verify          *)

Lemma decode_header_inv : forall token hd,
  decode_header token = Ok hd ->
  exists sg msg pl hb, rsplit_dot token = Some (sg, msg) /\ rsplit_dot msg = Some (pl, hb) /\
                       header_from_encoded hb = Ok hd.
Proof.
  intros token hd E. unfold decode_header in E.
  destruct (rsplit_dot token) as [[sg msg]|] eqn:R1; [|discriminate].
  destruct (rsplit_dot msg) as [[pl hb]|] eqn:R2; [|discriminate].
  exists sg, msg, pl, hb. auto.
Qed.

(* everything an accepted key binding JWT was checked for *)
Definition kb_checked (o : oracles) (p : parsed) (payload : members) (a n : str) (now : N)
           (kb : str) (cnf : members) (jwk : json) (hk : key) (sg msg pl hb : str) (hd : header)
           (raw claims : members) : Prop :=
  p_kb p = Some kb /\
  obj_get CNF_KEY payload = Some (JObj cnf) /\ obj_get JWK_KEY cnf = Some jwk /\ jwk_key o jwk = Some hk /\
  rsplit_dot kb = Some (sg, msg) /\ rsplit_dot msg = Some (pl, hb) /\ header_from_encoded hb = Ok hd /\
  mem_str (hd_alg hd) alg_names = true /\
  alg_family (hd_alg hd) = Some (kfam hk) /\
  sig_ok o (hd_alg hd) hk msg sg = true /\
  hd_typ hd = Some KB_JWT_TYP_HEADER /\
  (exists text, base64url_decode_text pl = Some text /\ parse_json_raw text = Some (JObj raw)) /\
  dedup (JObj raw) = JObj claims /\
  validate (kb_validation (hd_alg hd) a) raw claims now = Ok tt /\
  obj_get (lit "nonce") claims = Some (JStr n) /\
  (aud_claim claims = Parsed (AudSingle a) \/ exists l, aud_claim claims = Parsed (AudMultiple l) /\ In a l) /\
  (forall e, numeric_claim (lit "exp") claims = Ok (Parsed e) -> N.ltb e (now - LEEWAY) = false) /\
  obj_get KB_DIGEST_KEY claims = Some (JStr (sd_hash_of o (p_jwt p) (p_disclosures p))).

Lemma verify_key_binding_inv : forall o p payload a n now u,
  verify_key_binding o p payload a n now = Ok u ->
  exists kb cnf jwk hk sg msg pl hb hd raw claims,
    kb_checked o p payload a n now kb cnf jwk hk sg msg pl hb hd raw claims.
Proof.
  intros o p payload a n now u E. unfold verify_key_binding in E. cbv zeta in E.
  destruct (obj_get CNF_KEY payload) as [[| | | | |cnf]|] eqn:C; try discriminate.
  destruct (obj_get JWK_KEY cnf) as [jwk|] eqn:J; [|discriminate].
  destruct (jwk_key o jwk) as [hk|] eqn:K; [|discriminate].
  destruct (p_kb p) as [kb|] eqn:Kb; [|discriminate].
  remember (match header_sign_alg kb with Some a0 => a0 | None => DEFAULT_SIGNING_ALG end) as sa eqn:Hsa.
  destruct (mem_str sa alg_names) eqn:M; cbn [negb] in E; [|discriminate].
  apply bind_Ok in E as [[hd claims] [Hd E]].
  apply jwt_decode_inv in Hd as (sg & msg & pl & hb & raw & R1 & R2 & Hh & Ha & Hf & Hs & Ht & Hdd & Hv).
  cbn [v_alg kb_validation] in Ha, Hf. rewrite <- Ha in Hf, Hv, M.
  destruct (hd_typ hd) as [t|] eqn:T; [|discriminate].
  destruct (str_eqb t KB_JWT_TYP_HEADER) eqn:Tt; cbn [negb] in E; [|discriminate].
  apply str_eqb_eq in Tt. subst t.
  destruct (obj_get (lit "nonce") claims) as [[| | |n'| |]|] eqn:Nn; try discriminate.
  destruct (str_eqb n' n) eqn:Ne; cbn [negb] in E; [|discriminate].
  apply str_eqb_eq in Ne. subst n'.
  destruct (obj_get KB_DIGEST_KEY claims) as [[| | |h| |]|] eqn:Dg; try discriminate.
  destruct (str_eqb h (sd_hash_of o (p_jwt p) (p_disclosures p))) eqn:He; [|discriminate].
  apply str_eqb_eq in He. subst h.
  destruct (validate_kb_inv _ _ _ _ _ Hv) as [Va Ve].
  exists kb, cnf, jwk, hk, sg, msg, pl, hb, hd, raw, claims.
  unfold kb_checked. repeat (split; [assumption|]). exact Dg.
Qed.

(* everything verify checked about the issuer-signed JWT before returning V *)
Definition issuer_checked (o : oracles) (resolver : str -> json -> key) (now : N)
           (p : parsed) (dm : dmap) (hd : header) (iss sg msg pl hb : str) (raw payload : members) : Prop :=
  create_hash_mappings o (p_disclosures p) [] = Ok dm /\
  rsplit_dot (p_jwt p) = Some (sg, msg) /\ rsplit_dot msg = Some (pl, hb) /\ header_from_encoded hb = Ok hd /\
  obj_get (lit "iss") (p_payload p) = Some (JStr iss) /\
  mem_str (hd_alg hd) alg_names = true /\
  alg_family (hd_alg hd) = Some (kfam (resolver iss (hd_json hd))) /\
  sig_ok o (hd_alg hd) (resolver iss (hd_json hd)) msg sg = true /\
  (exists text, base64url_decode_text pl = Some text /\ parse_json_raw text = Some (JObj raw)) /\
  dedup (JObj raw) = JObj payload /\
  validate (issuer_validation (hd_alg hd)) raw payload now = Ok tt.

(* verify, after parsing (C10 is stated about this function) *)
Definition verify_parsed (o : oracles) (p : parsed) (resolver : str -> json -> key)
           (expected_aud expected_nonce : option str) (now : N) : outcome json :=
  do dm <- create_hash_mappings o (p_disclosures p) [];
  do hd <- decode_header (p_jwt p);
  do iss <- match obj_get (lit "iss") (p_payload p) with Some (JStr s) => Ok s | _ => Err "iss" end;
  let k := resolver iss (hd_json hd) in
  do alg <- match p_sign_alg p with
            | Some a => if mem_str a alg_names then Ok a else Err "unknown algorithm name"
            | None => Ok DEFAULT_SIGNING_ALG
            end;
  do (_, payload) <- jwt_decode o (p_jwt p) k (issuer_validation alg) now;
  do claims <- extract_sd_claims dm payload;
  match expected_aud, expected_nonce with
  | Some a, Some n => do _ <- verify_key_binding o p payload a n now; Ok claims
  | None, None => Ok claims
  | _, _ => Err "Either both expected_aud and expected_nonce must be provided or both must be None"
  end.

Lemma verify_is_parse_then_verify_parsed : forall o input resolver ea en fmt now,
  verify o input resolver ea en fmt now =
  bind (parse_sd_jwt fmt input) (fun p => verify_parsed o p resolver ea en now).
Proof. reflexivity. Qed.

Lemma verify_parsed_inv : forall o p resolver ea en now V,
  verify_parsed o p resolver ea en now = Ok V ->
  exists dm hd iss sg msg pl hb raw payload,
    issuer_checked o resolver now p dm hd iss sg msg pl hb raw payload /\
    extract_sd_claims dm payload = Ok V /\
    match ea, en with
    | Some a, Some n => verify_key_binding o p payload a n now = Ok tt
    | None, None => True
    | _, _ => False
    end.
Proof.
  intros o p resolver ea en now V E. unfold verify_parsed in E.
  apply bind_Ok in E as [dm [Hdm E]].
  apply bind_Ok in E as [hd [Hhd E]].
  apply bind_Ok in E as [iss [Hiss E]].
  cbv zeta in E.
  apply bind_Ok in E as [alg [Halg E]].
  apply bind_Ok in E as [[hd' payload] [Hdec E]].
  apply bind_Ok in E as [claims [Hcl E]].
  apply decode_header_inv in Hhd as (sg & msg & pl & hb & R1 & R2 & Hh).
  apply jwt_decode_inv in Hdec as (sg' & msg' & pl' & hb' & raw & R1' & R2' & Hh' & Ha & Hf & Hs & Ht & Hdd & Hv).
  rewrite R1 in R1'. inversion R1'; subst sg' msg'. rewrite R2 in R2'. inversion R2'; subst pl' hb'.
  rewrite Hh in Hh'. inversion Hh'; subst hd'.
  cbn [v_alg issuer_validation] in Ha, Hf. rewrite <- Ha in Hf, Hv.
  assert (I : obj_get (lit "iss") (p_payload p) = Some (JStr iss)).
  { destruct (obj_get (lit "iss") (p_payload p)) as [[| | |s| |]|]; try discriminate. inversion Hiss. reflexivity. }
  destruct (header_from_encoded_inv _ _ Hh) as (? & ? & ? & _ & _ & _ & _ & M & _ & _).
  exists dm, hd, iss, sg, msg, pl, hb, raw, payload.
  assert (X : issuer_checked o resolver now p dm hd iss sg msg pl hb raw payload).
  { unfold issuer_checked. repeat (split; [assumption|]). exact Hv. }
  destruct ea as [a|], en as [n|].
  - apply bind_Ok in E as [u [Hkb E]]. destruct u. inversion E; subst claims. auto.
  - discriminate.
  - discriminate.
  - inversion E; subst claims. auto.
Qed.

(* ------------------------------------------------------------------ *)
(* C10 auxiliaries: the key binding check when no KB-JWT / an empty one is present *)

Lemma is_err_bind_l : forall {A B} (x : outcome A) (f : A -> outcome B),
  is_err x = true -> is_err (bind x f) = true.
Proof. intros A B [] f E; cbn in *; auto; discriminate. Qed.

Lemma jwt_decode_empty : forall o k v now, is_err (jwt_decode o [] k v now) = true.
Proof.
  intros o k v now. unfold jwt_decode.
  destruct (alg_family (v_alg v)); [destruct (negb (family_eqb (kfam k) f))|]; reflexivity.
Qed.

Lemma vkb_ext : forall o p1 p2 payload a n now,
  p_kb p1 = p_kb p2 -> p_jwt p1 = p_jwt p2 -> p_disclosures p1 = p_disclosures p2 ->
  verify_key_binding o p1 payload a n now = verify_key_binding o p2 payload a n now.
Proof. intros o p1 p2 payload a n now K J D. unfold verify_key_binding. rewrite K, J, D. reflexivity. Qed.

Lemma vkb_no_kb : forall o p payload a n now,
  p_kb p = None -> is_err (verify_key_binding o p payload a n now) = true.
Proof.
  intros o p payload a n now K. unfold verify_key_binding. rewrite K.
  destruct (obj_get CNF_KEY payload) as [[| | | | |cnf]|]; try reflexivity.
  destruct (obj_get JWK_KEY cnf) as [jwk|]; [|reflexivity].
  destruct (jwk_key o jwk); reflexivity.
Qed.

Lemma vkb_empty_kb : forall o p payload a n now,
  p_kb p = Some [] -> is_err (verify_key_binding o p payload a n now) = true.
Proof.
  intros o p payload a n now K. unfold verify_key_binding. rewrite K. cbv zeta.
  destruct (obj_get CNF_KEY payload) as [[| | | | |cnf]|]; try reflexivity.
  destruct (obj_get JWK_KEY cnf) as [jwk|]; [|reflexivity].
  destruct (jwk_key o jwk) as [hk|]; [|reflexivity].
  match goal with |- is_err (if ?c then _ else _) = true => destruct c end; [reflexivity|].
  apply is_err_bind_l. apply jwt_decode_empty.
Qed.

Definition kb_related (a b : option str) : Prop :=
  a = b \/ (a = None /\ b = Some []) \/ (a = Some [] /\ b = None).

(* the fields of the parse result the verifier core may depend on *)
Definition parsed_agree (p1 p2 : parsed) : Prop :=
  p_jwt p1 = p_jwt p2 /\ p_payload p1 = p_payload p2 /\ p_disclosures p1 = p_disclosures p2 /\
  p_sign_alg p1 = p_sign_alg p2 /\ kb_related (p_kb p1) (p_kb p2).

(* ------------------------------------------------------------------ *)
(* C13 auxiliaries                                                      *)

Inductive HasReservedMember : json -> Prop :=
| HR_here : forall m k v, In (k, v) m -> k = SD_DIGESTS_KEY \/ k = SD_LIST_PREFIX -> HasReservedMember (JObj m)
| HR_member : forall m k v, In (k, v) m -> HasReservedMember v -> HasReservedMember (JObj m)
| HR_elem : forall l v, In v l -> HasReservedMember v -> HasReservedMember (JArr l).

Lemma has_reserved_arr : forall l, has_reserved (JArr l) = existsb has_reserved l.
Proof. reflexivity. Qed.

Lemma has_reserved_obj : forall m,
  has_reserved (JObj m) =
  existsb (fun kv => str_eqb (fst kv) SD_DIGESTS_KEY || str_eqb (fst kv) SD_LIST_PREFIX || has_reserved (snd kv)) m.
Proof. reflexivity. Qed.

Lemma finalize_input_returns : forall s, (exists s', finalize_input s = Ok s') \/ finalize_input s = Err "Invalid JSONPath".
Proof.
  intros [| | |ps]; cbn [finalize_input]; try (left; eexists; reflexivity).
  destruct (strip_all ps); [left; eexists; reflexivity | right; reflexivity].
Qed.

Lemma draw_salt_no_err : forall st, is_err (draw_salt st) = false.
Proof. intros st. unfold draw_salt. destruct (r_salts (i_rng st)); reflexivity. Qed.

Lemma draw_disclosure_salt_no_err : forall st, is_err (draw_disclosure_salt st) = false.
Proof.
  intros st. unfold draw_disclosure_salt. destruct (r_queue (i_rng st)) as [[|]|]; try reflexivity.
  apply draw_salt_no_err.
Qed.

Lemma draw_count_no_err : forall st, is_err (draw_count st) = false.
Proof. intros st. unfold draw_count. destruct (r_counts (i_rng st)); reflexivity. Qed.

Lemma new_disclosure_no_err : forall o name v st, is_err (new_disclosure o name v st) = false.
Proof.
  intros o name v st. unfold new_disclosure.
  apply is_err_bind; [apply draw_disclosure_salt_no_err | intros [salt st1]; reflexivity].
Qed.

Lemma decoys_no_err : forall o n st, is_err (decoys o n st) = false.
Proof.
  intros o. induction n as [|n IH]; intros st; cbn [decoys]; [reflexivity|].
  apply is_err_bind; [apply draw_salt_no_err | intros [salt st1]].
  apply is_err_bind; [apply IH | intros [ds st2]; reflexivity].
Qed.

(* create_sd_claims never returns an error value (it can only run out of randomness / panic on the mock queue) *)
Lemma create_sd_claims_no_err : forall o decoy v s st, is_err (create_sd_claims o decoy v s st) = false.
Proof.
  intros o decoy v. induction v as [|b0|n0|s0|l IHl|m IHm] using json_ind'; intros s st; try reflexivity.
  - cbn [create_sd_claims].
    match goal with |- is_err (?f l 0 [] st) = false =>
      assert (G : forall idx acc st0, is_err (f l idx acc st0) = false) end.
    { induction IHl as [|x l Hx Hl IH]; intros idx acc st0; [reflexivity|].
      cbn -[N.add index_key next_level sd_for_key new_disclosure create_sd_claims].
      apply is_err_bind; [apply Hx | intros [sub st1]].
      destruct (sd_for_key s (index_key idx)); [|apply IH].
      apply is_err_bind; [apply new_disclosure_no_err | intros [h st2]; apply IH]. }
    apply G.
  - cbn [create_sd_claims].
    match goal with |- is_err (?f m ?c [] st) = false =>
      assert (G : forall claims sd st0, is_err (f m claims sd st0) = false) end.
    { induction IHm as [|[k x] m Hx Hm IH]; intros claims sd st0.
      - cbn -[obj_remove obj_insert sort_strs draw_count decoys].
        apply is_err_bind.
        + destruct decoy; [|reflexivity].
          apply is_err_bind; [apply draw_count_no_err | intros [n st1]].
          apply is_err_bind; [apply decoys_no_err | intros [ds st2]; reflexivity].
        + intros [[|? ?] st2]; reflexivity.
      - cbn -[obj_insert next_level sd_for_key new_disclosure create_sd_claims].
        apply is_err_bind; [apply Hx | intros [sub st1]].
        destruct (sd_for_key s k); [|apply IH].
        apply is_err_bind; [apply new_disclosure_no_err | intros [h st2]; apply IH]. }
    apply G.
Qed.

(* ------------------------------------------------------------------ *)
(* A concrete credential and presentation for the non-vacuity examples.
   The digest oracle is the identity (injective); the signature oracle accepts
   exactly the issuer's message under key 1 and the holder's KB message under key 2. *)
Module Ex.
  Definition k_iss : key := {| kid := 1; kfam := FEc |}.
  Definition k_holder : key := {| kid := 2; kfam := FEc |}.
  Definition k_rsa : key := {| kid := 1; kfam := FRsa |}.
  Definition o0 : oracles :=
    {| H := fun s => s; sig_ok := fun _ _ _ _ => false; sign := fun _ _ _ => lit "sig";
       jwk_key := fun _ => Some k_holder |}.
  Definition r : rng := {| r_queue := None; r_salts := [lit "s1"; lit "s2"; lit "s3"]; r_counts := [] |}.
  Definition claims : json :=
    JObj [(lit "iss", JStr (lit "i")); (lit "exp", JNum (lit "100")); (lit "a", JStr (lit "x"));
          (lit "b", JArr [JStr (lit "y"); JStr (lit "z")])].
  Definition issued_ : outcome (issued * rng) :=
    issue o0 (lit "ES256") k_iss claims TopLevel (Some (JObj [(lit "kty", JStr (lit "EC"))])) false Compact r.
  Definition input : str := match issued_ with Ok (i, _) => is_serialized i | _ => [] end.
  Definition kba : kb_args :=
    {| kb_nonce := Some (lit "n"); kb_aud := Some (lit "v"); kb_key := Some k_holder; kb_alg := None |}.
  Definition pres_ : holder * outcome str :=
    match holder_new o0 input Compact with
    | Ok h => present o0 h [(lit "a", JBool true)] kba 5
    | _ => (Build_holder Compact [] [] [] None [] None [] [] [] [], Err "holder_new failed")
    end.
  (* the presentation: jwt ~ disclosure of "a" ~ KB-JWT *)
  Definition pres : str := match snd pres_ with Ok s => s | _ => [] end.
  Definition iss_msg : str :=
    match issued_ with
    | Ok (i, _) => match rsplit_dot (is_jwt i) with Some (_, m) => m | None => [] end
    | _ => []
    end.
  Definition kb_msg : str := match rsplit_dot (h_kb (fst pres_)) with Some (_, m) => m | None => [] end.
  Definition o : oracles :=
    {| H := fun s => s;
       sig_ok := fun _ k m s =>
         ((N.eqb (kid k) 1 && str_eqb m iss_msg) || (N.eqb (kid k) 2 && str_eqb m kb_msg)) && str_eqb s (lit "sig");
       sign := fun _ _ _ => lit "sig";
       jwk_key := fun _ => Some k_holder |}.
  Definition resolver (_ : str) (_ : json) : key := k_iss.
  Definition disclosed : json :=
    JObj [(lit "iss", JStr (lit "i")); (lit "exp", JNum (lit "100"));
          (lit "cnf", JObj [(lit "jwk", JObj [(lit "kty", JStr (lit "EC"))])]); (lit "a", JStr (lit "x"))].

  Example pres_accepted_with_kb :
    verify o pres resolver (Some (lit "v")) (Some (lit "n")) Compact 5 = Ok disclosed.
  Proof. vm_compute. reflexivity. Qed.
  Example pres_accepted_without_kb_check : verify o pres resolver None None Compact 5 = Ok disclosed.
  Proof. vm_compute. reflexivity. Qed.
  Example input_accepted :
    is_ok (verify o input resolver None None Compact 5) = true /\
    is_ok (verify o input resolver (Some (lit "v")) (Some (lit "n")) Compact 5) = false.
  Proof. vm_compute. split; reflexivity. Qed.
End Ex.

(* ================================================================== *)
(* MAIN THEOREMS                                                       *)
(* ================================================================== *)

(* ---- C02: what acceptance implies --------------------------------- *)

Theorem verify_accept_inv : forall o input resolver ea en fmt now V,
  verify o input resolver ea en fmt now = Ok V ->
  exists p dm hd iss sg msg pl hb raw payload,
    parse_sd_jwt fmt input = Ok p /\
    create_hash_mappings o (p_disclosures p) [] = Ok dm /\
    rsplit_dot (p_jwt p) = Some (sg, msg) /\ rsplit_dot msg = Some (pl, hb) /\
    header_from_encoded hb = Ok hd /\
    obj_get (lit "iss") (p_payload p) = Some (JStr iss) /\
    mem_str (hd_alg hd) alg_names = true /\
    alg_family (hd_alg hd) = Some (kfam (resolver iss (hd_json hd))) /\
    sig_ok o (hd_alg hd) (resolver iss (hd_json hd)) msg sg = true /\
    (exists text, base64url_decode_text pl = Some text /\ parse_json_raw text = Some (JObj raw)) /\
    dedup (JObj raw) = JObj payload /\
    validate (issuer_validation (hd_alg hd)) raw payload now = Ok tt /\
    extract_sd_claims dm payload = Ok V /\
    match ea, en with
    | Some a, Some n => verify_key_binding o p payload a n now = Ok tt
    | None, None => True
    | _, _ => False
    end.
Proof.
  intros o input resolver ea en fmt now V E.
  rewrite verify_is_parse_then_verify_parsed in E. apply bind_Ok in E as [p [Hp E]].
  apply verify_parsed_inv in E as (dm & hd & iss & sg & msg & pl & hb & raw & payload & C & X & K).
  unfold issuer_checked in C. destruct C as (C1 & C2 & C3 & C4 & C5 & C6 & C7 & C8 & C9 & C10 & C11).
  exists p, dm, hd, iss, sg, msg, pl, hb, raw, payload.
  repeat (split; [assumption|]). exact K.
Qed.
Print Assumptions verify_accept_inv.

(* the same, folded (used by the statements below) *)
Lemma verify_accept_checked : forall o input resolver ea en fmt now V,
  verify o input resolver ea en fmt now = Ok V ->
  exists p dm hd iss sg msg pl hb raw payload,
    parse_sd_jwt fmt input = Ok p /\
    issuer_checked o resolver now p dm hd iss sg msg pl hb raw payload /\
    extract_sd_claims dm payload = Ok V /\
    match ea, en with
    | Some a, Some n => verify_key_binding o p payload a n now = Ok tt
    | None, None => True
    | _, _ => False
    end.
Proof.
  intros o input resolver ea en fmt now V E.
  rewrite verify_is_parse_then_verify_parsed in E. apply bind_Ok in E as [p [Hp E]].
  apply verify_parsed_inv in E as (dm & hd & iss & sg & msg & pl & hb & raw & payload & C & X & K).
  exists p, dm, hd, iss, sg, msg, pl, hb, raw, payload. auto.
Qed.

(* (a) with an unforgeable signature scheme, only signed header-and-payload texts are
   accepted, and the returned claims are computed from that signed text (and the disclosures) *)
Theorem C02_tamper : forall o input resolver ea en fmt now V K (signed : str -> Prop),
  (forall a m s, sig_ok o a K m s = true -> signed m) ->
  (forall iss hj, resolver iss hj = K) ->
  verify o input resolver ea en fmt now = Ok V ->
  exists p dm sg msg pl hb text raw payload,
    parse_sd_jwt fmt input = Ok p /\
    rsplit_dot (p_jwt p) = Some (sg, msg) /\ signed msg /\
    rsplit_dot msg = Some (pl, hb) /\
    base64url_decode_text pl = Some text /\ parse_json_raw text = Some (JObj raw) /\
    dedup (JObj raw) = JObj payload /\
    create_hash_mappings o (p_disclosures p) [] = Ok dm /\
    extract_sd_claims dm payload = Ok V.
Proof.
  intros o input resolver ea en fmt now V K signed Unf Res E.
  apply verify_accept_inv in E
    as (p & dm & hd & iss & sg & msg & pl & hb & raw & payload & Hp & Hdm & R1 & R2 & Hh & Hi & Hm & Hf & Hs
        & (text & B & P) & D & Hv & X & _).
  rewrite Res in Hs. apply Unf in Hs.
  exists p, dm, sg, msg, pl, hb, text, raw, payload. repeat (split; [assumption|]). exact X.
Qed.
Print Assumptions C02_tamper.

Example C02_tamper_nonvacuous :
  (forall a m s, sig_ok Ex.o a Ex.k_iss m s = true -> m = Ex.iss_msg) /\
  (forall iss hj, Ex.resolver iss hj = Ex.k_iss) /\
  verify Ex.o Ex.pres Ex.resolver (Some (lit "v")) (Some (lit "n")) Compact 5 = Ok Ex.disclosed.
Proof.
  split; [|split; [reflexivity | apply Ex.pres_accepted_with_kb]].
  intros a m s E. unfold Ex.o in E. cbn [sig_ok Ex.k_iss kid] in E.
  apply andb_true_iff in E as [E _]. apply orb_true_iff in E as [E|E]; apply andb_true_iff in E as [E1 E2].
  - apply str_eqb_eq. exact E2.
  - discriminate E1.
Qed.

(* (b) a header whose alg is missing, not a string, or not one of the twelve known
   names ("none" included) is never accepted *)
Theorem C02_alg_not_allowed : forall o input resolver ea en fmt now p sg msg pl hb text raw m,
  parse_sd_jwt fmt input = Ok p ->
  rsplit_dot (p_jwt p) = Some (sg, msg) -> rsplit_dot msg = Some (pl, hb) ->
  base64url_decode_text hb = Some text -> parse_json_raw text = Some (JObj raw) ->
  dedup (JObj raw) = JObj m ->
  (forall a, obj_get (lit "alg") m = Some (JStr a) -> mem_str a alg_names = false) ->
  is_ok (verify o input resolver ea en fmt now) = false.
Proof.
  intros o input resolver ea en fmt now p sg msg pl hb text raw m Hp R1 R2 B P D Bad.
  destruct (verify o input resolver ea en fmt now) as [V| | | |] eqn:E; try reflexivity. exfalso.
  apply verify_accept_inv in E
    as (p' & dm & hd & iss & sg' & msg' & pl' & hb' & raw' & payload & Hp' & _ & R1' & R2' & Hh & _ & Hm & _).
  rewrite Hp in Hp'. inversion Hp'; subst p'.
  rewrite R1 in R1'. inversion R1'; subst sg' msg'. rewrite R2 in R2'. inversion R2'; subst pl' hb'.
  apply header_from_encoded_inv in Hh as (text' & raw'' & m' & B' & P' & D' & A & M & _).
  rewrite B in B'. inversion B'; subst text'. rewrite P in P'. inversion P'; subst raw''.
  rewrite D in D'. inversion D'; subst m'.
  apply Bad in A. congruence.
Qed.
Print Assumptions C02_alg_not_allowed.

Lemma not_an_alg_name_none : mem_str (lit "none") alg_names = false.
Proof. vm_compute. reflexivity. Qed.

(* an "alg":"none" header over the genuine payload, with a signature oracle that accepts everything *)
Example C02_alg_none_rejected :
  let o_all := {| H := fun s => s; sig_ok := fun _ _ _ _ => true; sign := fun _ _ _ => lit "sig";
                  jwk_key := fun _ => None |} in
  let pl := match rsplit_dot Ex.iss_msg with Some (pl, _) => pl | None => [] end in
  let forged hdr := base64url_encode_str hdr ++ [46] ++ pl ++ [46] ++ lit "sig" ++ [126] in
  is_ok (verify o_all (forged (lit "{""alg"":""ES256""}")) Ex.resolver None None Compact 5) = true /\
  is_ok (verify o_all (forged (lit "{""alg"":""none""}")) Ex.resolver None None Compact 5) = false /\
  is_ok (verify o_all (forged (lit "{""typ"":""JWT""}")) Ex.resolver None None Compact 5) = false /\
  is_ok (verify o_all (forged (lit "{""alg"":""HS257""}")) Ex.resolver None None Compact 5) = false.
Proof. vm_compute. repeat split; reflexivity. Qed.

(* (c) a resolver key of another family than the header algorithm's is never accepted *)
Theorem C02_family_mismatch : forall o input resolver ea en fmt now p hd iss,
  parse_sd_jwt fmt input = Ok p ->
  decode_header (p_jwt p) = Ok hd ->
  obj_get (lit "iss") (p_payload p) = Some (JStr iss) ->
  alg_family (hd_alg hd) <> Some (kfam (resolver iss (hd_json hd))) ->
  is_ok (verify o input resolver ea en fmt now) = false.
Proof.
  intros o input resolver ea en fmt now p hd iss Hp Hd Hi Bad.
  destruct (verify o input resolver ea en fmt now) as [V| | | |] eqn:E; try reflexivity. exfalso.
  apply verify_accept_inv in E
    as (p' & dm & hd' & iss' & sg & msg & pl & hb & raw & payload & Hp' & _ & R1 & R2 & Hh & Hi' & _ & Hf & _).
  rewrite Hp in Hp'. inversion Hp'; subst p'.
  apply decode_header_inv in Hd as (sg' & msg' & pl' & hb' & R1' & R2' & Hh').
  rewrite R1 in R1'. inversion R1'; subst sg' msg'. rewrite R2 in R2'. inversion R2'; subst pl' hb'.
  rewrite Hh in Hh'. inversion Hh'; subst hd'.
  rewrite Hi in Hi'. inversion Hi'; subst iss'. contradiction.
Qed.
Print Assumptions C02_family_mismatch.

Example C02_family_mismatch_nonvacuous :
  is_ok (verify Ex.o Ex.pres (fun _ _ => Ex.k_rsa) None None Compact 5) = false /\
  is_ok (verify Ex.o Ex.pres (fun _ _ => Ex.k_iss) None None Compact 5) = true.
Proof. vm_compute. split; reflexivity. Qed.

(* (d) giving only one of expected_aud / expected_nonce is never accepted *)
Theorem C02_half_kb_args : forall o input resolver x fmt now,
  is_ok (verify o input resolver (Some x) None fmt now) = false /\
  is_ok (verify o input resolver None (Some x) fmt now) = false.
Proof.
  intros o input resolver x fmt now. split.
  - destruct (verify o input resolver (Some x) None fmt now) as [V| | | |] eqn:E; try reflexivity.
    apply verify_accept_checked in E as (? & ? & ? & ? & ? & ? & ? & ? & ? & ? & _ & _ & _ & []).
  - destruct (verify o input resolver None (Some x) fmt now) as [V| | | |] eqn:E; try reflexivity.
    apply verify_accept_checked in E as (? & ? & ? & ? & ? & ? & ? & ? & ? & ? & _ & _ & _ & []).
Qed.
Print Assumptions C02_half_kb_args.

(* ---- C09: the validity window -------------------------------------- *)

Theorem C09_window : forall o input resolver ea en fmt now V,
  verify o input resolver ea en fmt now = Ok V ->
  exists p dm hd iss sg msg pl hb raw payload,
    parse_sd_jwt fmt input = Ok p /\
    issuer_checked o resolver now p dm hd iss sg msg pl hb raw payload /\
    extract_sd_claims dm payload = Ok V /\
    (exists e, numeric_claim (lit "exp") payload = Ok (Parsed e) /\
               N.ltb e (now - LEEWAY) = false /\ now <= e + LEEWAY) /\
    (forall n, numeric_claim (lit "nbf") payload = Ok (Parsed n) ->
               N.ltb (now + LEEWAY) n = false /\ n <= now + LEEWAY).
Proof.
  intros o input resolver ea en fmt now V E.
  apply verify_accept_checked in E as (p & dm & hd & iss & sg & msg & pl & hb & raw & payload & Hp & C & X & _).
  exists p, dm, hd, iss, sg, msg, pl, hb, raw, payload.
  split; [exact Hp|]. split; [exact C|]. split; [exact X|].
  unfold issuer_checked in C. destruct C as (_ & _ & _ & _ & _ & _ & _ & _ & _ & _ & Hv).
  apply validate_issuer_inv in Hv as (_ & (e & He & Le) & Hn & _).
  split.
  - exists e. split; [exact He|]. split; [exact Le|]. apply N.ltb_ge in Le. unfold LEEWAY in *. lia.
  - intros n Nn. specialize (Hn n Nn). split; [exact Hn|]. apply N.ltb_ge in Hn. exact Hn.
Qed.
Print Assumptions C09_window.

Example C09_window_nonvacuous :
  is_ok (verify Ex.o Ex.pres Ex.resolver None None Compact 160) = true /\     (* exp = 100, leeway 60 *)
  is_ok (verify Ex.o Ex.pres Ex.resolver None None Compact 161) = false.
Proof. vm_compute. split; reflexivity. Qed.

(* converse direction: inside the window, validate does not reject *)
Theorem C09_in_window_not_rejected : forall alg raw m now e,
  (forall k, In k spec_claims -> (count_key k raw <= 1)%nat) ->
  (obj_get (lit "sub") m = None \/ obj_get (lit "sub") m = Some JNull \/ exists s, obj_get (lit "sub") m = Some (JStr s)) ->
  numeric_claim (lit "exp") m = Ok (Parsed e) -> now - LEEWAY <= e ->
  (numeric_claim (lit "nbf") m = Ok NotPresent \/ numeric_claim (lit "nbf") m = Ok FailedToParse \/
   exists n, numeric_claim (lit "nbf") m = Ok (Parsed n) /\ n <= now + LEEWAY) ->
  (forall x, aud_claim m <> Parsed x) ->
  validate (issuer_validation alg) raw m now = Ok tt.
Proof. exact validate_in_window. Qed.
Print Assumptions C09_in_window_not_rejected.

Example C09_in_window_nonvacuous :
  let m := [(lit "iss", JStr (lit "i")); (lit "exp", JNum (lit "100")); (lit "nbf", JNum (lit "90"))] in
  numeric_claim (lit "exp") m = Ok (Parsed 100) /\ numeric_claim (lit "nbf") m = Ok (Parsed 90) /\
  aud_claim m = NotPresent /\ obj_get (lit "sub") m = None /\
  validate (issuer_validation (lit "ES256")) m m 30 = Ok tt /\
  validate (issuer_validation (lit "ES256")) m m 29 = Err "ImmatureSignature".
Proof. vm_compute. repeat split; reflexivity. Qed.

(* ---- C04: key binding is enforced ----------------------------------- *)

Theorem C04_kb_enforced : forall o input resolver a n fmt now V,
  verify o input resolver (Some a) (Some n) fmt now = Ok V ->
  exists p dm ihd iss isg imsg ipl ihb iraw payload,
    parse_sd_jwt fmt input = Ok p /\
    issuer_checked o resolver now p dm ihd iss isg imsg ipl ihb iraw payload /\
    extract_sd_claims dm payload = Ok V /\
    exists kb cnf jwk hk sg msg pl hb hd raw claims,
      p_kb p = Some kb /\
      obj_get CNF_KEY payload = Some (JObj cnf) /\ obj_get JWK_KEY cnf = Some jwk /\ jwk_key o jwk = Some hk /\
      rsplit_dot kb = Some (sg, msg) /\ rsplit_dot msg = Some (pl, hb) /\ header_from_encoded hb = Ok hd /\
      mem_str (hd_alg hd) alg_names = true /\
      alg_family (hd_alg hd) = Some (kfam hk) /\
      sig_ok o (hd_alg hd) hk msg sg = true /\
      hd_typ hd = Some KB_JWT_TYP_HEADER /\
      (exists text, base64url_decode_text pl = Some text /\ parse_json_raw text = Some (JObj raw)) /\
      dedup (JObj raw) = JObj claims /\
      validate (kb_validation (hd_alg hd) a) raw claims now = Ok tt /\
      obj_get (lit "nonce") claims = Some (JStr n) /\
      (aud_claim claims = Parsed (AudSingle a) \/ exists l, aud_claim claims = Parsed (AudMultiple l) /\ In a l) /\
      (forall e, numeric_claim (lit "exp") claims = Ok (Parsed e) -> N.ltb e (now - LEEWAY) = false) /\
      obj_get KB_DIGEST_KEY claims = Some (JStr (sd_hash_of o (p_jwt p) (p_disclosures p))).
Proof.
  intros o input resolver a n fmt now V E.
  apply verify_accept_checked in E as (p & dm & hd & iss & sg & msg & pl & hb & raw & payload & Hp & C & X & K).
  exists p, dm, hd, iss, sg, msg, pl, hb, raw, payload.
  split; [exact Hp|]. split; [exact C|]. split; [exact X|].
  apply verify_key_binding_inv in K
    as (kb & cnf & jwk & hk & ksg & kmsg & kpl & khb & khd & kraw & claims & K).
  exists kb, cnf, jwk, hk, ksg, kmsg, kpl, khb, khd, kraw, claims. exact K.
Qed.
Print Assumptions C04_kb_enforced.

(* the key binding check alone: the claims it examines are a function of the KB-JWT text *)
Lemma kb_checked_fun : forall o p payload a n now kb cnf jwk hk sg msg pl hb hd raw claims
                              p' payload' a' n' now' cnf' jwk' hk' sg' msg' pl' hb' hd' raw' claims',
  kb_checked o p payload a n now kb cnf jwk hk sg msg pl hb hd raw claims ->
  kb_checked o p' payload' a' n' now' kb cnf' jwk' hk' sg' msg' pl' hb' hd' raw' claims' ->
  claims = claims'.
Proof.
  unfold kb_checked. intros.
  repeat match goal with H : _ /\ _ |- _ => destruct H end.
  repeat match goal with H : exists _, _ |- _ => destruct H end.
  repeat match goal with H : _ /\ _ |- _ => destruct H end.
  match goal with A : rsplit_dot kb = Some (sg, msg), B : rsplit_dot kb = Some (sg', msg') |- _ =>
    rewrite A in B; inversion B; subst sg' msg' end.
  match goal with A : rsplit_dot msg = Some (pl, hb), B : rsplit_dot msg = Some (pl', hb') |- _ =>
    rewrite A in B; inversion B; subst pl' hb' end.
  match goal with A : base64url_decode_text pl = Some ?t, B : base64url_decode_text pl = Some ?t' |- _ =>
    rewrite A in B; inversion B; subst end.
  match goal with A : parse_json_raw ?t = Some (JObj raw), B : parse_json_raw ?t = Some (JObj raw') |- _ =>
    rewrite A in B; inversion B; subst raw' end.
  match goal with A : dedup (JObj raw) = JObj claims, B : dedup (JObj raw) = JObj claims' |- _ =>
    rewrite A in B; inversion B; reflexivity end.
Qed.

(* With an injective digest, a KB-JWT accepted together with (jwt, disclosures) is accepted
   with no other (jwt', disclosures'): adding, removing or reordering disclosures, or moving
   the KB-JWT to another credential, breaks sd_hash. *)
Theorem C04_sd_hash_binds : forall o p p' payload payload' a a' n n' now now',
  (forall x y, H o x = H o y -> x = y) ->
  p_kb p = p_kb p' ->
  tilde_free (p_jwt p) -> Forall tilde_free (p_disclosures p) ->
  tilde_free (p_jwt p') -> Forall tilde_free (p_disclosures p') ->
  verify_key_binding o p payload a n now = Ok tt ->
  verify_key_binding o p' payload' a' n' now' = Ok tt ->
  p_jwt p = p_jwt p' /\ p_disclosures p = p_disclosures p'.
Proof.
  intros o p p' payload payload' a a' n n' now now' Inj Kb F1 F2 F3 F4 E E'.
  apply verify_key_binding_inv in E as (kb & cnf & jwk & hk & sg & msg & pl & hb & hd & raw & claims & K).
  apply verify_key_binding_inv in E' as (kb' & cnf' & jwk' & hk' & sg' & msg' & pl' & hb' & hd' & raw' & claims' & K').
  assert (kb' = kb).
  { destruct K as (A & _). destruct K' as (A' & _). rewrite Kb in A. rewrite A in A'. inversion A'. reflexivity. }
  subst kb'.
  pose proof (kb_checked_fun _ _ _ _ _ _ _ _ _ _ _ _ _ _ _ _ _ _ _ _ _ _ _ _ _ _ _ _ _ _ _ _ K K') as Ec.
  subst claims'.
  unfold kb_checked in K, K'.
  destruct K as (_ & _ & _ & _ & _ & _ & _ & _ & _ & _ & _ & _ & _ & _ & _ & _ & _ & D).
  destruct K' as (_ & _ & _ & _ & _ & _ & _ & _ & _ & _ & _ & _ & _ & _ & _ & _ & _ & D').
  rewrite D in D'. inversion D' as [S].
  eapply sd_hash_of_inj; eassumption.
Qed.
Print Assumptions C04_sd_hash_binds.

(* the same for two accepted compact presentations carrying the same KB-JWT *)
Corollary C04_kb_replay_compact : forall o input input' resolver resolver' a a' n n' now now' V V' p p',
  (forall x y, H o x = H o y -> x = y) ->
  parse_sd_jwt Compact input = Ok p -> parse_sd_jwt Compact input' = Ok p' ->
  p_kb p = p_kb p' ->
  verify o input resolver (Some a) (Some n) Compact now = Ok V ->
  verify o input' resolver' (Some a') (Some n') Compact now' = Ok V' ->
  p_jwt p = p_jwt p' /\ p_disclosures p = p_disclosures p'.
Proof.
  intros o input input' resolver resolver' a a' n n' now now' V V' p p' Inj Hp Hp' Kb E E'.
  apply verify_accept_checked in E as (q & ? & ? & ? & ? & ? & ? & ? & ? & payload & Hq & _ & _ & K).
  apply verify_accept_checked in E' as (q' & ? & ? & ? & ? & ? & ? & ? & ? & payload' & Hq' & _ & _ & K').
  rewrite Hp in Hq. inversion Hq; subst q. rewrite Hp' in Hq'. inversion Hq'; subst q'.
  cbn [parse_sd_jwt] in Hp, Hp'.
  destruct (parse_compact_tilde_free _ _ Hp) as [F1 F2]. destruct (parse_compact_tilde_free _ _ Hp') as [F3 F4].
  eapply C04_sd_hash_binds; eassumption.
Qed.
Print Assumptions C04_kb_replay_compact.

Example C04_nonvacuous :
  (forall x y, H Ex.o x = H Ex.o y -> x = y) /\
  verify Ex.o Ex.pres Ex.resolver (Some (lit "v")) (Some (lit "n")) Compact 5 = Ok Ex.disclosed /\
  (* wrong nonce, wrong audience *)
  is_ok (verify Ex.o Ex.pres Ex.resolver (Some (lit "v")) (Some (lit "m")) Compact 5) = false /\
  is_ok (verify Ex.o Ex.pres Ex.resolver (Some (lit "w")) (Some (lit "n")) Compact 5) = false /\
  (* the same KB-JWT with the disclosure dropped: jwt ~ kb *)
  match parse_sd_jwt Compact Ex.pres with
  | Ok p =>
      match p_kb p with
      | Some kb =>
          let stripped := join_with [126] [p_jwt p; kb] in
          is_ok (verify Ex.o stripped Ex.resolver None None Compact 5) = true /\
          is_ok (verify Ex.o stripped Ex.resolver (Some (lit "v")) (Some (lit "n")) Compact 5) = false
      | None => False
      end
  | _ => False
  end.
Proof.
  split; [intros x y E; exact E|]. vm_compute. repeat split; reflexivity.
Qed.

(* ---- C10: the verifier core does not depend on the serialization format ---- *)

Theorem C10_verify_factors : forall o input resolver ea en fmt now,
  verify o input resolver ea en fmt now =
  bind (parse_sd_jwt fmt input) (fun p => verify_parsed o p resolver ea en now).
Proof. reflexivity. Qed.

Theorem C10_format_independent : forall o p1 p2 resolver ea en now,
  parsed_agree p1 p2 ->
  outcome_sim eq (verify_parsed o p1 resolver ea en now) (verify_parsed o p2 resolver ea en now).
Proof.
  intros o p1 p2 resolver ea en now (J & P & D & S & K). unfold verify_parsed.
  rewrite J, P, D, S.
  apply outcome_sim_bind; intros dm.
  apply outcome_sim_bind; intros hd.
  apply outcome_sim_bind; intros iss. cbv zeta.
  apply outcome_sim_bind; intros alg.
  apply outcome_sim_bind; intros [hd' payload].
  apply outcome_sim_bind; intros claims.
  destruct ea as [a|], en as [n|]; try apply outcome_sim_eq_refl.
  destruct K as [K|[[K1 K2]|[K1 K2]]].
  - rewrite (vkb_ext o p1 p2 payload a n now K J D). apply outcome_sim_eq_refl.
  - pose proof (vkb_no_kb o p1 payload a n now K1) as E1. pose proof (vkb_empty_kb o p2 payload a n now K2) as E2.
    destruct (verify_key_binding o p1 payload a n now); try discriminate E1.
    destruct (verify_key_binding o p2 payload a n now); try discriminate E2. exact I.
  - pose proof (vkb_empty_kb o p1 payload a n now K1) as E1. pose proof (vkb_no_kb o p2 payload a n now K2) as E2.
    destruct (verify_key_binding o p1 payload a n now); try discriminate E1.
    destruct (verify_key_binding o p2 payload a n now); try discriminate E2. exact I.
Qed.
Print Assumptions C10_format_independent.

(* when the key bindings are equal the two results are equal, error texts included *)
Theorem C10_format_independent_eq : forall o p1 p2 resolver ea en now,
  p_jwt p1 = p_jwt p2 -> p_payload p1 = p_payload p2 -> p_disclosures p1 = p_disclosures p2 ->
  p_sign_alg p1 = p_sign_alg p2 -> p_kb p1 = p_kb p2 ->
  verify_parsed o p1 resolver ea en now = verify_parsed o p2 resolver ea en now.
Proof.
  intros o p1 p2 resolver ea en now J P D S K. unfold verify_parsed. rewrite J, P, D, S.
  apply bind_ext; intros dm. apply bind_ext; intros hd. apply bind_ext; intros iss. cbv zeta.
  apply bind_ext; intros alg. apply bind_ext; intros [hd' payload]. apply bind_ext; intros claims.
  destruct ea as [a|], en as [n|]; try reflexivity.
  rewrite (vkb_ext o p1 p2 payload a n now K J D). reflexivity.
Qed.
Print Assumptions C10_format_independent_eq.

Example C10_nonvacuous :
  match parse_sd_jwt Compact Ex.pres with
  | Ok p =>
      let pj := {| p_fmt := JSONFmt; p_jwt := p_jwt p; p_payload := p_payload p; p_disclosures := p_disclosures p;
                   p_kb := p_kb p; p_sign_alg := p_sign_alg p; p_json := Some ([], [], []) |} in
      let p0 := {| p_fmt := Compact; p_jwt := p_jwt p; p_payload := p_payload p; p_disclosures := p_disclosures p;
                   p_kb := Some []; p_sign_alg := p_sign_alg p; p_json := None |} in
      let pn := {| p_fmt := JSONFmt; p_jwt := p_jwt p; p_payload := p_payload p; p_disclosures := p_disclosures p;
                   p_kb := None; p_sign_alg := p_sign_alg p; p_json := None |} in
      parsed_agree p pj /\ parsed_agree p0 pn /\
      verify_parsed Ex.o pj Ex.resolver (Some (lit "v")) (Some (lit "n")) 5 = Ok Ex.disclosed /\
      is_err (verify_parsed Ex.o p0 Ex.resolver (Some (lit "v")) (Some (lit "n")) 5) = true /\
      is_err (verify_parsed Ex.o pn Ex.resolver (Some (lit "v")) (Some (lit "n")) 5) = true /\
      verify_parsed Ex.o pn Ex.resolver None None 5 = Ok Ex.disclosed
  | _ => False
  end.
Proof.
  vm_compute. unfold parsed_agree, kb_related. cbn. repeat split; auto.
Qed.

(* ---- C13: reserved member names are rejected by the issuer -------------- *)

Theorem C13_has_reserved_spec : forall v, has_reserved v = true <-> HasReservedMember v.
Proof.
  intros v. split.
  - induction v as [|b0|n0|s0|l IHl|m IHm] using json_ind'; intros E; try discriminate E.
    + rewrite has_reserved_arr in E. apply existsb_exists in E as [x [I E]].
      rewrite Forall_forall in IHl. eapply HR_elem; [exact I | apply IHl; assumption].
    + rewrite has_reserved_obj in E. apply existsb_exists in E as [[k x] [I E]]. cbn [fst snd] in E.
      apply orb_true_iff in E as [E|E].
      * apply orb_true_iff in E as [E|E]; apply str_eqb_eq in E; eapply HR_here; [exact I | auto | exact I | auto].
      * rewrite Forall_forall in IHm. eapply HR_member; [exact I | apply (IHm (k, x) I); exact E].
  - intros R. induction R as [m k v I N|m k v I R IH|l v I R IH].
    + rewrite has_reserved_obj. apply existsb_exists. exists (k, v). split; [exact I|]. cbn [fst snd].
      destruct N as [->| ->]; rewrite str_eqb_refl; [reflexivity | apply orb_true_iff; left; apply orb_true_r].
    + rewrite has_reserved_obj. apply existsb_exists. exists (k, v). split; [exact I|]. cbn [fst snd].
      rewrite IH. apply orb_true_r.
    + rewrite has_reserved_arr. apply existsb_exists. exists v. split; assumption.
Qed.
Print Assumptions C13_has_reserved_spec.

Theorem C13_reserved_rejected : forall o alg k claims s hj decoy fmt r,
  has_reserved claims = true ->
  exists e, issue o alg k claims s hj decoy fmt r = Err e.
Proof.
  intros o alg k claims s hj decoy fmt r E. unfold issue.
  destruct (finalize_input_returns s) as [[s' F]|F]; rewrite F; cbn [bind].
  - rewrite E. eexists. reflexivity.
  - eexists. reflexivity.
Qed.
Print Assumptions C13_reserved_rejected.

Corollary C13_reserved_member_rejected : forall o alg k claims s hj decoy fmt r,
  HasReservedMember claims ->
  exists e, issue o alg k claims s hj decoy fmt r = Err e.
Proof. intros. apply C13_reserved_rejected. apply C13_has_reserved_spec. assumption. Qed.

(* conversely, without a reserved member name the issuer never reports that error *)
Theorem C13_no_false_alarm : forall o alg k claims s hj decoy fmt r,
  has_reserved claims = false ->
  issue o alg k claims s hj decoy fmt r <> Err "Claim object cannot have a reserved field".
Proof.
  intros o alg k claims s hj decoy fmt r E. unfold issue.
  destruct (finalize_input_returns s) as [[s' F]|F]; rewrite F; cbn [bind]; [|discriminate].
  rewrite E.
  destruct claims as [| | | | |m]; try discriminate.
  destruct (pull_always ALWAYS_REVEALED m []) as [always rest].
  pose proof (create_sd_claims_no_err o decoy (JObj rest) s' {| i_rng := r; i_disclosures := [] |}) as NE.
  destruct (create_sd_claims o decoy (JObj rest) s' {| i_rng := r; i_disclosures := [] |}) as [[body st]| | | |];
    cbn [bind]; [ | discriminate NE | discriminate | discriminate | discriminate ].
  destruct body as [| | | | |b]; try discriminate.
  unfold jwt_encode.
  destruct (alg_family alg) as [f|]; [|discriminate].
  destruct (negb (family_eqb (kfam k) f)); [discriminate|]. cbn [bind].
  unfold serialize_issued. destruct fmt; cbn [bind]; [discriminate|].
  match goal with |- context [split_on 46 ?j] => destruct (split_on 46 j) as [|x1 [|x2 [|x3 [|x4 xs]]]] end;
    cbn [bind]; discriminate.
Qed.
Print Assumptions C13_no_false_alarm.

Example C13_nonvacuous :
  let deep := JObj [(lit "a", JArr [JNum (lit "1"); JObj [(lit "b", JObj [(lit "...", JNull)])]])] in
  let plain := JObj [(lit "a", JArr [JNum (lit "1"); JObj [(lit "b", JObj [(lit "_sdx", JNull)])]])] in
  has_reserved deep = true /\
  issue Ex.o0 (lit "ES256") Ex.k_iss deep NoSDClaims None false Compact Ex.r
    = Err "Claim object cannot have a reserved field" /\
  has_reserved plain = false /\
  is_ok (issue Ex.o0 (lit "ES256") Ex.k_iss plain NoSDClaims None false Compact Ex.r) = true /\
  has_reserved (JObj [(lit "x", JObj [(lit "_sd", JArr [])])]) = true.
Proof. vm_compute. repeat split; reflexivity. Qed.

Example C13_spec_nonvacuous :
  HasReservedMember (JObj [(lit "a", JArr [JNum (lit "1"); JObj [(lit "b", JObj [(SD_LIST_PREFIX, JNull)])]])]).
Proof.
  eapply HR_member; [left; reflexivity|]. eapply HR_elem; [right; left; reflexivity|].
  eapply HR_member; [left; reflexivity|]. eapply HR_here; [left; reflexivity | right; reflexivity].
Qed.

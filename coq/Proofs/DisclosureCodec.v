(* Proofs/DisclosureCodec.v — the codec law of disclosures: the text built by
   Codec/DisclosureText.v (both builds: compact, and Python-spaced for the
   deterministic-salt build; raw or \u-escaped value) parses back to the array
   [salt, name?, value], and base64url(UTF-8(text)) decodes back to the text. *)
From SDJWT Require Import Base.Json Base.JsonFacts Codec.Base64 Codec.Utf8 Codec.JsonPrint Codec.JsonParse
  Codec.DisclosureText Model.Common Proofs.JsonRoundtrip.
From Coq Require Import Lia.

(* salts made of printable ASCII characters that need no escaping
   (base64url salts are of this kind) *)
Definition plain_char (c : N) : bool :=
  N.leb 32 c && N.ltb c 127 && negb (N.eqb c 34) && negb (N.eqb c 92).
Definition plain_salt (s : str) : bool := forallb plain_char s.

Lemma plain_char_spec : forall c, plain_char c = true -> 32 <= c /\ c < 127 /\ c <> 34 /\ c <> 92.
Proof.
  unfold plain_char. intros c H.
  repeat (apply andb_true_iff in H as [H ?]).
  apply N.leb_le in H. apply N.ltb_lt in H2. apply negb_true_iff, N.eqb_neq in H1, H0. auto.
Qed.

Lemma plain_print_chars : forall s k, plain_salt s = true -> print_chars s k = s ++ k.
Proof.
  induction s as [|c s IH]; intros k H; [reflexivity|].
  cbn in H. apply andb_true_iff in H as [Hc H]. apply plain_char_spec in Hc as [A [B [C D]]].
  cbn [print_chars app]. rewrite IH by assumption. unfold esc_char.
  destruct (N.eqb_spec c 34); [contradiction|]. destruct (N.eqb_spec c 92); [contradiction|].
  destruct (N.ltb_spec c 32); [lia|]. reflexivity.
Qed.

Lemma plain_print_string : forall s k, plain_salt s = true -> print_string s k = 34 :: s ++ 34 :: k.
Proof. intros. unfold print_string. rewrite plain_print_chars by assumption. reflexivity. Qed.

Lemma plain_scalar : forall s, plain_salt s = true -> scalar_str s = true.
Proof.
  intros s H. unfold scalar_str, plain_salt in *. rewrite forallb_forall in *. intros c Hc.
  apply H in Hc. apply plain_char_spec in Hc. apply scalar_ascii. lia.
Qed.

(* ---- the shape of the text ---- *)

Lemma disclosure_text_some : forall mock salt n v, plain_salt salt = true ->
  disclosure_text mock salt (Some n) v =
  91 :: print_string salt (44 :: 32 :: print_string n (44 :: 32 :: value_text mock v ++ [93])).
Proof.
  intros mock salt n v Hs. unfold disclosure_text, name_text.
  change (lit "[""") with [91; 34]. change (lit """, ") with [34; 44; 32].
  change (lit ", ") with [44; 32]. change (lit "]") with [93].
  rewrite (plain_print_string salt) by assumption. rewrite print_string_app.
  cbn [app]. rewrite <- ?app_assoc. reflexivity.
Qed.

Lemma disclosure_text_none : forall mock salt v, plain_salt salt = true ->
  disclosure_text mock salt None v =
  91 :: print_string salt (44 :: 32 :: value_text mock v ++ [93]).
Proof.
  intros mock salt v Hs. unfold disclosure_text.
  change (lit "[""") with [91; 34]. change (lit """, ") with [34; 44; 32]. change (lit "]") with [93].
  rewrite (plain_print_string salt) by assumption.
  cbn [app]. rewrite <- ?app_assoc. reflexivity.
Qed.

(* value_text is the compact (or, for mock, spaced) text, raw or \u-escaped *)
Lemma value_text_cases : forall mock v, nums_ok v = true ->
  value_text mock v = print_k mock v []
  \/ value_text mock v = escape_unicode_chars (print_k mock v []).
Proof.
  intros mock v Hv. unfold value_text.
  assert (E : (if mock then spacing (print v) false false else print v) = print_k mock v []).
  { destruct mock; [apply spacing_print; exact Hv|reflexivity]. }
  rewrite E. destruct (is_ascii_str (print_k mock v [])); [left|right]; reflexivity.
Qed.

(* "the Python-style spacing of the deterministic-salt build never changes a
   claim's value": value_text parses back to v in both builds *)
Theorem parse_val_value_text : forall mock v fuel d k,
  vok scalar_str v = true -> (fv v <= fuel)%nat -> (nd v < d)%nat -> tok_end k = true ->
  parse_val fuel d (value_text mock v ++ k) = Some (v, k).
Proof.
  intros mock v fuel d k Hv Hf Hd Hk.
  pose proof (vok_nums_ok _ _ Hv) as Hn.
  destruct (value_text_cases mock v Hn) as [E|E]; rewrite E.
  - rewrite print_k_app by assumption. apply parse_val_print_k; assumption.
  - apply parse_val_escaped; assumption.
Qed.

Lemma value_text_len : forall mock v, vok scalar_str v = true ->
  (fv v + 1 <= 2 * List.length (value_text mock v))%nat.
Proof.
  intros mock v Hv. pose proof (vok_nums_ok _ _ Hv) as Hn.
  destruct (value_text_cases mock v Hn) as [E|E]; rewrite E.
  - rewrite print_k_gprint.
    pose proof (gprint_len print_string scalar_str print_string_len v Hv mock []). cbn [List.length] in *. lia.
  - rewrite euc_gprint by assumption. cbn [escape_unicode_chars].
    pose proof (gprint_len eprint_string scalar_str eprint_string_len v Hv mock []). cbn [List.length] in *. lia.
Qed.

Theorem parse_json_value_text : forall mock v, val_ok v = true -> wf_json v = true ->
  parse_json (value_text mock v) = Some v.
Proof.
  intros mock v Hv Hw. apply val_ok_at_spec in Hv as [Hv Hd]. apply parse_json_of_raw; [|exact Hw].
  unfold parse_json_raw. rewrite <- (app_nil_r (value_text mock v)) at 2.
  rewrite parse_val_value_text; try assumption; try reflexivity.
  pose proof (value_text_len mock v Hv). lia.
Qed.

(* ---- elements of the outer array ---- *)

Lemma elems_step_more : forall f d s acc x r,
  parse_val f d s = Some (x, 44 :: 32 :: r) ->
  parse_elems (S f) d s acc = parse_elems f d r (x :: acc).
Proof. intros f d s acc x r H. rewrite parse_elems_S, H. cbn [skip_ws is_ws N.eqb Pos.eqb orb]. apply parse_elems_ws. Qed.

Lemma elems_step_last : forall f d s acc x r,
  parse_val f d s = Some (x, 93 :: r) ->
  parse_elems (S f) d s acc = Some (JArr (rev (x :: acc)), r).
Proof. intros f d s acc x r H. rewrite parse_elems_S, H. reflexivity. Qed.

Lemma parse_val_str_k : forall f d s k,
  parse_val (S f) d (print_string s k) = Some (JStr s, k).
Proof.
  intros f d s k. change (print_string s k) with (34 :: print_chars s (34 :: k)).
  rewrite parse_val_str. change (34 :: print_chars s (34 :: k)) with (print_string s k).
  rewrite parse_print_string. reflexivity.
Qed.

Lemma parse_val_open_str : forall f d s k,
  parse_val (S f) (S (S d)) (91 :: print_string s k) = parse_elems f (S d) (print_string s k) [].
Proof.
  intros f d s k. rewrite parse_val_arr.
  change (print_string s k) with (34 :: print_chars s (34 :: k)). reflexivity.
Qed.

(* a claim value fit for a disclosure: as val_ok, but one nesting level is
   taken by the disclosure array itself *)
Definition claim_ok (v : json) : bool := val_ok_at (MAX_DEPTH - 1) v.

Lemma claim_ok_val_ok : forall v, claim_ok v = true -> val_ok v = true.
Proof.
  intros v H. apply val_ok_at_spec in H as [H1 H2]. apply val_ok_at_spec. split; [exact H1|].
  unfold MAX_DEPTH in *. lia.
Qed.

Theorem disclosure_parse_raw_some : forall mock salt n v,
  plain_salt salt = true -> claim_ok v = true ->
  parse_json_raw (disclosure_text mock salt (Some n) v) = Some (JArr [JStr salt; JStr n; v]).
Proof.
  intros mock salt n v Hs Hv. apply val_ok_at_spec in Hv as [Hv Hd].
  rewrite disclosure_text_some by assumption. unfold parse_json_raw.
  set (K2 := 44 :: 32 :: value_text mock v ++ [93]).
  set (K1 := 44 :: 32 :: print_string n K2).
  set (L := List.length (91 :: print_string salt K1)).
  assert (F : (fv v + 4 <= 2 * L + 2)%nat).
  { pose proof (print_string_len salt K1) as L1. pose proof (print_string_len n K2) as L2.
    pose proof (value_text_len mock v Hv) as L3.
    subst L K1 K2. cbn [List.length] in *. rewrite app_length in *. cbn [List.length] in *. lia. }
  destruct (2 * L + 2)%nat as [|[|[|[|f]]]]; try lia. assert (Hf : (fv v <= f)%nat) by lia. clear F.
  change MAX_DEPTH with (S (S 126)) in *.
  rewrite parse_val_open_str.
  subst K1. rewrite (elems_step_more _ _ _ _ _ _ (parse_val_str_k _ _ salt _)).
  subst K2. rewrite (elems_step_more _ _ _ _ _ _ (parse_val_str_k _ _ n _)).
  rewrite (elems_step_last f 127 (value_text mock v ++ [93]) _ v []).
  - reflexivity.
  - apply parse_val_value_text; try assumption; reflexivity.
Qed.

Theorem disclosure_parse_raw_none : forall mock salt v,
  plain_salt salt = true -> claim_ok v = true ->
  parse_json_raw (disclosure_text mock salt None v) = Some (JArr [JStr salt; v]).
Proof.
  intros mock salt v Hs Hv. apply val_ok_at_spec in Hv as [Hv Hd].
  rewrite disclosure_text_none by assumption. unfold parse_json_raw.
  set (K1 := 44 :: 32 :: value_text mock v ++ [93]).
  set (L := List.length (91 :: print_string salt K1)).
  assert (F : (fv v + 3 <= 2 * L + 2)%nat).
  { pose proof (print_string_len salt K1) as L1.
    pose proof (value_text_len mock v Hv) as L3.
    subst L K1. cbn [List.length] in *. rewrite app_length in *. cbn [List.length] in *. lia. }
  destruct (2 * L + 2)%nat as [|[|[|f]]]; try lia. assert (Hf : (fv v <= f)%nat) by lia. clear F.
  change MAX_DEPTH with (S (S 126)) in *.
  rewrite parse_val_open_str.
  subst K1. rewrite (elems_step_more _ _ _ _ _ _ (parse_val_str_k _ _ salt _)).
  rewrite (elems_step_last f 127 (value_text mock v ++ [93]) _ v []).
  - reflexivity.
  - apply parse_val_value_text; try assumption; reflexivity.
Qed.

(* Step 4: the codec law *)
Theorem disclosure_codec_some : forall mock salt n v,
  plain_salt salt = true -> claim_ok v = true -> wf_json v = true ->
  parse_json (disclosure_text mock salt (Some n) v) = Some (JArr [JStr salt; JStr n; v]).
Proof.
  intros mock salt n v Hs Hv Hw. apply parse_json_of_raw.
  - apply disclosure_parse_raw_some; assumption.
  - cbn [wf_json forallb]. rewrite Hw. reflexivity.
Qed.

Theorem disclosure_codec_none : forall mock salt v,
  plain_salt salt = true -> claim_ok v = true -> wf_json v = true ->
  parse_json (disclosure_text mock salt None v) = Some (JArr [JStr salt; v]).
Proof.
  intros mock salt v Hs Hv Hw. apply parse_json_of_raw.
  - apply disclosure_parse_raw_none; assumption.
  - cbn [wf_json forallb]. rewrite Hw. reflexivity.
Qed.
Print Assumptions disclosure_codec_some.
Print Assumptions disclosure_codec_none.

(* ---- the transport encoding: base64url over UTF-8 ---- *)

Theorem base64url_text_roundtrip : forall t, scalar_str t = true ->
  base64url_decode_text (base64url_encode_str t) = Some t.
Proof.
  intros t Ht. apply scalar_str_scalars in Ht. unfold base64url_decode_text, base64url_encode_str.
  rewrite b64_decode_encode by (apply utf8_encode_bytes; exact Ht).
  apply utf8_decode_encode. exact Ht.
Qed.
Print Assumptions base64url_text_roundtrip.

Lemma scalar_value_text : forall mock v, vok scalar_str v = true -> scalar_str (value_text mock v) = true.
Proof.
  intros mock v Hv. destruct (value_text_cases mock v (vok_nums_ok _ _ Hv)) as [E|E]; rewrite E.
  - rewrite scalar_print_k by assumption. reflexivity.
  - apply scalar_escaped_print_k. exact Hv.
Qed.

(* the disclosure text is a sequence of scalar values (a Rust String) when its ingredients are *)
Theorem scalar_disclosure_text : forall mock salt name v,
  plain_salt salt = true -> match name with Some n => scalar_str n = true | None => True end ->
  vok scalar_str v = true ->
  scalar_str (disclosure_text mock salt name v) = true.
Proof.
  intros mock salt name v Hs Hn Hv. pose proof (plain_scalar salt Hs) as Hs'.
  pose proof (scalar_value_text mock v Hv) as Ht. unfold scalar_str in *.
  destruct name as [n|].
  - rewrite disclosure_text_some by assumption. cbn [forallb].
    rewrite scalar_print_string by assumption. cbn [forallb].
    rewrite scalar_print_string by assumption. cbn [forallb].
    rewrite forallb_app, Ht. reflexivity.
  - rewrite disclosure_text_none by assumption. cbn [forallb].
    rewrite scalar_print_string by assumption. cbn [forallb].
    rewrite forallb_app, Ht. reflexivity.
Qed.
Print Assumptions scalar_disclosure_text.

(* what the verifier sees after base64url-decoding an issued disclosure *)
Corollary disclosure_wire_some : forall mock salt n v,
  plain_salt salt = true -> scalar_str n = true -> claim_ok v = true -> wf_json v = true ->
  match base64url_decode_text (base64url_encode_str (disclosure_text mock salt (Some n) v)) with
  | Some t => parse_json t
  | None => None
  end = Some (JArr [JStr salt; JStr n; v]).
Proof.
  intros mock salt n v Hs Hn Hv Hw.
  rewrite base64url_text_roundtrip.
  - apply disclosure_codec_some; assumption.
  - apply scalar_disclosure_text; try assumption. apply val_ok_at_spec in Hv. tauto.
Qed.

Corollary disclosure_wire_none : forall mock salt v,
  plain_salt salt = true -> claim_ok v = true -> wf_json v = true ->
  match base64url_decode_text (base64url_encode_str (disclosure_text mock salt None v)) with
  | Some t => parse_json t
  | None => None
  end = Some (JArr [JStr salt; v]).
Proof.
  intros mock salt v Hs Hv Hw.
  rewrite base64url_text_roundtrip.
  - apply disclosure_codec_none; assumption.
  - apply scalar_disclosure_text; try assumption; [exact I|]. apply val_ok_at_spec in Hv. tauto.
Qed.
Print Assumptions disclosure_wire_some.
Print Assumptions disclosure_wire_none.

(* ================================================================== *)
(*  Non-vacuity and sharpness                                          *)
(* ================================================================== *)

Definition sample_salt : str := lit "2GLC42sKQveCfGfryNRN9w".
Definition sample_name : str := [110; 128512; 34; 92; 10; 233].   (* n, U+1F600, quote, backslash, LF, e-acute *)

Example sample_premises :
  plain_salt sample_salt = true /\ scalar_str sample_name = true
  /\ claim_ok sample = true /\ wf_json sample = true.
Proof. vm_compute. repeat split; reflexivity. Qed.

Example sample_disclosure_false :
  parse_json (disclosure_text false sample_salt (Some sample_name) sample)
    = Some (JArr [JStr sample_salt; JStr sample_name; sample])
  /\ parse_json (disclosure_text false sample_salt None sample) = Some (JArr [JStr sample_salt; sample]).
Proof. vm_compute. split; reflexivity. Qed.

Example sample_disclosure_mock :
  parse_json (disclosure_text true sample_salt (Some sample_name) sample)
    = Some (JArr [JStr sample_salt; JStr sample_name; sample])
  /\ parse_json (disclosure_text true sample_salt None sample) = Some (JArr [JStr sample_salt; sample])
  /\ disclosure_text true sample_salt (Some sample_name) sample
     <> disclosure_text false sample_salt (Some sample_name) sample.
Proof. vm_compute. repeat split; try reflexivity. discriminate. Qed.

Example sample_wire :
  match base64url_decode_text (base64url_encode_str (disclosure_text true sample_salt (Some sample_name) sample)) with
  | Some t => parse_json t
  | None => None
  end = Some (JArr [JStr sample_salt; JStr sample_name; sample]).
Proof. vm_compute. reflexivity. Qed.

(* sharpness of claim_ok: a value with 127 nested containers is printed and
   parsed back on its own, but its disclosure (one level deeper) is rejected
   by the parser's recursion limit *)
Example depth_127_claim_rejected :
  val_ok (nest 126) = true /\ wf_json (nest 126) = true /\ claim_ok (nest 126) = false
  /\ parse_json (print (nest 126)) = Some (nest 126)
  /\ parse_json (disclosure_text false sample_salt (Some sample_name) (nest 126)) = None
  /\ parse_json (disclosure_text false sample_salt None (nest 126)) = None.
Proof. vm_compute. repeat split; reflexivity. Qed.

Example depth_126_claim_ok :
  claim_ok (nest 125) = true
  /\ parse_json (disclosure_text false sample_salt None (nest 125)) = Some (JArr [JStr sample_salt; nest 125]).
Proof. vm_compute. split; reflexivity. Qed.

(* sharpness of plain_salt: a quote in the salt breaks the array *)
Example salt_with_quote :
  parse_json (disclosure_text false [97; 34; 98] None JNull) = None.
Proof. vm_compute. reflexivity. Qed.

(* sharpness of scalar strings in the value: a lone surrogate next to a
   non-ASCII character is \u-escaped on its own and then rejected *)
Example lone_surrogate_value :
  parse_json (disclosure_text false sample_salt None (JStr [55296; 233])) = None
  /\ parse_json (print (JStr [55296; 233])) = Some (JStr [55296; 233]).
Proof. vm_compute. split; reflexivity. Qed.

(* Proofs/Transcode.v — property C10 at the level of input TEXTS.

   Re-expressing an SD-JWT or presentation given in one serialization format in
   the other one (same issuer-signed JWT, same disclosure list, same key-binding
   JWT) changes nothing observable: the verifier makes the same accept/reject
   decision and returns the same claims, for honest and tampered inputs alike,
   and a holder built from either form selects the same disclosures.

   An abstract presentation [x : apres] is (protected, payload, signature,
   disclosure strings, optional KB-JWT).  [compact_of x] is its compact text
   jwt~d1~...~dn~kb, [json_of style extra x] its JSON text as printed by the
   serde_json printer model, with the kb_jwt member absent or null when there is
   no KB-JWT, and with arbitrary unknown members appended.

   Contents
     1. split / join facts          split_on_join, join_split_on, split_last_snoc, split_last_inv
     2. parse_compact_of            parse_compact (compact_of x) = ...            (Theorem 1)
     3. parse_json_form_of          parse_json_form (json_of style extra x) = ... (Theorem 2)
     4. C10_parsed_agree            the two parse results agree / both Err         (Theorem 3)
        C10_verify_transcode        verifier: same decision, same claims           (Theorem 4)
     5. C10_holder_transcode, C10_holder_selects_same                              (Theorem 5)
        C10_present_transcode       what create_presentation returns from the two holders
     6. converse directions, for arbitrary spellings of the input text             (Theorem 6)
        parse_json_form_inv, C10_json_to_compact, C10_verify_json_to_compact   (any accepted JSON text -> compact)
        C10_json_respell, C10_verify_json_respell, C10_holder_json_respell     (any accepted JSON text -> printed JSON)
        compact_of_complete, C10_verify_compact_to_json    (any compact text with a three-part JWT -> JSON)
        task_conditions_imply, tilde_not_expressible, dot_not_expressible
     7. non-vacuity examples (Module TEx)

   Remarks on the side conditions.  The task statement asked for [scalar_str] on
   every string and for a non-empty KB-JWT.  Neither is needed: the raw printer
   round trip (JsonRoundtrip.parse_print_string) holds for every code point list,
   and an empty KB-JWT string behaves exactly like an absent one (kb_related).
   [wf_json] is not needed either, because parse_json_form works on the raw parse
   (repeated unknown member names are simply ignored).  The theorems are stated
   with the weaker conditions [fields_ok] / [extra_ok]; [task_conditions_imply]
   shows that the conditions of the task statement imply them. *)
From SDJWT Require Import Base.Json Base.JsonFacts Params Codec.Base64 Codec.Utf8 Codec.JsonPrint Codec.JsonParse
  Model.Common Model.Issuer Model.Holder Model.Jwt Model.Verifier.
From SDJWT Require Proofs.HolderFacts Proofs.VerifierFacts Proofs.JsonRoundtrip Proofs.JsonLaxFacts.
From Coq Require Import Lia PeanoNat.

(* ================================================================== *)
(*  1. split / join                                                    *)
(* ================================================================== *)

(* the character c does not occur in s *)
Definition lacks (c : N) (s : str) : bool := forallb (fun d => negb (N.eqb d c)) s.

Lemma lacks_nil : forall c, lacks c [] = true.
Proof. reflexivity. Qed.

Lemma lacks_cons : forall c d s, lacks c (d :: s) = negb (N.eqb d c) && lacks c s.
Proof. reflexivity. Qed.

Lemma lacks_app : forall c a b, lacks c (a ++ b) = lacks c a && lacks c b.
Proof. intros. unfold lacks. apply forallb_app. Qed.

Lemma lacks_not_In : forall c s, lacks c s = true <-> ~ In c s.
Proof.
  intros c. induction s as [|d s IH].
  - cbn. split; [intros _ [] | reflexivity].
  - rewrite lacks_cons, andb_true_iff, negb_true_iff, N.eqb_neq, IH. cbn [In]. split.
    + intros [A B] [C|C]; [apply A; exact C | apply B; exact C].
    + intros A. split; intros C; apply A; [left | right]; exact C.
Qed.

Lemma split_on_aux_piece : forall sep s cur rest, lacks sep s = true ->
  split_on_aux sep (s ++ sep :: rest) cur = (rev cur ++ s) :: split_on_aux sep rest [].
Proof.
  intros sep. induction s as [|c s IH]; intros cur rest F.
  - cbn [app split_on_aux]. rewrite N.eqb_refl, app_nil_r. reflexivity.
  - rewrite lacks_cons in F. apply andb_true_iff in F as [F1 F2]. apply negb_true_iff in F1.
    cbn [app split_on_aux]. rewrite F1. rewrite IH by exact F2. cbn [rev]. rewrite <- app_assoc. reflexivity.
Qed.

Lemma split_on_aux_last : forall sep s cur, lacks sep s = true ->
  split_on_aux sep s cur = [rev cur ++ s].
Proof.
  intros sep. induction s as [|c s IH]; intros cur F.
  - cbn [split_on_aux]. rewrite app_nil_r. reflexivity.
  - rewrite lacks_cons in F. apply andb_true_iff in F as [F1 F2]. apply negb_true_iff in F1.
    cbn [split_on_aux]. rewrite F1. rewrite IH by exact F2. cbn [rev]. rewrite <- app_assoc. reflexivity.
Qed.

(* splitting inverts joining, for a NON-EMPTY list of separator-free pieces *)
Theorem split_on_join : forall sep x l, forallb (lacks sep) (x :: l) = true ->
  split_on sep (join_with [sep] (x :: l)) = x :: l.
Proof.
  intros sep x l. revert x. induction l as [|y l IH]; intros x F.
  - cbn [forallb] in F. apply andb_true_iff in F as [Fx _].
    cbn [join_with]. unfold split_on. rewrite split_on_aux_last by exact Fx. reflexivity.
  - cbn [forallb] in F. apply andb_true_iff in F as [Fx Fl].
    rewrite HolderFacts.join_with_cons2. cbn [app]. unfold split_on.
    rewrite split_on_aux_piece by exact Fx. cbn [rev app]. f_equal.
    apply IH. exact Fl.
Qed.
Print Assumptions split_on_join.

(* the empty list is the exception: it joins to the empty string, which splits
   into one empty piece *)
Example split_on_join_empty : split_on 126 (join_with [126] []) = [[]].
Proof. reflexivity. Qed.

Lemma split_on_aux_nonempty : forall sep s cur, split_on_aux sep s cur <> [].
Proof.
  intros sep. induction s as [|c s IH]; intros cur; cbn [split_on_aux]; [discriminate|].
  destruct (N.eqb c sep); [discriminate | apply IH].
Qed.

Lemma join_split_on_aux : forall sep s cur, join_with [sep] (split_on_aux sep s cur) = rev cur ++ s.
Proof.
  intros sep. induction s as [|c s IH]; intros cur; cbn [split_on_aux].
  - cbn [join_with]. rewrite app_nil_r. reflexivity.
  - destruct (N.eqb_spec c sep) as [->|Ne].
    + pose proof (IH []) as IH0. pose proof (split_on_aux_nonempty sep s []) as NE.
      destruct (split_on_aux sep s []) as [|y l]; [contradiction|].
      rewrite HolderFacts.join_with_cons2, IH0. reflexivity.
    + rewrite IH. cbn [rev]. rewrite <- app_assoc. reflexivity.
Qed.

(* joining inverts splitting, for every string *)
Theorem join_split_on : forall sep s, join_with [sep] (split_on sep s) = s.
Proof. intros. unfold split_on. apply join_split_on_aux. Qed.
Print Assumptions join_split_on.

Lemma split_on_lacks : forall sep s, forallb (lacks sep) (split_on sep s) = true.
Proof.
  intros sep s. apply forallb_forall. intros p I. apply lacks_not_In.
  pose proof (HolderFacts.split_on_free sep s) as F. rewrite Forall_forall in F. apply F. exact I.
Qed.

Lemma split_last_cons2 : forall {A} (x y : A) l,
  split_last (x :: y :: l) = match split_last (y :: l) with Some (i, z) => Some (x :: i, z) | None => None end.
Proof. reflexivity. Qed.

Lemma split_last_snoc : forall {A} (l : list A) z, split_last (l ++ [z]) = Some (l, z).
Proof.
  intros A. induction l as [|x l IH]; intros z; [reflexivity|].
  cbn [app]. specialize (IH z). destruct (l ++ [z]) as [|y r] eqn:E.
  - destruct l; discriminate E.
  - rewrite split_last_cons2, IH. reflexivity.
Qed.

Lemma split_last_inv : forall {A} (l i : list A) z, split_last l = Some (i, z) -> l = i ++ [z].
Proof.
  intros A. induction l as [|x l IH]; intros i z E; [discriminate|].
  destruct l as [|y l].
  - cbn in E. inversion E; subst. reflexivity.
  - rewrite split_last_cons2 in E. destruct (split_last (y :: l)) as [[i' z']|] eqn:S; [|discriminate].
    inversion E; subst. rewrite (IH i' z eq_refl). reflexivity.
Qed.

(* ================================================================== *)
(*  2. abstract presentations and their compact text                    *)
(* ================================================================== *)

Record apres := {
  a_pr : str;            (* protected header, base64url *)
  a_pl : str;            (* payload, base64url *)
  a_sg : str;            (* signature, base64url *)
  a_ds : list str;       (* disclosures *)
  a_kb : option str      (* key-binding JWT *)
}.

Definition jwt_of (x : apres) : str := a_pr x ++ [46] ++ a_pl x ++ [46] ++ a_sg x.

Definition kb_text (kb : option str) : str := match kb with Some k => k | None => [] end.

(* jwt~d1~...~dn~kb, with an empty last part when there is no KB-JWT *)
Definition compact_of (x : apres) : str :=
  join_with [126] (jwt_of x :: a_ds x ++ [kb_text (a_kb x)]).

(* the three JWT parts contain neither '.' nor '~' *)
Definition part_ok (s : str) : bool := lacks 46 s && lacks 126 s.

(* the side conditions on the fields: what the compact form can express.
   (The KB-JWT may contain dots.) *)
Definition fields_ok (x : apres) : bool :=
  part_ok (a_pr x) && part_ok (a_pl x) && part_ok (a_sg x) &&
  forallb (lacks 126) (a_ds x) && lacks 126 (kb_text (a_kb x)).

Lemma fields_ok_inv : forall x, fields_ok x = true ->
  (lacks 46 (a_pr x) = true /\ lacks 126 (a_pr x) = true) /\
  (lacks 46 (a_pl x) = true /\ lacks 126 (a_pl x) = true) /\
  (lacks 46 (a_sg x) = true /\ lacks 126 (a_sg x) = true) /\
  forallb (lacks 126) (a_ds x) = true /\ lacks 126 (kb_text (a_kb x)) = true.
Proof.
  intros x F. unfold fields_ok, part_ok in F.
  repeat match type of F with _ && _ = true => apply andb_true_iff in F as [F ?] end.
  repeat match goal with E : _ && _ = true |- _ => apply andb_true_iff in E as [? ?] end.
  repeat split; assumption.
Qed.

Lemma jwt_of_join : forall x, jwt_of x = join_with [46] [a_pr x; a_pl x; a_sg x].
Proof. reflexivity. Qed.

Lemma split_on_jwt_of : forall x, fields_ok x = true ->
  split_on 46 (jwt_of x) = [a_pr x; a_pl x; a_sg x].
Proof.
  intros x F. apply fields_ok_inv in F as ((A & _) & (B & _) & (C & _) & _).
  rewrite jwt_of_join. apply split_on_join. cbn [forallb]. rewrite A, B, C. reflexivity.
Qed.

Lemma jwt_of_lacks_tilde : forall x, fields_ok x = true -> lacks 126 (jwt_of x) = true.
Proof.
  intros x F. apply fields_ok_inv in F as ((_ & A) & (_ & B) & (_ & C) & _).
  unfold jwt_of. rewrite !lacks_app, A, B, C. reflexivity.
Qed.

(* Theorem 1: the compact parser on the compact text *)
Theorem parse_compact_of : forall x, fields_ok x = true ->
  parse_compact (compact_of x) =
  (do pl' <- jwt_payload_decode (a_pl x);
   Ok {| p_fmt := Compact; p_jwt := jwt_of x; p_payload := pl'; p_disclosures := a_ds x;
         p_kb := Some (kb_text (a_kb x)); p_sign_alg := header_sign_alg (jwt_of x); p_json := None |}).
Proof.
  intros x F. unfold parse_compact, compact_of.
  rewrite split_on_join.
  - rewrite split_last_snoc. rewrite (split_on_jwt_of x F). reflexivity.
  - pose proof (jwt_of_lacks_tilde x F) as J.
    apply fields_ok_inv in F as (_ & _ & _ & D & K).
    cbn [forallb]. rewrite J, forallb_app, D. cbn [forallb]. rewrite K. reflexivity.
Qed.
Print Assumptions parse_compact_of.

(* remark: in compact form an empty KB-JWT string and an absent KB-JWT are the same text *)
Lemma compact_of_kb_empty : forall pr pl sg ds,
  compact_of {| a_pr := pr; a_pl := pl; a_sg := sg; a_ds := ds; a_kb := Some [] |} =
  compact_of {| a_pr := pr; a_pl := pl; a_sg := sg; a_ds := ds; a_kb := None |}.
Proof. reflexivity. Qed.

(* ================================================================== *)
(*  3. the JSON text                                                   *)
(* ================================================================== *)

(* how an absent KB-JWT is written: no kb_jwt member, or kb_jwt: null *)
Inductive kb_style := KbAbsent | KbNull.

Definition known_names : list str :=
  [lit "protected"; lit "payload"; lit "signature"; lit "disclosures"; lit "kb_jwt"].

Definition base_members (x : apres) : members :=
  [(lit "protected", JStr (a_pr x)); (lit "payload", JStr (a_pl x)); (lit "signature", JStr (a_sg x));
   (lit "disclosures", JArr (map JStr (a_ds x)))].

Definition kb_member (style : kb_style) (kb : option str) : members :=
  match kb with
  | Some k => [(lit "kb_jwt", JStr k)]
  | None => match style with KbAbsent => [] | KbNull => [(lit "kb_jwt", JNull)] end
  end.

Definition raw_of (style : kb_style) (extra : members) (x : apres) : members :=
  base_members x ++ kb_member style (a_kb x) ++ extra.

Definition json_of (style : kb_style) (extra : members) (x : apres) : str :=
  print (JObj (raw_of style extra x)).

(* the unknown members: names outside the five known ones (repeats allowed),
   values any JSON whose number lexemes are numbers and which is at most 126
   containers deep (the whole object then has at most 127, the parser's limit) *)
Definition extra_ok (extra : members) : bool :=
  forallb (fun kv => negb (mem_str (fst kv) known_names) && JsonRoundtrip.nums_ok (snd kv)
                     && Nat.ltb (JsonRoundtrip.nd (snd kv)) (MAX_DEPTH - 1)) extra.

Lemma extra_ok_cons : forall k v extra, extra_ok ((k, v) :: extra) = true ->
  mem_str k known_names = false /\ JsonRoundtrip.nums_ok v = true /\
  (JsonRoundtrip.nd v < MAX_DEPTH - 1)%nat /\ extra_ok extra = true.
Proof.
  intros k v extra E. unfold extra_ok in E. cbn [forallb fst snd] in E. fold (extra_ok extra) in E.
  apply andb_true_iff in E as [E E4]. apply andb_true_iff in E as [E E3]. apply andb_true_iff in E as [E1 E2].
  apply negb_true_iff in E1. apply Nat.ltb_lt in E3. repeat split; assumption.
Qed.

(* ---- the printed object parses back (raw) ---- *)

Lemma nums_ok_obj_cons : forall k v m,
  JsonRoundtrip.nums_ok (JObj ((k, v) :: m)) = JsonRoundtrip.nums_ok v && JsonRoundtrip.nums_ok (JObj m).
Proof. reflexivity. Qed.

Lemma nums_ok_obj_app : forall a b,
  JsonRoundtrip.nums_ok (JObj (a ++ b)) = JsonRoundtrip.nums_ok (JObj a) && JsonRoundtrip.nums_ok (JObj b).
Proof. intros. unfold JsonRoundtrip.nums_ok. cbn [JsonRoundtrip.vok]. apply forallb_app. Qed.

Lemma nums_ok_strs : forall ds, JsonRoundtrip.nums_ok (JArr (map JStr ds)) = true.
Proof.
  intros ds. unfold JsonRoundtrip.nums_ok. cbn [JsonRoundtrip.vok].
  induction ds as [|d ds IH]; [reflexivity|]. cbn [map forallb JsonRoundtrip.vok]. exact IH.
Qed.

Lemma nums_ok_extra : forall extra, extra_ok extra = true -> JsonRoundtrip.nums_ok (JObj extra) = true.
Proof.
  induction extra as [|[k v] extra IH]; intros E; [reflexivity|].
  apply extra_ok_cons in E as (_ & E2 & _ & E4). rewrite nums_ok_obj_cons, E2, IH by exact E4. reflexivity.
Qed.

Lemma nums_ok_raw_of : forall style extra x, extra_ok extra = true ->
  JsonRoundtrip.nums_ok (JObj (raw_of style extra x)) = true.
Proof.
  intros style extra x E. unfold raw_of. rewrite !nums_ok_obj_app, (nums_ok_extra extra E).
  unfold base_members. rewrite !nums_ok_obj_cons, nums_ok_strs.
  destruct (a_kb x), style; reflexivity.
Qed.

Lemma nd_strs : forall ds, JsonRoundtrip.nd (JArr (map JStr ds)) = 1%nat.
Proof.
  intros ds. cbn [JsonRoundtrip.nd]. f_equal.
  induction ds as [|d ds IH]; [reflexivity|]. unfold list_max in *. cbn [map fold_right JsonRoundtrip.nd].
  rewrite IH. reflexivity.
Qed.

Lemma nd_raw_of : forall style extra x, extra_ok extra = true ->
  (JsonRoundtrip.nd (JObj (raw_of style extra x)) < MAX_DEPTH)%nat.
Proof.
  intros style extra x E. cbn [JsonRoundtrip.nd].
  assert (B : (list_max (map (fun kv : str * json => JsonRoundtrip.nd (snd kv)) (raw_of style extra x))
               <= MAX_DEPTH - 2)%nat).
  { apply list_max_le. apply Forall_forall. intros n I. apply in_map_iff in I as [[k v] [<- I]]. cbn [snd].
    unfold raw_of in I. apply in_app_or in I as [I|I]; [|apply in_app_or in I as [I|I]].
    - unfold base_members in I. cbn [In] in I.
      destruct I as [I|[I|[I|[I|[]]]]]; inversion I; subst; try (cbn; unfold MAX_DEPTH; lia).
      rewrite nd_strs. unfold MAX_DEPTH. lia.
    - destruct (a_kb x), style; cbn [kb_member In] in I; try contradiction;
        destruct I as [I|[]]; inversion I; subst; cbn; unfold MAX_DEPTH; lia.
    - clear x style. induction extra as [|[k' v'] extra IH]; [contradiction|].
      apply extra_ok_cons in E as (_ & _ & E3 & E4). destruct I as [I|I].
      + inversion I; subst. unfold MAX_DEPTH in *. lia.
      + apply IH; assumption. }
  unfold MAX_DEPTH in *. lia.
Qed.

Lemma parse_json_raw_json_of : forall style extra x, extra_ok extra = true ->
  parse_json_raw (json_of style extra x) = Some (JObj (raw_of style extra x)).
Proof.
  intros style extra x E. unfold json_of, print.
  apply JsonRoundtrip.parse_json_raw_print_k; [apply nums_ok_raw_of | apply nd_raw_of]; exact E.
Qed.

(* ---- parse_json_form after the raw parse, in a form convenient for rewriting ---- *)

Definition dup_known (raw : members) : bool :=
  existsb (fun k => Nat.ltb 1 (count_key k raw)) known_names.

Definition kb_field (raw : members) : option (option str) :=
  match obj_get (lit "kb_jwt") raw with
  | None | Some JNull => Some None
  | Some (JStr s) => Some (Some s)
  | Some _ => None
  end.

Definition form_of_raw (raw : members) : outcome parsed :=
  if dup_known raw then Err "JSON serialization: duplicate field"
  else
    match obj_get (lit "protected") raw, obj_get (lit "payload") raw,
          obj_get (lit "signature") raw, obj_get (lit "disclosures") raw with
    | Some (JStr pr), Some (JStr pl), Some (JStr sg), Some (JArr ds) =>
        match all_strings ds with
        | None => Err "JSON serialization: disclosures"
        | Some dl =>
            match kb_field raw with
            | None => Err "JSON serialization: kb_jwt"
            | Some kb =>
                do body <- jwt_payload_decode pl;
                let jwt := pr ++ [46] ++ pl ++ [46] ++ sg in
                Ok {| p_fmt := JSONFmt; p_jwt := jwt; p_payload := body; p_disclosures := dl;
                      p_kb := kb; p_sign_alg := header_sign_alg jwt; p_json := Some (pr, pl, sg) |}
            end
        end
    | _, _, _, _ => Err "JSON serialization: missing or ill-typed field"
    end.

Lemma parse_json_form_raw : forall input raw, parse_json_raw input = Some (JObj raw) ->
  parse_json_form input = form_of_raw raw.
Proof.
  intros input raw E. rewrite (JsonLaxFacts.parse_json_form_of_raw input _ E).
  unfold parse_json_form_strict. rewrite E. reflexivity.
Qed.

Lemma count_key_app : forall k a b, count_key k (a ++ b) = (count_key k a + count_key k b)%nat.
Proof.
  intros k. induction a as [|[k' v] a IH]; intros b; [reflexivity|].
  cbn [app count_key]. rewrite IH. lia.
Qed.

Lemma count_key_extra : forall k extra, mem_str k known_names = true -> extra_ok extra = true ->
  count_key k extra = 0%nat.
Proof.
  intros k. induction extra as [|[k' v] extra IH]; intros K E; [reflexivity|].
  apply extra_ok_cons in E as (E1 & _ & _ & E4). cbn [count_key].
  destruct (str_eqb_spec k k') as [->|Ne]; [congruence|]. rewrite IH by assumption. reflexivity.
Qed.

Lemma obj_get_extra : forall k extra, mem_str k known_names = true -> extra_ok extra = true ->
  obj_get k extra = None.
Proof.
  intros k. induction extra as [|[k' v] extra IH]; intros K E; [reflexivity|].
  apply extra_ok_cons in E as (E1 & _ & _ & E4). cbn [obj_get].
  destruct (str_eqb_spec k k') as [->|Ne]; [congruence|]. apply IH; assumption.
Qed.

Lemma count_known_raw_of : forall k style extra x, extra_ok extra = true -> In k known_names ->
  (count_key k (raw_of style extra x) <= 1)%nat.
Proof.
  intros k style extra x E I. unfold raw_of. rewrite !count_key_app.
  rewrite (count_key_extra k extra) by (try apply mem_str_In; assumption).
  unfold known_names in I. cbn [In] in I.
  destruct I as [<-|[<-|[<-|[<-|[<-|[]]]]]]; destruct (a_kb x), style; vm_compute; lia.
Qed.

Lemma dup_known_raw_of : forall style extra x, extra_ok extra = true ->
  dup_known (raw_of style extra x) = false.
Proof.
  intros style extra x E. unfold dup_known.
  destruct (existsb (fun k => Nat.ltb 1 (count_key k (raw_of style extra x))) known_names) eqn:X; [|reflexivity].
  apply existsb_exists in X as [k [I L]]. apply Nat.ltb_lt in L.
  pose proof (count_known_raw_of k style extra x E I). lia.
Qed.

Lemma get_protected : forall style extra x,
  obj_get (lit "protected") (raw_of style extra x) = Some (JStr (a_pr x)).
Proof. reflexivity. Qed.
Lemma get_payload : forall style extra x,
  obj_get (lit "payload") (raw_of style extra x) = Some (JStr (a_pl x)).
Proof. reflexivity. Qed.
Lemma get_signature : forall style extra x,
  obj_get (lit "signature") (raw_of style extra x) = Some (JStr (a_sg x)).
Proof. reflexivity. Qed.
Lemma get_disclosures : forall style extra x,
  obj_get (lit "disclosures") (raw_of style extra x) = Some (JArr (map JStr (a_ds x))).
Proof. reflexivity. Qed.

Lemma all_strings_map : forall ds, all_strings (map JStr ds) = Some ds.
Proof. induction ds as [|d ds IH]; [reflexivity|]. cbn [map all_strings]. rewrite IH. reflexivity. Qed.

Lemma kb_field_raw_of : forall style extra x, extra_ok extra = true ->
  kb_field (raw_of style extra x) = Some (a_kb x).
Proof.
  intros style extra x E. unfold kb_field.
  change (obj_get (lit "kb_jwt") (raw_of style extra x))
    with (obj_get (lit "kb_jwt") (kb_member style (a_kb x) ++ extra)).
  destruct (a_kb x) as [k|], style; try reflexivity.
  cbn [kb_member app]. rewrite obj_get_extra; [reflexivity | reflexivity | exact E].
Qed.

(* Theorem 2: the JSON parser on the JSON text *)
Theorem parse_json_form_of : forall style extra x, extra_ok extra = true ->
  parse_json_form (json_of style extra x) =
  (do body <- jwt_payload_decode (a_pl x);
   Ok {| p_fmt := JSONFmt; p_jwt := jwt_of x; p_payload := body; p_disclosures := a_ds x;
         p_kb := a_kb x; p_sign_alg := header_sign_alg (jwt_of x);
         p_json := Some (a_pr x, a_pl x, a_sg x) |}).
Proof.
  intros style extra x E.
  rewrite (parse_json_form_raw _ _ (parse_json_raw_json_of style extra x E)).
  unfold form_of_raw.
  rewrite (dup_known_raw_of style extra x E), get_protected, get_payload, get_signature, get_disclosures,
    all_strings_map, (kb_field_raw_of style extra x E).
  reflexivity.
Qed.
Print Assumptions parse_json_form_of.

(* ================================================================== *)
(*  4. the verifier                                                    *)
(* ================================================================== *)

Lemma jwt_payload_decode_class : forall b,
  (exists m, jwt_payload_decode b = Ok m) \/ (exists e, jwt_payload_decode b = Err e).
Proof.
  intros b. unfold jwt_payload_decode. destruct (base64url_decode_text b) as [text|]; [|right; eexists; reflexivity].
  destruct (parse_json text) as [[| | | | |m]|]; try (right; eexists; reflexivity). left. eexists. reflexivity.
Qed.

Lemma kb_related_text : forall kb, VerifierFacts.kb_related (Some (kb_text kb)) kb.
Proof.
  intros [k|]; unfold VerifierFacts.kb_related; cbn [kb_text]; [left; reflexivity | right; right; split; reflexivity].
Qed.

(* the two records produced from one abstract presentation *)
Definition compact_record (x : apres) (body : members) : parsed :=
  {| p_fmt := Compact; p_jwt := jwt_of x; p_payload := body; p_disclosures := a_ds x;
     p_kb := Some (kb_text (a_kb x)); p_sign_alg := header_sign_alg (jwt_of x); p_json := None |}.
Definition json_record (x : apres) (body : members) : parsed :=
  {| p_fmt := JSONFmt; p_jwt := jwt_of x; p_payload := body; p_disclosures := a_ds x;
     p_kb := a_kb x; p_sign_alg := header_sign_alg (jwt_of x); p_json := Some (a_pr x, a_pl x, a_sg x) |}.

Lemma records_agree : forall x body, VerifierFacts.parsed_agree (compact_record x body) (json_record x body).
Proof.
  intros x body. unfold VerifierFacts.parsed_agree. cbn [compact_record json_record p_jwt p_payload p_disclosures p_sign_alg p_kb].
  repeat split. apply kb_related_text.
Qed.

(* Theorem 3: the two parsers agree on the two texts: either the payload decodes
   and both return records that agree on everything the verifier core and the
   holder read, or it does not and both return Err. *)
Theorem C10_parsed_agree : forall style extra x, fields_ok x = true -> extra_ok extra = true ->
  (exists body,
     jwt_payload_decode (a_pl x) = Ok body /\
     parse_compact (compact_of x) = Ok (compact_record x body) /\
     parse_json_form (json_of style extra x) = Ok (json_record x body) /\
     VerifierFacts.parsed_agree (compact_record x body) (json_record x body))
  \/
  (exists e, jwt_payload_decode (a_pl x) = Err e /\
             parse_compact (compact_of x) = Err e /\ parse_json_form (json_of style extra x) = Err e).
Proof.
  intros style extra x F E. rewrite (parse_compact_of x F), (parse_json_form_of style extra x E).
  destruct (jwt_payload_decode_class (a_pl x)) as [[body D]|[e D]]; rewrite D; cbn [bind].
  - left. exists body. repeat split; try reflexivity. apply records_agree.
  - right. exists e. repeat split.
Qed.
Print Assumptions C10_parsed_agree.

(* Theorem 4: same decision, same claims, for EVERY abstract presentation that the
   compact form can express — nothing is assumed about signatures, digests,
   payload contents, the KB-JWT, the oracle, the resolver or the clock. *)
Theorem C10_verify_transcode : forall o style extra x resolver ea en now,
  fields_ok x = true -> extra_ok extra = true ->
  outcome_sim eq (verify o (compact_of x) resolver ea en Compact now)
                 (verify o (json_of style extra x) resolver ea en JSONFmt now).
Proof.
  intros o style extra x resolver ea en now F E.
  rewrite !VerifierFacts.C10_verify_factors. cbn [parse_sd_jwt].
  destruct (C10_parsed_agree style extra x F E) as [(body & _ & C & J & A)|(e & _ & C & J)]; rewrite C, J; cbn [bind].
  - apply VerifierFacts.C10_format_independent. exact A.
  - exact I.
Qed.
Print Assumptions C10_verify_transcode.

(* in particular the decision is the same *)
Corollary C10_verify_transcode_decision : forall o style extra x resolver ea en now,
  fields_ok x = true -> extra_ok extra = true ->
  is_ok (verify o (compact_of x) resolver ea en Compact now) =
  is_ok (verify o (json_of style extra x) resolver ea en JSONFmt now).
Proof.
  intros o style extra x resolver ea en now F E.
  pose proof (C10_verify_transcode o style extra x resolver ea en now F E) as S.
  destruct (verify o (compact_of x) resolver ea en Compact now),
           (verify o (json_of style extra x) resolver ea en JSONFmt now); cbn in S; try contradiction; reflexivity.
Qed.
Print Assumptions C10_verify_transcode_decision.

(* ================================================================== *)
(*  5. the holder                                                      *)
(* ================================================================== *)

(* everything [present] reads except the format-specific fields *)
Definition holder_agree (h1 h2 : holder) : Prop :=
  h_jwt h1 = h_jwt h2 /\ h_payload h1 = h_payload h2 /\ h_dmap h1 = h_dmap h2 /\
  h_in_disclosures h1 = h_in_disclosures h2 /\ VerifierFacts.kb_related (h_in_kb h1) (h_in_kb h2) /\
  h_hs h1 = h_hs h2 /\ h_kb_header h1 = h_kb_header h2 /\ h_kb_payload h1 = h_kb_payload h2 /\ h_kb h1 = h_kb h2.

(* what differs by design: the format tag, the JSON parts kept for re-serialization,
   and the KB-JWT as received (compact: always Some, empty when absent; JSON: as given) *)
Definition holder_differences (x : apres) (h1 h2 : holder) : Prop :=
  h_fmt h1 = Compact /\ h_fmt h2 = JSONFmt /\
  h_json h1 = None /\ h_json h2 = Some (a_pr x, a_pl x, a_sg x) /\
  h_in_kb h1 = Some (kb_text (a_kb x)) /\ h_in_kb h2 = a_kb x.

Definition holder_of (fmt : format) (p : parsed) (dm : dmap) : holder :=
  {| h_fmt := fmt; h_jwt := p_jwt p; h_payload := p_payload p; h_dmap := dm;
     h_json := p_json p; h_in_disclosures := p_disclosures p; h_in_kb := p_kb p;
     h_hs := []; h_kb_header := []; h_kb_payload := []; h_kb := [] |}.

Lemma holder_new_unfold : forall o input fmt,
  holder_new o input fmt =
  (do p <- parse_sd_jwt fmt input; do dm <- create_hash_mappings o (p_disclosures p) []; Ok (holder_of fmt p dm)).
Proof. reflexivity. Qed.

(* Theorem 5: both constructions succeed or both fail (same class); when they
   succeed the holders agree on JWT, payload and digest map, and differ exactly
   as [holder_differences] says. *)
Theorem C10_holder_transcode : forall o style extra x, fields_ok x = true -> extra_ok extra = true ->
  outcome_sim (fun h1 h2 => holder_agree h1 h2 /\ holder_differences x h1 h2)
    (holder_new o (compact_of x) Compact) (holder_new o (json_of style extra x) JSONFmt).
Proof.
  intros o style extra x F E. rewrite !holder_new_unfold. cbn [parse_sd_jwt].
  destruct (C10_parsed_agree style extra x F E) as [(body & _ & C & J & A)|(e & _ & C & J)]; rewrite C, J; cbn [bind];
    [|exact I].
  cbn [compact_record json_record p_disclosures].
  destruct (create_hash_mappings o (a_ds x) []) as [dm| | | |]; cbn [bind outcome_sim]; try exact I.
  split.
  - unfold holder_agree, holder_of. cbn. repeat split. apply kb_related_text.
  - unfold holder_differences, holder_of. cbn. repeat split.
Qed.
Print Assumptions C10_holder_transcode.

(* hence the two holders select the same disclosures, for every selection *)
Corollary C10_holder_selects_same : forall o style extra x h1 h2 sel,
  fields_ok x = true -> extra_ok extra = true ->
  holder_new o (compact_of x) Compact = Ok h1 -> holder_new o (json_of style extra x) JSONFmt = Ok h2 ->
  walk (h_dmap h1) sel (JObj (h_payload h1)) = walk (h_dmap h2) sel (JObj (h_payload h2)).
Proof.
  intros o style extra x h1 h2 sel F E N1 N2.
  pose proof (C10_holder_transcode o style extra x F E) as S. rewrite N1, N2 in S. cbn in S.
  destruct S as [(_ & P & D & _) _]. rewrite P, D. reflexivity.
Qed.
Print Assumptions C10_holder_selects_same.

(* What create_presentation returns from the two holders.  The selected
   disclosures [hs] and the new KB-JWT [kb] (empty when none was requested) are
   the same; the compact holder returns compact_of (jwt, hs, kb), the JSON holder
   the JSON text of (jwt, hs, kb') where kb' = kb when a KB-JWT was made and
   otherwise the kb_jwt of the INPUT (null when there was none).  So the two
   results are transcodings of each other except in one case, which is a property
   of the crate's JSON branch (holder.rs keeps the received kb_jwt), not of the
   parsers: no key binding requested and the input carried a KB-JWT — then the
   JSON result still carries the old KB-JWT and the compact one carries none. *)
Definition present_pair (x : apres) (s1 s2 : str) : Prop :=
  exists hs kb,
    s1 = compact_of {| a_pr := a_pr x; a_pl := a_pl x; a_sg := a_sg x; a_ds := hs; a_kb := Some kb |} /\
    s2 = print (JObj [(lit "protected", JStr (a_pr x)); (lit "payload", JStr (a_pl x));
                      (lit "signature", JStr (a_sg x)); (lit "disclosures", JArr (map JStr hs));
                      (lit "kb_jwt", match kb with
                                     | [] => match a_kb x with Some k => JStr k | None => JNull end
                                     | _ :: _ => JStr kb
                                     end)]).

Lemma holder_new_compact_of : forall o x, fields_ok x = true ->
  holder_new o (compact_of x) Compact =
  (do body <- jwt_payload_decode (a_pl x); do dm <- create_hash_mappings o (a_ds x) [];
   Ok (holder_of Compact (compact_record x body) dm)).
Proof.
  intros o x F. rewrite holder_new_unfold. cbn [parse_sd_jwt]. rewrite (parse_compact_of x F).
  destruct (jwt_payload_decode (a_pl x)); reflexivity.
Qed.

Lemma holder_new_json_of : forall o style extra x, extra_ok extra = true ->
  holder_new o (json_of style extra x) JSONFmt =
  (do body <- jwt_payload_decode (a_pl x); do dm <- create_hash_mappings o (a_ds x) [];
   Ok (holder_of JSONFmt (json_record x body) dm)).
Proof.
  intros o style extra x E. rewrite holder_new_unfold. cbn [parse_sd_jwt]. rewrite (parse_json_form_of style extra x E).
  destruct (jwt_payload_decode (a_pl x)); reflexivity.
Qed.

Lemma holder_new_both : forall o style extra x h1 h2, fields_ok x = true -> extra_ok extra = true ->
  holder_new o (compact_of x) Compact = Ok h1 -> holder_new o (json_of style extra x) JSONFmt = Ok h2 ->
  exists body dm,
    h1 = holder_of Compact (compact_record x body) dm /\ h2 = holder_of JSONFmt (json_record x body) dm.
Proof.
  intros o style extra x h1 h2 F E N1 N2.
  rewrite (holder_new_compact_of o x F) in N1. rewrite (holder_new_json_of o style extra x E) in N2.
  destruct (jwt_payload_decode (a_pl x)) as [body| | | |]; try discriminate N1.
  destruct (create_hash_mappings o (a_ds x) []) as [dm| | | |]; try discriminate N1.
  exists body, dm. injection N1 as <-. injection N2 as <-. split; reflexivity.
Qed.

Theorem C10_present_transcode : forall o style extra x h1 h2 sel a now,
  fields_ok x = true -> extra_ok extra = true ->
  holder_new o (compact_of x) Compact = Ok h1 -> holder_new o (json_of style extra x) JSONFmt = Ok h2 ->
  outcome_sim (present_pair x) (snd (present o h1 sel a now)) (snd (present o h2 sel a now)) /\
  h_hs (fst (present o h1 sel a now)) = h_hs (fst (present o h2 sel a now)) /\
  h_kb (fst (present o h1 sel a now)) = h_kb (fst (present o h2 sel a now)).
Proof.
  intros o style extra x h1 h2 sel a now F E N1 N2.
  destruct (holder_new_both o style extra x h1 h2 F E N1 N2) as (body & dm & -> & ->).
  unfold present, holder_of, compact_record, json_record, set_fields.
  cbn [h_fmt h_jwt h_payload h_dmap h_json h_in_disclosures h_in_kb h_hs h_kb_header h_kb_payload h_kb
       p_fmt p_jwt p_payload p_disclosures p_kb p_sign_alg p_json].
  destruct (walk dm (JObj sel) (JObj body)) as [hs| | | |]; cbn [fst snd h_hs h_kb outcome_sim]; try (repeat split; exact I).
  destruct (kb_nonce a) as [nonce|], (kb_aud a) as [aud|], (kb_key a) as [hk|];
    cbv beta iota zeta; cbn [fst snd h_hs h_kb outcome_sim]; try (repeat split; exact I).
  - match goal with |- context [jwt_encode ?a1 ?a2 ?a3 ?a4 ?a5] =>
      destruct (jwt_encode a1 a2 a3 a4 a5) as [[e0 kb]| | | |] end;
      cbv beta iota zeta; cbn [fst snd h_hs h_kb outcome_sim]; try (repeat split; exact I).
    repeat split. exists hs, kb. split; reflexivity.
  - repeat split. exists hs, []. split; reflexivity.
Qed.
Print Assumptions C10_present_transcode.

(* ================================================================== *)
(*  6. converse directions: arbitrary spellings                        *)
(* ================================================================== *)

(* the abstract presentation carried by a JSON-form parse result *)
Definition fields_of (p : parsed) : option apres :=
  match p_json p with
  | Some (pr, pl, sg) => Some {| a_pr := pr; a_pl := pl; a_sg := sg; a_ds := p_disclosures p; a_kb := p_kb p |}
  | None => None
  end.

(* whatever the spelling of the JSON text (whitespace, member order, escapes,
   unknown members), an accepted input yields exactly the record of its fields *)
Theorem parse_json_form_inv : forall t p, parse_json_form t = Ok p ->
  exists x, fields_of p = Some x /\ jwt_payload_decode (a_pl x) = Ok (p_payload p) /\
            p = json_record x (p_payload p).
Proof.
  intros t0 p P0. destruct (JsonLaxFacts.parse_json_form_ok_strict t0 p P0) as (t & P). clear t0 P0.
  unfold parse_json_form_strict in P.
  destruct (parse_json_raw t) as [[| | | | |raw]|]; try discriminate P.
  cbv zeta in P.
  match type of P with (if ?c then _ else _) = _ => destruct c end; [discriminate P|].
  destruct (obj_get (lit "protected") raw) as [[| | |pr| |]|]; try discriminate P.
  destruct (obj_get (lit "payload") raw) as [[| | |pl| |]|]; try discriminate P.
  destruct (obj_get (lit "signature") raw) as [[| | |sg| |]|]; try discriminate P.
  destruct (obj_get (lit "disclosures") raw) as [[| | | |ds|]|]; try discriminate P.
  destruct (all_strings ds) as [dl|]; [|discriminate P].
  match type of P with (match ?k with Some _ => _ | None => _ end) = _ => destruct k as [kb|] end; [|discriminate P].
  destruct (jwt_payload_decode pl) as [body| | | |] eqn:D; try discriminate P.
  cbn [bind] in P. injection P as <-.
  exists {| a_pr := pr; a_pl := pl; a_sg := sg; a_ds := dl; a_kb := kb |}.
  repeat split. exact D.
Qed.
Print Assumptions parse_json_form_inv.

(* Theorem 6 (JSON -> Compact): start from an ARBITRARY accepted JSON-form text t.
   If its fields can be written in compact form at all (no '~' in any field, no
   '.' in the three JWT parts — a '~' inside a JSON-form field has no compact
   spelling, see [tilde_not_expressible]), the compact re-rendering of the fields
   parses to an agreeing record. *)
Theorem C10_json_to_compact : forall t p x,
  parse_json_form t = Ok p -> fields_of p = Some x -> fields_ok x = true ->
  exists pc, parse_compact (compact_of x) = Ok pc /\ VerifierFacts.parsed_agree pc p.
Proof.
  intros t p x P FO F. destruct (parse_json_form_inv t p P) as (x' & FO' & D & EP).
  rewrite FO in FO'. injection FO' as <-.
  exists (compact_record x (p_payload p)). split.
  - rewrite (parse_compact_of x F), D. reflexivity.
  - rewrite EP at 2. apply records_agree.
Qed.
Print Assumptions C10_json_to_compact.

Theorem C10_verify_json_to_compact : forall o t p x resolver ea en now,
  parse_json_form t = Ok p -> fields_of p = Some x -> fields_ok x = true ->
  outcome_sim eq (verify o (compact_of x) resolver ea en Compact now) (verify o t resolver ea en JSONFmt now).
Proof.
  intros o t p x resolver ea en now P FO F.
  destruct (C10_json_to_compact t p x P FO F) as (pc & C & A).
  rewrite !VerifierFacts.C10_verify_factors. cbn [parse_sd_jwt]. rewrite C, P. cbn [bind].
  apply VerifierFacts.C10_format_independent. exact A.
Qed.
Print Assumptions C10_verify_json_to_compact.

(* a JSON-form text that is not accepted by the parser has no fields to transcode;
   for completeness: it is not accepted by the verifier either *)
Lemma verify_json_unparsed : forall o t resolver ea en now,
  (forall p, parse_json_form t <> Ok p) -> is_ok (verify o t resolver ea en JSONFmt now) = false.
Proof.
  intros o t resolver ea en now N. rewrite VerifierFacts.C10_verify_factors. cbn [parse_sd_jwt].
  destruct (parse_json_form t) as [p| | | |]; try reflexivity. exfalso. exact (N p eq_refl).
Qed.

(* JSON -> JSON: every accepted spelling parses to the same record as the printed
   text of its fields, in either kb style and with any unknown members; no side
   condition on the fields is needed here *)
Theorem C10_json_respell : forall t p x style extra,
  parse_json_form t = Ok p -> fields_of p = Some x -> extra_ok extra = true ->
  parse_json_form (json_of style extra x) = Ok p.
Proof.
  intros t p x style extra P FO E. destruct (parse_json_form_inv t p P) as (x' & FO' & D & EP).
  rewrite FO in FO'. injection FO' as <-.
  rewrite (parse_json_form_of style extra x E), D. cbn [bind]. rewrite EP at 2. reflexivity.
Qed.
Print Assumptions C10_json_respell.

Corollary C10_verify_json_respell : forall o t p x style extra resolver ea en now,
  parse_json_form t = Ok p -> fields_of p = Some x -> extra_ok extra = true ->
  verify o (json_of style extra x) resolver ea en JSONFmt now = verify o t resolver ea en JSONFmt now.
Proof.
  intros o t p x style extra resolver ea en now P FO E.
  rewrite !VerifierFacts.C10_verify_factors. cbn [parse_sd_jwt].
  rewrite (C10_json_respell t p x style extra P FO E), P. reflexivity.
Qed.
Print Assumptions C10_verify_json_respell.

(* Theorem 5 for arbitrary JSON spellings: the holder built from any accepted
   JSON text is the holder built from the printed text of its fields *)
Corollary C10_holder_json_respell : forall o t p x style extra,
  parse_json_form t = Ok p -> fields_of p = Some x -> extra_ok extra = true ->
  holder_new o (json_of style extra x) JSONFmt = holder_new o t JSONFmt.
Proof.
  intros o t p x style extra P FO E. rewrite !holder_new_unfold. cbn [parse_sd_jwt].
  rewrite (C10_json_respell t p x style extra P FO E), P. reflexivity.
Qed.
Print Assumptions C10_holder_json_respell.

(* Compact -> JSON for an ARBITRARY compact text: every text the compact parser
   accepts whose JWT has exactly three dot-separated parts IS compact_of x for an
   x satisfying the side conditions (so Theorems 3-5 apply to it).  A JWT with two
   or with more than three parts is accepted by parse_compact (and rejected later
   by the JWT layer) but has no JSON form with dot-free parts. *)
Theorem compact_of_complete : forall t p pr pl sg,
  parse_compact t = Ok p -> split_on 46 (p_jwt p) = [pr; pl; sg] ->
  exists x, t = compact_of x /\ fields_ok x = true /\
            a_pr x = pr /\ a_pl x = pl /\ a_sg x = sg /\ a_ds x = p_disclosures p /\ a_kb x = p_kb p.
Proof.
  intros t p pr pl sg P S. unfold parse_compact in P.
  pose proof (join_split_on 126 t) as JT. pose proof (split_on_lacks 126 t) as LT.
  destruct (split_on 126 t) as [|jwt rest]; [discriminate P|].
  destruct (split_last rest) as [[ds kb]|] eqn:SL; [|discriminate P].
  pose proof (join_split_on 46 jwt) as JJ. pose proof (split_on_lacks 46 jwt) as LJ.
  destruct (split_on 46 jwt) as [|hd [|body tl]] eqn:SJ; try discriminate P.
  destruct (jwt_payload_decode body) as [m| | | |]; try discriminate P.
  cbn [bind] in P. injection P as <-. cbn [p_jwt p_disclosures p_kb] in *.
  rewrite SJ in S. injection S as -> -> ->.
  apply split_last_inv in SL. subst rest.
  cbn [forallb] in LT. apply andb_true_iff in LT as [Lj LT]. rewrite forallb_app in LT.
  apply andb_true_iff in LT as [Ld Lk]. cbn [forallb] in Lk. apply andb_true_iff in Lk as [Lk _].
  cbn [forallb] in LJ. apply andb_true_iff in LJ as [L1 LJ]. apply andb_true_iff in LJ as [L2 LJ].
  apply andb_true_iff in LJ as [L3 _].
  assert (EJ : jwt = pr ++ [46] ++ pl ++ [46] ++ sg) by (symmetry; exact JJ).
  rewrite EJ, !lacks_app in Lj.
  apply andb_true_iff in Lj as [T1 Lj]. apply andb_true_iff in Lj as [_ Lj].
  apply andb_true_iff in Lj as [T2 Lj]. apply andb_true_iff in Lj as [_ T3].
  exists {| a_pr := pr; a_pl := pl; a_sg := sg; a_ds := ds; a_kb := Some kb |}.
  split; [|split].
  - unfold compact_of, jwt_of. cbn [a_pr a_pl a_sg a_ds a_kb kb_text]. rewrite <- EJ. symmetry. exact JT.
  - unfold fields_ok, part_ok. cbn [a_pr a_pl a_sg a_ds a_kb kb_text].
    rewrite L1, L2, L3, T1, T2, T3, Ld, Lk. reflexivity.
  - repeat split.
Qed.
Print Assumptions compact_of_complete.

Theorem C10_verify_compact_to_json : forall o t p pr pl sg style extra resolver ea en now,
  parse_compact t = Ok p -> split_on 46 (p_jwt p) = [pr; pl; sg] -> extra_ok extra = true ->
  outcome_sim eq
    (verify o t resolver ea en Compact now)
    (verify o (json_of style extra {| a_pr := pr; a_pl := pl; a_sg := sg; a_ds := p_disclosures p; a_kb := p_kb p |})
            resolver ea en JSONFmt now).
Proof.
  intros o t p pr pl sg style extra resolver ea en now P S E.
  destruct (compact_of_complete t p pr pl sg P S) as (x & -> & F & <- & <- & <- & <- & <-).
  destruct x as [xpr xpl xsg xds xkb]. cbn [a_pr a_pl a_sg a_ds a_kb].
  apply C10_verify_transcode; assumption.
Qed.
Print Assumptions C10_verify_compact_to_json.

(* ---- the side conditions as worded in the task statement imply ours ---- *)

Definition nonempty (s : str) : bool := match s with [] => false | _ :: _ => true end.

Definition task_fields_ok (x : apres) : bool :=
  part_ok (a_pr x) && part_ok (a_pl x) && part_ok (a_sg x) && forallb (lacks 126) (a_ds x) &&
  match a_kb x with Some k => lacks 126 k && nonempty k | None => true end &&
  JsonRoundtrip.scalar_str (a_pr x) && JsonRoundtrip.scalar_str (a_pl x) && JsonRoundtrip.scalar_str (a_sg x) &&
  forallb JsonRoundtrip.scalar_str (a_ds x) &&
  match a_kb x with Some k => JsonRoundtrip.scalar_str k | None => true end.

Lemma task_conditions_imply : forall style extra x,
  task_fields_ok x = true ->
  forallb (fun kv => negb (mem_str (fst kv) known_names)) extra = true ->
  JsonRoundtrip.val_ok (JObj (raw_of style extra x)) = true ->
  wf_json (JObj (raw_of style extra x)) = true ->
  fields_ok x = true /\ extra_ok extra = true.
Proof.
  intros style extra x T N V _. split.
  - unfold task_fields_ok in T.
    do 5 (apply andb_true_iff in T as [T _]).
    apply andb_true_iff in T as [T K]. unfold fields_ok. rewrite T. cbn [andb].
    destruct (a_kb x) as [k|]; [|reflexivity]. apply andb_true_iff in K as [K _]. exact K.
  - apply JsonRoundtrip.val_ok_at_spec in V as [V D].
    unfold raw_of in V, D. rewrite app_assoc in V, D.
    set (pre := base_members x ++ kb_member style (a_kb x)) in *. clearbody pre.
    unfold extra_ok. apply forallb_forall. intros [k v] I. cbn [fst snd].
    rewrite forallb_forall in N. pose proof (N (k, v) I) as Nk. cbn [fst] in Nk. rewrite Nk. cbn [andb].
    apply andb_true_iff. split.
    + cbn [JsonRoundtrip.vok] in V. rewrite forallb_forall in V.
      specialize (V (k, v) (in_or_app _ _ _ (or_intror I))). apply andb_true_iff in V as [_ V].
      eapply JsonRoundtrip.vok_nums_ok. exact V.
    + apply Nat.ltb_lt. cbn [JsonRoundtrip.nd] in D.
      assert (L : (JsonRoundtrip.nd v <= list_max (map (fun kv : str * json => JsonRoundtrip.nd (snd kv)) (pre ++ extra)))%nat).
      { pose proof (proj1 (list_max_le (map (fun kv : str * json => JsonRoundtrip.nd (snd kv)) (pre ++ extra)) _)
                      (Nat.le_refl _)) as A.
        rewrite Forall_forall in A. apply A. apply in_map_iff. exists (k, v). split; [reflexivity|].
        apply in_or_app. right. exact I. }
      unfold MAX_DEPTH in *. lia.
Qed.
Print Assumptions task_conditions_imply.

(* ---- why the side conditions on the fields cannot be dropped ---- *)

(* a JSON-form input with a '~' inside a disclosure string: accepted by the JSON
   parser; the compact rendering of its fields parses to a different disclosure list *)
Example tilde_not_expressible :
  let x := {| a_pr := lit "a"; a_pl := lit "e30"; a_sg := lit "c"; a_ds := [lit "x~y"]; a_kb := None |} in
  fields_ok x = false /\
  match parse_json_form (json_of KbAbsent [] x), parse_compact (compact_of x) with
  | Ok pj, Ok pc => p_disclosures pj = [lit "x~y"] /\ p_disclosures pc = [lit "x"; lit "y"]
  | _, _ => False
  end.
Proof. vm_compute. repeat split; reflexivity. Qed.

(* likewise a '.' inside the protected part moves the payload *)
Example dot_not_expressible :
  let x := {| a_pr := lit "a.e30"; a_pl := lit "e30"; a_sg := lit "c"; a_ds := []; a_kb := None |} in
  fields_ok x = false /\
  match parse_json_form (json_of KbAbsent [] x), parse_compact (compact_of x) with
  | Ok pj, Ok pc => p_json pj = Some (lit "a.e30", lit "e30", lit "c") /\ p_jwt pj = p_jwt pc /\
                    split_on 46 (p_jwt pc) = [lit "a"; lit "e30"; lit "e30"; lit "c"]
  | _, _ => False
  end.
Proof. vm_compute. repeat split; reflexivity. Qed.

(* ================================================================== *)
(*  7. non-vacuity                                                     *)
(* ================================================================== *)

Module TEx.
  Module V := VerifierFacts.Ex.

  Definition dummy_holder : holder := Build_holder Compact [] [] [] None [] None [] [] [] [].

  (* the credential of VerifierFacts.Ex presented with BOTH disclosures (a and b) and a KB-JWT *)
  Definition pres2_ : holder * outcome str :=
    match holder_new V.o0 V.input Compact with
    | Ok h => present V.o0 h [(lit "a", JBool true); (lit "b", JBool true)] V.kba 5
    | _ => (dummy_holder, Err "holder_new failed")
    end.
  Definition pres2 : str := match snd pres2_ with Ok s => s | _ => [] end.
  Definition kb_msg2 : str := match rsplit_dot (h_kb (fst pres2_)) with Some (_, m) => m | None => [] end.
  (* digest oracle = identity; the signature oracle accepts exactly the issuer's
     message under key 1 and this presentation's KB message under key 2 *)
  Definition o2 : oracles :=
    {| H := fun s => s;
       sig_ok := fun _ k m s =>
         ((N.eqb (kid k) 1 && str_eqb m V.iss_msg) || (N.eqb (kid k) 2 && str_eqb m kb_msg2)) && str_eqb s (lit "sig");
       sign := fun _ _ _ => lit "sig";
       jwk_key := fun _ => Some V.k_holder |}.

  (* read an abstract presentation off a compact text *)
  Definition x_of_compact (t : str) : option apres :=
    match parse_compact t with
    | Ok p =>
        match split_on 46 (p_jwt p) with
        | [pr; pl; sg] => Some {| a_pr := pr; a_pl := pl; a_sg := sg; a_ds := p_disclosures p; a_kb := p_kb p |}
        | _ => None
        end
    | _ => None
    end.
  Definition x0 : apres := {| a_pr := []; a_pl := []; a_sg := []; a_ds := []; a_kb := None |}.

  (* x2: two disclosures and a KB-JWT *)
  Definition x2 : apres := match x_of_compact pres2 with Some x => x | None => x0 end.
  (* x3: the same without KB-JWT *)
  Definition x3 : apres := {| a_pr := a_pr x2; a_pl := a_pl x2; a_sg := a_sg x2; a_ds := a_ds x2; a_kb := None |}.
  (* tampered variants: a disclosure removed (the KB-JWT's sd_hash no longer matches);
     the issuer signature replaced *)
  Definition x2_dropped : apres :=
    {| a_pr := a_pr x2; a_pl := a_pl x2; a_sg := a_sg x2; a_ds := tl (a_ds x2); a_kb := a_kb x2 |}.
  Definition x2_badsig : apres :=
    {| a_pr := a_pr x2; a_pl := a_pl x2; a_sg := lit "c2ln"; a_ds := a_ds x2; a_kb := a_kb x2 |}.

  (* unknown members: nested, a repeated name, and a name that is a prefix of a known one *)
  Definition extra : members :=
    [(lit "foo", JObj [(lit "bar", JArr [JNum (lit "1"); JNull])]); (lit "foo", JBool true); (lit "kb", JStr (lit "~"))].

  Definition all_claims : json :=
    JObj [(lit "iss", JStr (lit "i")); (lit "exp", JNum (lit "100"));
          (lit "cnf", JObj [(lit "jwk", JObj [(lit "kty", JStr (lit "EC"))])]);
          (lit "a", JStr (lit "x")); (lit "b", JArr [JStr (lit "y"); JStr (lit "z")])].

  (* the premises of every theorem above hold for these inputs *)
  Example x2_shape :
    compact_of x2 = pres2 /\ List.length (a_ds x2) = 2%nat /\ (exists k, a_kb x2 = Some k /\ k <> []) /\
    fields_ok x2 = true /\ fields_ok x3 = true /\ fields_ok x2_dropped = true /\ fields_ok x2_badsig = true /\
    task_fields_ok x2 = true /\ extra_ok extra = true /\ extra_ok [] = true.
  Proof.
    vm_compute. repeat split; try reflexivity. eexists. split; [reflexivity | discriminate].
  Qed.

  (* Theorems 1-3: both parsers, by computation, agreeing; with KB-JWT *)
  Example parse_x2 :
    match parse_compact (compact_of x2), parse_json_form (json_of KbAbsent [] x2),
          parse_json_form (json_of KbNull extra x2) with
    | Ok pc, Ok pj, Ok pj' =>
        pj = pj' /\ p_jwt pc = p_jwt pj /\ p_payload pc = p_payload pj /\ p_disclosures pc = p_disclosures pj /\
        p_sign_alg pc = p_sign_alg pj /\ p_kb pc = p_kb pj /\ p_kb pj = a_kb x2 /\
        List.length (p_disclosures pj) = 2%nat /\ p_fmt pc = Compact /\ p_fmt pj = JSONFmt
    | _, _, _ => False
    end.
  Proof. vm_compute. repeat split; reflexivity. Qed.

  (* without KB-JWT, in both JSON styles, with unknown members *)
  Example parse_x3 :
    match parse_compact (compact_of x3), parse_json_form (json_of KbAbsent extra x3),
          parse_json_form (json_of KbNull extra x3) with
    | Ok pc, Ok pj, Ok pj' =>
        pj = pj' /\ p_jwt pc = p_jwt pj /\ p_payload pc = p_payload pj /\ p_disclosures pc = p_disclosures pj /\
        p_sign_alg pc = p_sign_alg pj /\ p_kb pc = Some [] /\ p_kb pj = None /\
        List.length (p_disclosures pj) = 2%nat
    | _, _, _ => False
    end.
  Proof. vm_compute. repeat split; reflexivity. Qed.

  (* Theorem 4 on an honest input: accepted in both formats with the same claims *)
  Example verify_x2_accepted :
    verify o2 (compact_of x2) V.resolver (Some (lit "v")) (Some (lit "n")) Compact 5 = Ok all_claims /\
    verify o2 (json_of KbAbsent [] x2) V.resolver (Some (lit "v")) (Some (lit "n")) JSONFmt 5 = Ok all_claims /\
    verify o2 (json_of KbNull extra x2) V.resolver (Some (lit "v")) (Some (lit "n")) JSONFmt 5 = Ok all_claims.
  Proof. vm_compute. repeat split; reflexivity. Qed.

  (* ... on tampered inputs: rejected in both formats *)
  Example verify_tampered_rejected :
    is_err (verify o2 (compact_of x2_dropped) V.resolver (Some (lit "v")) (Some (lit "n")) Compact 5) = true /\
    is_err (verify o2 (json_of KbAbsent extra x2_dropped) V.resolver (Some (lit "v")) (Some (lit "n")) JSONFmt 5) = true /\
    is_err (verify o2 (compact_of x2_badsig) V.resolver None None Compact 5) = true /\
    is_err (verify o2 (json_of KbNull [] x2_badsig) V.resolver None None JSONFmt 5) = true /\
    (* the dropped-disclosure variant is fine when no key binding is demanded: accepted in both *)
    is_ok (verify o2 (compact_of x2_dropped) V.resolver None None Compact 5) = true /\
    is_ok (verify o2 (json_of KbAbsent extra x2_dropped) V.resolver None None JSONFmt 5) = true.
  Proof. vm_compute. repeat split; reflexivity. Qed.

  (* ... without KB-JWT: accepted when no key binding is demanded, rejected when it is *)
  Example verify_x3 :
    verify o2 (compact_of x3) V.resolver None None Compact 5 = Ok all_claims /\
    verify o2 (json_of KbAbsent extra x3) V.resolver None None JSONFmt 5 = Ok all_claims /\
    verify o2 (json_of KbNull extra x3) V.resolver None None JSONFmt 5 = Ok all_claims /\
    is_err (verify o2 (compact_of x3) V.resolver (Some (lit "v")) (Some (lit "n")) Compact 5) = true /\
    is_err (verify o2 (json_of KbAbsent extra x3) V.resolver (Some (lit "v")) (Some (lit "n")) JSONFmt 5) = true /\
    is_err (verify o2 (json_of KbNull extra x3) V.resolver (Some (lit "v")) (Some (lit "n")) JSONFmt 5) = true.
  Proof. vm_compute. repeat split; reflexivity. Qed.

  (* Theorem 5: holders from both forms; same selection result (one disclosure out of two) *)
  Example holder_x3 :
    match holder_new o2 (compact_of x3) Compact, holder_new o2 (json_of KbNull extra x3) JSONFmt with
    | Ok h1, Ok h2 =>
        h_jwt h1 = h_jwt h2 /\ h_payload h1 = h_payload h2 /\ h_dmap h1 = h_dmap h2 /\
        h_fmt h1 = Compact /\ h_fmt h2 = JSONFmt /\ h_json h1 = None /\ h_json h2 <> None /\
        h_in_kb h1 = Some [] /\ h_in_kb h2 = None /\
        match walk (h_dmap h1) (JObj [(lit "b", JBool true)]) (JObj (h_payload h1)),
              walk (h_dmap h2) (JObj [(lit "b", JBool true)]) (JObj (h_payload h2)) with
        | Ok l1, Ok l2 => l1 = l2 /\ List.length l1 = 1%nat
        | _, _ => False
        end
    | _, _ => False
    end.
  Proof. vm_compute. repeat split; try reflexivity. discriminate. Qed.

  (* Theorem 6: a JSON text in another spelling (members reordered, whitespace, an
     unknown member first, kb_jwt null) — not of the form json_of _ _ _ — is covered *)
  Definition respelled : str :=
    lit "{ ""x"" : [1, {}] ,""disclosures"":[" ++
    [34] ++ nth 0 (a_ds x3) [] ++ [34; 44; 10; 32; 34] ++ nth 1 (a_ds x3) [] ++ [34] ++
    lit "], ""kb_jwt"": null, ""signature"" :" ++ [34] ++ a_sg x3 ++ [34] ++
    lit ", ""payload"":" ++ [34] ++ a_pl x3 ++ [34] ++ lit ",""protected"":" ++ [34] ++ a_pr x3 ++ [34] ++ lit " } ".

  Example respelled_covered :
    match parse_json_form respelled with
    | Ok p => fields_of p = Some x3 /\ fields_ok x3 = true /\
              verify o2 respelled V.resolver None None JSONFmt 5 = Ok all_claims
    | _ => False
    end.
  Proof. vm_compute. repeat split; reflexivity. Qed.

  (* compact_of_complete: the presentation text itself has a three-part JWT *)
  Example compact_complete_nonvacuous :
    match parse_compact pres2 with
    | Ok p => split_on 46 (p_jwt p) = [a_pr x2; a_pl x2; a_sg x2]
    | _ => False
    end.
  Proof. vm_compute. reflexivity. Qed.

  (* C10_present_transcode, and the one case where the two results are not
     transcodings of each other: holders built from x2 (which carries a KB-JWT),
     presenting WITHOUT key binding — the compact result ends in an empty KB part,
     the JSON result still carries the KB-JWT of the input. *)
  Example present_stale_kb :
    match holder_new o2 (compact_of x2) Compact, holder_new o2 (json_of KbAbsent [] x2) JSONFmt with
    | Ok h1, Ok h2 =>
        match snd (present o2 h1 [(lit "a", JBool true)] no_kb 5), snd (present o2 h2 [(lit "a", JBool true)] no_kb 5) with
        | Ok s1, Ok s2 =>
            match parse_compact s1, parse_json_form s2 with
            | Ok p1, Ok p2 => p_disclosures p1 = p_disclosures p2 /\ List.length (p_disclosures p1) = 1%nat /\
                              p_kb p1 = Some [] /\ p_kb p2 = a_kb x2
            | _, _ => False
            end
        | _, _ => False
        end
    | _, _ => False
    end.
  Proof. vm_compute. repeat split; reflexivity. Qed.
End TEx.

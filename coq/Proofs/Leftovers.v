(* Proofs/Leftovers.v — remaining clauses of C05, C13, C04, C02, C09.

   A. C05 (leak clause): the signed payload depends on hidden claims only through
      their digests.
        same_visible d1 d2            the two digest trees agree on everything visible and
                                      carry the same digest at every hidden node
        C05_noninterference           same_visible d1 d2 -> payload_of d1 = payload_of d2
        C05_issue_noninterference     the same for two runs of [issue]
        skeleton / erase              forgetting the digest strings but keeping their number
        C05_skeleton_payload          skeleton (payload_of d) = payload_of (erase d)
        C05_skeleton                  visible_shape and sd_counts equal -> equal skeletons
        C05_issue_skeleton            the same for two runs of [issue]
   B. C13 (consequence): in an issued payload every `_sd` member and every `{"...": x}`
      array element is the issuer's own.
        markers_are_issuers, C13_markers_of_payload, C13_issue_markers
   C. C04: an accepted key-bound presentation is pinned by its KB-JWT.
        C04_kb_binds_input_compact, C04_kb_binds_input_json
   D. C02: the resolver is consulted with (unverified iss, decoded header) and nothing else
      decides the key.
        C02_resolver_ext, C02_other_key_rejected
   E. C09: C09_expired_rejected (both formats, with or without key binding). *)
From SDJWT Require Import Base.Json Base.JsonFacts Params Codec.Base64 Codec.Utf8 Codec.JsonPrint Codec.JsonParse
  Codec.DisclosureText Model.Common Model.Issuer Model.Holder Model.Jwt Model.Verifier
  Spec.Path Spec.View Proofs.Build.
From SDJWT Require Proofs.IssuerBuild Proofs.HolderFacts Proofs.VerifierFacts Proofs.Transcode.
From Coq Require Import Lia PeanoNat.

(* ================================================================== *)
(*  A.  C05: hidden claims reach the payload only through digests      *)
(* ================================================================== *)

(* the visible members of an object node *)
Definition vis_members (ms : list (str * (option (str * str) * dtree))) : list (str * dtree) :=
  flat_map (fun kv => match fst (snd kv) with
                      | None => [(fst kv, snd (snd kv))]
                      | Some _ => []
                      end) ms.

(* [same_visible d1 d2]:
     - visible leaves are equal;
     - arrays have the same length; at each index both elements are visible and related,
       or both are hidden and carry the SAME DIGEST (salts and everything beneath are free);
     - objects have the same `_sd` list (which contains the digests of their hidden
       members, and the decoys); their VISIBLE members have the same names in the same
       order and related values.  Hidden members are unconstrained: other names, other
       values, other salts, other subtrees — even another number of them. *)
Inductive same_visible : dtree -> dtree -> Prop :=
| SV_leaf : forall v, same_visible (DLeaf v) (DLeaf v)
| SV_arr : forall es1 es2,
    Forall2 (fun e1 e2 : option (str * str) * dtree =>
               (fst e1 = None /\ fst e2 = None /\ same_visible (snd e1) (snd e2)) \/
               (exists s1 s2 g, fst e1 = Some (s1, g) /\ fst e2 = Some (s2, g))) es1 es2 ->
    same_visible (DArr es1) (DArr es2)
| SV_obj : forall ms1 ms2 sdl,
    Forall2 (fun a b : str * dtree => fst a = fst b /\ same_visible (snd a) (snd b))
            (vis_members ms1) (vis_members ms2) ->
    same_visible (DObj ms1 sdl) (DObj ms2 sdl).

Lemma obj_vis_vis : forall ms,
  IssuerBuild.obj_vis ms = map (fun kd => (fst kd, payload_of (snd kd))) (vis_members ms).
Proof.
  induction ms as [|[k [h d]] ms IH]; [reflexivity|].
  unfold IssuerBuild.obj_vis, vis_members in *. cbn [flat_map fst snd].
  destruct h; cbn [app map fst snd]; rewrite IH; reflexivity.
Qed.

Lemma Forall_vis_members : forall (P : dtree -> Prop) ms,
  Forall (fun kv => P (snd (snd kv))) ms -> Forall (fun kd => P (snd kd)) (vis_members ms).
Proof.
  intros P ms F. induction F as [|[k [h d]] ms Hx _ IH]; [constructor|].
  unfold vis_members in *. cbn [flat_map fst snd]. destruct h; cbn [app]; [exact IH|].
  constructor; [exact Hx | exact IH].
Qed.

Theorem C05_noninterference : forall d1 d2, same_visible d1 d2 -> payload_of d1 = payload_of d2.
Proof.
  induction d1 as [v | es IH | ms sdl IH] using dtree_ind'; intros d2 S; inversion S; subst.
  - reflexivity.
  - rewrite !IssuerBuild.payload_arr_eq. f_equal. unfold IssuerBuild.arr_payload.
    match goal with F : Forall2 _ es _ |- _ => rename F into F2 end. clear S.
    induction F2 as [|e1 e2 es1 es2' R _ IH2]; [reflexivity|].
    inversion IH as [|? ? Hx Hl]; subst. cbn [map]. f_equal; [|apply IH2; exact Hl].
    destruct R as [(E1 & E2 & R) | (s1 & s2 & g & E1 & E2)].
    + rewrite E1, E2. apply Hx. exact R.
    + rewrite E1, E2. reflexivity.
  - rewrite !IssuerBuild.payload_obj_eq. f_equal. f_equal. rewrite !obj_vis_vis.
    apply (Forall_vis_members (fun d => forall d2, same_visible d d2 -> payload_of d = payload_of d2)) in IH.
    match goal with F : Forall2 _ (vis_members ms) _ |- _ => rename F into F2 end. clear S.
    induction F2 as [|a b l1 l2 [En R] _ IH2]; [reflexivity|].
    inversion IH as [|? ? Hx Hl]; subst. cbn [map]. f_equal; [|apply IH2; exact Hl].
    rewrite En. f_equal. apply Hx. exact R.
Qed.
Print Assumptions C05_noninterference.

Lemma same_visible_refl : forall d, same_visible d d.
Proof.
  induction d as [v | es IH | ms sdl IH] using dtree_ind'.
  - constructor.
  - constructor. induction IH as [|[h d] es Hx _ IH2]; constructor; [|exact IH2].
    destruct h as [[s g]|]; [right; exists s, s, g; split; reflexivity | left; repeat split; exact Hx].
  - constructor. apply (Forall_vis_members (fun d => same_visible d d)) in IH.
    induction IH as [|kd l Hx _ IH2]; constructor; [split; [reflexivity | exact Hx] | exact IH2].
Qed.

(* Non-vacuity: two trees that differ in every hidden part — the name, value and salt
   of a hidden member, the number of hidden members, and the salt and subtree under a
   hidden array element — but agree on what is visible and on the digests. *)
Module ExA.
  Definition t1 : dtree :=
    DObj [(lit "name", (Some (lit "salt1", lit "DG1"), DLeaf (JStr (lit "Alice"))));
          (lit "pub", (None, DLeaf (JNum (lit "1"))));
          (lit "arr", (None, DArr [(Some (lit "s2", lit "DG2"), DLeaf (JStr (lit "secret")));
                                   (None, DLeaf JNull)]))]
         [lit "DG1"; lit "DECOY"].
  Definition t2 : dtree :=
    DObj [(lit "pub", (None, DLeaf (JNum (lit "1"))));
          (lit "other", (Some (lit "salt9", lit "DG1"), DArr [(None, DLeaf (JBool true))]));
          (lit "more", (Some (lit "salt8", lit "DECOY"), DLeaf JNull));
          (lit "arr", (None, DArr [(Some (lit "s7", lit "DG2"), DObj [(lit "x", (None, DLeaf JNull))] []);
                                   (None, DLeaf JNull)]))]
         [lit "DG1"; lit "DECOY"].
  Example t1_t2_same_visible : same_visible t1 t2.
  Proof.
    unfold t1, t2. constructor. cbn. constructor; [split; [reflexivity | constructor]|].
    constructor; [|constructor]. split; [reflexivity|]. constructor.
    constructor; [right; do 3 eexists; split; reflexivity|].
    constructor; [left; repeat split; constructor | constructor].
  Qed.
  Example t1_t2_differ : claims_of t1 <> claims_of t2 /\ disclosures_of t1 <> disclosures_of t2.
  Proof. split; intros C; vm_compute in C; discriminate C. Qed.
  Example t1_t2_same_payload :
    payload_of t1 = payload_of t2 /\
    payload_of t1 =
      JObj [(lit "_sd", JArr [JStr (lit "DG1"); JStr (lit "DECOY")]); (lit "pub", JNum (lit "1"));
            (lit "arr", JArr [JObj [(lit "...", JStr (lit "DG2"))]; JNull])].
  Proof. split; vm_compute; reflexivity. Qed.
  (* a different digest at a hidden position is visible *)
  Example digest_matters :
    payload_of (DArr [(Some (lit "s", lit "DG1"), DLeaf JNull)]) <>
    payload_of (DArr [(Some (lit "s", lit "DG2"), DLeaf JNull)]).
  Proof. intros C; vm_compute in C; discriminate C. Qed.
End ExA.

(* ---- the issuer: two issuances whose trees agree on the visible part and on the
        digests have byte-identical payloads.  The trees D1, D2 are the ones of
        IssuerBuild.issue_builds: they carry the user's claims (claims_of), the emitted
        disclosures (disclosures_of) and the correct digests (digests_ok). ---- *)
Definition issue_tree (o : oracles) (m : members) (s : strategy) (holder_jwk : option json)
           (i : issued) (D : dtree) : Prop :=
  exists s' ms sdl,
    finalize_input s = Ok s' /\
    flags (DObj ms sdl) = marks s' (JObj (IssuerBuild.rest_of m)) /\
    claims_of (DObj ms sdl) = JObj (IssuerBuild.rest_of m) /\
    D = DObj (ms ++ map IssuerBuild.embed_member (IssuerBuild.top_members m holder_jwk)) sdl /\
    is_payload i = payload_of D /\ shape_ok D /\ digests_ok o D /\
    is_disclosures i = map (fun e => IssuerBuild.raw_of_disc (snd e)) (disclosures_of D) /\
    claims_of D = JObj (IssuerBuild.rest_of m ++ IssuerBuild.top_members m holder_jwk).

Definition issue_premises (m : members) (holder_jwk : option json) (r : rng) : Prop :=
  r_queue r = None /\ wf_json (JObj m) = true /\ ~ In DIGEST_ALG_KEY (keys m) /\
  (forall jwk, holder_jwk = Some jwk ->
     wf_json jwk = true /\ has_reserved jwk = false /\ ~ In CNF_KEY (keys m)).

Lemma issue_has_tree : forall o alg ikey m s holder_jwk decoy fmt r i r',
  issue o alg ikey (JObj m) s holder_jwk decoy fmt r = Ok (i, r') ->
  issue_premises m holder_jwk r ->
  exists D, issue_tree o m s holder_jwk i D.
Proof.
  intros o alg ikey m s holder_jwk decoy fmt r i r' E (Q & W & NA & HJ).
  destruct (IssuerBuild.issue_builds _ _ _ _ _ _ _ _ _ _ _ E Q W NA HJ)
    as (s' & ms & sdl & Fs & Fd & Cd & G). cbv zeta in G.
  destruct G as (Ep & Sh & Dg & Ed & Cl & _).
  eexists. exists s', ms, sdl. repeat (split; [eassumption || reflexivity|]). exact Cl.
Qed.

Corollary C05_issue_noninterference :
  forall o alg1 alg2 k1 k2 m1 m2 s1 s2 hj1 hj2 decoy1 decoy2 fmt1 fmt2 r1 r2 i1 i2 r1' r2',
  issue o alg1 k1 (JObj m1) s1 hj1 decoy1 fmt1 r1 = Ok (i1, r1') ->
  issue o alg2 k2 (JObj m2) s2 hj2 decoy2 fmt2 r2 = Ok (i2, r2') ->
  issue_premises m1 hj1 r1 -> issue_premises m2 hj2 r2 ->
  exists D1 D2,
    issue_tree o m1 s1 hj1 i1 D1 /\ issue_tree o m2 s2 hj2 i2 D2 /\
    (same_visible D1 D2 -> is_payload i1 = is_payload i2).
Proof.
  intros o alg1 alg2 k1 k2 m1 m2 s1 s2 hj1 hj2 decoy1 decoy2 fmt1 fmt2 r1 r2 i1 i2 r1' r2' E1 E2 P1 P2.
  destruct (issue_has_tree _ _ _ _ _ _ _ _ _ _ _ E1 P1) as (D1 & T1).
  destruct (issue_has_tree _ _ _ _ _ _ _ _ _ _ _ E2 P2) as (D2 & T2).
  exists D1, D2. split; [exact T1|]. split; [exact T2|]. intros S.
  destruct T1 as (? & ? & ? & _ & _ & _ & _ & -> & _). destruct T2 as (? & ? & ? & _ & _ & _ & _ & -> & _).
  apply C05_noninterference. exact S.
Qed.
Print Assumptions C05_issue_noninterference.

(* ---- the skeleton: forget the digest strings, keep their number ---- *)

(* an array element of the form {"...": <string>} *)
Definition is_ph (x : json) : bool :=
  match x with
  | JObj [(k, JStr _)] => str_eqb k SD_LIST_PREFIX
  | _ => false
  end.

(* every string of an array replaced by the empty string *)
Definition blank_strs (x : json) : json :=
  match x with
  | JArr l => JArr (map (fun y => match y with JStr _ => JStr [] | _ => y end) l)
  | _ => x
  end.

(* every string inside an `_sd` array and every placeholder digest replaced by "" *)
Fixpoint skeleton (v : json) : json :=
  match v with
  | JArr l => JArr (map (fun x => if is_ph x then placeholder [] else skeleton x) l)
  | JObj m => JObj (map (fun kv => (fst kv, if str_eqb (fst kv) SD_DIGESTS_KEY then blank_strs (snd kv)
                                            else skeleton (snd kv))) m)
  | _ => v
  end.

(* the digest tree with everything hidden erased: a hidden array element keeps its
   position only, hidden object members disappear, the `_sd` lists keep their length only *)
Fixpoint erase (d : dtree) : dtree :=
  match d with
  | DLeaf v => DLeaf v
  | DArr es => DArr (map (fun e => match fst e with
                                   | Some _ => (Some ([], []), DLeaf JNull)
                                   | None => (None, erase (snd e))
                                   end) es)
  | DObj ms sdl =>
      DObj (flat_map (fun kv => match fst (snd kv) with
                                | Some _ => []
                                | None => [(fst kv, (None, erase (snd (snd kv))))]
                                end) ms)
           (map (fun _ => []) sdl)
  end.

Lemma is_ph_no_key : forall m, ~ In SD_LIST_PREFIX (keys m) -> is_ph (JObj m) = false.
Proof.
  intros m N. destruct m as [|[k x] [|kv m]]; try reflexivity; destruct x; try reflexivity.
  cbn [is_ph]. apply str_eqb_neq. intros ->. apply N. left. reflexivity.
Qed.

Lemma is_ph_payload : forall d, shape_ok d -> is_ph (payload_of d) = false.
Proof.
  intros [v | es | ms sdl] S.
  - cbn [shape_ok payload_of] in *. destruct v; try reflexivity; discriminate S.
  - reflexivity.
  - rewrite IssuerBuild.shape_obj_eq in S. destruct S as (_ & _ & NP & _).
    rewrite IssuerBuild.payload_obj_eq. destruct sdl as [|g sdl].
    + cbn [sd_member app]. apply is_ph_no_key. intros C. apply IssuerBuild.In_keys_obj_vis in C. contradiction.
    + cbn [sd_member app]. destruct (IssuerBuild.obj_vis ms); reflexivity.
Qed.

Lemma skeleton_leaf : forall v, is_container v = false -> skeleton v = v.
Proof. intros v C. destruct v; try reflexivity; discriminate C. Qed.

Lemma skeleton_arr : forall l,
  skeleton (JArr l) = JArr (map (fun x => if is_ph x then placeholder [] else skeleton x) l).
Proof. reflexivity. Qed.
Lemma skeleton_obj : forall m,
  skeleton (JObj m) = JObj (map (fun kv => (fst kv, if str_eqb (fst kv) SD_DIGESTS_KEY then blank_strs (snd kv)
                                                   else skeleton (snd kv))) m).
Proof. reflexivity. Qed.
Lemma erase_arr : forall es,
  erase (DArr es) = DArr (map (fun e => match fst e with
                                        | Some _ => (Some ([], []), DLeaf JNull)
                                        | None => (None, erase (snd e))
                                        end) es).
Proof. reflexivity. Qed.
Definition erase_members (ms : list (str * (option (str * str) * dtree))) :=
  flat_map (fun kv => match fst (snd kv) with
                      | Some _ => []
                      | None => [(fst kv, (@None (str * str), erase (snd (snd kv))))]
                      end) ms.
Lemma erase_obj : forall ms sdl, erase (DObj ms sdl) = DObj (erase_members ms) (map (fun _ => []) sdl).
Proof. reflexivity. Qed.

Theorem C05_skeleton_payload : forall d, shape_ok d -> skeleton (payload_of d) = payload_of (erase d).
Proof.
  induction d as [v | es IH | ms sdl IH] using dtree_ind'; intros S.
  - cbn [payload_of erase]. apply skeleton_leaf. exact S.
  - rewrite erase_arr, !IssuerBuild.payload_arr_eq, skeleton_arr. f_equal.
    apply IssuerBuild.shape_arr_iff in S. unfold IssuerBuild.arr_payload.
    induction IH as [|[h c] es Hx _ IH2]; [reflexivity|].
    inversion S as [|? ? Sx Sl]; subst. cbn [map fst snd] in *. f_equal; [|apply IH2; exact Sl].
    destruct h as [[s g]|].
    + reflexivity.
    + rewrite (is_ph_payload c Sx). apply Hx. exact Sx.
  - rewrite erase_obj, !IssuerBuild.payload_obj_eq, skeleton_obj, map_app. f_equal. f_equal.
    + destruct sdl as [|g sdl]; [reflexivity|]. cbn [sd_member map fst snd].
      replace (str_eqb SD_DIGESTS_KEY SD_DIGESTS_KEY) with true by reflexivity.
      cbn [blank_strs map]. rewrite !map_map. reflexivity.
    + rewrite IssuerBuild.shape_obj_eq in S. destruct S as (_ & NS & _ & _ & K).
      apply IssuerBuild.obj_kids_shape_iff in K. unfold IssuerBuild.obj_vis, erase_members.
      induction IH as [|[k [h c]] ms Hx _ IH2]; [reflexivity|].
      inversion K as [|? ? Sx Sl]; subst. cbn [map fst snd flat_map] in *.
      assert (NS' : ~ In SD_DIGESTS_KEY (map fst ms)) by (intros C; apply NS; right; exact C).
      destruct h as [[s g]|]; cbn [app map fst snd].
      * apply IH2; assumption.
      * rewrite (IH2 NS' Sl). f_equal.
        replace (str_eqb k SD_DIGESTS_KEY) with false
          by (symmetry; apply str_eqb_neq; intros ->; apply NS; left; reflexivity).
        rewrite (Hx Sx). reflexivity.
Qed.
Print Assumptions C05_skeleton_payload.

(* ---- the same, phrased with the annotated claim tree of Spec/View.v ---- *)

(* [flags] after erasing what is hidden: the visible claims, and WHERE array elements
   are hidden (a hidden element is (true, ALeaf JNull)); hidden members are absent *)
Definition visible_shape (d : dtree) : atree := flags (erase d).

(* the lengths of the `_sd` lists of the objects reachable through visible nodes, in preorder *)
Fixpoint sd_counts (d : dtree) : list nat :=
  match d with
  | DLeaf _ => []
  | DArr es => flat_map (fun e => match fst e with Some _ => [] | None => sd_counts (snd e) end) es
  | DObj ms sdl =>
      List.length sdl ::
      flat_map (fun kv => match fst (snd kv) with Some _ => [] | None => sd_counts (snd (snd kv)) end) ms
  end.

Definition arr_counts (es : list (option (str * str) * dtree)) : list nat :=
  flat_map (fun e => match fst e with Some _ => [] | None => sd_counts (snd e) end) es.

Lemma visible_shape_arr : forall es,
  visible_shape (DArr es) =
  AArr (map (fun e => match fst e with
                      | Some _ => (true, ALeaf JNull)
                      | None => (false, visible_shape (snd e))
                      end) es).
Proof.
  intros es. unfold visible_shape. rewrite erase_arr. cbn [flags]. rewrite map_map. f_equal.
  apply map_ext. intros [[?|] ?]; reflexivity.
Qed.

Lemma erase_members_vis : forall ms,
  erase_members ms = map (fun kd => (fst kd, (@None (str * str), erase (snd kd)))) (vis_members ms).
Proof.
  induction ms as [|[k [h d]] ms IH]; [reflexivity|].
  unfold erase_members, vis_members in *. cbn [flat_map fst snd].
  destruct h; cbn [app map fst snd]; rewrite IH; reflexivity.
Qed.

Lemma visible_shape_obj : forall ms sdl,
  visible_shape (DObj ms sdl) =
  AObj (map (fun kd => (fst kd, (false, visible_shape (snd kd)))) (vis_members ms)).
Proof.
  intros ms sdl. unfold visible_shape. rewrite erase_obj, erase_members_vis. cbn [flags].
  rewrite map_map. reflexivity.
Qed.

Lemma sd_counts_obj : forall ms sdl,
  sd_counts (DObj ms sdl) = List.length sdl :: flat_map (fun kd => sd_counts (snd kd)) (vis_members ms).
Proof.
  intros ms sdl. cbn [sd_counts]. f_equal.
  induction ms as [|[k [h d]] ms IH]; [reflexivity|].
  unfold vis_members in *. cbn [flat_map fst snd]. destruct h; cbn [app flat_map snd]; rewrite IH; reflexivity.
Qed.

Lemma map_const_length : forall (a b : list str),
  List.length a = List.length b -> map (fun _ => @nil N) a = map (fun _ => @nil N) b.
Proof.
  induction a as [|x a IH]; intros [|y b] E; try discriminate E; [reflexivity|].
  cbn [map]. f_equal. apply IH. injection E as E. exact E.
Qed.

(* the counts are consumed in preorder: the statement carries the unread rest *)
Lemma erase_eq_rest : forall d1 d2 r1 r2,
  visible_shape d1 = visible_shape d2 -> sd_counts d1 ++ r1 = sd_counts d2 ++ r2 ->
  erase d1 = erase d2 /\ r1 = r2.
Proof.
  induction d1 as [v | es IH | ms sdl IH] using dtree_ind'; intros d2 r1 r2 V C.
  - destruct d2 as [v2 | es2 | ms2 sdl2]; try discriminate V.
    unfold visible_shape in V. cbn [erase flags] in V. injection V as <-. split; [reflexivity | exact C].
  - destruct d2 as [v2 | es2 | ms2 sdl2]; try discriminate V.
    rewrite !visible_shape_arr in V. injection V as V. rewrite !erase_arr.
    change (sd_counts (DArr es)) with (arr_counts es) in C.
    change (sd_counts (DArr es2)) with (arr_counts es2) in C.
    enough (G : map (fun e : option (str * str) * dtree =>
                       match fst e with Some _ => (Some ([], []), DLeaf JNull) | None => (None, erase (snd e)) end) es =
                map (fun e : option (str * str) * dtree =>
                       match fst e with Some _ => (Some ([], []), DLeaf JNull) | None => (None, erase (snd e)) end) es2
                /\ r1 = r2) by (destruct G as [G1 G2]; rewrite G1; split; [reflexivity | exact G2]).
    revert es2 r1 r2 V C. induction IH as [|[h1 c1] es Hx _ IH2]; intros [|[h2 c2] es2] r1 r2 V C;
      try discriminate V.
    + split; [reflexivity | exact C].
    + cbn [map fst snd] in V. injection V as V1 V2.
      unfold arr_counts in C. cbn [flat_map fst snd] in C. fold (arr_counts es) (arr_counts es2) in C.
      cbn [map fst snd]. destruct h1 as [p1|], h2 as [p2|]; try discriminate V1.
      * cbn [app] in C. destruct (IH2 es2 r1 r2 V2 C) as [G1 G2]. rewrite G1. split; [reflexivity | exact G2].
      * injection V1 as V1. rewrite <- !app_assoc in C. cbn [snd] in Hx.
        destruct (Hx c2 _ _ V1 C) as [E1 C'].
        destruct (IH2 es2 r1 r2 V2 C') as [G1 G2]. rewrite E1, G1. split; [reflexivity | exact G2].
  - destruct d2 as [v2 | es2 | ms2 sdl2]; try discriminate V.
    rewrite !visible_shape_obj in V. injection V as V. rewrite !sd_counts_obj in C. cbn [app] in C.
    injection C as L C. rewrite !erase_obj, !erase_members_vis, (map_const_length _ _ L).
    apply (Forall_vis_members (fun d => forall d2 r1 r2, visible_shape d = visible_shape d2 ->
             sd_counts d ++ r1 = sd_counts d2 ++ r2 -> erase d = erase d2 /\ r1 = r2)) in IH.
    enough (G : map (fun kd : str * dtree => (fst kd, (@None (str * str), erase (snd kd)))) (vis_members ms) =
                map (fun kd : str * dtree => (fst kd, (@None (str * str), erase (snd kd)))) (vis_members ms2)
                /\ r1 = r2) by (destruct G as [G1 G2]; rewrite G1; split; [reflexivity | exact G2]).
    generalize dependent (vis_members ms2). generalize dependent (vis_members ms). clear ms ms2 sdl sdl2 L.
    intros l1 IH. induction IH as [|[k1 c1] l1 Hx _ IH2]; intros [|[k2 c2] l2] V C; try discriminate V.
    + split; [reflexivity | exact C].
    + cbn [map fst snd] in V. injection V as Vk V1 V2. subst k2.
      cbn [flat_map snd] in C. rewrite <- !app_assoc in C. cbn [snd] in Hx.
      destruct (Hx c2 _ _ V1 C) as [E1 C'].
      destruct (IH2 l2 V2 C') as [G1 G2]. cbn [map fst snd]. rewrite E1, G1. split; [reflexivity | exact G2].
Qed.

Lemma erase_eq : forall d1 d2,
  visible_shape d1 = visible_shape d2 -> sd_counts d1 = sd_counts d2 -> erase d1 = erase d2.
Proof.
  intros d1 d2 V C. apply (erase_eq_rest d1 d2 [] []); [exact V|]. rewrite !app_nil_r. exact C.
Qed.

(* two digest trees with the same visible part, the same hidden positions and `_sd`
   lists of the same lengths have payloads that differ at most in digest strings:
   names, values and salts of hidden claims reach the payload only through digests *)
Theorem C05_skeleton : forall d1 d2,
  shape_ok d1 -> shape_ok d2 ->
  visible_shape d1 = visible_shape d2 -> sd_counts d1 = sd_counts d2 ->
  skeleton (payload_of d1) = skeleton (payload_of d2).
Proof.
  intros d1 d2 S1 S2 V C. rewrite (C05_skeleton_payload d1 S1), (C05_skeleton_payload d2 S2).
  rewrite (erase_eq d1 d2 V C). reflexivity.
Qed.
Print Assumptions C05_skeleton.

(* same_visible is the special case in which the digest strings agree as well *)
Lemma same_visible_erase : forall d1 d2, same_visible d1 d2 -> erase d1 = erase d2.
Proof.
  induction d1 as [v | es IH | ms sdl IH] using dtree_ind'; intros d2 S; inversion S; subst.
  - reflexivity.
  - rewrite !erase_arr. f_equal.
    match goal with F : Forall2 _ es _ |- _ => rename F into F2 end. clear S.
    induction F2 as [|e1 e2 es1 es2' R _ IH2]; [reflexivity|].
    inversion IH as [|? ? Hx Hl]; subst. cbn [map]. f_equal; [|apply IH2; exact Hl].
    destruct R as [(E1 & E2 & R) | (s1 & s2 & g & E1 & E2)].
    + rewrite E1, E2. f_equal. apply Hx. exact R.
    + rewrite E1, E2. reflexivity.
  - rewrite !erase_obj, !erase_members_vis. f_equal.
    apply (Forall_vis_members (fun d => forall d2, same_visible d d2 -> erase d = erase d2)) in IH.
    match goal with F : Forall2 _ (vis_members ms) _ |- _ => rename F into F2 end. clear S.
    induction F2 as [|a b l1 l2 [En R] _ IH2]; [reflexivity|].
    inversion IH as [|? ? Hx Hl]; subst. cbn [map]. f_equal; [|apply IH2; exact Hl].
    rewrite En. do 2 f_equal. apply Hx. exact R.
Qed.

Corollary C05_issue_skeleton :
  forall o alg1 alg2 k1 k2 m1 m2 s1 s2 hj1 hj2 decoy1 decoy2 fmt1 fmt2 r1 r2 i1 i2 r1' r2',
  issue o alg1 k1 (JObj m1) s1 hj1 decoy1 fmt1 r1 = Ok (i1, r1') ->
  issue o alg2 k2 (JObj m2) s2 hj2 decoy2 fmt2 r2 = Ok (i2, r2') ->
  issue_premises m1 hj1 r1 -> issue_premises m2 hj2 r2 ->
  exists D1 D2,
    issue_tree o m1 s1 hj1 i1 D1 /\ issue_tree o m2 s2 hj2 i2 D2 /\
    (visible_shape D1 = visible_shape D2 -> sd_counts D1 = sd_counts D2 ->
     skeleton (is_payload i1) = skeleton (is_payload i2)).
Proof.
  intros o alg1 alg2 k1 k2 m1 m2 s1 s2 hj1 hj2 decoy1 decoy2 fmt1 fmt2 r1 r2 i1 i2 r1' r2' E1 E2 P1 P2.
  destruct (issue_has_tree _ _ _ _ _ _ _ _ _ _ _ E1 P1) as (D1 & T1).
  destruct (issue_has_tree _ _ _ _ _ _ _ _ _ _ _ E2 P2) as (D2 & T2).
  exists D1, D2. split; [exact T1|]. split; [exact T2|]. intros V C.
  destruct T1 as (? & ? & ? & _ & _ & _ & _ & -> & S1 & _). destruct T2 as (? & ? & ? & _ & _ & _ & _ & -> & S2 & _).
  apply C05_skeleton; assumption.
Qed.
Print Assumptions C05_issue_skeleton.

(* a decidable sufficient check for shape_ok (used by the examples) *)
Fixpoint shape_okb (d : dtree) : bool :=
  match d with
  | DLeaf v => negb (is_container v)
  | DArr es => forallb (fun e => shape_okb (snd e)) es
  | DObj ms sdl =>
      IssuerBuild.Examples.nodupb (map fst ms) && negb (mem_str SD_DIGESTS_KEY (map fst ms)) &&
      negb (mem_str SD_LIST_PREFIX (map fst ms)) && IssuerBuild.Examples.inclb (own_digests ms) sdl &&
      forallb (fun kv => shape_okb (snd (snd kv))) ms
  end.

Lemma shape_okb_sound : forall d, shape_okb d = true -> shape_ok d.
Proof.
  induction d as [v | es IH | ms sdl IH] using dtree_ind'; intros E.
  - cbn [shape_okb shape_ok] in *. apply negb_true_iff in E. exact E.
  - apply IssuerBuild.shape_arr_iff. cbn [shape_okb] in E. rewrite forallb_forall in E.
    rewrite Forall_forall in *. intros e I. apply IH; [exact I | apply E; exact I].
  - cbn [shape_okb] in E. repeat (apply andb_true_iff in E as [E ?]).
    rewrite IssuerBuild.shape_obj_eq.
    split; [apply IssuerBuild.Examples.nodupb_NoDup; exact E|].
    split; [apply mem_str_not_In; apply negb_true_iff; assumption|].
    split; [apply mem_str_not_In; apply negb_true_iff; assumption|].
    split; [apply IssuerBuild.Examples.inclb_incl; assumption|].
    apply IssuerBuild.obj_kids_shape_iff.
    match goal with F : forallb _ ms = true |- _ => rewrite forallb_forall in F; rename F into F' end.
    rewrite Forall_forall in *. intros kv I. apply IH; [exact I | apply F'; exact I].
Qed.

(* Non-vacuity: two trees with different digest strings (hence differently sorted `_sd`
   lists), different hidden names / values / salts / subtrees, but the same visible
   part, hidden positions and `_sd` lengths: their payloads differ, their skeletons do not. *)
Module ExSk.
  Definition t3 : dtree :=
    DObj [(lit "pub", (None, DLeaf (JNum (lit "1"))));
          (lit "zzz", (Some (lit "salt9", lit "XX9"), DArr [(None, DLeaf (JBool true))]));
          (lit "arr", (None, DArr [(Some (lit "s7", lit "QQ"), DObj [(lit "x", (None, DLeaf JNull))] []);
                                   (None, DLeaf JNull)]))]
         [lit "AA0"; lit "XX9"].
  Example premises :
    shape_ok ExA.t1 /\ shape_ok t3 /\ visible_shape ExA.t1 = visible_shape t3 /\ sd_counts ExA.t1 = sd_counts t3.
  Proof.
    split; [apply shape_okb_sound; vm_compute; reflexivity|].
    split; [apply shape_okb_sound; vm_compute; reflexivity|]. split; vm_compute; reflexivity.
  Qed.
  Example observed :
    payload_of ExA.t1 <> payload_of t3 /\
    skeleton (payload_of ExA.t1) = skeleton (payload_of t3) /\
    skeleton (payload_of t3) =
      JObj [(lit "_sd", JArr [JStr []; JStr []]); (lit "pub", JNum (lit "1"));
            (lit "arr", JArr [JObj [(lit "...", JStr [])]; JNull])] /\
    visible_shape t3 =
      AObj [(lit "pub", (false, ALeaf (JNum (lit "1"))));
            (lit "arr", (false, AArr [(true, ALeaf JNull); (false, ALeaf JNull)]))] /\
    sd_counts t3 = [2%nat].
  Proof.
    split; [intros C; vm_compute in C; discriminate C|]. repeat split; vm_compute; reflexivity.
  Qed.
  (* one more `_sd` entry (a decoy more, or one more hidden member) is visible in the skeleton *)
  Example count_matters :
    skeleton (payload_of (DObj [] [lit "A"])) <> skeleton (payload_of (DObj [] [lit "A"; lit "B"])).
  Proof. intros C; vm_compute in C; discriminate C. Qed.
  (* two real issuances (decoys on, AllLevels): another hidden name, another hidden value,
     other salts — different payloads, same skeleton *)
  Definition m1 : members := IssuerBuild.Examples.top_claims_m.
  Definition m2 : members :=
    [(lit "iss", JStr (lit "me")); (lit "zz", JArr [JStr (lit "something else")]); (lit "exp", JNum (lit "9"));
     (lit "b", JArr [JNum (lit "777"); JObj [(lit "c", JStr (lit "no"))]])].
  Definition rng2 : rng :=
    {| r_queue := None; r_salts := map IssuerBuild.Examples.mk_salt [10; 11; 12; 13; 14; 15; 16; 17; 18];
       r_counts := [1%nat; 1%nat; 0%nat] |}.
  Example two_issuances :
    match issue IssuerBuild.Examples.toy (lit "HS256") IssuerBuild.Examples.ikey (JObj m1) AllLevels
                (Some IssuerBuild.Examples.jwk) true Compact IssuerBuild.Examples.r0,
          issue IssuerBuild.Examples.toy (lit "HS256") IssuerBuild.Examples.ikey (JObj m2) AllLevels
                (Some IssuerBuild.Examples.jwk) true Compact rng2 with
    | Ok (i1, _), Ok (i2, _) =>
        is_payload i1 <> is_payload i2 /\ skeleton (is_payload i1) = skeleton (is_payload i2) /\
        List.length (is_disclosures i1) = 5%nat /\ List.length (is_disclosures i2) = 6%nat
    | _, _ => False
    end.
  Proof. vm_compute. split; [intros C; discriminate C | repeat split]. Qed.
End ExSk.

(* ================================================================== *)
(*  B.  C13: the markers of an issued payload are the issuer's own     *)
(* ================================================================== *)

(* v is an array of strings, all of them among ds *)
Definition is_digest_list (ds : list str) (v : json) : Prop :=
  exists sdl, v = JArr (map JStr sdl) /\ incl sdl ds.

(* x is exactly {"...": g} for a g among ds *)
Definition is_issuer_placeholder (ds : list str) (x : json) : Prop :=
  exists g, x = placeholder g /\ In g ds.

(* [markers_are_issuers ds v], for the whole JSON value v, recursively:
     - every member named `_sd`, of every object, is an array of strings that all belong to ds;
     - every array element is either exactly {"...": g} with g in ds, or a value that
       satisfies the predicate — and an object satisfying it has NO member named `...`.
   So an object with a `...` member occurs only as an issuer placeholder inside an array. *)
Fixpoint markers_are_issuers (ds : list str) (v : json) : Prop :=
  match v with
  | JArr l =>
      (fix go (l : list json) : Prop :=
         match l with
         | [] => True
         | x :: l' => (is_issuer_placeholder ds x \/ markers_are_issuers ds x) /\ go l'
         end) l
  | JObj m =>
      ~ In SD_LIST_PREFIX (keys m) /\
      (fix go (m : members) : Prop :=
         match m with
         | [] => True
         | kv :: m' => (if str_eqb (fst kv) SD_DIGESTS_KEY then is_digest_list ds (snd kv)
                        else markers_are_issuers ds (snd kv)) /\ go m'
         end) m
  | _ => True
  end.

Lemma mai_arr : forall ds l,
  markers_are_issuers ds (JArr l) <->
  Forall (fun x => is_issuer_placeholder ds x \/ markers_are_issuers ds x) l.
Proof.
  intros ds. induction l as [|x l IH].
  - split; intros _; [constructor | exact I].
  - change (markers_are_issuers ds (JArr (x :: l)))
      with ((is_issuer_placeholder ds x \/ markers_are_issuers ds x) /\ markers_are_issuers ds (JArr l)).
    rewrite IH. split; [intros [A B]; constructor; assumption | intros F; inversion F; subst; split; assumption].
Qed.

Definition member_ok (ds : list str) (kv : str * json) : Prop :=
  if str_eqb (fst kv) SD_DIGESTS_KEY then is_digest_list ds (snd kv) else markers_are_issuers ds (snd kv).

Lemma mai_obj : forall ds m,
  markers_are_issuers ds (JObj m) <-> ~ In SD_LIST_PREFIX (keys m) /\ Forall (member_ok ds) m.
Proof.
  intros ds m.
  assert (G : (fix go (m : members) : Prop :=
                 match m with
                 | [] => True
                 | kv :: m' => (if str_eqb (fst kv) SD_DIGESTS_KEY then is_digest_list ds (snd kv)
                                else markers_are_issuers ds (snd kv)) /\ go m'
                 end) m <-> Forall (member_ok ds) m).
  { induction m as [|kv m IH].
    - split; intros _; [constructor | exact I].
    - rewrite IH. split; [intros [A B]; constructor; assumption | intros F; inversion F; subst; split; assumption]. }
  cbn [markers_are_issuers]. rewrite G. apply iff_refl.
Qed.

Lemma mai_mono : forall ds ds' v, incl ds ds' -> markers_are_issuers ds v -> markers_are_issuers ds' v.
Proof.
  intros ds ds' v I'. induction v as [| b | n | s | l IH | m IH] using json_ind'; try (intros _; exact I).
  - rewrite !mai_arr. intros F. rewrite Forall_forall in *. intros x Ix.
    destruct (F x Ix) as [(g & E & Ig) | M]; [left; exists g; split; [exact E | apply I'; exact Ig]|].
    right. apply IH; assumption.
  - rewrite !mai_obj. intros [N F]. split; [exact N|]. rewrite Forall_forall in *. intros kv Ik.
    specialize (F kv Ik). unfold member_ok in *. destruct (str_eqb (fst kv) SD_DIGESTS_KEY).
    + destruct F as (sdl & E & Is). exists sdl. split; [exact E|]. intros x Ix. apply I'. apply Is. exact Ix.
    + apply IH; assumption.
Qed.

Lemma all_digests_arr_incl : forall es e, In e es ->
  incl (match fst e with Some (_, dg) => [dg] | None => [] end ++ all_digests (snd e)) (all_digests (DArr es)).
Proof.
  intros es e I' x Ix. cbn [all_digests]. apply in_flat_map. exists e. split; [exact I' | exact Ix].
Qed.

Lemma kids_all_incl : forall ms kv, In kv ms -> incl (all_digests (snd (snd kv))) (IssuerBuild.kids_all ms).
Proof.
  intros ms kv I' x Ix. unfold IssuerBuild.kids_all. apply in_flat_map. exists kv. split; [exact I' | exact Ix].
Qed.

Lemma In_obj_vis : forall ms kx, In kx (IssuerBuild.obj_vis ms) ->
  exists kv, In kv ms /\ fst (snd kv) = None /\ kx = (fst kv, payload_of (snd (snd kv))).
Proof.
  intros ms kx I'. unfold IssuerBuild.obj_vis in I'. apply in_flat_map in I' as (kv & Ik & I').
  exists kv. destruct (fst (snd kv)); [contradiction|]. destruct I' as [<-|[]]. repeat split. exact Ik.
Qed.

Theorem C13_markers_of_payload : forall d, shape_ok d ->
  markers_are_issuers (all_digests d) (payload_of d).
Proof.
  induction d as [v | es IH | ms sdl IH] using dtree_ind'; intros S.
  - cbn [shape_ok payload_of] in *. destruct v; try exact I; discriminate S.
  - apply IssuerBuild.shape_arr_iff in S. rewrite IssuerBuild.payload_arr_eq, mai_arr.
    unfold IssuerBuild.arr_payload. rewrite Forall_forall in *. intros x Ix.
    apply in_map_iff in Ix as (e & <- & Ie). pose proof (all_digests_arr_incl es e Ie) as Inc.
    destruct (fst e) as [[s g]|] eqn:Fe.
    + left. exists g. split; [reflexivity|]. apply Inc. left. reflexivity.
    + right. cbn [app] in Inc. eapply mai_mono; [exact Inc|]. apply IH; [exact Ie | apply S; exact Ie].
  - rewrite IssuerBuild.shape_obj_eq in S. destruct S as (_ & NS & NP & _ & K).
    apply IssuerBuild.obj_kids_shape_iff in K.
    rewrite IssuerBuild.payload_obj_eq, IssuerBuild.all_digests_obj_eq, mai_obj. split.
    + rewrite keys_app. intros C. apply in_app_or in C as [C|C].
      * destruct sdl; [contradiction|]. cbn in C. destruct C as [C|[]]. vm_compute in C. discriminate C.
      * apply IssuerBuild.In_keys_obj_vis in C. contradiction.
    + apply Forall_app. split.
      * destruct sdl as [|g sdl]; [constructor|]. constructor; [|constructor].
        unfold member_ok. cbn [sd_member fst snd]. rewrite str_eqb_refl.
        exists (g :: sdl). split; [reflexivity|]. apply incl_appl. apply incl_refl.
      * rewrite Forall_forall in *. intros kx Ix. apply In_obj_vis in Ix as (kv & Ik & _ & ->).
        unfold member_ok. cbn [fst snd].
        replace (str_eqb (fst kv) SD_DIGESTS_KEY) with false.
        -- eapply mai_mono; [|apply IH; [exact Ik | apply K; exact Ik]].
           apply incl_appr. apply kids_all_incl. exact Ik.
        -- symmetry. apply str_eqb_neq. intros E. apply NS. rewrite <- E. apply in_map. exact Ik.
Qed.
Print Assumptions C13_markers_of_payload.

(* the claims of a well-shaped digest tree contain no reserved member name; so the
   premise [has_reserved (claims_of d) = false] of the requested formulation is implied
   by shape_ok and is not needed above *)
Lemma shape_ok_no_reserved : forall d, shape_ok d -> has_reserved (claims_of d) = false.
Proof.
  induction d as [v | es IH | ms sdl IH] using dtree_ind'; intros S.
  - cbn [shape_ok claims_of] in *. destruct v; try reflexivity; discriminate S.
  - apply IssuerBuild.shape_arr_iff in S. cbn [claims_of has_reserved].
    induction IH as [|e es Hx _ IH2]; [reflexivity|]. inversion S; subst.
    cbn [map existsb]. rewrite Hx by assumption. apply IH2. assumption.
  - rewrite IssuerBuild.shape_obj_eq in S. destruct S as (_ & NS & NP & _ & K).
    apply IssuerBuild.obj_kids_shape_iff in K. cbn [claims_of has_reserved].
    induction IH as [|[k [h c]] ms Hx _ IH2]; [reflexivity|]. inversion K; subst.
    cbn [map existsb fst snd] in *.
    replace (str_eqb k SD_DIGESTS_KEY) with false
      by (symmetry; apply str_eqb_neq; intros ->; apply NS; left; reflexivity).
    replace (str_eqb k SD_LIST_PREFIX) with false
      by (symmetry; apply str_eqb_neq; intros ->; apply NP; left; reflexivity).
    rewrite Hx by assumption. cbn [orb]. apply IH2; try assumption.
    + intros C. apply NS. right. exact C.
    + intros C. apply NP. right. exact C.
Qed.

Corollary C13_markers_of_payload' : forall d, shape_ok d -> has_reserved (claims_of d) = false ->
  markers_are_issuers (all_digests d) (payload_of d).
Proof. intros d S _. apply C13_markers_of_payload. exact S. Qed.

(* for the issuer: in every issued payload all `_sd` members and all {"...": x} array
   elements are the issuer's digest lists / placeholders; none stems from the user's
   claims (claims_of D), the holder key or the always-revealed members *)
Theorem C13_issue_markers : forall o alg ikey m s holder_jwk decoy fmt r i r',
  issue o alg ikey (JObj m) s holder_jwk decoy fmt r = Ok (i, r') ->
  issue_premises m holder_jwk r ->
  exists D, issue_tree o m s holder_jwk i D /\
            has_reserved (claims_of D) = false /\
            markers_are_issuers (all_digests D) (is_payload i).
Proof.
  intros o alg ikey m s holder_jwk decoy fmt r i r' E P.
  destruct (issue_has_tree _ _ _ _ _ _ _ _ _ _ _ E P) as (D & T).
  exists D. split; [exact T|].
  destruct T as (? & ? & ? & _ & _ & _ & _ & -> & S & _).
  split; [apply shape_ok_no_reserved; exact S | apply C13_markers_of_payload; exact S].
Qed.
Print Assumptions C13_issue_markers.

Module ExB.
  (* the run of IssuerBuild.Examples (decoys on, AllLevels, holder key): the theorem applies,
     and the payload does contain `_sd` lists and placeholders *)
  Example shape_D_top : shape_ok IssuerBuild.Examples.D_top.
  Proof. apply shape_okb_sound. vm_compute. reflexivity. Qed.
  Example payload_D_top :
    match IssuerBuild.Examples.run_issue with
    | Ok (i, _) => is_payload i = payload_of IssuerBuild.Examples.D_top
    | _ => False
    end.
  Proof. vm_compute. reflexivity. Qed.
  Example conclusion :
    markers_are_issuers (all_digests IssuerBuild.Examples.D_top) (payload_of IssuerBuild.Examples.D_top).
  Proof. exact (C13_markers_of_payload IssuerBuild.Examples.D_top shape_D_top). Qed.
  Example payload_has_markers :
    List.length (all_digests IssuerBuild.Examples.D_top) = 7%nat /\
    match payload_of IssuerBuild.Examples.D_top with
    | JObj ((k, JArr l) :: _) => k = SD_DIGESTS_KEY /\ List.length l = 3%nat
    | _ => False
    end.
  Proof. vm_compute. repeat split. Qed.
  (* the predicate is not trivially true: user data posing as a digest list, or as a
     placeholder, violates it *)
  Example user_sd_rejected :
    ~ markers_are_issuers [lit "DG"] (JObj [(lit "_sd", JArr [JStr (lit "user")])]).
  Proof.
    intros [_ [(sdl & E & Inc) _]]. cbn [snd] in E. injection E as E.
    destruct sdl as [|a sdl]; [discriminate E|]. injection E as Ea _.
    specialize (Inc a (or_introl eq_refl)). destruct Inc as [C|[]]. subst a. vm_compute in C. discriminate C.
  Qed.
  Example user_placeholder_rejected :
    ~ markers_are_issuers [lit "DG"] (JArr [JObj [(lit "...", JStr (lit "user"))]]).
  Proof.
    intros [[(g & E & [C|[]]) | [N _]] _].
    - subst g. vm_compute in E. discriminate E.
    - apply N. left. reflexivity.
  Qed.
End ExB.

(* ================================================================== *)
(*  C.  C04: an accepted key-bound presentation is pinned by its KB-JWT *)
(* ================================================================== *)

(* the last `~`-separated part of a compact text *)
Definition kb_part (input : str) : str := last (split_on 126 input) [].

(* every text the compact parser accepts is the `~`-join of what it extracted *)
Lemma parse_compact_text : forall input p, parse_compact input = Ok p ->
  p_kb p = Some (kb_part input) /\
  input = join_with [126] (p_jwt p :: p_disclosures p ++ [kb_part input]).
Proof.
  intros input p P. unfold parse_compact in P. unfold kb_part.
  pose proof (Transcode.join_split_on 126 input) as JT.
  destruct (split_on 126 input) as [|jwt rest]; [discriminate P|].
  destruct (split_last rest) as [[ds kb]|] eqn:SL; [|discriminate P].
  destruct (split_on 46 jwt) as [|hd [|body tl]]; try discriminate P.
  destruct (jwt_payload_decode body) as [m| | | |]; try discriminate P.
  cbn [bind] in P. injection P as <-. cbn [p_jwt p_disclosures p_kb].
  apply Transcode.split_last_inv in SL. subst rest.
  change (jwt :: ds ++ [kb]) with ((jwt :: ds) ++ [kb]). rewrite last_last.
  split; [reflexivity|]. symmetry. exact JT.
Qed.

(* Two accepted compact presentations (any resolvers, expected audiences, nonces,
   instants) that end in the same KB-JWT string are the same text: same issuer-signed
   JWT, same disclosures in the same order.  So a KB-JWT cannot be replayed onto a
   presentation with one disclosure more, one fewer, reordered, or onto another credential. *)
Theorem C04_kb_binds_input_compact :
  forall o input1 input2 resolver1 resolver2 a a' n n' now now' V1 V2,
  (forall x y, H o x = H o y -> x = y) ->
  verify o input1 resolver1 (Some a) (Some n) Compact now = Ok V1 ->
  verify o input2 resolver2 (Some a') (Some n') Compact now' = Ok V2 ->
  kb_part input1 = kb_part input2 ->
  input1 = input2.
Proof.
  intros o input1 input2 resolver1 resolver2 a a' n n' now now' V1 V2 Inj E1 E2 K.
  pose proof E1 as A1. pose proof E2 as A2.
  apply VerifierFacts.verify_accept_checked in A1 as (p1 & ? & ? & ? & ? & ? & ? & ? & ? & ? & P1 & _).
  apply VerifierFacts.verify_accept_checked in A2 as (p2 & ? & ? & ? & ? & ? & ? & ? & ? & ? & P2 & _).
  cbn [parse_sd_jwt] in P1, P2.
  destruct (parse_compact_text _ _ P1) as [K1 T1]. destruct (parse_compact_text _ _ P2) as [K2 T2].
  assert (Kb : p_kb p1 = p_kb p2) by (rewrite K1, K2, K; reflexivity).
  destruct (VerifierFacts.C04_kb_replay_compact o input1 input2 resolver1 resolver2 a a' n n' now now' V1 V2 p1 p2
              Inj P1 P2 Kb E1 E2) as [J D].
  rewrite T1, T2, J, D, K. reflexivity.
Qed.
Print Assumptions C04_kb_binds_input_compact.

(* ---- the same on parsed inputs of either format ---- *)

Lemma rsplit_dot_aux_inv : forall s best pre a b,
  rsplit_dot_aux s best pre = Some (a, b) -> best = Some (a, b) \/ rev pre ++ s = b ++ 46 :: a.
Proof.
  induction s as [|c s IH]; intros best pre a b E; cbn [rsplit_dot_aux] in E.
  - left. exact E.
  - destruct (N.eqb c 46) eqn:C.
    + apply N.eqb_eq in C. subst c. apply IH in E as [E|E].
      * injection E as <- <-. right. reflexivity.
      * right. cbn [rev] in E. rewrite <- app_assoc in E. exact E.
    + apply IH in E as [E|E]; [left; exact E|].
      right. cbn [rev] in E. rewrite <- app_assoc in E. exact E.
Qed.

Lemma rsplit_dot_inv : forall s a b, rsplit_dot s = Some (a, b) -> s = b ++ 46 :: a.
Proof.
  intros s a b E. unfold rsplit_dot in E. apply rsplit_dot_aux_inv in E as [E|E]; [discriminate E | exact E].
Qed.

Lemma b64_decodable_tilde_free : forall d t, base64url_decode_text d = Some t -> HolderFacts.tilde_free d.
Proof.
  intros d t E. unfold base64url_decode_text in E.
  destruct (b64_decode d) as [bs|] eqn:D; [|discriminate E].
  pose proof (b64_decode_bytes_ok _ _ D) as B. apply b64_encode_decode in D. subst d.
  intros C. apply (b64_encode_alphabet bs 126 B C). reflexivity.
Qed.

Lemma header_decodable : forall hb hd, header_from_encoded hb = Ok hd -> exists t, base64url_decode_text hb = Some t.
Proof.
  intros hb hd E. unfold header_from_encoded in E.
  destruct (base64url_decode_text hb) as [t|]; [exists t; reflexivity | discriminate E].
Qed.

Lemma hash_mappings_tilde_free : forall o ds acc dm,
  create_hash_mappings o ds acc = Ok dm -> Forall HolderFacts.tilde_free ds.
Proof.
  intros o. induction ds as [|d ds IH]; intros acc dm E; [constructor|].
  cbn [create_hash_mappings] in E.
  destruct (base64url_decode_text d) as [t|] eqn:B; [|discriminate E].
  destruct (parse_json t) as [v|]; [|discriminate E].
  destruct (dmap_get (H o d) acc); [discriminate E|].
  constructor; [eapply b64_decodable_tilde_free; exact B | eapply IH; exact E].
Qed.

(* signatures the oracle accepts contain no `~` (they are base64url texts) *)
Definition sig_tilde_free (o : oracles) : Prop :=
  forall alg k m s, sig_ok o alg k m s = true -> HolderFacts.tilde_free s.

Lemma checked_tilde_free : forall o resolver now p dm hd iss sg msg pl hb raw payload,
  sig_tilde_free o ->
  VerifierFacts.issuer_checked o resolver now p dm hd iss sg msg pl hb raw payload ->
  HolderFacts.tilde_free (p_jwt p) /\ Forall HolderFacts.tilde_free (p_disclosures p).
Proof.
  intros o resolver now p dm hd iss sg msg pl hb raw payload ST C. unfold VerifierFacts.issuer_checked in C.
  destruct C as (Hm & R1 & R2 & Hh & _ & _ & _ & Sg & (text & Bt & _) & _).
  split; [|eapply hash_mappings_tilde_free; exact Hm].
  apply rsplit_dot_inv in R1. apply rsplit_dot_inv in R2. rewrite R1, R2.
  destruct (header_decodable _ _ Hh) as (t & Bh).
  pose proof (b64_decodable_tilde_free _ _ Bh) as T1. pose proof (b64_decodable_tilde_free _ _ Bt) as T2.
  pose proof (ST _ _ _ _ Sg) as T3. unfold HolderFacts.tilde_free in *.
  intros C. apply in_app_or in C as [C|[C|C]].
  - apply in_app_or in C as [C|[C|C]]; [apply T1; exact C | discriminate C | apply T2; exact C].
  - discriminate C.
  - apply T3; exact C.
Qed.

(* Acceptance with key binding of two inputs, of either format (even one compact and one
   JSON), carrying the same KB-JWT string: same issuer-signed JWT, same disclosure list. *)
Theorem C04_kb_binds_parsed :
  forall o fmt1 fmt2 input1 input2 resolver1 resolver2 a a' n n' now now' V1 V2 p1 p2,
  (forall x y, H o x = H o y -> x = y) -> sig_tilde_free o ->
  parse_sd_jwt fmt1 input1 = Ok p1 -> parse_sd_jwt fmt2 input2 = Ok p2 ->
  verify o input1 resolver1 (Some a) (Some n) fmt1 now = Ok V1 ->
  verify o input2 resolver2 (Some a') (Some n') fmt2 now' = Ok V2 ->
  p_kb p1 = p_kb p2 ->
  p_jwt p1 = p_jwt p2 /\ p_disclosures p1 = p_disclosures p2.
Proof.
  intros o fmt1 fmt2 input1 input2 resolver1 resolver2 a a' n n' now now' V1 V2 p1 p2 Inj ST P1 P2 E1 E2 Kb.
  apply VerifierFacts.verify_accept_checked in E1
    as (q1 & dm1 & hd1 & iss1 & sg1 & msg1 & pl1 & hb1 & raw1 & pay1 & Q1 & C1 & _ & K1).
  apply VerifierFacts.verify_accept_checked in E2
    as (q2 & dm2 & hd2 & iss2 & sg2 & msg2 & pl2 & hb2 & raw2 & pay2 & Q2 & C2 & _ & K2).
  rewrite P1 in Q1. injection Q1 as <-. rewrite P2 in Q2. injection Q2 as <-.
  destruct (checked_tilde_free _ _ _ _ _ _ _ _ _ _ _ _ _ ST C1) as [F1 F2].
  destruct (checked_tilde_free _ _ _ _ _ _ _ _ _ _ _ _ _ ST C2) as [F3 F4].
  eapply VerifierFacts.C04_sd_hash_binds; eassumption.
Qed.
Print Assumptions C04_kb_binds_parsed.

(* the JSON serialization: the texts may differ in spelling (whitespace, member order,
   escapes, unknown members); the same `kb_jwt` string forces the same protected.payload.signature
   and the same `disclosures` *)
Corollary C04_kb_binds_input_json :
  forall o t1 t2 resolver1 resolver2 a a' n n' now now' V1 V2 p1 p2,
  (forall x y, H o x = H o y -> x = y) -> sig_tilde_free o ->
  parse_json_form t1 = Ok p1 -> parse_json_form t2 = Ok p2 ->
  verify o t1 resolver1 (Some a) (Some n) JSONFmt now = Ok V1 ->
  verify o t2 resolver2 (Some a') (Some n') JSONFmt now' = Ok V2 ->
  p_kb p1 = p_kb p2 ->
  p_jwt p1 = p_jwt p2 /\ p_disclosures p1 = p_disclosures p2.
Proof.
  intros o t1 t2 resolver1 resolver2 a a' n n' now now' V1 V2 p1 p2 Inj ST P1 P2 E1 E2 Kb.
  eapply (C04_kb_binds_parsed o JSONFmt JSONFmt); eassumption.
Qed.
Print Assumptions C04_kb_binds_input_json.

Module ExC.
  Import VerifierFacts.Ex.
  Definition va : option str := Some (lit "v").
  Definition vn : option str := Some (lit "n").

  (* the fields of the accepted compact presentation VerifierFacts.Ex.pres *)
  Definition fields : Transcode.apres :=
    match parse_compact pres with
    | Ok p => match split_on 46 (p_jwt p) with
              | [pr; pl; sg] => {| Transcode.a_pr := pr; Transcode.a_pl := pl; Transcode.a_sg := sg;
                                   Transcode.a_ds := p_disclosures p; Transcode.a_kb := p_kb p |}
              | _ => Transcode.Build_apres [] [] [] [] None
              end
    | _ => Transcode.Build_apres [] [] [] [] None
    end.
  Definition kb : str := match Transcode.a_kb fields with Some k => k | None => [] end.
  (* the same KB-JWT behind the JWT alone: the disclosure dropped *)
  Definition stripped : str := join_with [126] [Transcode.jwt_of fields; kb].

  Example inj : forall x y, H o x = H o y -> x = y.
  Proof. intros x y E. exact E. Qed.

  Example compact_nonvacuous :
    verify o pres resolver va vn Compact 5 = Ok disclosed /\
    List.length (Transcode.a_ds fields) = 1%nat /\ kb_part pres = kb /\ kb <> [] /\
    kb_part stripped = kb_part pres /\ stripped <> pres /\
    is_ok (verify o stripped resolver None None Compact 5) = true /\
    is_ok (verify o stripped resolver va vn Compact 5) = false.
  Proof.
    split; [vm_compute; reflexivity|]. split; [vm_compute; reflexivity|]. split; [vm_compute; reflexivity|].
    split; [intros C; vm_compute in C; discriminate C|]. split; [vm_compute; reflexivity|].
    split; [intros C; vm_compute in C; discriminate C|]. split; vm_compute; reflexivity.
  Qed.

  (* two JSON spellings of that presentation *)
  Definition t1 : str := Transcode.json_of Transcode.KbAbsent [] fields.
  Definition t2 : str := Transcode.json_of Transcode.KbNull [(lit "x", JNull)] fields.

  Example o_sig_tilde_free : sig_tilde_free o.
  Proof.
    intros alg k m s E. unfold o in E. cbn [sig_ok] in E. apply andb_true_iff in E as [_ E].
    apply str_eqb_eq in E. subst s. intros C. vm_compute in C.
    repeat (destruct C as [C|C]; [discriminate C|]). exact C.
  Qed.

  Example json_nonvacuous :
    t1 <> t2 /\
    verify o t1 resolver va vn JSONFmt 5 = Ok disclosed /\
    verify o t2 resolver va vn JSONFmt 5 = Ok disclosed /\
    match parse_json_form t1, parse_json_form t2 with
    | Ok p1, Ok p2 => p_kb p1 = Some kb /\ p_kb p2 = Some kb
    | _, _ => False
    end.
  Proof.
    split; [intros C; vm_compute in C; discriminate C|].
    split; [vm_compute; reflexivity|]. split; [vm_compute; reflexivity|]. vm_compute. split; reflexivity.
  Qed.

  (* Why C04_kb_binds_parsed asks that accepted signatures contain no `~`: the JSON form can
     carry a `~` inside the "signature" field (the compact form cannot).  With a signature
     oracle that also accepts  sig~<disclosure>  the two JSON texts below — the disclosure
     inside the disclosures array, or glued to the signature — are both accepted with the
     SAME kb_jwt, although their JWTs and disclosure lists differ (the hashed text
     jwt~d~ is the same). *)
  Definition d_a : str := match Transcode.a_ds fields with d :: _ => d | [] => [] end.
  Definition o2 : oracles :=
    {| H := H o;
       sig_ok := fun alg k m s => sig_ok o alg k m s || sig_ok o alg k m (lit "sig") && str_eqb s (lit "sig~" ++ d_a);
       sign := sign o; jwk_key := jwk_key o |}.
  Definition glued : Transcode.apres :=
    {| Transcode.a_pr := Transcode.a_pr fields; Transcode.a_pl := Transcode.a_pl fields;
       Transcode.a_sg := Transcode.a_sg fields ++ [126] ++ d_a;
       Transcode.a_ds := []; Transcode.a_kb := Transcode.a_kb fields |}.
  Definition t3 : str := Transcode.json_of Transcode.KbAbsent [] glued.
  Example tilde_in_signature_breaks_binding :
    (forall x y, H o2 x = H o2 y -> x = y) /\
    is_ok (verify o2 t1 resolver va vn JSONFmt 5) = true /\
    is_ok (verify o2 t3 resolver va vn JSONFmt 5) = true /\
    match parse_json_form t1, parse_json_form t3 with
    | Ok p1, Ok p3 => p_kb p1 = p_kb p3 /\ p_jwt p1 <> p_jwt p3 /\ p_disclosures p1 <> p_disclosures p3
    | _, _ => False
    end.
  Proof.
    split; [intros x y E; exact E|]. split; [vm_compute; reflexivity|]. split; [vm_compute; reflexivity|].
    vm_compute. split; [reflexivity|]. split; intros C; discriminate C.
  Qed.
End ExC.

(* ================================================================== *)
(*  D.  C02: what the resolver sees, and that it alone decides the key *)
(* ================================================================== *)

(* the one question the verifier asks its resolver about an input: the `iss` string of
   the UNVERIFIED payload and the JSON of the decoded protected header *)
Definition resolver_query (fmt : format) (input : str) (iss : str) (hj : json) : Prop :=
  exists p hd,
    parse_sd_jwt fmt input = Ok p /\ decode_header (p_jwt p) = Ok hd /\
    obj_get (lit "iss") (p_payload p) = Some (JStr iss) /\ hj = hd_json hd.

Lemma resolver_query_fun : forall fmt input iss hj iss' hj',
  resolver_query fmt input iss hj -> resolver_query fmt input iss' hj' -> iss = iss' /\ hj = hj'.
Proof.
  intros fmt input iss hj iss' hj' (p & hd & P & D & I1 & ->) (p' & hd' & P' & D' & I2 & ->).
  rewrite P in P'. injection P' as <-. rewrite D in D'. injection D' as <-.
  rewrite I1 in I2. injection I2 as <-. split; reflexivity.
Qed.

(* two resolvers that give the same answer to that one question are indistinguishable:
   same result (claims, or the same error) for every oracle, format, expected audience
   and nonce, and instant *)
Theorem C02_resolver_ext : forall o input resolver1 resolver2 ea en fmt now,
  (forall iss hj, resolver_query fmt input iss hj -> resolver1 iss hj = resolver2 iss hj) ->
  verify o input resolver1 ea en fmt now = verify o input resolver2 ea en fmt now.
Proof.
  intros o input resolver1 resolver2 ea en fmt now A.
  rewrite !VerifierFacts.verify_is_parse_then_verify_parsed.
  destruct (parse_sd_jwt fmt input) as [p| | | |] eqn:P; try reflexivity. cbn [bind].
  unfold VerifierFacts.verify_parsed.
  destruct (create_hash_mappings o (p_disclosures p) []) as [dm| | | |]; try reflexivity. cbn [bind].
  destruct (decode_header (p_jwt p)) as [hd| | | |] eqn:D; try reflexivity. cbn [bind].
  destruct (obj_get (lit "iss") (p_payload p)) as [[| | |iss| |]|] eqn:I'; try reflexivity. cbn [bind]. cbv zeta.
  rewrite (A iss (hd_json hd)); [reflexivity|].
  exists p, hd. repeat split; assumption.
Qed.
Print Assumptions C02_resolver_ext.

(* a resolver answering with a key under which nothing verifies (any key other than the
   signer's, for an unforgeable scheme) makes the verifier reject *)
Theorem C02_other_key_rejected : forall o input resolver ea en fmt now K',
  (forall a m s, sig_ok o a K' m s = false) ->
  (forall iss hj, resolver_query fmt input iss hj -> resolver iss hj = K') ->
  forall V, verify o input resolver ea en fmt now <> Ok V.
Proof.
  intros o input resolver ea en fmt now K' NS A V E.
  apply VerifierFacts.verify_accept_inv in E
    as (p & dm & hd & iss & sg & msg & pl & hb & raw & payload & P & _ & R1 & R2 & Hh & I' & _ & _ & S & _).
  rewrite (A iss (hd_json hd)) in S; [rewrite NS in S; discriminate S|].
  exists p, hd. split; [exact P|]. split; [|split; [exact I' | reflexivity]].
  unfold decode_header. rewrite R1, R2. exact Hh.
Qed.
Print Assumptions C02_other_key_rejected.

Module ExD.
  Import VerifierFacts.Ex.
  Definition hj0 : json :=
    match parse_sd_jwt Compact pres with
    | Ok p => match decode_header (p_jwt p) with Ok hd => hd_json hd | _ => JNull end
    | _ => JNull
    end.
  Example the_query : resolver_query Compact pres (lit "i") hj0 /\ hj0 <> JNull.
  Proof.
    split; [|intros C; vm_compute in C; discriminate C].
    eexists. eexists. split; [vm_compute; reflexivity|]. split; [vm_compute; reflexivity|].
    split; vm_compute; reflexivity.
  Qed.
  (* a resolver that answers differently everywhere else *)
  Definition resolver' (iss : str) (hj : json) : key :=
    if str_eqb iss (lit "i") && json_eqb hj hj0 then k_iss else k_rsa.
  Example ext_nonvacuous :
    (forall iss hj, resolver_query Compact pres iss hj -> resolver iss hj = resolver' iss hj) /\
    resolver (lit "j") hj0 <> resolver' (lit "j") hj0 /\
    verify o pres resolver' (Some (lit "v")) (Some (lit "n")) Compact 5 = Ok disclosed.
  Proof.
    split; [|split; [intros C; vm_compute in C; discriminate C | vm_compute; reflexivity]].
    intros iss hj Q. destruct (resolver_query_fun _ _ _ _ _ _ Q (proj1 the_query)) as [-> ->].
    vm_compute. reflexivity.
  Qed.
  Definition k_other : key := {| kid := 3; kfam := FEc |}.
  Example other_key_nonvacuous :
    (forall a m s, sig_ok o a k_other m s = false) /\
    is_ok (verify o pres (fun _ _ => k_other) None None Compact 5) = false /\
    is_ok (verify o pres resolver None None Compact 5) = true.
  Proof. split; [intros a m s; reflexivity|]. split; vm_compute; reflexivity. Qed.
End ExD.

(* ================================================================== *)
(*  E.  C09: outside the validity window nothing is accepted           *)
(* ================================================================== *)

(* [payload] is the JSON object (repeated member names removed as serde does) decoded
   from the middle part of the presented issuer-signed JWT — the object jwt_decode validates *)
Definition presented_payload (jwt : str) (payload : members) : Prop :=
  exists sg msg pl hb text raw,
    rsplit_dot jwt = Some (sg, msg) /\ rsplit_dot msg = Some (pl, hb) /\
    base64url_decode_text pl = Some text /\ parse_json_raw text = Some (JObj raw) /\
    dedup (JObj raw) = JObj payload.

Lemma presented_payload_fun : forall jwt m1 m2,
  presented_payload jwt m1 -> presented_payload jwt m2 -> m1 = m2.
Proof.
  intros jwt m1 m2 (sg & msg & pl & hb & text & raw & R1 & R2 & B & Pj & Dd)
                   (sg' & msg' & pl' & hb' & text' & raw' & R1' & R2' & B' & Pj' & Dd').
  rewrite R1 in R1'. injection R1' as <- <-. rewrite R2 in R2'. injection R2' as <- <-.
  rewrite B in B'. injection B' as <-. rewrite Pj in Pj'. injection Pj' as <-.
  rewrite Dd in Dd'. injection Dd' as <-. reflexivity.
Qed.

(* Both formats, with or without key binding, every resolver and oracle: an input whose
   presented payload is expired beyond the leeway, has no usable `exp` (absent, or not a
   non-negative integer lexeme), or is not yet valid beyond the leeway, is not accepted. *)
Theorem C09_expired_rejected : forall o input resolver ea en fmt now p payload,
  parse_sd_jwt fmt input = Ok p -> presented_payload (p_jwt p) payload ->
  (exists e, numeric_claim (lit "exp") payload = Ok (Parsed e) /\ e + LEEWAY < now) \/
  numeric_claim (lit "exp") payload = Ok NotPresent \/
  numeric_claim (lit "exp") payload = Ok FailedToParse \/
  (exists n, numeric_claim (lit "nbf") payload = Ok (Parsed n) /\ now + LEEWAY < n) ->
  forall V, verify o input resolver ea en fmt now <> Ok V.
Proof.
  intros o input resolver ea en fmt now p payload P PP Bad V E.
  apply VerifierFacts.C09_window in E
    as (p' & dm & hd & iss & sg & msg & pl & hb & raw & payload' & P' & C & _ & (e & He & _ & Le) & Hn).
  rewrite P in P'. injection P' as <-.
  assert (payload' = payload).
  { apply (presented_payload_fun (p_jwt p)); [|exact PP].
    unfold VerifierFacts.issuer_checked in C.
    destruct C as (_ & R1 & R2 & _ & _ & _ & _ & _ & (text & B & Pj) & Dd & _).
    exists sg, msg, pl, hb, text, raw. repeat split; assumption. }
  subst payload'.
  destruct Bad as [(e' & He' & Lt) | [Ab | [Fp | (n & Hn' & Lt)]]].
  - rewrite He in He'. injection He' as <-. lia.
  - rewrite He in Ab. discriminate Ab.
  - rewrite He in Fp. discriminate Fp.
  - destruct (Hn n Hn') as [_ Le']. lia.
Qed.
Print Assumptions C09_expired_rejected.

Module ExE.
  Import VerifierFacts.Ex.
  (* the credential of VerifierFacts.Ex has exp = 100 (leeway 60): at instant 161 the first
     disjunct holds, in both formats *)
  Definition pay : members :=
    match parse_sd_jwt Compact pres with
    | Ok p => match rsplit_dot (p_jwt p) with
              | Some (_, msg) => match rsplit_dot msg with
                                 | Some (pl, _) =>
                                     match base64url_decode_text pl with
                                     | Some text => match parse_json_raw text with
                                                    | Some (JObj raw) => match dedup (JObj raw) with JObj m => m | _ => [] end
                                                    | _ => []
                                                    end
                                     | None => []
                                     end
                                 | None => []
                                 end
              | None => []
              end
    | _ => []
    end.
  Example premises :
    (exists p, parse_sd_jwt Compact pres = Ok p /\ presented_payload (p_jwt p) pay) /\
    (exists p, parse_sd_jwt JSONFmt ExC.t1 = Ok p /\ presented_payload (p_jwt p) pay) /\
    numeric_claim (lit "exp") pay = Ok (Parsed 100) /\ 100 + LEEWAY < 161.
  Proof.
    split; [|split; [|split; [vm_compute; reflexivity | reflexivity]]].
    - eexists. split; [vm_compute; reflexivity|].
      do 6 eexists. split; [vm_compute; reflexivity|]. split; [vm_compute; reflexivity|].
      split; [vm_compute; reflexivity|]. split; vm_compute; reflexivity.
    - eexists. split; [vm_compute; reflexivity|].
      do 6 eexists. split; [vm_compute; reflexivity|]. split; [vm_compute; reflexivity|].
      split; [vm_compute; reflexivity|]. split; vm_compute; reflexivity.
  Qed.
  Example observed :
    is_ok (verify o pres resolver None None Compact 160) = true /\
    is_ok (verify o pres resolver None None Compact 161) = false /\
    is_ok (verify o pres resolver (Some (lit "v")) (Some (lit "n")) Compact 161) = false /\
    is_ok (verify o ExC.t1 resolver None None JSONFmt 160) = true /\
    is_ok (verify o ExC.t1 resolver None None JSONFmt 161) = false.
  Proof. vm_compute. repeat split; reflexivity. Qed.
  (* the other disjuncts, on payload objects *)
  Example other_disjuncts :
    numeric_claim (lit "exp") [(lit "iss", JStr (lit "i"))] = Ok NotPresent /\
    numeric_claim (lit "exp") [(lit "exp", JStr (lit "100"))] = Ok FailedToParse /\
    numeric_claim (lit "exp") [(lit "exp", JNum (lit "-5"))] = Ok FailedToParse /\
    numeric_claim (lit "nbf") [(lit "nbf", JNum (lit "300"))] = Ok (Parsed 300).
  Proof. vm_compute. repeat split; reflexivity. Qed.
End ExE.

(* Proofs/IssuerDraws.v — how the model issuer consumes its randomness streams
   and orders its `_sd` lists (properties C12, C14, C16).

   A. [sort_strs] (Vec<String>::sort) is a permutation, sorted for the total
      order [str_leb], hence canonical: a function of the multiset of digests.
   B. [create_sd_claims_draws]: what one run of create_sd_claims consumes of
      r_queue / r_salts / r_counts and appends to i_disclosures.
   C. corollaries for [issue]: C14_one_draw_each, C14_two_issuances,
      C14_any_schedule, C16_consumes_in_order, C16_deterministic,
      C12_decoy_step, C12_decoy_counts, C12_off.
   D. C14_salt_shape: 16 bytes <-> 22 base64url characters. *)
From SDJWT Require Import Base.Json Base.JsonFacts Params Codec.Sha256 Codec.Base64 Codec.Utf8 Codec.JsonPrint
  Codec.DisclosureText Model.Common Model.Issuer.
From Coq Require Import Lia Permutation Sorted.

(* ================================================================== *)
(* A. Sorting                                                          *)
(* ================================================================== *)

Definition sle (a b : str) : Prop := str_leb a b = true.

Lemma str_leb_refl : forall a, str_leb a a = true.
Proof. induction a as [|x a IH]; cbn; [reflexivity|]. rewrite N.ltb_irrefl. exact IH. Qed.

Lemma str_leb_total : forall a b, str_leb a b = true \/ str_leb b a = true.
Proof.
  induction a as [|x a IH]; intros [|y b]; cbn; auto.
  destruct (N.ltb_spec x y) as [L|L]; [left; reflexivity|].
  destruct (N.ltb_spec y x) as [L2|L2]; [right; reflexivity|].
  apply IH.
Qed.

Lemma str_leb_antisym : forall a b, str_leb a b = true -> str_leb b a = true -> a = b.
Proof.
  induction a as [|x a IH]; intros [|y b]; cbn; intros E1 E2; try reflexivity; try discriminate.
  destruct (N.ltb_spec x y) as [L|L]; destruct (N.ltb_spec y x) as [L2|L2]; try discriminate; try lia.
  assert (x = y) by lia. subst. f_equal. apply IH; assumption.
Qed.

Lemma str_leb_trans : forall a b c, str_leb a b = true -> str_leb b c = true -> str_leb a c = true.
Proof.
  induction a as [|x a IH]; intros [|y b] [|z c]; cbn; intros E1 E2; try reflexivity; try discriminate.
  destruct (N.ltb_spec x y) as [L|L]; destruct (N.ltb_spec y x) as [L2|L2]; try discriminate; try lia;
  destruct (N.ltb_spec y z) as [L3|L3]; destruct (N.ltb_spec z y) as [L4|L4]; try discriminate; try lia;
  destruct (N.ltb_spec x z) as [L5|L5]; try reflexivity; destruct (N.ltb_spec z x) as [L6|L6]; try lia.
  eapply IH; eassumption.
Qed.

Theorem str_leb_total_order :
  (forall a, sle a a) /\ (forall a b c, sle a b -> sle b c -> sle a c) /\
  (forall a b, sle a b -> sle b a -> a = b) /\ (forall a b, sle a b \/ sle b a).
Proof.
  unfold sle. repeat split.
  - apply str_leb_refl. - apply str_leb_trans. - apply str_leb_antisym. - apply str_leb_total.
Qed.

Lemma insert_sorted_perm : forall x l, Permutation (insert_sorted x l) (x :: l).
Proof.
  induction l as [|y l IH]; cbn; [reflexivity|].
  destruct (str_leb x y); [reflexivity|].
  rewrite IH. apply perm_swap.
Qed.

Theorem sort_strs_perm : forall l, Permutation (sort_strs l) l.
Proof.
  induction l as [|x l IH]; cbn; [reflexivity|].
  change (fold_right insert_sorted [] l) with (sort_strs l).
  rewrite insert_sorted_perm. constructor. exact IH.
Qed.

Lemma insert_sorted_Sorted : forall x l, Sorted sle l -> Sorted sle (insert_sorted x l).
Proof.
  induction l as [|y l IH]; cbn; intros S; [repeat constructor|].
  destruct (str_leb x y) eqn:E.
  - constructor; [exact S|]. constructor. exact E.
  - inversion S as [|? ? S' R]; subst. constructor; [apply IH; exact S'|].
    assert (Eyx : sle y x). { destruct (str_leb_total x y) as [T|T]; [congruence | exact T]. }
    destruct l as [|z l]; cbn.
    + constructor. exact Eyx.
    + destruct (str_leb x z); constructor; [exact Eyx|]. inversion R; assumption.
Qed.

(* adjacent elements of the emitted list are related by str_leb *)
Theorem sort_strs_sorted : forall l, Sorted sle (sort_strs l).
Proof.
  induction l as [|x l IH]; cbn; [constructor|].
  apply insert_sorted_Sorted. exact IH.
Qed.

Lemma sle_Transitive : Relations_1.Transitive sle.
Proof. intros a b c. apply str_leb_trans. Qed.

Theorem sort_strs_strongly_sorted : forall l, StronglySorted sle (sort_strs l).
Proof. intros l. apply Sorted_StronglySorted; [exact sle_Transitive | apply sort_strs_sorted]. Qed.

Lemma sorted_perm_eq : forall l1 l2,
  StronglySorted sle l1 -> StronglySorted sle l2 -> Permutation l1 l2 -> l1 = l2.
Proof.
  induction l1 as [|x l1 IH]; intros l2 S1 S2 P.
  - apply Permutation_nil in P. subst. reflexivity.
  - destruct l2 as [|y l2]; [apply Permutation_sym, Permutation_nil in P; discriminate|].
    inversion S1 as [|? ? S1' F1]; subst. inversion S2 as [|? ? S2' F2]; subst.
    assert (x = y).
    { assert (Ix : In x (y :: l2)) by (eapply Permutation_in; [exact P | left; reflexivity]).
      assert (Iy : In y (x :: l1)) by (eapply Permutation_in; [apply Permutation_sym; exact P | left; reflexivity]).
      destruct Ix as [Ix|Ix]; [congruence|]. destruct Iy as [Iy|Iy]; [congruence|].
      rewrite Forall_forall in F1, F2. apply str_leb_antisym; [apply F1; exact Iy | apply F2; exact Ix]. }
    subst y. f_equal. apply IH; [exact S1' | exact S2' | eapply Permutation_cons_inv; exact P].
Qed.

(* the emitted `_sd` list depends on the multiset of digests only (C12_order) *)
Theorem sort_strs_canonical : forall l l', Permutation l l' -> sort_strs l = sort_strs l'.
Proof.
  intros l l' P. apply sorted_perm_eq; try apply sort_strs_strongly_sorted.
  rewrite !sort_strs_perm. exact P.
Qed.
Print Assumptions sort_strs_canonical.

(* in particular: where the decoys are inserted and the member order are invisible *)
Corollary C12_order : forall real decoys real' decoys',
  Permutation (real ++ decoys) (real' ++ decoys') ->
  sort_strs (real ++ decoys) = sort_strs (real' ++ decoys').
Proof. intros. apply sort_strs_canonical. assumption. Qed.

Corollary sort_strs_In : forall x l, In x (sort_strs l) <-> In x l.
Proof.
  intros x l. split; intros I; eapply Permutation_in; try exact I;
  [apply sort_strs_perm | apply Permutation_sym, sort_strs_perm].
Qed.

Corollary sort_strs_length : forall l, List.length (sort_strs l) = List.length l.
Proof. intros l. apply Permutation_length, sort_strs_perm. Qed.

Example sort_strs_canonical_ex :
  sort_strs [lit "b"; lit "a"; lit "c"; lit "ab"] = sort_strs [lit "ab"; lit "c"; lit "b"; lit "a"]
  /\ sort_strs [lit "b"; lit "a"; lit "c"; lit "ab"] = [lit "a"; lit "ab"; lit "b"; lit "c"].
Proof. vm_compute. split; reflexivity. Qed.

(* ================================================================== *)
(* B. Stream consumption of create_sd_claims                           *)
(* ================================================================== *)

Notation len := List.length.

(* [interleave a b c]: c is a merge of a and b that keeps the order of each *)
Inductive interleave {A : Type} : list A -> list A -> list A -> Prop :=
| il_nil : interleave [] [] []
| il_l : forall x a b c, interleave a b c -> interleave (x :: a) b (x :: c)
| il_r : forall x a b c, interleave a b c -> interleave a (x :: b) (x :: c).

Lemma interleave_nil_r : forall {A} (a : list A), interleave a [] a.
Proof. induction a; constructor; assumption. Qed.

Lemma interleave_nil_l : forall {A} (b : list A), interleave [] b b.
Proof. induction b; constructor; assumption. Qed.

Lemma interleave_app : forall {A} (a1 b1 c1 a2 b2 c2 : list A),
  interleave a1 b1 c1 -> interleave a2 b2 c2 -> interleave (a1 ++ a2) (b1 ++ b2) (c1 ++ c2).
Proof. intros A a1 b1 c1 a2 b2 c2 I1 I2. induction I1; cbn; [exact I2 | constructor; assumption | constructor; assumption]. Qed.

Lemma interleave_perm : forall {A} (a b c : list A), interleave a b c -> Permutation c (a ++ b).
Proof.
  intros A a b c I. induction I; cbn; [constructor | constructor; assumption|].
  rewrite IHI. apply Permutation_middle.
Qed.

Lemma interleave_nil_r_inv : forall {A} (a c : list A), interleave a [] c -> c = a.
Proof.
  intros A a c I. remember (@nil A) as b eqn:Eb. induction I; try reflexivity; try discriminate.
  f_equal. apply IHI. exact Eb.
Qed.

Lemma interleave_length : forall {A} (a b c : list A), interleave a b c -> len c = (len a + len b)%nat.
Proof. intros A a b c I. induction I; cbn; lia. Qed.

(* what one run consumed and produced *)
Record used := {
  u_dsalts : list str;          (* the salts of the new disclosures, in creation order *)
  u_pre : list str;             (* the decoy pre-images, in creation order *)
  u_salts : list str;           (* the consumed prefix of r_salts *)
  u_counts : list nat;          (* the consumed prefix of r_counts *)
  u_news : list (str * str)     (* what was appended to i_disclosures *)
}.

Definition u0 : used := {| u_dsalts := []; u_pre := []; u_salts := []; u_counts := []; u_news := [] |}.
Definition uapp (a b : used) : used :=
  {| u_dsalts := u_dsalts a ++ u_dsalts b; u_pre := u_pre a ++ u_pre b; u_salts := u_salts a ++ u_salts b;
     u_counts := u_counts a ++ u_counts b; u_news := u_news a ++ u_news b |}.

(* entry e of i_disclosures is the disclosure made with [salt] *)
Definition disc_of (o : oracles) (mock : bool) (salt : str) (e : str * str) : Prop :=
  exists name value, fst e = base64url_encode_str (disclosure_text mock salt name value) /\ snd e = H o (fst e).

Definition uses (o : oracles) (st st' : ist) (u : used) : Prop :=
  i_disclosures st' = i_disclosures st ++ u_news u /\
  Forall2 (disc_of o (is_mock st)) (u_dsalts u) (u_news u) /\
  r_counts (i_rng st) = u_counts u ++ r_counts (i_rng st') /\
  r_salts (i_rng st) = u_salts u ++ r_salts (i_rng st') /\
  len (u_pre u) = list_sum (u_counts u) /\
  match r_queue (i_rng st) with
  | None => r_queue (i_rng st') = None /\ interleave (u_dsalts u) (u_pre u) (u_salts u)
  | Some q => exists q', r_queue (i_rng st') = Some q' /\ q = u_dsalts u ++ q' /\ u_salts u = u_pre u
  end.

Lemma uses_refl : forall o st, uses o st st u0.
Proof.
  intros o st. unfold uses, u0; cbn. rewrite app_nil_r. repeat split; try constructor.
  destruct (r_queue (i_rng st)) as [q|]; [exists q; repeat split | split; [reflexivity | constructor]].
Qed.

Lemma uses_is_mock : forall o st st' u, uses o st st' u -> is_mock st' = is_mock st.
Proof.
  intros o st st' u (_ & _ & _ & _ & _ & Q). unfold is_mock.
  destruct (r_queue (i_rng st)) as [q|]; [destruct Q as (q' & -> & _); reflexivity | destruct Q as [-> _]; reflexivity].
Qed.

Lemma uses_trans : forall o st st1 st2 u1 u2,
  uses o st st1 u1 -> uses o st1 st2 u2 -> uses o st st2 (uapp u1 u2).
Proof.
  intros o st st1 st2 u1 u2 U1 U2. pose proof (uses_is_mock _ _ _ _ U1) as M.
  destruct U1 as (D1 & F1 & C1 & S1 & L1 & Q1). destruct U2 as (D2 & F2 & C2 & S2 & L2 & Q2).
  unfold uses, uapp; cbn.
  split; [rewrite D2, D1, app_assoc; reflexivity|].
  split; [apply Forall2_app; [exact F1 | rewrite <- M; exact F2]|].
  split; [rewrite C1, C2, app_assoc; reflexivity|].
  split; [rewrite S1, S2, app_assoc; reflexivity|].
  split; [rewrite app_length, list_sum_app; lia|].
  destruct (r_queue (i_rng st)) as [q|].
  - destruct Q1 as (q1 & E1 & -> & X1). rewrite E1 in Q2. destruct Q2 as (q2 & E2 & -> & X2).
    exists q2. split; [exact E2|]. split; [rewrite app_assoc; reflexivity | congruence].
  - destruct Q1 as [E1 I1]. rewrite E1 in Q2. destruct Q2 as [E2 I2]. split; [exact E2|].
    apply interleave_app; assumption.
Qed.

(* ---- the atomic draws ---- *)

Lemma draw_salt_inv : forall st s st1, draw_salt st = Ok (s, st1) ->
  r_salts (i_rng st) = s :: r_salts (i_rng st1) /\ r_queue (i_rng st1) = r_queue (i_rng st) /\
  r_counts (i_rng st1) = r_counts (i_rng st) /\ i_disclosures st1 = i_disclosures st.
Proof.
  unfold draw_salt. intros st s st1 E. destruct (r_salts (i_rng st)) as [|x rest]; [discriminate|].
  inversion E; subst; cbn. repeat split.
Qed.

Lemma draw_count_inv : forall st c st1, draw_count st = Ok (c, st1) ->
  r_counts (i_rng st) = c :: r_counts (i_rng st1) /\ r_queue (i_rng st1) = r_queue (i_rng st) /\
  r_salts (i_rng st1) = r_salts (i_rng st) /\ i_disclosures st1 = i_disclosures st.
Proof.
  unfold draw_count. intros st c st1 E. destruct (r_counts (i_rng st)) as [|x rest]; [discriminate|].
  inversion E; subst; cbn. repeat split.
Qed.

(* C14: SDJWTDisclosure::new draws exactly one salt: from the queue in the
   deterministic-salt build, else the next element of the salt stream *)
Lemma new_disclosure_uses : forall o name v st h st2,
  new_disclosure o name v st = Ok (h, st2) ->
  exists salt,
    h = H o (base64url_encode_str (disclosure_text (is_mock st) salt name v)) /\
    uses o st st2 {| u_dsalts := [salt]; u_pre := [];
                     u_salts := (if is_mock st then [] else [salt]); u_counts := [];
                     u_news := [(base64url_encode_str (disclosure_text (is_mock st) salt name v), h)] |}.
Proof.
  unfold new_disclosure. intros o name v st h st2 E. inv_bind E. destruct a as [salt st1].
  inversion E; subst; clear E. exists salt. split; [reflexivity|].
  assert (F : Forall2 (disc_of o (is_mock st)) [salt]
                [(base64url_encode_str (disclosure_text (is_mock st) salt name v),
                  H o (base64url_encode_str (disclosure_text (is_mock st) salt name v)))]).
  { constructor; [|constructor]. exists name, v. split; reflexivity. }
  unfold uses. cbn [u_dsalts u_pre u_salts u_counts u_news i_rng i_disclosures].
  unfold draw_disclosure_salt in Ha. unfold is_mock in *.
  destruct (r_queue (i_rng st)) as [[|s q]|] eqn:Q.
  - discriminate.
  - inversion Ha; subst; cbn. repeat split; try assumption. exists q. repeat split.
  - apply draw_salt_inv in Ha as (S & Q1 & C1 & D1). rewrite D1, C1, S, Q1, Q.
    repeat split; try assumption. constructor. constructor.
Qed.

(* create_decoy_claim_entry, n times: n consecutive elements of the salt stream *)
Lemma decoys_inv : forall o n st ds st', decoys o n st = Ok (ds, st') ->
  exists pre, ds = map (H o) pre /\ len pre = n /\
    r_salts (i_rng st) = pre ++ r_salts (i_rng st') /\ r_queue (i_rng st') = r_queue (i_rng st) /\
    r_counts (i_rng st') = r_counts (i_rng st) /\ i_disclosures st' = i_disclosures st.
Proof.
  induction n as [|n IH]; intros st ds st' E.
  - cbn in E. inversion E; subst. exists []. repeat split.
  - cbn [decoys] in E. inv_bind E. destruct a as [salt st1]. inv_bind E. destruct a as [ds1 st2].
    inversion E; subst; clear E. apply draw_salt_inv in Ha as (S & Q1 & C1 & D1).
    apply IH in Ha0 as (pre & -> & L & S2 & Q2 & C2 & D2).
    exists (salt :: pre). cbn. rewrite S, S2. repeat split; try congruence. 
Qed.

(* ---- the inner loops of create_sd_claims as top-level functions ---- *)

Definition emit_obj (claims : members) (sd2 : list str) : json :=
  match sd2 with
  | [] => JObj (obj_remove SD_DIGESTS_KEY claims)
  | _ :: _ => JObj (obj_insert SD_DIGESTS_KEY (JArr (map JStr (sort_strs sd2))) claims)
  end.

(* the [[] =>] branch of the object loop: decoys, sort, emit `_sd` *)
Definition obj_end (o : oracles) (decoy : bool) (claims : members) (sd : list str) (st : ist)
  : outcome (json * ist) :=
  do (sd2, st2) <- (if decoy then
                       do (n, st1) <- draw_count st;
                       do (ds, st2) <- decoys o n st1;
                       Ok (sd ++ ds, st2)
                     else Ok (sd, st));
  Ok (emit_obj claims sd2, st2).

Section Go.
  Variables (o : oracles) (decoy : bool) (rec : json -> strategy -> ist -> outcome (json * ist)) (s : strategy).

  Fixpoint arr_go (l : list json) (idx : N) (acc : list json) (st : ist) {struct l} : outcome (json * ist) :=
    match l with
    | [] => Ok (JArr (rev acc), st)
    | x :: l' =>
        let k := index_key idx in
        do (sub, st1) <- rec x (next_level s k) st;
        if sd_for_key s k then
          do (h, st2) <- new_disclosure o None sub st1;
          arr_go l' (idx + 1) (JObj [(SD_LIST_PREFIX, JStr h)] :: acc) st2
        else arr_go l' (idx + 1) (sub :: acc) st1
    end.

  Fixpoint obj_go (m : members) (claims : members) (sd : list str) (st : ist) {struct m} : outcome (json * ist) :=
    match m with
    | [] => obj_end o decoy claims sd st
    | (k, x) :: m' =>
        do (sub, st1) <- rec x (next_level s k) st;
        if sd_for_key s k then
          do (h, st2) <- new_disclosure o (Some k) sub st1;
          obj_go m' claims (sd ++ [h]) st2
        else obj_go m' (obj_insert k sub claims) sd st1
    end.
End Go.

Lemma obj_end_eq : forall o decoy claims sd st,
  obj_end o decoy claims sd st =
  (do (sd2, st2) <- (if decoy then
                       do (n, st1) <- draw_count st;
                       do (ds, st2) <- decoys o n st1;
                       Ok (sd ++ ds, st2)
                     else Ok (sd, st));
   match sd2 with
   | [] => Ok (JObj (obj_remove SD_DIGESTS_KEY claims), st2)
   | _ :: _ => Ok (JObj (obj_insert SD_DIGESTS_KEY (JArr (map JStr (sort_strs sd2))) claims), st2)
   end).
Proof.
  intros. unfold obj_end.
  destruct decoy; [|destruct sd; reflexivity].
  destruct (draw_count st) as [[n st1]| | | |]; try reflexivity. cbn [bind].
  destruct (decoys o n st1) as [[ds st2]| | | |]; try reflexivity. cbn [bind].
  destruct (sd ++ ds); reflexivity.
Qed.

Lemma create_sd_claims_eq : forall o decoy v s st,
  create_sd_claims o decoy v s st =
  match v with
  | JArr l => arr_go o (create_sd_claims o decoy) s l 0 [] st
  | JObj m => obj_go o decoy (create_sd_claims o decoy) s m [(SD_DIGESTS_KEY, JNull)] [] st
  | _ => Ok (v, st)
  end.
Proof.
  intros o decoy v s st. destruct v as [| | | |l|m]; try reflexivity.
  (* objects: the model has the [[] =>] branch inline *)
  cbn [create_sd_claims].
  generalize (@nil str) at 2 3 as sd. generalize [(SD_DIGESTS_KEY, JNull)] as claims. revert st.
  induction m as [|[k x] m IH]; intros st claims sd.
  - cbn [obj_go]. rewrite obj_end_eq. reflexivity.
  - cbn [obj_go]. destruct (create_sd_claims o decoy x (next_level s k) st) as [[sub st1]| | | |]; try reflexivity.
    cbn [bind]. destruct (sd_for_key s k).
    + destruct (new_disclosure o (Some k) sub st1) as [[h st2]| | | |]; try reflexivity. cbn [bind]. apply IH.
    + apply IH.
Qed.

(* ---- the object step (C12) ---- *)

(* decoy = true: exactly one count c is drawn, exactly c consecutive elements
   of the salt stream become decoy digests [H o salt], appended to the object's
   digests before sorting; nothing else changes *)
Theorem C12_decoy_step : forall o claims sd st out st',
  obj_end o true claims sd st = Ok (out, st') ->
  exists c pre,
    r_counts (i_rng st) = c :: r_counts (i_rng st') /\
    r_salts (i_rng st) = pre ++ r_salts (i_rng st') /\ len pre = c /\
    r_queue (i_rng st') = r_queue (i_rng st) /\ i_disclosures st' = i_disclosures st /\
    out = emit_obj claims (sd ++ map (H o) pre).
Proof.
  unfold obj_end. intros o claims sd st out st' E.
  inv_bind E. destruct a as [sd2 st2]. inversion E; subst; clear E.
  inv_bind Ha. destruct a as [c st1]. inv_bind Ha. destruct a as [ds st2]. inversion Ha; subst; clear Ha.
  apply draw_count_inv in Ha0 as (C & Q & S & D).
  apply decoys_inv in Ha1 as (pre & -> & L & S2 & Q2 & C2 & D2).
  exists c, pre. repeat split; congruence.
Qed.
Print Assumptions C12_decoy_step.

(* with at least one decoy the `_sd` member is always emitted, sorted *)
Corollary C12_decoy_step_member : forall o claims sd st out st',
  obj_end o true claims sd st = Ok (out, st') ->
  Forall (fun c => (DECOY_MIN_ELEMENTS <= c)%nat) (r_counts (i_rng st)) ->
  exists p pre,
    r_salts (i_rng st) = (p :: pre) ++ r_salts (i_rng st') /\
    out = JObj (obj_insert SD_DIGESTS_KEY (JArr (map JStr (sort_strs (sd ++ map (H o) (p :: pre))))) claims).
Proof.
  intros o claims sd st out st' E F. apply C12_decoy_step in E as (c & pre & C & S & L & _ & _ & ->).
  rewrite C in F. inversion F as [|? ? Hc _]; subst. unfold DECOY_MIN_ELEMENTS in Hc.
  destruct pre as [|p pre]; [cbn in Hc; lia|]. exists p, pre. split; [exact S|].
  unfold emit_obj. destruct (sd ++ map (H o) (p :: pre)) eqn:X; [|reflexivity].
  apply app_eq_nil in X as [_ X]. discriminate.
Qed.

Lemma DECOY_MIN_pos : (0 < DECOY_MIN_ELEMENTS)%nat.
Proof. vm_compute. repeat constructor. Qed.

(* decoy = false: nothing is drawn, the object's digests are emitted as they are *)
Lemma obj_end_off : forall o claims sd st out st',
  obj_end o false claims sd st = Ok (out, st') -> st' = st /\ out = emit_obj claims sd.
Proof. unfold obj_end. cbn. intros o claims sd st out st' E. inversion E; subst. split; reflexivity. Qed.

(* ---- "every object node has a decoy" as a predicate on the emitted tree ---- *)

Definition is_placeholder (m : members) : bool :=
  match m with [(k, JStr _)] => str_eqb k SD_LIST_PREFIX | _ => false end.

Definition has_decoy (D : list str) (m : members) : bool :=
  match obj_get SD_DIGESTS_KEY m with
  | Some (JArr ds) => existsb (fun d => match d with JStr x => mem_str x D | _ => false end) ds
  | _ => false
  end.

(* every object node other than an array placeholder {"...": h} has an `_sd`
   array containing a digest from D *)
Fixpoint decoyed (D : list str) (v : json) : bool :=
  match v with
  | JArr l => forallb (decoyed D) l
  | JObj m => (is_placeholder m || has_decoy D m) && forallb (fun kv => decoyed D (snd kv)) m
  | _ => true
  end.

Lemma forallb_rev : forall {A} (f : A -> bool) l, forallb f (rev l) = forallb f l.
Proof.
  induction l as [|x l IH]; cbn; [reflexivity|]. rewrite forallb_app, IH. cbn.
  rewrite andb_true_r. apply andb_comm.
Qed.

Lemma forallb_vals_insert : forall (f : json -> bool) k v m,
  forallb (fun kv => f (snd kv)) m = true -> f v = true ->
  forallb (fun kv => f (snd kv)) (obj_insert k v m) = true.
Proof.
  induction m as [|[k' v'] m IH]; cbn; intros Fm Fv; [rewrite Fv; reflexivity|].
  apply andb_true_iff in Fm as [F1 F2].
  destruct (str_eqb k k'); cbn; [rewrite Fv, F2; reflexivity | rewrite F1, IH by assumption; reflexivity].
Qed.

Lemma decoyed_placeholder : forall D h, decoyed D (JObj [(SD_LIST_PREFIX, JStr h)]) = true.
Proof. intros. cbn. reflexivity. Qed.

Lemma decoyed_strs : forall D l, forallb (decoyed D) (map JStr l) = true.
Proof. induction l; cbn; auto. Qed.

(* an object the issuer processed: it has a decoy itself (it is not a placeholder) *)
Definition decoyed_obj (D : list str) (out : json) : bool :=
  match out with
  | JObj m => has_decoy D m && forallb (fun kv => decoyed D (snd kv)) m
  | _ => false
  end.

Lemma decoyed_obj_decoyed : forall D out, decoyed_obj D out = true -> decoyed D out = true.
Proof.
  intros D [| | | | |m]; cbn [decoyed_obj decoyed]; try discriminate. intros E.
  apply andb_true_iff in E as [E1 E2]. rewrite E1, E2, orb_true_r. reflexivity.
Qed.

(* ---- the digests occurring in an emitted tree ---- *)

Definition strs_in (v : json) : list str :=
  match v with
  | JArr l => flat_map (fun x => match x with JStr s => [s] | _ => [] end) l
  | _ => []
  end.

(* the digests a member carries by its name: the `_sd` array, the "..." placeholder *)
Definition member_digests (kv : str * json) : list str :=
  if str_eqb (fst kv) SD_DIGESTS_KEY then strs_in (snd kv)
  else if str_eqb (fst kv) SD_LIST_PREFIX then match snd kv with JStr s => [s] | _ => [] end
  else [].

Fixpoint out_digests (v : json) : list str :=
  match v with
  | JArr l => flat_map out_digests l
  | JObj m => flat_map (fun kv => member_digests kv ++ out_digests (snd kv)) m
  | _ => []
  end.

Definition mdigs (m : members) : list str := flat_map (fun kv => member_digests kv ++ out_digests (snd kv)) m.

Lemma out_digests_placeholder : forall h, out_digests (JObj [(SD_LIST_PREFIX, JStr h)]) = [h].
Proof. intros h. reflexivity. Qed.

Lemma strs_in_strs : forall l, strs_in (JArr (map JStr l)) = l.
Proof. induction l as [|x l IH]; cbn in *; [reflexivity | rewrite IH; reflexivity]. Qed.

Lemma out_digests_strs : forall l, out_digests (JArr (map JStr l)) = [].
Proof. induction l as [|x l IH]; cbn in *; [reflexivity | exact IH]. Qed.

Lemma mdigs_insert : forall k v m,
  incl (mdigs (obj_insert k v m)) (member_digests (k, v) ++ out_digests v ++ mdigs m).
Proof.
  induction m as [|[k' v'] m IH]; cbn [obj_insert mdigs flat_map].
  - cbn [fst snd]. intros x I. rewrite !in_app_iff in *. tauto.
  - destruct (str_eqb_spec k k') as [->|N]; cbn [mdigs flat_map fst snd].
    + intros x I. rewrite !in_app_iff in *. tauto.
    + intros x I. rewrite in_app_iff in I. destruct I as [I|I].
      * rewrite !in_app_iff. right. right. left. rewrite in_app_iff in I. exact I.
      * apply IH in I. rewrite !in_app_iff in *. tauto.
Qed.

Lemma mdigs_remove : forall k m, incl (mdigs (obj_remove k m)) (mdigs m).
Proof.
  induction m as [|[k' v'] m IH]; cbn [obj_remove mdigs flat_map]; [apply incl_refl|].
  destruct (str_eqb k k'); cbn [mdigs flat_map].
  - apply incl_appr, incl_refl.
  - apply incl_app; [apply incl_appl, incl_refl | apply incl_appr, IH].
Qed.

Lemma flat_map_rev_incl : forall {A B} (f : A -> list B) l, incl (flat_map f (rev l)) (flat_map f l).
Proof.
  intros A B f l x I. apply in_flat_map in I as (y & Iy & Ix). apply in_flat_map. exists y.
  split; [apply in_rev; exact Iy | exact Ix].
Qed.

Lemma emit_obj_digests : forall claims sd2 S,
  incl (mdigs claims) S -> incl sd2 S -> incl (out_digests (emit_obj claims sd2)) S.
Proof.
  intros claims sd2 S Ic Is. unfold emit_obj. destruct sd2 as [|d sd2].
  - cbn [out_digests]. eapply incl_tran; [apply mdigs_remove | exact Ic].
  - cbn [out_digests]. eapply incl_tran; [apply mdigs_insert|].
    unfold member_digests. cbn [fst snd]. rewrite str_eqb_refl, strs_in_strs, out_digests_strs. cbn [app].
    apply incl_app; [|exact Ic]. intros x I. apply Is. apply (proj1 (sort_strs_In _ _)) in I. exact I.
Qed.

(* the object nodes of a claims tree: each is processed exactly once *)
Fixpoint count_objs (v : json) : nat :=
  match v with
  | JArr l => list_sum (map count_objs l)
  | JObj m => S (list_sum (map (fun kv => count_objs (snd kv)) m))
  | _ => O
  end.

Section Tree.
  Variables (o : oracles) (decoy : bool).

  Definition Post (st st' : ist) (u : used) : Prop :=
    uses o st st' u /\ (decoy = false -> u_counts u = [] /\ u_pre u = []).

  Definition dec_prem (u : used) (D : list str) : Prop :=
    decoy = true /\ Forall (fun c => (0 < c)%nat) (u_counts u) /\ incl (map (H o) (u_pre u)) D.

  (* the digests of the run: of the new disclosures, and the decoys *)
  Definition u_digs (u : used) : list str := map snd (u_news u) ++ map (H o) (u_pre u).

  Lemma Post_refl : forall st, Post st st u0.
  Proof. intros st. split; [apply uses_refl | intros _; split; reflexivity]. Qed.

  Lemma Post_trans : forall st st1 st2 u1 u2, Post st st1 u1 -> Post st1 st2 u2 -> Post st st2 (uapp u1 u2).
  Proof.
    intros st st1 st2 u1 u2 [U1 N1] [U2 N2]. split; [eapply uses_trans; eassumption|].
    intros E. destruct (N1 E) as [A1 B1]. destruct (N2 E) as [A2 B2]. cbn. rewrite A1, A2, B1, B2. split; reflexivity.
  Qed.

  Lemma dec_prem_app : forall u1 u2 D, dec_prem (uapp u1 u2) D -> dec_prem u1 D /\ dec_prem u2 D.
  Proof.
    intros u1 u2 D (E & F & I). cbn in F, I. apply Forall_app in F as [F1 F2].
    rewrite map_app in I. apply incl_app_inv in I as [I1 I2]. repeat split; assumption.
  Qed.

  Lemma u_digs_app : forall u1 u2 S, incl (u_digs (uapp u1 u2)) S -> incl (u_digs u1) S /\ incl (u_digs u2) S.
  Proof.
    intros u1 u2 S I. unfold u_digs in *. cbn in I. rewrite !map_app in I.
    split; intros x Ix; apply I; rewrite !in_app_iff in *; tauto.
  Qed.

  Lemma new_disclosure_Post : forall name v st h st2,
    new_disclosure o name v st = Ok (h, st2) ->
    exists u, Post st st2 u /\ In h (u_digs u) /\ u_counts u = [].
  Proof.
    intros name v st h st2 E. apply new_disclosure_uses in E as (salt & Eh & U).
    eexists. split; [split; [exact U | intros _; split; reflexivity]|]. cbn. auto.
  Qed.

  Lemma obj_end_ok : forall claims sd st out st',
    obj_end o decoy claims sd st = Ok (out, st') ->
    exists u, Post st st' u /\
      (forall D, dec_prem u D -> forallb (fun kv => decoyed D (snd kv)) claims = true -> decoyed_obj D out = true) /\
      (forall S, incl (u_digs u) S -> incl (mdigs claims) S -> incl sd S -> incl (out_digests out) S) /\
      (decoy = true -> len (u_counts u) = 1%nat).
  Proof.
    intros claims sd st out st' E.
    assert (Ed : decoy = true \/ decoy = false) by (destruct decoy; auto).
    destruct Ed as [Ed|Ed]; rewrite Ed in E.
    - apply C12_decoy_step in E as (c & pre & C & S & L & Q & Di & ->).
      exists {| u_dsalts := []; u_pre := pre; u_salts := pre; u_counts := [c]; u_news := [] |}.
      split; [split|split; [|split]].
      + unfold uses; cbn. rewrite app_nil_r, Q. repeat split; try assumption; try constructor; try lia.
        destruct (r_queue (i_rng st)) as [q|]; [exists q; repeat split | split; [reflexivity | apply interleave_nil_l]].
      + intros X. congruence.
      + intros D (_ & F & I) Fc. cbn in F, I. inversion F as [|? ? Hc _]; subst.
        destruct pre as [|p pre]; [cbn in Hc; lia|].
        unfold emit_obj. destruct (sd ++ map (H o) (p :: pre)) as [|d0 sd2'] eqn:X;
          [apply app_eq_nil in X as [_ X]; discriminate|].
        rewrite <- X. cbn [decoyed_obj]. apply andb_true_iff. split.
        * unfold has_decoy. rewrite obj_get_insert_same.
          apply existsb_exists. exists (JStr (H o p)). split.
          -- apply in_map. apply sort_strs_In. apply in_or_app. right. left. reflexivity.
          -- apply mem_str_In. apply I. left. reflexivity.
        * apply forallb_vals_insert; [exact Fc|]. cbn [decoyed]. apply decoyed_strs.
      + intros S0 Iu Ic Is. apply emit_obj_digests; [exact Ic|]. apply incl_app; [exact Is | exact Iu].
      + intros _. reflexivity.
    - apply obj_end_off in E as [-> ->]. exists u0. split; [apply Post_refl|]. split; [|split].
      + intros D (X & _). congruence.
      + intros S0 _ Ic Is. apply emit_obj_digests; assumption.
      + intros X. congruence.
  Qed.

  Definition rec_ok (rec : json -> strategy -> ist -> outcome (json * ist)) (x : json) : Prop :=
    forall s st out st', rec x s st = Ok (out, st') ->
      exists u, Post st st' u /\
        (forall D, dec_prem u D -> decoyed D out = true /\ (forall m, x = JObj m -> decoyed_obj D out = true)) /\
        (has_reserved x = false -> forall S, incl (u_digs u) S -> incl (out_digests out) S) /\
        (decoy = true -> len (u_counts u) = count_objs x).

  Lemma arr_go_ok : forall rec s l, Forall (rec_ok rec) l ->
    forall idx acc st out st', arr_go o rec s l idx acc st = Ok (out, st') ->
      exists u, Post st st' u /\
        (forall D, dec_prem u D -> forallb (decoyed D) acc = true -> decoyed D out = true) /\
        (existsb has_reserved l = false ->
           forall S, incl (u_digs u) S -> incl (flat_map out_digests acc) S -> incl (out_digests out) S) /\
        (decoy = true -> len (u_counts u) = list_sum (map count_objs l)).
  Proof.
    intros rec s l F. induction F as [|x l Hx F IH]; intros idx acc st out st' E.
    - cbn in E. inversion E; subst. exists u0. split; [apply Post_refl|]. split; [|split].
      + intros D _ Fa. cbn [decoyed]. rewrite forallb_rev. exact Fa.
      + intros _ S0 _ Ia. cbn [out_digests]. eapply incl_tran; [apply flat_map_rev_incl | exact Ia].
      + intros _. reflexivity.
    - cbn [arr_go] in E. inv_bind E. destruct a as [sub st1].
      apply Hx in Ha as (u1 & P1 & D1 & G1 & K1).
      destruct (sd_for_key s (index_key idx)).
      + inv_bind E. destruct a as [h st2]. apply new_disclosure_Post in Ha as (ud & Pd & Ih & Kd).
        apply IH in E as (u2 & P2 & D2 & G2 & K2).
        exists (uapp u1 (uapp ud u2)). split; [eapply Post_trans; [exact P1 | eapply Post_trans; eassumption]|]. split; [|split].
        * intros D Pr Fa. apply dec_prem_app in Pr as [_ Pr]. apply dec_prem_app in Pr as [_ Pr].
          apply D2; [exact Pr|]. cbn [forallb]. rewrite decoyed_placeholder. exact Fa.
        * intros R S0 Iu Ia. cbn [existsb] in R. apply orb_false_iff in R as [R1 R2].
          apply u_digs_app in Iu as [_ Iu]. apply u_digs_app in Iu as [Iud Iu2].
          apply G2; [exact R2 | exact Iu2|]. cbn [flat_map]. rewrite out_digests_placeholder.
          apply incl_app; [|exact Ia]. intros y [<-|[]]. apply Iud. exact Ih.
        * intros Ed. cbn [uapp u_counts]. rewrite !app_length, Kd, (K1 Ed), (K2 Ed).
          cbn [List.length map snd]. unfold list_sum. cbn [fold_right]. lia.
      + apply IH in E as (u2 & P2 & D2 & G2 & K2).
        exists (uapp u1 u2). split; [eapply Post_trans; eassumption|]. split; [|split].
        * intros D Pr Fa. apply dec_prem_app in Pr as [Pr1 Pr2].
          apply D2; [exact Pr2|]. cbn [forallb]. rewrite (proj1 (D1 D Pr1)). exact Fa.
        * intros R S0 Iu Ia. cbn [existsb] in R. apply orb_false_iff in R as [R1 R2].
          apply u_digs_app in Iu as [Iu1 Iu2].
          apply G2; [exact R2 | exact Iu2|]. cbn [flat_map]. apply incl_app; [|exact Ia].
          apply G1; assumption.
        * intros Ed. cbn [uapp u_counts]. rewrite !app_length, (K1 Ed), (K2 Ed).
          cbn [List.length map snd]. unfold list_sum. cbn [fold_right]. lia.
  Qed.

  Definition member_reserved (kv : str * json) : bool :=
    str_eqb (fst kv) SD_DIGESTS_KEY || str_eqb (fst kv) SD_LIST_PREFIX || has_reserved (snd kv).

  Lemma obj_go_ok : forall rec s m, Forall (fun kv => rec_ok rec (snd kv)) m ->
    forall claims sd st out st', obj_go o decoy rec s m claims sd st = Ok (out, st') ->
      exists u, Post st st' u /\
        (forall D, dec_prem u D -> forallb (fun kv => decoyed D (snd kv)) claims = true -> decoyed_obj D out = true) /\
        (existsb member_reserved m = false ->
           forall S, incl (u_digs u) S -> incl (mdigs claims) S -> incl sd S -> incl (out_digests out) S) /\
        (decoy = true -> len (u_counts u) = S (list_sum (map (fun kv => count_objs (snd kv)) m))).
  Proof.
    intros rec s m F. induction F as [|[k x] m Hx F IH]; intros claims sd st out st' E.
    - cbn [obj_go] in E. apply obj_end_ok in E as (u & P & D & G & K). exists u. split; [exact P|].
      split; [exact D | split; [intros _; exact G | exact K]].
    - cbn [obj_go] in E. inv_bind E. destruct a as [sub st1]. cbn [snd] in Hx.
      apply Hx in Ha as (u1 & P1 & D1 & G1 & K1).
      destruct (sd_for_key s k).
      + inv_bind E. destruct a as [h st2]. apply new_disclosure_Post in Ha as (ud & Pd & Ih & Kd).
        apply IH in E as (u2 & P2 & D2 & G2 & K2).
        exists (uapp u1 (uapp ud u2)). split; [eapply Post_trans; [exact P1 | eapply Post_trans; eassumption]|]. split; [|split].
        * intros D Pr Fa. apply dec_prem_app in Pr as [_ Pr]. apply dec_prem_app in Pr as [_ Pr].
          apply D2; assumption.
        * intros R S0 Iu Ic Is. cbn [existsb] in R. apply orb_false_iff in R as [R1 R2].
          apply u_digs_app in Iu as [_ Iu]. apply u_digs_app in Iu as [Iud Iu2].
          apply G2; [exact R2 | exact Iu2 | exact Ic|]. apply incl_app; [exact Is|].
          intros y [<-|[]]. apply Iud. exact Ih.
        * intros Ed. cbn [uapp u_counts]. rewrite !app_length, Kd, (K1 Ed), (K2 Ed).
          cbn [List.length map snd]. unfold list_sum. cbn [fold_right]. lia.
      + apply IH in E as (u2 & P2 & D2 & G2 & K2).
        exists (uapp u1 u2). split; [eapply Post_trans; eassumption|]. split; [|split].
        * intros D Pr Fa. apply dec_prem_app in Pr as [Pr1 Pr2].
          apply D2; [exact Pr2|]. apply forallb_vals_insert; [exact Fa | apply (D1 D Pr1)].
        * intros R S0 Iu Ic Is. cbn [existsb] in R. apply orb_false_iff in R as [R1 R2].
          unfold member_reserved in R1. cbn [fst snd] in R1.
          apply orb_false_iff in R1 as [R1 Rx]. apply orb_false_iff in R1 as [Rk1 Rk2].
          apply u_digs_app in Iu as [Iu1 Iu2].
          apply G2; [exact R2 | exact Iu2| | exact Is].
          eapply incl_tran; [apply mdigs_insert|]. unfold member_digests. cbn [fst snd]. rewrite Rk1, Rk2. cbn [app].
          apply incl_app; [|exact Ic]. apply G1; assumption.
        * intros Ed. cbn [uapp u_counts]. rewrite !app_length, (K1 Ed), (K2 Ed).
          cbn [List.length map snd]. unfold list_sum. cbn [fold_right]. lia.
  Qed.

  Lemma create_sd_claims_ok : forall v, rec_ok (create_sd_claims o decoy) v.
  Proof.
    induction v as [|b0|n0|s0|l IH|m IH] using json_ind'; intros s st out st' E;
      rewrite create_sd_claims_eq in E;
      try (inversion E; subst; exists u0; split; [apply Post_refl | split;
             [intros; split; [reflexivity | intros ? X; discriminate]
             | split; [intros _ S0 _; apply incl_nil_l | intros _; reflexivity]]]).
    - apply (arr_go_ok _ _ _ IH) in E as (u & P & D & G & K). exists u. split; [exact P|]. split; [|split].
      + intros D0 Pr. split; [apply D; [exact Pr | reflexivity] | intros ? X; discriminate].
      + intros R S0 Iu. apply G; [exact R | exact Iu | apply incl_nil_l].
      + exact K.
    - apply (obj_go_ok _ _ _ IH) in E as (u & P & D & G & K). exists u. split; [exact P|]. split; [|split].
      + intros D0 Pr. assert (X : decoyed_obj D0 out = true) by (apply D; [exact Pr | reflexivity]).
        split; [apply decoyed_obj_decoyed; exact X | intros ? _; exact X].
      + intros R S0 Iu. apply G; [exact R | exact Iu | | apply incl_nil_l].
        cbn. apply incl_nil_l.
      + exact K.
  Qed.
End Tree.

(* ---- Theorem B ---- *)

(* record form: one [used] describes the whole run *)
Theorem create_sd_claims_uses : forall o decoy v s st out st',
  create_sd_claims o decoy v s st = Ok (out, st') ->
  exists u, uses o st st' u /\
    (decoy = false -> u_counts u = [] /\ u_pre u = []) /\
    (* every object node of the output has a decoy, when every drawn count is positive *)
    (decoy = true -> Forall (fun c => (0 < c)%nat) (u_counts u) ->
       forall D, incl (map (H o) (u_pre u)) D ->
         decoyed D out = true /\ (forall m, v = JObj m -> decoyed_obj D out = true)) /\
    (* every digest in the output is the digest of a new disclosure or a decoy *)
    (has_reserved v = false -> incl (out_digests out) (map snd (u_news u) ++ map (H o) (u_pre u))) /\
    (* exactly one count per object node of the claims *)
    (decoy = true -> len (u_counts u) = count_objs v).
Proof.
  intros o decoy v s st out st' E. apply create_sd_claims_ok in E as (u & [U N] & D & G & K).
  exists u. split; [exact U|]. split; [exact N|]. split; [|split].
  - intros Ed F D0 I. apply D. repeat split; assumption.
  - intros R. apply G; [exact R | apply incl_refl].
  - exact K.
Qed.
Print Assumptions create_sd_claims_uses.

Lemma Forall2_length' : forall {A B} (R : A -> B -> Prop) l1 l2, Forall2 R l1 l2 -> len l1 = len l2.
Proof. intros A B R l1 l2 F. induction F; cbn; congruence. Qed.

(* the shape asked for: everything spelled out *)
Theorem create_sd_claims_draws : forall o decoy v s st out st',
  create_sd_claims o decoy v s st = Ok (out, st') ->
  exists dsalts usalts ucounts news,
    (* new disclosures appended in creation order, one per disclosure salt *)
    i_disclosures st' = i_disclosures st ++ news /\ len news = len dsalts /\
    Forall2 (fun salt e => exists name value,
               fst e = base64url_encode_str (disclosure_text (is_mock st) salt name value) /\
               snd e = H o (fst e)) dsalts news /\
    (* normal build: salts and decoy pre-images are the consumed prefix of r_salts, each one position *)
    (r_queue (i_rng st) = None ->
       r_queue (i_rng st') = None /\ r_salts (i_rng st) = usalts ++ r_salts (i_rng st') /\
       exists decoy_pre, interleave dsalts decoy_pre usalts /\ Permutation usalts (dsalts ++ decoy_pre) /\
                         len decoy_pre = list_sum ucounts) /\
    (* deterministic-salt build: the disclosure salts are the consumed prefix of the queue, in order *)
    (forall q, r_queue (i_rng st) = Some q ->
       exists q', r_queue (i_rng st') = Some q' /\ q = dsalts ++ q' /\
                  r_salts (i_rng st) = usalts ++ r_salts (i_rng st') /\ len usalts = list_sum ucounts) /\
    r_counts (i_rng st) = ucounts ++ r_counts (i_rng st') /\
    (decoy = false -> ucounts = [] /\ (r_queue (i_rng st) = None -> usalts = dsalts)).
Proof.
  intros o decoy v s st out st' E. apply create_sd_claims_uses in E as (u & U & N & _ & _ & _).
  destruct U as (D & F & C & S & L & Q).
  exists (u_dsalts u), (u_salts u), (u_counts u), (u_news u).
  split; [exact D|]. split; [symmetry; eapply Forall2_length'; exact F|]. split; [exact F|].
  split; [|split; [|split; [exact C|]]].
  - intros Eq. rewrite Eq in Q. destruct Q as [Q I]. split; [exact Q|]. split; [exact S|].
    exists (u_pre u). split; [exact I|]. split; [apply interleave_perm; exact I | exact L].
  - intros q Eq. rewrite Eq in Q. destruct Q as (q' & Q & Eqq & X). exists q'. repeat split; try assumption.
    rewrite X. exact L.
  - intros Ed. destruct (N Ed) as [Nc Np]. split; [exact Nc|]. intros Eq. rewrite Eq in Q. destruct Q as [_ I].
    rewrite Np in I. apply interleave_nil_r_inv in I. exact I.
Qed.
Print Assumptions create_sd_claims_draws.

(* ================================================================== *)
(* C. Corollaries for issue                                            *)
(* ================================================================== *)

(* the payload issue builds around the output [b] of create_sd_claims *)
Definition finish_payload (holder_jwk : option json) (always b : members) : members :=
  let p1 := obj_insert DIGEST_ALG_KEY (JStr DEFAULT_DIGEST_ALG) b in
  let p2 := obj_append p1 always in
  match holder_jwk with
  | Some jwk => if obj_has CNF_KEY p2 then p2 else p2 ++ [(CNF_KEY, JObj [(JWK_KEY, jwk)])]
  | None => p2
  end.

Lemma issue_inv : forall o alg ikey claims s hj decoy fmt r i r',
  issue o alg ikey claims s hj decoy fmt r = Ok (i, r') ->
  exists s' m always rest body st,
    finalize_input s = Ok s' /\ has_reserved claims = false /\ claims = JObj m /\
    pull_always ALWAYS_REVEALED m [] = (always, rest) /\
    create_sd_claims o decoy (JObj rest) s' {| i_rng := r; i_disclosures := [] |} = Ok (JObj body, st) /\
    is_disclosures i = map fst (i_disclosures st) /\ r' = i_rng st /\
    is_payload i = JObj (finish_payload hj always body).
Proof.
  unfold issue. intros o alg ikey claims s hj decoy fmt r i r' E.
  inv_bind E. rename a into s'. destruct (has_reserved claims) eqn:R; [discriminate|].
  destruct claims as [| | | | |m]; try discriminate.
  destruct (pull_always ALWAYS_REVEALED m []) as [always rest] eqn:PA.
  inv_bind E. destruct a as [body st]. destruct body as [| | | | |b]; try discriminate.
  inv_bind E. destruct a as [header jwt]. inv_bind E. inversion E; subst; clear E.
  exists s', m, always, rest, b, st. cbn. repeat split; try assumption; reflexivity.
Qed.

(* raw is the base64url text of a disclosure made with [salt] *)
Definition made_with (mock : bool) (salt raw : str) : Prop :=
  exists name value, raw = base64url_encode_str (disclosure_text mock salt name value).

(* what one successful issuance drew: [u] is a valid attribution of the
   consumed stream elements to disclosures (u_dsalts) and decoys (u_pre) *)
Definition issue_draws (o : oracles) (decoy : bool) (r r' : rng) (i : issued) (u : used) : Prop :=
  r_counts r = u_counts u ++ r_counts r' /\
  r_salts r = u_salts u ++ r_salts r' /\
  len (u_pre u) = list_sum (u_counts u) /\
  match r_queue r with
  | None => r_queue r' = None /\ interleave (u_dsalts u) (u_pre u) (u_salts u)
  | Some q => exists q', r_queue r' = Some q' /\ q = u_dsalts u ++ q' /\ u_salts u = u_pre u
  end /\
  Forall2 (made_with (match r_queue r with Some _ => true | None => false end)) (u_dsalts u) (is_disclosures i) /\
  (decoy = false -> u_counts u = [] /\ u_pre u = []).

Lemma Forall2_map_r : forall {A B C} (R : A -> C -> Prop) (f : B -> C) l1 l2,
  Forall2 (fun a b => R a (f b)) l1 l2 -> Forall2 R l1 (map f l2).
Proof. intros A B C R f l1 l2 F. induction F; cbn; constructor; assumption. Qed.

Lemma Forall2_impl' : forall {A B} (R R' : A -> B -> Prop) l1 l2,
  (forall a b, R a b -> R' a b) -> Forall2 R l1 l2 -> Forall2 R' l1 l2.
Proof. intros A B R R' l1 l2 Imp F. induction F; constructor; auto. Qed.

Lemma existsb_remove_false : forall (f : str * json -> bool) k m,
  existsb f m = false -> existsb f (obj_remove k m) = false.
Proof.
  induction m as [|[k' v'] m IH]; cbn; intros E; [reflexivity|].
  apply orb_false_iff in E as [E1 E2]. destruct (str_eqb k k'); cbn; [exact E2 | rewrite E1, IH by exact E2; reflexivity].
Qed.

Lemma pull_always_reserved : forall (f : str * json -> bool) ks m acc always rest,
  pull_always ks m acc = (always, rest) -> existsb f m = false -> existsb f rest = false.
Proof.
  induction ks as [|k ks IH]; cbn; intros m acc always rest E R.
  - inversion E; subst. exact R.
  - destruct (obj_get k m); eapply IH; try exact E; [apply existsb_remove_false; exact R | exact R].
Qed.

Lemma news_digests : forall o mock dsalts news,
  Forall2 (disc_of o mock) dsalts news -> map snd news = map (H o) (map fst news).
Proof.
  intros o mock dsalts news F. induction F as [|a e l1 l2 (name & value & _ & E) F IH]; cbn; [reflexivity|].
  rewrite E, IH. reflexivity.
Qed.

Theorem issue_has_draws : forall o alg ikey claims s hj decoy fmt r i r',
  issue o alg ikey claims s hj decoy fmt r = Ok (i, r') ->
  exists u, issue_draws o decoy r r' i u /\
    exists m always rest body,
      claims = JObj m /\ pull_always ALWAYS_REVEALED m [] = (always, rest) /\
      is_payload i = JObj (finish_payload hj always body) /\
      (decoy = true -> Forall (fun c => (0 < c)%nat) (u_counts u) ->
         forall D, incl (map (H o) (u_pre u)) D -> decoyed_obj D (JObj body) = true) /\
      incl (out_digests (JObj body)) (map (H o) (is_disclosures i) ++ map (H o) (u_pre u)) /\
      (decoy = true -> len (u_counts u) = count_objs (JObj rest)).
Proof.
  intros o alg ikey claims s hj decoy fmt r i r' E.
  apply issue_inv in E as (s' & m & always & rest & body & st & _ & R & -> & PA & E & Ed & -> & Ep).
  apply create_sd_claims_uses in E as (u & U & N & D & G & K).
  destruct U as (Di & F & C & S & L & Q). cbn [i_rng i_disclosures] in *. cbn [app] in Di.
  exists u. split.
  - unfold issue_draws. repeat split; try assumption; try (apply N; assumption).
    rewrite Ed, Di. apply Forall2_map_r. unfold is_mock in F. cbn [i_rng] in F.
    eapply Forall2_impl'; [|exact F]. intros a b (name & value & E1 & _). exists name, value. exact E1.
  - exists m, always, rest, body. split; [reflexivity|]. split; [exact PA|]. split; [exact Ep|].
    split; [intros Ed' Fc D0 I0; apply (proj2 (D Ed' Fc D0 I0) rest); reflexivity|].
    split; [|exact K].
    rewrite Ed, Di, <- (news_digests _ _ _ _ F). apply G.
    cbn [has_reserved] in R |- *. eapply pull_always_reserved; [exact PA | exact R].
Qed.
Print Assumptions issue_has_draws.

(* ---- C14: one fresh stream element per disclosure and per decoy ---- *)

Lemma NoDup_app_l : forall {A} (a b : list A), NoDup (a ++ b) -> NoDup a.
Proof. intros A a b N. induction a as [|x a IH]; [constructor|]. cbn in N. inversion N; subst. constructor; [rewrite in_app_iff in *; tauto | auto]. Qed.

Lemma NoDup_app_r : forall {A} (a b : list A), NoDup (a ++ b) -> NoDup b.
Proof. intros A a b N. induction a as [|x a IH]; [exact N|]. cbn in N. inversion N; subst. auto. Qed.

Lemma NoDup_app_disj : forall {A} (a b : list A), NoDup (a ++ b) -> forall x, In x a -> ~ In x b.
Proof.
  intros A a b N. induction a as [|y a IH]; intros x I; [contradiction|]. cbn in N. inversion N as [|? ? Ny N']; subst.
  destruct I as [->|I]; [rewrite in_app_iff in Ny; tauto | apply IH; assumption].
Qed.

Theorem C14_one_draw_each : forall o alg ikey claims s hj decoy fmt r i r',
  r_queue r = None ->
  issue o alg ikey claims s hj decoy fmt r = Ok (i, r') ->
  exists used dsalts pre ucounts,
    r_queue r' = None /\
    r_salts r = used ++ r_salts r' /\ r_counts r = ucounts ++ r_counts r' /\
    (* every disclosure salt and every decoy pre-image is its own position of [used] *)
    interleave dsalts pre used /\
    Forall2 (made_with false) dsalts (is_disclosures i) /\
    len pre = list_sum ucounts /\
    len used = (len (is_disclosures i) + len pre)%nat /\
    (decoy = false -> pre = [] /\ used = dsalts) /\
    (NoDup (r_salts r) ->
       NoDup dsalts /\ NoDup pre /\ (forall x, In x dsalts -> ~ In x pre) /\
       (forall x, In x used -> ~ In x (r_salts r'))).
Proof.
  intros o alg ikey claims s hj decoy fmt r i r' Q E.
  apply issue_has_draws in E as (u & (C & S & L & Qu & F & N) & _). rewrite Q in Qu, F. destruct Qu as [Q' I].
  exists (u_salts u), (u_dsalts u), (u_pre u), (u_counts u).
  split; [exact Q'|]. split; [exact S|]. split; [exact C|]. split; [exact I|]. split; [exact F|].
  split; [exact L|].
  split; [rewrite (interleave_length _ _ _ I), (Forall2_length' _ _ _ F); reflexivity|].
  split.
  - intros Ed. destruct (N Ed) as [_ Np]. split; [exact Np|]. rewrite Np in I.
    apply interleave_nil_r_inv in I. exact I.
  - intros ND. rewrite S in ND. pose proof (NoDup_app_l _ _ ND) as NDu.
    eapply Permutation_NoDup in NDu; [|apply interleave_perm; exact I].
    split; [eapply NoDup_app_l; exact NDu|]. split; [eapply NoDup_app_r; exact NDu|].
    split; [apply NoDup_app_disj; exact NDu | apply NoDup_app_disj; exact ND].
Qed.
Print Assumptions C14_one_draw_each.

(* consecutive issuances on one stream consume disjoint consecutive segments *)
Theorem C14_two_issuances : forall o1 alg1 k1 c1 s1 hj1 d1 f1 o2 alg2 k2 c2 s2 hj2 d2 f2 r i1 r1 i2 r2,
  r_queue r = None -> NoDup (r_salts r) ->
  issue o1 alg1 k1 c1 s1 hj1 d1 f1 r = Ok (i1, r1) ->
  issue o2 alg2 k2 c2 s2 hj2 d2 f2 r1 = Ok (i2, r2) ->
  exists used1 used2 ds1 pre1 ds2 pre2,
    r_salts r = used1 ++ used2 ++ r_salts r2 /\
    interleave ds1 pre1 used1 /\ interleave ds2 pre2 used2 /\
    Forall2 (made_with false) ds1 (is_disclosures i1) /\ Forall2 (made_with false) ds2 (is_disclosures i2) /\
    NoDup ((ds1 ++ pre1) ++ (ds2 ++ pre2)).
Proof.
  intros o1 alg1 k1 c1 s1 hj1 d1 f1 o2 alg2 k2 c2 s2 hj2 d2 f2 r i1 r1 i2 r2 Q ND E1 E2.
  apply (C14_one_draw_each _ _ _ _ _ _ _ _ _ _ _ Q) in E1
    as (used1 & ds1 & pre1 & uc1 & Q1 & S1 & _ & I1 & F1 & _).
  apply (C14_one_draw_each _ _ _ _ _ _ _ _ _ _ _ Q1) in E2
    as (used2 & ds2 & pre2 & uc2 & Q2 & S2 & _ & I2 & F2 & _).
  exists used1, used2, ds1, pre1, ds2, pre2.
  split; [rewrite S1, S2; reflexivity|]. repeat (split; [assumption|]).
  rewrite S1, S2, app_assoc in ND. apply NoDup_app_l in ND.
  eapply Permutation_NoDup; [|exact ND].
  apply Permutation_app; apply interleave_perm; assumption.
Qed.
Print Assumptions C14_two_issuances.

(* ---- C16: the deterministic-salt queue is consumed in order ---- *)

Theorem C16_consumes_in_order : forall o alg ikey claims s hj decoy fmt r i r' q,
  r_queue r = Some q ->
  issue o alg ikey claims s hj decoy fmt r = Ok (i, r') ->
  exists dsalts q',
    r_queue r' = Some q' /\ q = dsalts ++ q' /\
    (* the k-th issued disclosure was made with the k-th queue element *)
    Forall2 (made_with true) dsalts (is_disclosures i) /\
    len dsalts = len (is_disclosures i) /\
    (* the random stream is used for decoys only *)
    (exists pre ucounts, r_salts r = pre ++ r_salts r' /\ r_counts r = ucounts ++ r_counts r' /\
                         len pre = list_sum ucounts) /\
    (decoy = false -> r_salts r' = r_salts r /\ r_counts r' = r_counts r).
Proof.
  intros o alg ikey claims s hj decoy fmt r i r' q Q E.
  apply issue_has_draws in E as (u & (C & S & L & Qu & F & N) & _). rewrite Q in Qu, F.
  destruct Qu as (q' & Q' & Eq & X).
  exists (u_dsalts u), q'. split; [exact Q'|]. split; [exact Eq|]. split; [exact F|].
  split; [eapply Forall2_length'; exact F|]. split.
  - exists (u_pre u), (u_counts u). rewrite <- X. repeat split; try assumption. rewrite X. exact L.
  - intros Ed. destruct (N Ed) as [Nc Np]. rewrite X, Np in S. rewrite Nc in C. cbn in S, C. split; congruence.
Qed.
Print Assumptions C16_consumes_in_order.

(* ---- C12 at the level of issue ---- *)

Lemma obj_get_app_other : forall k2 k v m, k2 <> k -> obj_get k2 (m ++ [(k, v)]) = obj_get k2 m.
Proof.
  induction m as [|[k' v'] m IH]; cbn; intros N.
  - destruct (str_eqb_spec k2 k); [contradiction | reflexivity].
  - destruct (str_eqb k2 k'); [reflexivity | apply IH; exact N].
Qed.

Lemma obj_get_append_other : forall k2 other m,
  ~ In k2 (keys other) -> obj_get k2 (obj_append m other) = obj_get k2 m.
Proof.
  unfold obj_append. induction other as [|[k v] other IH]; cbn; intros m N; [reflexivity|].
  rewrite IH by tauto. apply obj_get_insert_other. intros ->. tauto.
Qed.

Lemma pull_always_keys : forall ks m acc always rest,
  pull_always ks m acc = (always, rest) -> forall k, In k (keys always) -> In k (keys acc) \/ In k ks.
Proof.
  induction ks as [|k0 ks IH]; cbn; intros m acc always rest E k I.
  - inversion E; subst. left. exact I.
  - destruct (obj_get k0 m).
    + destruct (IH _ _ _ _ E k I) as [X|X]; [|tauto]. apply In_keys_insert in X. destruct X as [->|X]; tauto.
    + destruct (IH _ _ _ _ E k I); tauto.
Qed.

Lemma finish_payload_sd : forall hj ks m always rest body,
  pull_always ks m [] = (always, rest) -> ~ In SD_DIGESTS_KEY ks ->
  obj_get SD_DIGESTS_KEY (finish_payload hj always body) = obj_get SD_DIGESTS_KEY body.
Proof.
  intros hj ks m always rest body PA N. unfold finish_payload.
  assert (E : obj_get SD_DIGESTS_KEY (obj_append (obj_insert DIGEST_ALG_KEY (JStr DEFAULT_DIGEST_ALG) body) always)
              = obj_get SD_DIGESTS_KEY body).
  { rewrite obj_get_append_other.
    - apply obj_get_insert_other. apply str_eqb_neq. vm_compute. reflexivity.
    - intros I. destruct (pull_always_keys _ _ _ _ _ PA _ I) as [[]|X]. contradiction. }
  destruct hj as [jwk|]; [|exact E].
  destruct (obj_has CNF_KEY _); [exact E|]. rewrite obj_get_app_other; [exact E|].
  apply str_eqb_neq. vm_compute. reflexivity.
Qed.

Lemma SD_not_always : ~ In SD_DIGESTS_KEY ALWAYS_REVEALED.
Proof. apply mem_str_not_In. vm_compute. reflexivity. Qed.

(* decoy = true: one count per processed object, that many consecutive stream
   elements per object as decoy pre-images, and -- when every count is at least
   DECOY_MIN_ELEMENTS -- every object node the issuer processed, and the
   top-level object of the payload, carry at least one decoy digest *)
Theorem C12_decoy_counts : forall o alg ikey claims s hj fmt r i r',
  issue o alg ikey claims s hj true fmt r = Ok (i, r') ->
  exists ucounts used pre m always rest body,
    claims = JObj m /\ pull_always ALWAYS_REVEALED m [] = (always, rest) /\
    r_counts r = ucounts ++ r_counts r' /\ r_salts r = used ++ r_salts r' /\
    (* one count per object node of the claims, that many decoys in all *)
    len ucounts = count_objs (JObj rest) /\
    len pre = list_sum ucounts /\ incl pre used /\
    is_payload i = JObj (finish_payload hj always body) /\
    (* no digest other than those of the disclosures and the decoys *)
    incl (out_digests (JObj body)) (map (H o) (is_disclosures i) ++ map (H o) pre) /\
    (Forall (fun c => (DECOY_MIN_ELEMENTS <= c)%nat) (r_counts r) ->
       decoyed (map (H o) pre) (JObj body) = true /\
       has_decoy (map (H o) pre) (finish_payload hj always body) = true).
Proof.
  intros o alg ikey claims s hj fmt r i r' E.
  apply issue_has_draws in E as (u & (C & S & L & Qu & F & N) & m & always & rest & body & Ec & PA & Ep & D & G & K).
  exists (u_counts u), (u_salts u), (u_pre u), m, always, rest, body.
  split; [exact Ec|]. split; [exact PA|].
  split; [exact C|]. split; [exact S|]. split; [apply K; reflexivity|]. split; [exact L|]. split.
  { destruct (r_queue r).
    - destruct Qu as (q' & _ & _ & ->). apply incl_refl.
    - destruct Qu as [_ I]. intros x Ix. eapply Permutation_in; [apply Permutation_sym, interleave_perm; exact I|].
      apply in_or_app. right. exact Ix. }
  split; [exact Ep|]. split; [exact G|].
  intros Fc. assert (Dd : decoyed_obj (map (H o) (u_pre u)) (JObj body) = true).
  { apply D; [reflexivity| |apply incl_refl]. rewrite C in Fc. apply Forall_app in Fc as [Fc _].
    eapply Forall_impl; [|exact Fc]. intros c Hc. pose proof DECOY_MIN_pos. cbv beta in Hc. lia. }
  split; [apply decoyed_obj_decoyed; exact Dd|].
  cbn [decoyed_obj] in Dd. apply andb_true_iff in Dd as [Dd _].
  unfold has_decoy in *. rewrite (finish_payload_sd _ _ _ _ _ _ PA SD_not_always). exact Dd.
Qed.
Print Assumptions C12_decoy_counts.

(* decoy = false: no count, no stream element beyond the disclosure salts, and
   every digest in the emitted tree is the digest of an issued disclosure *)
Theorem C12_off : forall o alg ikey claims s hj fmt r i r',
  issue o alg ikey claims s hj false fmt r = Ok (i, r') ->
  r_counts r' = r_counts r /\
  (r_queue r = None ->
     exists dsalts, r_salts r = dsalts ++ r_salts r' /\ Forall2 (made_with false) dsalts (is_disclosures i)) /\
  (forall q, r_queue r = Some q -> r_salts r' = r_salts r) /\
  exists always body,
    is_payload i = JObj (finish_payload hj always body) /\
    incl (out_digests (JObj body)) (map (H o) (is_disclosures i)).
Proof.
  intros o alg ikey claims s hj fmt r i r' E.
  apply issue_has_draws in E as (u & (C & S & L & Qu & F & N) & m & always & rest & body & _ & PA & Ep & _ & G & _).
  destruct (N eq_refl) as [Nc Np]. rewrite Nc in C. rewrite Np in *. cbn in C, G. rewrite app_nil_r in G.
  split; [congruence|]. split; [|split].
  - intros Q. rewrite Q in Qu, F. destruct Qu as [_ I]. apply interleave_nil_r_inv in I.
    exists (u_dsalts u). split; [congruence | exact F].
  - intros q Q. rewrite Q in Qu. destruct Qu as (q' & _ & _ & X). rewrite X in S. cbn in S. congruence.
  - exists always, body. split; [exact Ep | exact G].
Qed.
Print Assumptions C12_off.

(* ---- C16: determinism ---- *)

(* the model issuer is a function of its arguments and its streams *)
Theorem C16_deterministic : forall o alg ikey claims s hj decoy fmt r x y,
  issue o alg ikey claims s hj decoy fmt r = x -> issue o alg ikey claims s hj decoy fmt r = y -> x = y.
Proof. intros. congruence. Qed.

(* stronger: in the deterministic-salt build without decoys the result does not
   depend on the random streams at all -- only on the queue *)
Definition restream (sl : list str) (cn : list nat) (st : ist) : ist :=
  {| i_rng := {| r_queue := r_queue (i_rng st); r_salts := sl; r_counts := cn |};
     i_disclosures := i_disclosures st |}.

Definition omap {A B} (f : A -> B) (x : outcome A) : outcome B :=
  match x with
  | Ok a => Ok (f a)
  | Err e => Err e
  | Panic p => Panic p
  | OutOfFuel => OutOfFuel
  | Unmodelled w => Unmodelled w
  end.

Definition restream_res {A} (sl : list str) (cn : list nat) (p : A * ist) : A * ist :=
  (fst p, restream sl cn (snd p)).

Lemma new_disclosure_restream : forall o name v st sl cn,
  is_mock st = true ->
  new_disclosure o name v (restream sl cn st) = omap (restream_res sl cn) (new_disclosure o name v st).
Proof.
  intros o name v st sl cn M. unfold new_disclosure, draw_disclosure_salt, is_mock in *.
  cbn [restream i_rng r_queue r_salts r_counts i_disclosures].
  destruct (r_queue (i_rng st)) as [[|x q]|]; try discriminate; reflexivity.
Qed.

Lemma new_disclosure_mock : forall o name v st h st', new_disclosure o name v st = Ok (h, st') -> is_mock st' = is_mock st.
Proof. intros o name v st h st' E. apply new_disclosure_uses in E as (salt & _ & U). eapply uses_is_mock; exact U. Qed.

Lemma create_sd_claims_mock : forall o decoy v s st out st',
  create_sd_claims o decoy v s st = Ok (out, st') -> is_mock st' = is_mock st.
Proof. intros o decoy v s st out st' E. apply create_sd_claims_uses in E as (u & U & _). eapply uses_is_mock; exact U. Qed.

Section Restream.
  Variables (o : oracles) (sl : list str) (cn : list nat).

  Definition rs_ok (x : json) : Prop := forall s st, is_mock st = true ->
    create_sd_claims o false x s (restream sl cn st) = omap (restream_res sl cn) (create_sd_claims o false x s st).

  Lemma arr_go_restream : forall s l, Forall rs_ok l -> forall idx acc st, is_mock st = true ->
    arr_go o (create_sd_claims o false) s l idx acc (restream sl cn st)
    = omap (restream_res sl cn) (arr_go o (create_sd_claims o false) s l idx acc st).
  Proof.
    intros s l F. induction F as [|x l Hx F IH]; intros idx acc st M; [reflexivity|].
    cbn [arr_go]. rewrite (Hx _ _ M).
    destruct (create_sd_claims o false x (next_level s (index_key idx)) st) as [[sub st1]| | | |] eqn:E1; try reflexivity.
    cbn [omap restream_res bind fst snd]. pose proof (create_sd_claims_mock _ _ _ _ _ _ _ E1) as M1. rewrite M in M1.
    destruct (sd_for_key s (index_key idx)).
    - rewrite (new_disclosure_restream _ _ _ _ _ _ M1).
      destruct (new_disclosure o None sub st1) as [[h st2]| | | |] eqn:E2; try reflexivity.
      cbn [omap restream_res bind fst snd]. apply IH.
      rewrite (new_disclosure_mock _ _ _ _ _ _ E2). exact M1.
    - apply IH. exact M1.
  Qed.

  Lemma obj_go_restream : forall s m, Forall (fun kv => rs_ok (snd kv)) m -> forall claims sd st, is_mock st = true ->
    obj_go o false (create_sd_claims o false) s m claims sd (restream sl cn st)
    = omap (restream_res sl cn) (obj_go o false (create_sd_claims o false) s m claims sd st).
  Proof.
    intros s m F. induction F as [|[k x] m Hx F IH]; intros claims sd st M; [reflexivity|].
    cbn [obj_go]. cbn [snd] in Hx. rewrite (Hx _ _ M).
    destruct (create_sd_claims o false x (next_level s k) st) as [[sub st1]| | | |] eqn:E1; try reflexivity.
    cbn [omap restream_res bind fst snd]. pose proof (create_sd_claims_mock _ _ _ _ _ _ _ E1) as M1. rewrite M in M1.
    destruct (sd_for_key s k).
    - rewrite (new_disclosure_restream _ _ _ _ _ _ M1).
      destruct (new_disclosure o (Some k) sub st1) as [[h st2]| | | |] eqn:E2; try reflexivity.
      cbn [omap restream_res bind fst snd]. apply IH.
      rewrite (new_disclosure_mock _ _ _ _ _ _ E2). exact M1.
    - apply IH. exact M1.
  Qed.

  Lemma create_sd_claims_restream : forall v, rs_ok v.
  Proof.
    induction v as [|b0|n0|s0|l IH|m IH] using json_ind'; intros s st M; rewrite !create_sd_claims_eq; try reflexivity.
    - apply arr_go_restream; assumption.
    - apply obj_go_restream; assumption.
  Qed.
End Restream.

Definition with_queue (q : list str) (sl : list str) (cn : list nat) : rng :=
  {| r_queue := Some q; r_salts := sl; r_counts := cn |}.

Theorem C16_stream_independent : forall o alg ikey claims s hj fmt q sl1 cn1 sl2 cn2 i r1,
  issue o alg ikey claims s hj false fmt (with_queue q sl1 cn1) = Ok (i, r1) ->
  exists r2, issue o alg ikey claims s hj false fmt (with_queue q sl2 cn2) = Ok (i, r2) /\
             r_queue r2 = r_queue r1.
Proof.
  unfold issue. intros o alg ikey claims s hj fmt q sl1 cn1 sl2 cn2 i r1 E.
  destruct (finalize_input s) as [s'| | | |]; try discriminate. cbn [bind] in *.
  destruct (has_reserved claims); [discriminate|].
  destruct claims as [| | | | |m]; try discriminate.
  destruct (pull_always ALWAYS_REVEALED m []) as [always rest].
  change {| i_rng := with_queue q sl2 cn2; i_disclosures := [] |}
    with (restream sl2 cn2 {| i_rng := with_queue q sl1 cn1; i_disclosures := [] |}).
  rewrite create_sd_claims_restream by reflexivity.
  destruct (create_sd_claims o false (JObj rest) s' {| i_rng := with_queue q sl1 cn1; i_disclosures := [] |})
    as [[body st]| | | |]; try discriminate.
  cbn [omap restream_res bind fst snd] in *.
  destruct body as [| | | | |b]; try discriminate.
  destruct (jwt_encode o None alg ikey _) as [[header jwt]| | | |]; try discriminate. cbn [bind] in *.
  cbn [restream i_disclosures].
  destruct (serialize_issued fmt jwt (map fst (i_disclosures st))) as [ser| | | |]; try discriminate. cbn [bind] in *.
  inversion E; subst. eexists. split; reflexivity.
Qed.
Print Assumptions C16_stream_independent.

(* ---- C14: any schedule of issuances over per-thread streams ---- *)

Record iargs := {
  a_o : oracles; a_alg : str; a_key : key; a_claims : json; a_strategy : strategy;
  a_holder : option json; a_decoy : bool; a_fmt : format
}.

Definition issue_a (a : iargs) (r : rng) : outcome (issued * rng) :=
  issue (a_o a) (a_alg a) (a_key a) (a_claims a) (a_strategy a) (a_holder a) (a_decoy a) (a_fmt a) r.

Fixpoint set_nth {A} (n : nat) (x : A) (l : list A) : list A :=
  match l, n with
  | [], _ => []
  | _ :: l', O => x :: l'
  | y :: l', S n' => y :: set_nth n' x l'
  end.

(* what one successful issuance emitted, with an attribution of the stream
   elements it consumed to its disclosures and its decoys *)
Record emitted := { e_issued : issued; e_dsalts : list str; e_pre : list str }.
Definition e_all (e : emitted) : list str := e_dsalts e ++ e_pre e.

(* A run: thread t (an index into the list of streams, thread_rng! has one
   generator per thread) performs the issuances scheduled for it on its own
   stream; the schedule is an arbitrary interleaving.  A failing call may have
   consumed any prefix of its stream ([sched_fail]); an unknown thread id is
   skipped. *)
Inductive sched : list rng -> list (nat * iargs) -> list emitted -> list rng -> Prop :=
| sched_nil : forall rs, sched rs [] [] rs
| sched_ok : forall rs t a sch r i r' u outs rs',
    nth_error rs t = Some r -> issue_a a r = Ok (i, r') ->
    issue_draws (a_o a) (a_decoy a) r r' i u ->
    sched (set_nth t r' rs) sch outs rs' ->
    sched rs ((t, a) :: sch) ({| e_issued := i; e_dsalts := u_dsalts u; e_pre := u_pre u |} :: outs) rs'
| sched_fail : forall rs t a sch r r' dropped outs rs',
    nth_error rs t = Some r -> (forall x, issue_a a r <> Ok x) ->
    r_queue r' = r_queue r -> r_salts r = dropped ++ r_salts r' ->
    sched (set_nth t r' rs) sch outs rs' ->
    sched rs ((t, a) :: sch) outs rs'
| sched_skip : forall rs t a sch outs rs',
    nth_error rs t = None -> sched rs sch outs rs' -> sched rs ((t, a) :: sch) outs rs'.

(* the executable instance: a failing call leaves its stream where it was *)
Fixpoint run_schedule (rs : list rng) (sch : list (nat * iargs)) : list (option issued) * list rng :=
  match sch with
  | [] => ([], rs)
  | (t, a) :: sch' =>
      match nth_error rs t with
      | None => let (outs, rs') := run_schedule rs sch' in (None :: outs, rs')
      | Some r =>
          match issue_a a r with
          | Ok (i, r') => let (outs, rs') := run_schedule (set_nth t r' rs) sch' in (Some i :: outs, rs')
          | _ => let (outs, rs') := run_schedule rs sch' in (None :: outs, rs')
          end
      end
  end.

Definition successes (l : list (option issued)) : list issued :=
  flat_map (fun x => match x with Some i => [i] | None => [] end) l.

Lemma set_nth_same : forall {A} (l : list A) n x, nth_error l n = Some x -> set_nth n x l = l.
Proof.
  induction l as [|y l IH]; intros [|n] x E; cbn in *; try discriminate; try reflexivity.
  - inversion E; subst. reflexivity.
  - rewrite IH by exact E. reflexivity.
Qed.

Lemma sched_fail_same : forall rs t a sch r outs rs',
  nth_error rs t = Some r -> (forall x, issue_a a r <> Ok x) ->
  sched rs sch outs rs' -> sched rs ((t, a) :: sch) outs rs'.
Proof.
  intros rs t a sch r outs rs' N E S.
  apply (sched_fail rs t a sch r r [] outs rs' N E eq_refl eq_refl).
  rewrite (set_nth_same _ _ _ N). exact S.
Qed.

Lemma run_schedule_sched : forall sch rs,
  exists outs, sched rs sch outs (snd (run_schedule rs sch)) /\
               map e_issued outs = successes (fst (run_schedule rs sch)).
Proof.
  induction sch as [|[t a] sch IH]; intros rs; cbn [run_schedule].
  - exists []. split; [constructor | reflexivity].
  - destruct (nth_error rs t) as [r|] eqn:N.
    + destruct (issue_a a r) as [[i r']| | | |] eqn:E.
      * destruct (IH (set_nth t r' rs)) as (outs & S & M).
        destruct (run_schedule (set_nth t r' rs) sch) as [o1 rs1]. cbn [fst snd] in *.
        pose proof E as E'. unfold issue_a in E'. apply issue_has_draws in E' as (u & U & _).
        eexists. split; [eapply sched_ok; eassumption|]. cbn. rewrite M. reflexivity.
      * destruct (IH rs) as (outs & S & M). destruct (run_schedule rs sch) as [o1 rs1]. cbn [fst snd] in *.
        exists outs. split; [|exact M].
        apply (sched_fail_same _ _ _ _ r _ _ N); [intros x X; rewrite E in X; discriminate | exact S].
      * destruct (IH rs) as (outs & S & M). destruct (run_schedule rs sch) as [o1 rs1]. cbn [fst snd] in *.
        exists outs. split; [|exact M].
        apply (sched_fail_same _ _ _ _ r _ _ N); [intros x X; rewrite E in X; discriminate | exact S].
      * destruct (IH rs) as (outs & S & M). destruct (run_schedule rs sch) as [o1 rs1]. cbn [fst snd] in *.
        exists outs. split; [|exact M].
        apply (sched_fail_same _ _ _ _ r _ _ N); [intros x X; rewrite E in X; discriminate | exact S].
      * destruct (IH rs) as (outs & S & M). destruct (run_schedule rs sch) as [o1 rs1]. cbn [fst snd] in *.
        exists outs. split; [|exact M].
        apply (sched_fail_same _ _ _ _ r _ _ N); [intros x X; rewrite E in X; discriminate | exact S].
    + destruct (IH rs) as (outs & S & M). destruct (run_schedule rs sch) as [o1 rs1]. cbn [fst snd] in *.
      exists outs. split; [apply sched_skip; assumption | exact M].
Qed.

Definition all_salts (rs : list rng) : list str := List.concat (map r_salts rs).

Lemma all_salts_set_nth : forall rs t r r' u,
  nth_error rs t = Some r -> r_salts r = u ++ r_salts r' ->
  Permutation (all_salts rs) (u ++ all_salts (set_nth t r' rs)).
Proof.
  unfold all_salts. induction rs as [|r0 rs IH]; intros [|t] r r' u N S; cbn in N; try discriminate.
  - inversion N; subst. cbn. rewrite S, app_assoc. reflexivity.
  - cbn. rewrite (IH _ _ _ _ N S). apply Permutation_app_swap_app.
Qed.

Lemma set_nth_Forall : forall {A} (P : A -> Prop) l n x, Forall P l -> P x -> Forall P (set_nth n x l).
Proof.
  induction l as [|y l IH]; intros [|n] x F Px; cbn; try constructor; inversion F; subst; auto.
Qed.

Lemma nth_error_Forall : forall {A} (P : A -> Prop) l n x, Forall P l -> nth_error l n = Some x -> P x.
Proof. intros A P l n x F N. rewrite Forall_forall in F. apply F. eapply nth_error_In; exact N. Qed.

Lemma sched_accounts : forall rs sch outs rs',
  sched rs sch outs rs' -> Forall (fun r => r_queue r = None) rs ->
  Forall (fun r => r_queue r = None) rs' /\
  Forall (fun e => Forall2 (made_with false) (e_dsalts e) (is_disclosures (e_issued e))) outs /\
  exists dropped, Permutation (all_salts rs) (List.concat (map e_all outs) ++ dropped ++ all_salts rs').
Proof.
  intros rs sch outs rs' S. induction S as [rs | rs t a sch r i r' u outs rs' N E U S IH
                                             | rs t a sch r r' dropped outs rs' N E Q Sr S IH
                                             | rs t a sch outs rs' N S IH]; intros F.
  - split; [exact F|]. split; [constructor|]. exists []. reflexivity.
  - pose proof (nth_error_Forall _ _ _ _ F N) as Qr. cbv beta in Qr.
    destruct U as (C & Su & L & Qu & Fd & _). rewrite Qr in Qu, Fd. destruct Qu as [Qr' I].
    destruct IH as (F' & Fo & dropped & P); [apply set_nth_Forall; assumption|].
    split; [exact F'|]. split; [constructor; [exact Fd | exact Fo]|].
    exists dropped. rewrite (all_salts_set_nth _ _ _ _ _ N Su). cbn [map List.concat e_all e_dsalts e_pre].
    rewrite <- app_assoc. apply Permutation_app; [apply interleave_perm; exact I | exact P].
  - pose proof (nth_error_Forall _ _ _ _ F N) as Qr. cbv beta in Qr.
    destruct IH as (F' & Fo & dropped2 & P); [apply set_nth_Forall; [exact F | congruence]|].
    split; [exact F'|]. split; [exact Fo|].
    exists (dropped ++ dropped2). rewrite (all_salts_set_nth _ _ _ _ _ N Sr), P.
    rewrite <- app_assoc. apply Permutation_app_swap_app.
  - apply IH. exact F.
Qed.

(* If all elements of all threads' salt streams are pairwise distinct, then for
   ANY schedule -- any interleaving, any number of threads, the same or different
   claims -- all disclosure salts and all decoy pre-images of all successful
   issuances are pairwise distinct, and each disclosure is made with its salt. *)
Theorem C14_any_schedule : forall rs sch outs rs',
  Forall (fun r => r_queue r = None) rs ->
  NoDup (all_salts rs) ->
  sched rs sch outs rs' ->
  NoDup (List.concat (map e_all outs)) /\
  Forall (fun e => Forall2 (made_with false) (e_dsalts e) (is_disclosures (e_issued e))) outs /\
  NoDup (all_salts rs') /\ (forall x, In x (List.concat (map e_all outs)) -> ~ In x (all_salts rs')).
Proof.
  intros rs sch outs rs' F ND S. apply sched_accounts in S as (F' & Fo & dropped & P); [|exact F].
  eapply Permutation_NoDup in ND; [|exact P].
  split; [eapply NoDup_app_l; exact ND|]. split; [exact Fo|]. split.
  - apply NoDup_app_r in ND. apply NoDup_app_r in ND. exact ND.
  - intros x Ix Ir. eapply NoDup_app_disj; [exact ND | exact Ix|]. apply in_or_app. right. exact Ir.
Qed.
Print Assumptions C14_any_schedule.

(* the executable schedule: the successful issuances of [run_schedule] admit such an attribution *)
Corollary C14_run_schedule : forall rs sch,
  Forall (fun r => r_queue r = None) rs -> NoDup (all_salts rs) ->
  exists outs, map e_issued outs = successes (fst (run_schedule rs sch)) /\
    NoDup (List.concat (map e_all outs)) /\
    Forall (fun e => Forall2 (made_with false) (e_dsalts e) (is_disclosures (e_issued e))) outs.
Proof.
  intros rs sch F ND. destruct (run_schedule_sched sch rs) as (outs & S & M).
  exists outs. split; [exact M|]. destruct (C14_any_schedule _ _ _ _ F ND S) as (A & B & _). split; assumption.
Qed.
Print Assumptions C14_run_schedule.

(* ================================================================== *)
(* D. the shape of a salt                                              *)
(* ================================================================== *)

Theorem C14_salt_shape : forall bs,
  len bs = SALT_LEN -> bytes_ok bs ->
  len (b64_encode bs) = 22%nat /\ b64_decode (b64_encode bs) = Some bs /\ (16 <= SALT_LEN)%nat /\
  (128 <= 8 * SALT_LEN)%nat.
Proof.
  intros bs L B. split; [|split; [apply b64_decode_encode; exact B | split; vm_compute; repeat constructor]].
  rewrite b64_encode_length, L. reflexivity.
Qed.
Print Assumptions C14_salt_shape.

(* distinct salts have distinct texts *)
Corollary C14_salt_text_inj : forall a b,
  bytes_ok a -> bytes_ok b -> b64_encode a = b64_encode b -> a = b.
Proof. exact b64_encode_inj. Qed.

(* ================================================================== *)
(* Non-vacuity: concrete runs satisfying the premises                  *)
(* ================================================================== *)

Fixpoint nodupb (l : list str) : bool :=
  match l with [] => true | x :: l' => negb (mem_str x l') && nodupb l' end.

Lemma nodupb_NoDup : forall l, nodupb l = true -> NoDup l.
Proof.
  induction l as [|x l IH]; cbn; intros E; constructor; apply andb_true_iff in E as [E1 E2].
  - apply negb_true_iff in E1. apply mem_str_not_In. exact E1.
  - apply IH. exact E2.
Qed.

Definition ex_o : oracles :=
  {| H := fun s => lit "H:" ++ s; sig_ok := fun _ _ _ _ => true; sign := fun _ _ _ => lit "sig";
     jwk_key := fun _ => None |}.
Definition ex_key : key := {| kid := 1; kfam := FEc |}.
Definition ex_claims : json :=
  JObj [(lit "iss", JStr (lit "me")); (lit "name", JStr (lit "Ann"));
        (lit "addr", JObj [(lit "city", JStr (lit "X"))]);
        (lit "nat", JArr [JStr (lit "DE"); JStr (lit "FR")])].
Definition ex_salts (tag : string) (n : nat) : list str :=
  map (fun k => lit tag ++ N_to_dec (N.of_nat k)) (seq 1 n).

(* normal build, decoys on: 6 disclosures + (2 + 3) decoys = 11 of 12 stream elements, 2 of 3 counts *)
Definition ex_rng : rng := {| r_queue := None; r_salts := ex_salts "s" 12; r_counts := [2; 3; 2]%nat |}.
Definition ex_run := issue ex_o (lit "ES256") ex_key ex_claims AllLevels None true Compact ex_rng.

Example C14_one_draw_each_ex :
  r_queue ex_rng = None /\ NoDup (r_salts ex_rng) /\
  match ex_run with
  | Ok (i, r') => len (is_disclosures i) = 6%nat /\ r_salts r' = [lit "s12"] /\ r_counts r' = [2%nat]
  | _ => False
  end.
Proof.
  split; [reflexivity|]. split; [apply nodupb_NoDup; vm_compute; reflexivity|].
  vm_compute. repeat split.
Qed.

Example C12_decoy_counts_ex :
  Forall (fun c => (DECOY_MIN_ELEMENTS <= c)%nat) (r_counts ex_rng) /\ is_ok ex_run = true /\
  match ex_run with
  | Ok (i, _) => match is_payload i with
                 | JObj p => has_decoy [lit "H:s9"; lit "H:s10"; lit "H:s11"] p
                 | _ => false
                 end
  | _ => false
  end = true.
Proof. split; [vm_compute; repeat constructor|]. split; vm_compute; reflexivity. Qed.

(* the object step itself *)
Example C12_decoy_step_ex :
  obj_end ex_o true [(SD_DIGESTS_KEY, JNull)] [lit "z"] {| i_rng := ex_rng; i_disclosures := [] |}
  = Ok (JObj [(SD_DIGESTS_KEY, JArr [JStr (lit "H:s1"); JStr (lit "H:s2"); JStr (lit "z")])],
        {| i_rng := {| r_queue := None; r_salts := skipn 2 (ex_salts "s" 12); r_counts := [3; 2]%nat |};
           i_disclosures := [] |}).
Proof. vm_compute. reflexivity. Qed.

(* decoys off *)
Definition ex_run_off := issue ex_o (lit "ES256") ex_key ex_claims AllLevels None false Compact ex_rng.
Example C12_off_ex :
  match ex_run_off with
  | Ok (i, r') => len (is_disclosures i) = 6%nat /\ r_salts r' = skipn 6 (r_salts ex_rng) /\ r_counts r' = r_counts ex_rng
  | _ => False
  end.
Proof. vm_compute. repeat split. Qed.

(* deterministic-salt build: 6 disclosures take q1..q6 in order; no decoys: streams untouched *)
Definition ex_mock : rng := {| r_queue := Some (ex_salts "q" 7); r_salts := ex_salts "s" 3; r_counts := [2%nat] |}.
Definition ex_run_mock := issue ex_o (lit "ES256") ex_key ex_claims AllLevels None false Compact ex_mock.
Example C16_consumes_in_order_ex :
  match ex_run_mock with
  | Ok (i, r') =>
      r_queue r' = Some [lit "q7"] /\ r_salts r' = r_salts ex_mock /\ r_counts r' = r_counts ex_mock /\
      nth_error (is_disclosures i) 0
        = Some (base64url_encode_str (disclosure_text true (lit "q1") (Some (lit "name")) (JStr (lit "Ann"))))
  | _ => False
  end.
Proof. vm_compute. repeat split. Qed.

Example C16_stream_independent_ex :
  match ex_run_mock, issue ex_o (lit "ES256") ex_key ex_claims AllLevels None false Compact
                        (with_queue (ex_salts "q" 7) [] []) with
  | Ok (i1, _), Ok (i2, _) => is_disclosures i1 = is_disclosures i2 /\ is_jwt i1 = is_jwt i2
  | _, _ => False
  end.
Proof. vm_compute. split; reflexivity. Qed.

(* two threads, five scheduled calls (one to an unknown thread, one failing): 3 successes *)
Definition ex_args (claims : json) (decoy : bool) : iargs :=
  {| a_o := ex_o; a_alg := lit "ES256"; a_key := ex_key; a_claims := claims; a_strategy := AllLevels;
     a_holder := None; a_decoy := decoy; a_fmt := Compact |}.
Definition ex_threads : list rng :=
  [{| r_queue := None; r_salts := ex_salts "a" 20; r_counts := [2; 2; 3; 2]%nat |};
   {| r_queue := None; r_salts := ex_salts "b" 20; r_counts := [4; 2]%nat |}].
Definition ex_schedule : list (nat * iargs) :=
  [(0%nat, ex_args ex_claims true); (1%nat, ex_args ex_claims false); (7%nat, ex_args ex_claims true);
   (1%nat, ex_args (JStr (lit "not an object")) true); (0%nat, ex_args ex_claims false)].
Example C14_any_schedule_ex :
  Forall (fun r => r_queue r = None) ex_threads /\ NoDup (all_salts ex_threads) /\
  len (successes (fst (run_schedule ex_threads ex_schedule))) = 3%nat /\
  map (fun r => len (r_salts r)) (snd (run_schedule ex_threads ex_schedule)) = [4; 14]%nat.
Proof.
  split; [repeat constructor|]. split; [apply nodupb_NoDup; vm_compute; reflexivity|].
  split; vm_compute; reflexivity.
Qed.

Example C14_salt_shape_ex :
  let bs := map N.of_nat (seq 100 16) in
  len bs = SALT_LEN /\ bytes_ok bs /\ len (b64_encode bs) = 22%nat /\ b64_decode (b64_encode bs) = Some bs.
Proof. cbv zeta. split; [reflexivity|]. split; [repeat constructor|]. split; vm_compute; reflexivity. Qed.

(* ---- the salt can be read off a disclosure text ---- *)

Lemma app_sep_inj : forall (c : N) (a b r r' : str),
  ~ In c a -> ~ In c b -> a ++ c :: r = b ++ c :: r' -> a = b.
Proof.
  induction a as [|x a IH]; intros [|y b] r r' Na Nb E; cbn in *.
  - reflexivity.
  - inversion E; subst. exfalso. apply Nb. left. reflexivity.
  - inversion E; subst. exfalso. apply Na. left. reflexivity.
  - inversion E; subst. f_equal. eapply IH; [| |eassumption]; tauto.
Qed.

(* a salt without a double quote, code 34 (every base64url text) is determined by the disclosure
   text: it is what stands between the first two quotes.  So the Forall2 of
   C16_consumes_in_order pins the queue prefix down uniquely. *)
Theorem disclosure_text_salt_inj : forall mock mock' salt salt' n n' v v',
  ~ In 34 salt -> ~ In 34 salt' ->
  disclosure_text mock salt n v = disclosure_text mock' salt' n' v' -> salt = salt'.
Proof.
  intros mock mock' salt salt' n n' v v' Ns Ns' E. unfold disclosure_text in E.
  change (lit "[""") with [91; 34] in E. change (lit """, ") with [34; 44; 32] in E.
  destruct n, n'; cbn [app] in E; inversion E as [E']; eapply app_sep_inj; eassumption.
Qed.
Print Assumptions disclosure_text_salt_inj.

Print Assumptions str_leb_total_order.
Print Assumptions sort_strs_perm.
Print Assumptions sort_strs_sorted.
Print Assumptions C12_order.
Print Assumptions C12_decoy_step_member.
Print Assumptions C16_deterministic.
